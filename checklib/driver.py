"""Driver behind /verif/check (python3 stdlib only)."""
import sys, os, json, re, subprocess, time, hashlib, fcntl, shutil, tempfile, random
from concurrent.futures import ThreadPoolExecutor

VERIF = os.path.dirname(os.path.dirname(os.path.abspath(__file__)))
LEAN = os.path.join(VERIF, "lean")
HARNESS = os.path.join(VERIF, "harness")
REPO = os.environ.get("VERIF_REPO", "/repo")
# a run against a scratch tree (seeded change) keeps its build and replays apart from those of /repo, so
# that it can run while the same property is being checked on /repo
SCR = "" if REPO == "/repo" else "-scratch"
ORACLE_DIR = os.path.join(LEAN, ".lake", "build", "bin")
ORACLE = [None]
STD_AXIOMS = {"propext", "Classical.choice", "Quot.sound"}
NCPU = min(16, os.cpu_count() or 4)

GOENV = dict(os.environ, GOFLAGS="-mod=mod", GOPROXY="off", GOSUMDB="off", GOTOOLCHAIN="local",
             CGO_ENABLED=os.environ.get("CGO_ENABLED", "0"))
GOENV.setdefault("GOCACHE", os.path.join(os.path.expanduser("~"), ".cache", "go-build"))


def log(*a):
    print(*a, flush=True)


class Lock:
    def __init__(self, path):
        self.path = path

    def __enter__(self):
        os.makedirs(os.path.dirname(self.path), exist_ok=True)
        self.f = open(self.path, "w")
        fcntl.flock(self.f, fcntl.LOCK_EX)
        return self

    def __exit__(self, *a):
        fcntl.flock(self.f, fcntl.LOCK_UN)
        self.f.close()


def sh(cmd, cwd=None, env=None, timeout=3600, inp=None):
    p = subprocess.run(cmd, cwd=cwd, env=env, input=inp, stdout=subprocess.PIPE, stderr=subprocess.STDOUT,
                       timeout=timeout, text=True, errors="replace")
    return p.returncode, p.stdout


# ---------------------------------------------------------------- builds

def build_harness(outdir, race=False, prop=None):
    """go build the harness against REPO's working tree; returns (path|None, log)."""
    binp = os.path.join(outdir, "drive")
    if os.path.exists(binp):
        os.remove(binp)
    # the shared harness/go.mod is never modified: every build uses its own -modfile copy whose
    # replace directive points at REPO (several checks may run at once, also against scratch copies)
    modfile = os.path.join(outdir, "go.mod")
    txt = open(os.path.join(HARNESS, "go.mod")).read()
    txt = re.sub(r"replace github.com/kercylan98/minotaur => \S+", "replace github.com/kercylan98/minotaur => %s" % REPO, txt)
    open(modfile, "w").write(txt)
    try:
        shutil.copyfile(os.path.join(REPO, "go.sum"), os.path.join(outdir, "go.sum"))
    except OSError:
        pass
    tags = "verif" if not prop else "verif,only,only_" + prop.lower()
    cmd = ["go", "build", "-modfile", modfile, "-tags", tags, "-o", binp]
    if race:
        cmd.insert(2, "-race")
    cmd.append("./cmd/drive")
    env = dict(GOENV)
    if race:
        env["CGO_ENABLED"] = "1"
    rc, out = sh(cmd, cwd=HARNESS, env=env, timeout=1800)
    if rc != 0:
        return None, out
    return binp, out


def build_lean(targets):
    with Lock(os.path.join(VERIF, "out", ".lake.lock")):
        rc, out = sh(["lake", "build"] + targets, cwd=LEAN, timeout=7200)
    return rc == 0, out


def strip_lean_comments(src):
    out, i, depth, n = [], 0, 0, len(src)
    while i < n:
        if src.startswith("/-", i):
            depth += 1; i += 2; continue
        if depth and src.startswith("-/", i):
            depth -= 1; i += 2; continue
        if depth:
            if src[i] == "\n":
                out.append("\n")
            i += 1; continue
        if src.startswith("--", i):
            while i < n and src[i] != "\n":
                i += 1
            continue
        if src[i] == '"':
            j = i + 1
            while j < n and src[j] != '"':
                j += 2 if src[j] == "\\" else 1
            out.append('""'); i = j + 1; continue
        out.append(src[i]); i += 1
    return "".join(out)


FORBIDDEN = re.compile(r"\bsorry\b|\badmit\b|^\s*axiom\s|native_decide|bv_decide|implemented_by|\bunsafe\s|maxHeartbeats\s+0\b|\bpartial\s+def\b", re.M)


def import_closure(roots):
    """local (MV.*, Oracle.*) modules reachable from roots through `import` lines"""
    seen, todo = set(), list(roots)
    while todo:
        m = todo.pop()
        if m in seen:
            continue
        path = os.path.join(LEAN, *m.split(".")) + ".lean"
        if not os.path.exists(path):
            continue
        seen.add(m)
        for line in open(path):
            mm = re.match(r"\s*(?:public\s+)?import\s+(\S+)", line)
            if mm and (mm.group(1).startswith("MV.") or mm.group(1).startswith("Oracle.")):
                todo.append(mm.group(1))
    return sorted(seen)


def forbidden_tokens(roots):
    """forbidden tokens in the import closure of the property's modules and oracle"""
    hits = []
    for m in import_closure(roots):
        p = os.path.join(LEAN, *m.split(".")) + ".lean"
        src = strip_lean_comments(open(p).read())
        for mt in FORBIDDEN.finditer(src):
            tok = mt.group(0).strip()
            if tok.startswith("partial") and m == "Oracle.Proto":
                continue  # the I/O loop of the oracle
            line = src.count("\n", 0, mt.start()) + 1
            hits.append("%s:%d: %s" % (os.path.relpath(p, LEAN), line, tok))
    return hits


AUDIT_TMPL = """import Lean
%(imports)s
open Lean Elab Command in
run_cmd do
  let env ← getEnv
  for modName in [%(mods)s] do
    let some idx := env.getModuleIdx? modName | throwError "module not found"
    for n in env.header.moduleData[idx.toNat]!.constNames do
      if n.isInternalDetail then continue
      match env.find? n with
      | some (.thmInfo _) =>
        let axs ← Lean.collectAxioms n
        logInfo m!"AX {n} :: {axs.toList}"
      | _ => pure ()
"""


def audit(modules, tag):
    """#print axioms for every theorem of the given modules. returns (theorems{name:[axioms]}, log)"""
    src = AUDIT_TMPL % {"imports": "\n".join("import " + m for m in modules),
                        "mods": ", ".join("`" + m for m in modules)}
    os.makedirs(os.path.join(LEAN, "Audit"), exist_ok=True)
    path = os.path.join(LEAN, "Audit", tag + ".lean")
    open(path, "w").write(src)
    rc, out = sh(["lake", "env", "lean", path], cwd=LEAN, timeout=3600)
    thms = {}
    for m in re.finditer(r"AX (\S+) :: \[(.*?)\]", out, re.S):
        axs = [a.strip() for a in m.group(2).replace("\n", " ").split(",") if a.strip()]
        if re.match(r"^MV\.(Props|Tie)\.\w+\.[A-Za-z0-9_']+$", m.group(1)):
            thms[m.group(1)] = axs
    return rc, thms, out


# ---------------------------------------------------------------- correspondence

def split_cases(lines):
    """-> list of (start_index, end_index) of cases; a case starts at a '#' line."""
    starts = [i for i, l in enumerate(lines) if l.startswith("#")]
    if not starts or starts[0] != 0:
        starts = [0] + starts
    return [(s, e) for s, e in zip(starts, starts[1:] + [len(lines)]) if e > s]


RUNNER_ERRORS = []


def run_impl(drive, suite, ops_lines, timeout, extra_env=None):
    """Run ops on the real code. Survives a dying child: the op at which the process died is
    answered `fatal` (or `hang` on timeout), the rest of that case `skipped`, and the
    remaining cases are run in a fresh process."""
    out = []
    cases = split_cases(ops_lines)
    ci = 0
    env = dict(os.environ, GOMEMLIMIT="3GiB", GOTRACEBACK="none")
    if extra_env:
        env.update(extra_env)
    guard = 0
    while ci < len(cases):
        start = cases[ci][0]
        chunk = ops_lines[start:]
        status = "fatal"
        try:
            p = subprocess.run([drive, suite, "run"], input="\n".join(chunk) + "\n", stdout=subprocess.PIPE,
                               stderr=subprocess.PIPE, timeout=timeout, text=True, errors="replace", env=env)
            got = p.stdout.split("\n")
            if got and got[-1] == "":
                got.pop()
            if p.returncode != 0 and len(got) >= len(chunk) and ("DATA RACE" in p.stderr or "fatal error" in p.stderr):
                # every line was answered but the runner reported a data race / runtime fatal error on exit
                RUNNER_ERRORS.append((suite, p.returncode, p.stderr[-1500:]))
            dead = len(got) < len(chunk)
        except subprocess.TimeoutExpired as e:
            so = e.stdout or ""
            if isinstance(so, bytes):
                so = so.decode(errors="replace")
            got = so.split("\n")
            if got and got[-1] == "":
                got.pop()
            dead = True
            status = "hang"
        if not dead:
            out.extend(got[:len(chunk)])
            break
        guard += 1
        got = got[:len(chunk)]
        died_at = start + len(got)          # global index of the op that did not answer
        out.extend(got)
        # find the case containing died_at
        while ci < len(cases) and cases[ci][1] <= died_at:
            ci += 1
        if ci >= len(cases):
            break
        cs, ce = cases[ci]
        # if it died exactly at the '#' line of a case that line was not echoed
        for k in range(died_at, ce):
            if ops_lines[k].startswith("#"):
                out.append(ops_lines[k])
            elif k == died_at or (k == died_at + 1 and ops_lines[died_at].startswith("#")):
                out.append(status)
            else:
                out.append("skipped")
        ci += 1
        if guard > 200:
            while len(out) < len(ops_lines):
                out.append("skipped")
            break
    return out[:len(ops_lines)] + ["skipped"] * max(0, len(ops_lines) - len(out))


def run_oracle(suite, ops_lines, timeout=1800):
    p = subprocess.run([ORACLE[0], suite], input="\n".join(ops_lines) + "\n", stdout=subprocess.PIPE,
                       stderr=subprocess.PIPE, timeout=timeout, text=True, errors="replace")
    got = p.stdout.split("\n")
    if got and got[-1] == "":
        got.pop()
    if p.returncode != 0 or len(got) != len(ops_lines):
        raise RuntimeError("oracle %s failed rc=%s lines=%d/%d: %s" % (suite, p.returncode, len(got), len(ops_lines), p.stderr[-400:]))
    return got


def lines_agree(a, b):
    """`-` on either side means 'not determined here'."""
    return a == b or a == "-" or b == "-"


class Suite:
    def __init__(self, prop, cfg, drive, tier, seed, outdir):
        self.prop, self.cfg, self.drive, self.tier, self.seed, self.outdir = prop, cfg, drive, tier, seed, outdir
        self.name = cfg["name"]
        self.model = cfg.get("model")          # oracle suite compared line by line
        self.spec = cfg.get("spec")            # oracle suite of the abstract spec (search)
        self.judge = cfg.get("judge")          # oracle suite judging `op => impl` lines
        self.timeout = cfg.get("timeout_s", 400) * (4 if tier == "thorough" else 1)
        self.trivial = re.compile(cfg.get("trivial_re", r"^(ok|bad-op|empty|nil|false|true|0|-|#.*|)$"))
        self.env = cfg.get("env", {})

    def gen(self, shard, nshards):
        # generous: generators that drive the real code are slow on a heavily loaded machine
        p = subprocess.run([self.drive, self.name, "gen", str(self.seed), self.tier, str(shard), str(nshards)],
                           stdout=subprocess.PIPE, stderr=subprocess.PIPE, timeout=max(self.timeout * 3, 1200), text=True,
                           env=dict(os.environ, **self.env))
        if p.returncode != 0:
            raise RuntimeError("gen %s failed: %s" % (self.name, p.stderr[-400:]))
        lines = p.stdout.split("\n")
        if lines and lines[-1] == "":
            lines.pop()
        return lines

    def judge_lines(self, ops, impl):
        return [o if o.startswith("#") else "%s => %s" % (o, i) for o, i in zip(ops, impl)]

    def evaluate(self, ops):
        """run everything on ops; returns dict with impl/model/spec/judge outputs"""
        r = {"ops": ops, "impl": run_impl(self.drive, self.name, ops, self.timeout, self.env)}
        if self.model:
            r["model"] = run_oracle(self.model, ops)
        if self.spec:
            r["spec"] = run_oracle(self.spec, ops)
        if self.judge:
            r["judge"] = run_oracle(self.judge, self.judge_lines(ops, r["impl"]))
        return r

    def case_fails(self, ops, against):
        """does this single case diverge? against in model|spec|judge"""
        impl = run_impl(self.drive, self.name, ops, min(self.timeout, 25), self.env)
        if against == "judge":
            j = run_oracle(self.judge, self.judge_lines(ops, impl))
            return any(x.startswith("bad") for x in j)
        ref = run_oracle(self.model if against == "model" else self.spec, ops)
        return any(not lines_agree(a, b) for a, b in zip(impl, ref))

    def shrink(self, ops, against, budget=120, wall_s=45):
        """delta debugging over the op lines of one case (header '#' line kept; lines matching the
        suite's shrink_keep_re are never removed); bounded by a run budget and a wall-clock budget."""
        head, body = (ops[:1], ops[1:]) if ops and ops[0].startswith("#") else ([], ops)
        keep_re = re.compile(self.cfg["shrink_keep_re"]) if self.cfg.get("shrink_keep_re") else None
        fixed = [(i, l) for i, l in enumerate(body) if keep_re and keep_re.search(l)]
        movable = [l for l in body if not (keep_re and keep_re.search(l))]
        nfixed = len(fixed)

        def assemble(mov):
            # fixed lines first (they are declarations in every suite that uses shrink_keep_re)
            return head + [l for _, l in fixed] + mov
        if nfixed and not self.case_fails(assemble(movable), against):
            return ops      # reordering changed the outcome: give up shrinking
        body = movable
        n = 2
        calls = 0
        t_end = time.time() + wall_s
        while len(body) >= 2 and calls < budget and time.time() < t_end:
            chunk = max(1, len(body) // n)
            reduced = False
            for i in range(0, len(body), chunk):
                cand = body[:i] + body[i + chunk:]
                if not cand:
                    continue
                calls += 1
                try:
                    if self.case_fails(assemble(cand), against):
                        body = cand; n = max(n - 1, 2); reduced = True
                        break
                except Exception:
                    pass
                if calls >= budget or time.time() >= t_end:
                    break
            if not reduced:
                if chunk == 1:
                    break
                n = min(len(body), n * 2)
        return assemble(body)

    def corpus(self):
        d = os.path.join(VERIF, "corpus", self.name)
        lines = []
        if os.path.isdir(d):
            for fn in sorted(os.listdir(d)):
                if fn.endswith(".ops"):
                    lines += [l.rstrip("\n") for l in open(os.path.join(d, fn)) if l.strip()]
        return lines

    def run_shard(self, shard, nshards):
        ops = self.corpus() if shard < 0 else self.gen(shard, nshards)
        if not ops:
            return None
        r = self.evaluate(ops)
        cases = split_cases(ops)
        res = {"cases": len(cases), "ops": sum(1 for l in ops if not l.startswith("#")), "div": [], "hashes": set(),
               "nontrivial": set(), "samples": [], "opcount": {}, "outkinds": {}}
        ref = r.get("model")
        for (s, e) in cases:
            body = ops[s:e]
            h = hashlib.sha1("\n".join(body[1:] if body[0].startswith("#") else body).encode()).hexdigest()
            res["hashes"].add(h)
            outs = r["impl"][s:e]
            if any(not self.trivial.match(o) for o in outs):
                res["nontrivial"].add(h)
            for l in body:
                if not l.startswith("#"):
                    k = l.split(" ", 1)[0]
                    res["opcount"][k] = res["opcount"].get(k, 0) + 1
            for o in outs:
                if o in ("panic", "fatal", "hang", "skipped") or o.startswith("err"):
                    res["outkinds"][o] = res["outkinds"].get(o, 0) + 1
            bad_kind = None
            if "spec" in r:
                for k in range(s, e):
                    if not lines_agree(r["impl"][k], r["spec"][k]):
                        bad_kind = ("spec", k - s); break
            if bad_kind is None and "judge" in r:
                for k in range(s, e):
                    if r["judge"][k].startswith("bad"):
                        bad_kind = ("judge", k - s); break
            if bad_kind is None and ref is not None:
                for k in range(s, e):
                    if not lines_agree(r["impl"][k], ref[k]):
                        bad_kind = ("model", k - s); break
            if bad_kind:
                res["div"].append({"ops": body, "impl": outs, "ref": (ref[s:e] if ref else None),
                                   "judge": (r["judge"][s:e] if "judge" in r else None),
                                   "kind": bad_kind[0], "at": bad_kind[1]})
        if len(cases) > 0:
            pick = cases[len(cases) // 2]
            res["samples"].append({"ops": ops[pick[0]:pick[1]][:40], "impl": r["impl"][pick[0]:pick[1]][:40]})
        return res


# ---------------------------------------------------------------- findings

def load_findings():
    out = []
    p = os.path.join(VERIF, "known_findings.json")
    if os.path.exists(p):
        out += json.load(open(p)).get("findings", [])
    d = os.path.join(VERIF, "findings.d")
    if os.path.isdir(d):
        for fn in sorted(os.listdir(d)):
            if fn.endswith(".json"):
                out += json.load(open(os.path.join(d, fn))).get("findings", [])
    return out


def match_finding(findings, prop, suite, op_line, case_ops, extra=""):
    for f in findings:
        if f.get("status") != "known" or f.get("property") != prop:
            continue
        if f.get("suite") and f["suite"] != suite:
            continue
        if f.get("op_regex") and not re.search(f["op_regex"], op_line or ""):
            continue
        if f.get("case_regex") and not re.search(f["case_regex"], " ; ".join(case_ops)):
            continue
        if f.get("detail_regex") and not re.search(f["detail_regex"], extra or ""):
            continue
        return f
    return None


# ---------------------------------------------------------------- main

def load_conf(prop):
    p = os.path.join(VERIF, "conf", prop + ".json")
    return json.load(open(p))


def write_replay(prop, suite, seed, n, rec):
    d = os.path.join(VERIF, "out", "replays" + SCR)
    os.makedirs(d, exist_ok=True)
    p = os.path.join(d, "%s-%s-%s-%d.json" % (prop, suite, seed, n))
    json.dump(rec, open(p, "w"), indent=1)
    return p


def replay(path):
    rec = json.load(open(path))
    prop, suite = rec["property"], rec.get("suite")
    log("replay of %s (%s): broken=%s" % (prop, suite, rec.get("broken")))
    if not suite or "ops" not in rec:
        log(json.dumps(rec, indent=1)); return 0
    conf = load_conf(prop)
    scfg = [s for s in conf["suites"] if s["name"] == suite][0]
    outdir = os.path.join(VERIF, "out", prop + SCR); os.makedirs(outdir, exist_ok=True)
    drive, blog = build_harness(outdir, prop=prop)
    if not drive:
        log(blog); return 2
    ORACLE[0] = os.path.join(ORACLE_DIR, "oracle-" + prop.lower())
    ok, out = build_lean(["oracle-" + prop.lower()])
    S = Suite(prop, scfg, drive, "quick", 0, outdir)
    ops = rec["ops"]
    impl = run_impl(drive, suite, ops, 120, S.env)
    cols = {"impl": impl}
    if S.model: cols["model"] = run_oracle(S.model, ops)
    if S.spec: cols["spec"] = run_oracle(S.spec, ops)
    if S.judge: cols["judge"] = run_oracle(S.judge, S.judge_lines(ops, impl))
    bad = False
    for i, o in enumerate(ops):
        row = "  ".join("%s=%s" % (k, v[i]) for k, v in cols.items())
        mark = ""
        for k in ("model", "spec"):
            if k in cols and not lines_agree(impl[i], cols[k][i]):
                mark = "   <-- differs from " + k; bad = True
        if "judge" in cols and cols["judge"][i].startswith("bad"):
            mark = "   <-- " + cols["judge"][i]; bad = True
        log("%-40s %s%s" % (o, row, mark))
    return 1 if bad else 0


def main(argv):
    if argv and argv[0] == "--replay":
        return replay(argv[1])
    if not argv:
        log(__doc__); return 2
    prop = argv[0]
    tier = os.environ.get("VERIF_TIER", "quick")
    seed = int(os.environ.get("VERIF_SEED", "1"))
    i = 1
    while i < len(argv):
        if argv[i] == "--tier": tier = argv[i + 1]; i += 2
        elif argv[i] == "--seed": seed = int(argv[i + 1]); i += 2
        else: i += 1
    t0 = time.time()
    import glob
    for old in glob.glob(os.path.join(VERIF, "out", "replays" + SCR, prop + "-*.json")):
        # replays of earlier runs are kept (for diagnosis), out of the way of this run's
        keep = os.path.join(VERIF, "out", "replays-old")
        os.makedirs(keep, exist_ok=True)
        os.replace(old, os.path.join(keep, "%d-%s" % (int(os.path.getmtime(old)), os.path.basename(old))))
    conf = load_conf(prop)
    outdir = os.path.join(VERIF, "out", prop + SCR + ("-thorough" if tier == "thorough" else "")); os.makedirs(outdir, exist_ok=True)
    findings = load_findings()
    violations, known_hit, notes = [], {}, []
    nrep = [0]

    def violation(suite, broken, rec, concrete, op_line="", case_ops=(), extra=""):
        f = match_finding(findings, prop, suite, op_line, list(case_ops), extra) if concrete else None
        if f:
            known_hit.setdefault(f["id"], f)
            return
        nrep[0] += 1
        rec = dict(rec, property=prop, suite=suite, seed=seed, tier=tier, broken=broken, concrete=concrete)
        path = write_replay(prop, suite or "build", seed, nrep[0], rec)
        violations.append((path, concrete, broken))

    # ---- 1. builds
    ORACLE[0] = os.path.join(ORACLE_DIR, "oracle-" + prop.lower())
    drive, blog = build_harness(outdir, race=conf.get("race", False) and tier == "thorough", prop=prop)
    if not drive:
        log(blog[-3000:])
        violation(None, "corr:harness-build (the harness no longer compiles against /repo)", {"log": blog[-3000:]}, False)
    lean_targets = ["oracle-" + prop.lower()] + conf.get("lean_modules", [])
    ok, lout = build_lean(lean_targets)
    obligations, discharged, thm_axioms = 0, 0, {}
    if not ok:
        log(lout[-4000:])
        failed = sorted(set(re.findall(r"error: (\S+\.lean)", lout)))
        violation(None, "lake build failed: " + ", ".join(failed or ["?"]), {"log": lout[-4000:]}, False)
    # ---- 2. audit
    if ok and conf.get("lean_modules"):
        rc, thm_axioms, aout = audit(conf["lean_modules"], prop)
        obligations = len(thm_axioms)
        badax = {n: [a for a in axs if a not in STD_AXIOMS] for n, axs in thm_axioms.items()}
        badax = {n: a for n, a in badax.items() if a}
        discharged = obligations - len(badax)
        if rc != 0 or obligations == 0:
            log(aout[-2000:])
            violation(None, "audit failed for " + ",".join(conf["lean_modules"]), {"log": aout[-2000:]}, False)
        if badax:
            violation(None, "non-standard axioms: %s" % badax, {"axioms": badax}, False)
        missing = [t for t in conf.get("required_theorems", []) if t not in thm_axioms]
        if missing:
            violation(None, "required theorems missing: %s" % missing, {"missing": missing}, False)
        hits = forbidden_tokens(conf["lean_modules"] + ["Oracle.Main" + prop])
        if hits:
            violation(None, "forbidden tokens in Lean sources: %s" % hits[:5], {"hits": hits}, False)
        if tier == "thorough":
            # independent re-check of the compiled modules of this property (and everything they import)
            # by the toolchain's stand-alone kernel checker
            try:
                rc_lc, out_lc = sh(["lake", "env", "leanchecker"] + conf["lean_modules"], cwd=LEAN, timeout=3600)
            except Exception as e:
                rc_lc, out_lc = 1, str(e)
            notes.append("leanchecker %s: exit %s" % (" ".join(conf["lean_modules"]), rc_lc))
            if rc_lc != 0:
                log(out_lc[-2000:])
                violation(None, "leanchecker rejected the compiled modules of " + ",".join(conf["lean_modules"]), {"log": out_lc[-2000:]}, False)
    # ---- 3. correspondence
    cov = {"evaluations": 0, "ops": 0, "distinct": 0, "distinct_nontrivial": 0, "samples": [], "suites": {},
           "disagreements_checked": 0}
    if drive and ok:
        for scfg in conf.get("suites", []):
            S = Suite(prop, scfg, drive, tier, seed, outdir)
            nsh = scfg.get("shards", NCPU)
            st = time.time()
            try:
                with ThreadPoolExecutor(max_workers=NCPU) as ex:
                    results = [r for r in ex.map(lambda k: S.run_shard(k, nsh), range(-1, nsh)) if r]
            except Exception as e:
                violation(S.name, "corr:%s (suite crashed: %s)" % (S.name, str(e)[:300]), {"error": str(e)}, False)
                continue
            hashes, nontriv, divs, opcount, outkinds = set(), set(), [], {}, {}
            ncases = nops = 0
            for r in results:
                hashes |= r["hashes"]; nontriv |= r["nontrivial"]; divs += r["div"]
                ncases += r["cases"]; nops += r["ops"]
                for k, v in r["opcount"].items(): opcount[k] = opcount.get(k, 0) + v
                for k, v in r["outkinds"].items(): outkinds[k] = outkinds.get(k, 0) + v
            cov["evaluations"] += ncases; cov["ops"] += nops
            cov["distinct"] += len(hashes); cov["distinct_nontrivial"] += len(nontriv)
            cov["disagreements_checked"] += len(divs)
            cov["suites"][S.name] = {"cases": ncases, "ops": nops, "distinct": len(hashes),
                                     "distinct_nontrivial": len(nontriv), "op_histogram": opcount,
                                     "abnormal_outputs": outkinds, "divergent_cases": len(divs),
                                     "wall_s": round(time.time() - st, 1)}
            if results and results[0]["samples"]:
                cov["samples"].append({"suite": S.name, **results[0]["samples"][0]})
            # ---- 4. search: classify divergences, shrink one per signature
            seen = {}
            for d in divs:
                opl = d["ops"][d["at"]] if d["at"] < len(d["ops"]) else ""
                sig = (d["kind"], opl.split(" ", 1)[0])
                if d["kind"] == "judge" and d.get("judge"):
                    # one signature per violated clause, so that a known finding cannot hide another clause
                    sig = sig + (re.sub(r"\d+", "N", d["judge"][d["at"]]),)
                seen.setdefault(sig, []).append(d)
            for sig, ds in sorted(seen.items())[:12]:
                ds.sort(key=lambda d: len(d["ops"]))
                # a shard that ran into its wall-clock limit answers `hang` at the op it was executing, one
                # whose process was killed from outside (memory pressure, another job's clean-up) answers
                # `fatal`: on an overloaded machine that is no property of the code. Such a case counts
                # only if it hangs, dies or diverges again when executed alone (a genuine dead-lock or
                # crash reproduces).
                kept, dropped = [], 0
                for cand in ds:
                    a = cand["at"]
                    if a < len(cand["impl"]) and cand["impl"][a] in ("hang", "skipped", "fatal") and len(kept) < 3:
                        try:
                            if not S.case_fails(cand["ops"], cand["kind"]):
                                dropped += 1
                                continue
                        except Exception as e:
                            notes.append("confirm failed: %s" % e)
                    kept.append(cand)
                if dropped:
                    notes.append("%s: %d case(s) cut off by the shard time limit agreed when executed alone (ignored)" % (S.name, dropped))
                    cov["suites"][S.name]["unreproduced_divergences"] = cov["suites"][S.name].get("unreproduced_divergences", 0) + dropped
                ds = kept
                if not ds:
                    continue
                if scfg.get("confirm_reruns", 0) and sig[0] == "model":
                    # suites with a documented source of nondeterminism in the real code (Go map
                    # iteration order): a model divergence counts only if the same case diverges again
                    # in every one of `confirm_reruns` fresh executions
                    confirmed = []
                    for cand in ds[:6]:
                        try:
                            if all(S.case_fails(cand["ops"], "model") for _ in range(scfg["confirm_reruns"])):
                                confirmed.append(cand)
                                break
                        except Exception as e:
                            notes.append("confirm failed: %s" % e)
                    if not confirmed:
                        notes.append("%s: %d divergent case(s) with signature %s did not reproduce (nondeterministic; ignored)" % (S.name, len(ds), sig))
                        cov["suites"][S.name]["unreproduced_divergences"] = cov["suites"][S.name].get("unreproduced_divergences", 0) + len(ds)
                        continue
                    ds = confirmed
                d = ds[0]
                kind = d["kind"]
                concrete, against = False, kind
                if kind in ("judge", "spec"):
                    concrete = True
                elif S.spec:
                    try:
                        sp = run_oracle(S.spec, d["ops"])
                        if any(not lines_agree(a, b) for a, b in zip(d["impl"], sp)):
                            concrete, against = True, "spec"
                    except Exception as e:
                        notes.append("spec oracle failed: %s" % e)
                elif scfg.get("model_is_spec"):
                    concrete = True
                try:
                    small = S.shrink(d["ops"], against)
                except Exception as e:
                    small = d["ops"]; notes.append("shrink failed: %s" % e)
                impl = run_impl(drive, S.name, small, 60, S.env)
                rec = {"ops": small, "impl": impl, "shrunk_from": len(d["ops"]), "count_same_signature": len(ds),
                       "original": {"ops": d["ops"], "impl": d["impl"], "ref": d["ref"], "judge": d["judge"], "at": d["at"]}}
                at = None
                if against == "judge":
                    rec["judge"] = run_oracle(S.judge, S.judge_lines(small, impl))
                    at = next((i for i, x in enumerate(rec["judge"]) if x.startswith("bad")), None)
                    extra = rec["judge"][at] if at is not None else ""
                else:
                    refname = S.model if against == "model" else S.spec
                    rec[against] = run_oracle(refname, small)
                    at = next((i for i, (a, b) in enumerate(zip(impl, rec[against])) if not lines_agree(a, b)), None)
                    extra = "impl=%s %s=%s" % (impl[at], against, rec[against][at]) if at is not None else ""
                opl = small[at] if at is not None else ""
                rec["first_divergent_op"] = opl; rec["detail"] = extra
                broken = ("spec:%s judged the implementation's output wrong (%s)" % (S.spec or S.judge or S.model, extra)) if concrete \
                    else ("corr:%s (model %s and implementation differ; theorems of %s no longer transfer)" % (S.name, S.model, ",".join(conf.get("lean_modules", []))))
                violation(S.name, broken, rec, concrete, opl, small, extra)
    for (sname, rcx, tail) in RUNNER_ERRORS[:3]:
        violation(sname, "corr:%s the runner process reported a data race / fatal error (exit %s)" % (sname, rcx), {"stderr": tail}, False)
    # ---- 5. report + evidence
    for fid, f in known_hit.items():
        log("KNOWN-FINDING: property=%s %s [%s]" % (prop, f["what"], fid))
    for path, concrete, broken in violations:
        log("VIOLATION property=%s replay=%s%s" % (prop, path, "" if concrete else " no-failing-input-found"))
    wall = time.time() - t0
    ev = {
        "property_id": prop, "tier": tier, "seed": seed, "level": "proof",
        "coverage": {
            "obligations": obligations, "discharged": discharged,
            "checker_cmd": "cd /verif/lean && lake build %s && lake env lean Audit/%s.lean   # kernel check + #print axioms of every theorem" % (" ".join(conf.get("lean_modules", [])), prop),
            "trusted_base": conf.get("trusted_base", []) + [
                "Lean 4.33.0 kernel; axioms used: " + ", ".join(sorted({a for axs in thm_axioms.values() for a in axs}) or ["none"]),
                "hand-written Lean model tied to /repo by the differential correspondence runs counted below",
                "Go harness (harness/), check driver (checklib/driver.py), Lean compiler for the oracle executable"],
            "theorems": sorted(thm_axioms.keys()),
            "evaluations": cov["evaluations"], "distinct_nontrivial": cov["distinct_nontrivial"],
            "distinct": cov["distinct"], "operations": cov["ops"],
            "rule": conf.get("rule", "cases are operation sequences generated by the harness (exhaustive small sweep + seeded random); distinct = distinct op sequence (sha1); non-trivial = the implementation returned at least one data-bearing answer (not ok/empty/nil/0/bool)"),
            "samples": cov["samples"][:6], "suites": cov["suites"],
            "disagreements_checked": cov["disagreements_checked"],
            "known_findings_reobserved": sorted(known_hit.keys()),
            "notes": notes,
        },
        "assumptions": conf.get("assumptions", []),
        "wall_s": round(wall, 2), "violations": len(violations),
    }
    # evidence of a run against a scratch tree (VERIF_REPO, used only by tools/seedcheck.py) never
    # replaces the evidence of /repo itself
    evdir = os.environ.get("VERIF_EVIDENCE") or (os.path.join(VERIF, "evidence") if REPO == "/repo" else os.path.join(VERIF, "out", "scratch-evidence"))
    os.makedirs(evdir, exist_ok=True)
    json.dump(ev, open(os.path.join(evdir, prop + ".json"), "w"), indent=1)
    log("%s %s seed=%d: %d theorems audited, %d cases / %d ops, %d known finding(s), %d violation(s), %.1fs"
        % (prop, tier, seed, obligations, cov["evaluations"], cov["ops"], len(known_hit), len(violations), wall))
    return 1 if violations else 0
