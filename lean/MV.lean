import MV.Model.Ring
import MV.Spec.Queue
