import Oracle.Main
