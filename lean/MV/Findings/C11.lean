import MV.Model.Link
/-!
# C11 — recorded finding: messages can be reordered across two streams of one peer pair

`MV.Model.Link.Chan.step … .reopen` empties the wire: the theorems `C11_no_dup_no_reorder…` are
about a link on which a new stream starts delivering only after the receiver loop of the previous
stream has ended.  The Go code does not enforce that: every stream has its own receiver loop
(`Shared.streaming`, one goroutine per stream), a resolver opens a new stream as soon as none is
attached for the peer (`detachStream` removes the table entry *before* the peer has drained what is in
flight), and nothing orders the deliveries of the two loops.  Observed by the `remote` suite
(`breakburst`: the sharing of one node is closed and re-opened while replies are streaming; replies
sent after the detach travel on a new stream and overtake replies still buffered on the old one).

Below: the channel machine *without* the assumption (`reopenEarly` keeps the old stream's in-flight
batches, which the old loop goes on delivering with `recvOld`), and the negation of the ordering
theorem on a concrete witness.  Status: known (findings.d/C11.json, `C11-reorder-across-streams`);
a repair needs per-peer sequencing or a hand-over between the receiver loops of one peer — a
protocol change, not a small edit.
-/
namespace MV.Findings.C11
open MV.Model.Link

structure Chan2 where
  q : List Nat := []
  wire : List (List Nat) := []      -- the current stream
  oldWire : List (List Nat) := []   -- the previous stream, still drained by its own receiver loop
  sent : List Nat := []
  delivered : List Nat := []
  deriving DecidableEq, Repr

inductive Op2 where
  | send (a : Nat) | cut | recv | recvOld | reopenEarly

def step (limit : Nat) (c : Chan2) : Op2 → Chan2
  | .send a => { c with q := c.q ++ [a], sent := c.sent ++ [a] }
  | .cut =>
    match cutBatch limit c.q with
    | ([], _) => c
    | (b, rest) => { c with q := rest, wire := c.wire ++ [b] }
  | .recv =>
    match c.wire with
    | [] => c
    | b :: w => { c with wire := w, delivered := c.delivered ++ b }
  | .recvOld =>
    match c.oldWire with
    | [] => c
    | b :: w => { c with oldWire := w, delivered := c.delivered ++ b }
  | .reopenEarly => { c with oldWire := c.oldWire ++ c.wire, wire := [] }

def run (limit : Nat) (ops : List Op2) : Chan2 := ops.foldl (step limit) {}

/-- the witness: 1 is in flight on the old stream when the new stream is opened; 2 travels on the new
stream and is delivered first -/
def witness : List Op2 := [.send 1, .cut, .reopenEarly, .send 2, .cut, .recv, .recvOld]

theorem C11_reorder_across_streams :
    (run 1024 witness).sent = [1, 2] ∧ (run 1024 witness).delivered = [2, 1] ∧
    (run 1024 witness).delivered.isSublist (run 1024 witness).sent = false := by
  decide

/-- hence the full statement ("the delivered sequence is an ordered selection of the sent one") is
false for the machine without the assumption -/
theorem C11_no_reorder_fails_without_assumption :
    ¬ ∀ ops : List Op2, (run 1024 ops).delivered.Sublist (run 1024 ops).sent := by
  intro h
  have := h witness
  have hs : (run 1024 witness).delivered.isSublist (run 1024 witness).sent = true :=
    List.isSublist_iff_sublist.mpr this
  rw [C11_reorder_across_streams.2.2] at hs
  exact Bool.false_ne_true hs

end MV.Findings.C11
