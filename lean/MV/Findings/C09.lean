import MV.Model.Persistence
import MV.Spec.Persistence
/-!
# C09 — recorded findings: the code before the repairs violates the property

`Variant.original` is the transcription of /repo before the `fix:` commits 7964bbc (State.Load adopts
the loaded record) and 75ae296 (StateChanged restores message and sender). The statements proved for
`Variant.code` in `MV.Props.C09` are false for it; the witnesses are the shrunk replays the check
found on the unrepaired tree (corpus/persist/01-*.ops, 02-*.ops).

(The third repair, 61b7ddd — MemoryStorage kept the caller's slice — is a pointer-aliasing defect that a
value model cannot express; it is witnessed only by the correspondence run, corpus/persist/03-*.ops.)
-/
namespace MV.Findings.C09
open MV.Model.Persistence MV.Spec.Persistence

/-- DESIGN's witness: the third generation recovers 2 events instead of 4 — generation 2 started
    with an empty journal and its persist on termination overwrote the stored history -/
theorem original_third_generation_recovers_two :
    (run Variant.original (listFold Nat) (boot Variant.original (listFold Nat) 0 1000 (fun _ => none))
      [.ev 1, .ev 2, .recreate, .ev 3, .ev 4, .recreate]).ctx.actor.st = [3, 4] := by decide

/-- the shrunk replay of the check: `ev 1 ; recreate ; ev 2 ; fail` recovers `[2]` -/
theorem original_recreate_then_fail_loses_history :
    (trace Variant.original (listFold Nat) (boot Variant.original (listFold Nat) 0 9 (fun _ => none))
      [.ev 1, .recreate, .ev 2, .fail]).getLast? = some (.stateL [2] 3) := by decide

/-- negation of `C09_no_loss_dup_reorder` for the unrepaired code -/
theorem original_not_history_fold :
    ¬ ∀ (thr : Nat) (h : List (Op Nat)),
      (run Variant.original (listFold Nat) (boot Variant.original (listFold Nat) 0 thr (fun _ => none)) h).ctx.actor.st
        = eventsOf h := by
  intro H
  exact absurd (H 9 [.ev 1, .recreate, .ev 2, .fail]) (by decide)

/-- negation of `C09_recover_eq` for the unrepaired code: a reachable state from which a failure
    does not recover the state the actor had -/
theorem original_not_recover_eq :
    ∃ s : Sys (List Nat) Nat,
      s = run Variant.original (listFold Nat) (boot Variant.original (listFold Nat) 0 9 (fun _ => none))
            [.ev 1, .recreate, .ev 2] ∧
      s.ctx.actor.st = [1, 2] ∧
      (step Variant.original (listFold Nat) s .fail).1.ctx.actor.st = [2] := by
  refine ⟨_, rfl, ?_, ?_⟩ <;> decide

/-- negation of `C09_message_unchanged` for the unrepaired code: at the threshold the snapshot
    request and the actor itself are left as current message and sender -/
theorem original_message_changed :
    ∃ (s : Sys (List Nat) Nat) (e : Nat),
      (stateChanged Variant.original s e).1.ctx.message ≠ s.ctx.message ∧
      (stateChanged Variant.original s e).1.ctx.sender ≠ s.ctx.sender := by
  refine ⟨setMsg (boot Variant.original (listFold Nat) 0 1 (fun _ => none)) .asker (.event 7), 7, ?_, ?_⟩ <;> decide

/-- … visible to the harness actor: `ev 2 ; ev 3` at threshold 2 answers `msg=changed snd=changed` -/
theorem original_ev_flags :
    trace Variant.original (listFold Nat) (boot Variant.original (listFold Nat) 0 2 (fun _ => none)) [.ev 2, .ev 3] =
      [.evOut [2] true true, .evOut [2, 3] false false] := by decide

end MV.Findings.C09
