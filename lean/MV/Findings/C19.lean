import MV.Spec.Chrono
/-!
# C19 — where the unchanged code deviates from the property (zones with daylight-saving shifts)

The theorems of `MV.Props.C19` are for fixed-offset zones.  In zones with transitions the judges of
`MV.Spec.Chrono` reject the following answers of the real code (values copied from the replays; the
zone tables are what `Time.ZoneBounds` reports from tzdata 2025b).  Both are recorded as known
findings (`findings.d/C19.json`), matched only when the judge labels the zone irregular at the instant.
-/
namespace MV.Findings.C19
open MV.Spec.Chrono

/-- America/New_York around the night of 1973-10-28: EDT (-4 h) until 06:00 UTC, then EST (-5 h) -/
def newYork1973 : Zone := ⟨-14400, [(120636000000000000, -18000)]⟩

/-- 01:30:00 EDT on the fall-back night, asking for the next 01:30:00: `GetNextMoment` answers
    tomorrow 01:30 EST, although 01:30:00 EST of the same night (one hour later) is earlier and has the
    requested wall-clock time -/
theorem C19_nextMoment_repeated_hour_rejected :
    nextOk newYork1973.offAt newYork1973.offsets 120634200000000000 1 30 0 120724200000000000 = false ∧
    nextOk newYork1973.offAt newYork1973.offsets 120634200000000000 1 30 0 120637800000000000 = true ∧
    regularWallClock newYork1973.offAt newYork1973.offsets 120634200000000000 1 30 0 = false := by
  decide +kernel

/-- America/Sao_Paulo, 1985-11-02: at 00:00 -03 clocks jump to 01:00 -02, the day has no 00:00:00 -/
def saoPaulo1985 : Zone := ⟨-10800, [(499748400000000000, -7200)]⟩

/-- `GetStartOfDay` of 01:00:00 -02 on that day answers 23:00:00 -03 of the previous day
    (`time.Date(y, m, d, 0, 0, 0)` of a skipped midnight), which is neither on the same date nor at 00:00 -/
theorem C19_startOfDay_skipped_midnight_rejected :
    sodOk saoPaulo1985.offAt 499748400000000000 499744800000000000 = false ∧
    regularMidnights saoPaulo1985.offAt saoPaulo1985.offsets 499748400000000000 = false := by
  decide +kernel

end MV.Findings.C19
