import MV.Model.ActorTimers
/-!
# C08 — recorded deviations, with concrete witnesses

1. (fixed by `71713ac`) before the repair `task.timer` was never assigned, so `close()` of a task
   that could still fire dereferenced nil.  `closeLegacy` transcribes the old `close()`; the witness
   is the task `RegisterRepeatedTask("0", 70ms, 100ms, 3)` right after registration.
   The second `Close()` used to panic (`close(tw.exitC)` twice) and — outside the model, a blocking race
   inside the library — `Close()` could hang for ever in `timingwheel.Stop()`; both repaired by `1e829e9`
   (`closeLegacyOut` records the old answer of a second `Close`).
2. (fixed by `bb50462`, another property's repair) a callback that was already posted when the actor
   terminated used to run after `OnTerminated`; `processMessage` now drops it
   (`MV.Props.C08.C08_not_after_terminated`).
3. (known) "a timer callback never runs in an incarnation other than the one that registered it" is
   false for callbacks that were already posted when a restart cleared the scheduler: the
   executable actor model — which follows the code — runs such a turn in the witness scenario below
   (the same scenario is the `slow` case of suite `actor-timers`, where the implementation answers
   the same).
4. (fixed by the `fix:` commit "a task is not run before its due time") the timing wheel can hand a
   timer out a whole lap before its expiration (a bucket popped from the delay queue and re-armed for
   the next lap before the wheel's loop flushes it moves the wheel's clock ahead; reproduced on the
   real code under CPU load: tick 10 ms, firing 92 ms before its due time).  Before the repair the
   timer's goroutine ran the task at once: `runTimerLegacy` transcribes that, and the witness below is
   a firing at time 0 of a task due at 35.  `MV.Props.C08.C08_not_early` now holds for an
   unconstrained wheel because `Next` waits.
-/
namespace MV.Findings.C08
open MV.Model.Scheduler MV.Model.ActorTimers

/-- `close()` as it was before the fix: `t.timer.Stop()` on the nil timer panics (`none`) -/
def closeLegacy (t : Task) : Option Task :=
  if t.kill then some t
  else if t.total ≤ 0 ∨ (t.trigger : Int) < t.total then
    match t.timer with
    | .unset => none
    | _ => some ({ t with kill := true } : Task).stop
  else some { t with kill := true }

/-- the old `Close()`: a second call ran `close(tw.exitC)` again and panicked -/
def closeLegacyOut (s : Sched) : Out := if s.stopped then .panic else .ok

theorem C08_legacy_second_close_panics :
    closeLegacyOut (step (init 10) .close).1 = .panic ∧ (step (step (init 10) .close).1 .close).2 = .ok := by
  decide

/-- the old `task()` left `timer` nil -/
def registeredLegacy (times : Int) : Task :=
  { ((Task.fresh 0 70 100 times none 0).schedule 0) with timer := .unset }

/-- cancelling a still-repeating or forever task panicked; a one-shot task did not -/
theorem C08_legacy_close_panics :
    closeLegacy (registeredLegacy 3) = none ∧ closeLegacy (registeredLegacy (-1)) = none ∧
    (closeLegacy (registeredLegacy 1)).isSome = true := by decide

/-- the fixed `close()` is total on the same tasks (and on every task: `Task.close` is a function) -/
example : ((Task.fresh 0 70 100 3 none 0).schedule 0).close.kill = true := by decide

/-- tick 2 ms; a task repeating every 2 ms; a crash whose `OnRestarting` handler takes 6 ms -/
def staleScenario : Actor :=
  (crash (wait ((tell (init 2 0 0) (.repeated 0 2 2 (-1))).getD (init 2 0 0)) 5) 6).getD (init 2 0 0)

/-- callbacks posted during the restarting turn run in the next incarnation, although `Clear` has
    cancelled their task -/
theorem C08_callback_after_restart : stale staleScenario = true ∧ staleScenario.inc = 1 := by
  decide

/-- the goroutine of a timer as it was before the repair: no wait for the expiration -/
def runTimerLegacy (s : Sched) (i : Nat) : Sched :=
  match (s.objs i).timer with
  | .inflight e => if i < s.nobjs then timerTask s i e else s
  | _ => s

/-- an early hand-out by the wheel used to be an early firing: task due at 35 fires at time 0 -/
theorem wheel_early_handout :
    (runTimerLegacy (step (step (init 10) (.reg 0 35 20 3)).1 (.expire 0)).1 0).log.map (fun f => (f.exp, f.time))
      = [(35, 0)] ∧
    (step (step (step (init 10) (.reg 0 35 20 3)).1 (.expire 0)).1 (.run 0)).1.log = [] := by decide

end MV.Findings.C08
