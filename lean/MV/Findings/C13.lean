import MV.Props.C13
/-!
# C13 — recorded findings

## 1. the address `identity-ability` is not injective (kept; the manager refuses the second pair)

`("a-b", "c")` and `("a", "b-c")` both map to the child name `a-b-c`.  Full availability ("every
offered ability gets its actor for every identity") is therefore *false* without a guard:
`C13_collision_refused` is the negation of `C13_no_refusal` without its dash-free hypothesis, on the
model the oracle executes.  Since /repo commit 649cc8d the second pair is answered with an error;
before it the manager panicked in `ActorOf` ("already exists").

## 2. defects repaired by /repo commits 4ea41c9 and 649cc8d

`onActorOfOld` is the handler as it was: `members` is never written and `ctx.ActorOf` is not
guarded.  On it the statements of C13 are false with the witnesses the harness found:

* `old_second_lookup_panics` — `lookup x p ; lookup x p`: the second request panics (the child `x-p`
  is already registered), the guard restarts the manager and every actor it created is terminated
  (`old_third_lookup_relaunches`: the third request launches a *second* actor at the old address);
* `old_illegal_identity_panics` — a request with an identity that is no legal actor name (empty,
  blank, `/`, `\`) panics the manager.
-/
namespace MV.Findings.C13
open MV.Model.ClusterManager MV.Props.C13

private def ab : Name := ['a', '-', 'b']
private def a_ : Name := ['a']
private def c : Name := ['c']
private def bc : Name := ['b', '-', 'c']

/-- the name of a pair does not determine the pair -/
theorem C13_name_not_injective :
    ∃ i₁ a₁ i₂ a₂ : Name, (i₁, a₁) ≠ (i₂, a₂) ∧ nameOf i₁ a₁ = nameOf i₂ a₂ :=
  ⟨ab, c, a_, bc, by decide, by decide⟩

/-- negation of "no refusal" without the dash-free guard: both identities and abilities are legal
    names, both abilities are offered, yet the second pair is refused -/
theorem C13_collision_refused :
    legalName ab = true ∧ legalName a_ = true ∧ legalName c = true ∧ legalName bc = true ∧
    (run (init [c, bc]) [.lookup ab c, .lookup a_ bc]).2 =
      [.reply (.ref ⟨['a', '-', 'b', '-', 'c'], 1⟩), .reply .errCreate] := by decide

/-! ### the handler before the repairs -/

/-- `onActorOf` as it was before commits 4ea41c9 / 649cc8d -/
def onActorOfOld (s : Mgr) (identity ability : Name) : Except Panic (Mgr × Reply) := do
  if ability ∉ s.abilities then
    return (s, .errAbility)
  match find s.members (ability, identity) with
  | some r => return (s, .ref r)
  | none =>
    let (s', r) ← ctxActorOf s identity ability     -- unguarded, and `members` is not written
    return (s', .ref r)

def stepOld (s : Mgr) (i a : Name) : Mgr × Out :=
  match onActorOfOld s i a with
  | .ok (s', r) => (s', .reply r)
  | .error _ => (restart s, .panic)

private def p : Name := ['p']
private def x : Name := ['x']

theorem old_second_lookup_panics :
    (stepOld (stepOld (init [p]) x p).1 x p).2 = .panic := by decide

theorem old_third_lookup_relaunches :
    (stepOld (stepOld (stepOld (init [p]) x p).1 x p).1 x p).2 = .reply (.ref ⟨['x', '-', 'p'], 2⟩) := by
  decide

theorem old_illegal_identity_panics :
    (stepOld (init [p]) [] p).2 = .panic ∧ (stepOld (init [p]) ['u', '/', '1'] p).2 = .panic := by
  decide

end MV.Findings.C13
