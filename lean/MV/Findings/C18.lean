import MV.Props.C18
import MV.Model.SharedRestart
/-!
# C18 — recorded finding (repaired by /repo commit d82e98b)

Before the repair `chrono.ExponentialBackoff` (and the copy of its formula inside
`toolkit.ConditionalRetryByExponentialBackoff`) converted the `float64` sum to `time.Duration`
*before* clamping:

```go
sleepDuration := time.Duration(delay + jitter)
if sleepDuration > maxDelay { sleepDuration = maxDelay }
```

`backoffOld` is that code over the same `FVal` arithmetic.  Once `base·mult^count` leaves the int64
range the amd64 conversion yields `MinInt64`, which is not `> maxDelay`: the range statement of C18 is
false for the old code (`C18_range_fails_before_fix`), with the witness the harness found
(`standard 36 -1 200000000 3600000000000`, i.e. the 37th consecutive restart of a supervised actor with
a 200 ms base delay), and `0 * +Inf = NaN` gives the same for a zero base delay.
-/
namespace MV.Findings.C18
open MV.Model.Backoff MV.Model.Backoff.FVal MV.Lemmas.Backoff MV.Props.C18

/-- the clamp as it was before the repair -/
def clampDurOld (sleep : FVal) (max : Int) : Int :=
  let sd := sleep.toI64
  if sd > max then max else sd

def backoffOld (p : Params) (u : FVal) : Int :=
  if (p.count : Int) > p.limit ∧ p.limit > -1 then -1
  else clampDurOld (sleepF p.count p.base p.mn p.md p.rn p.rd u) p.max

def witness : Params :=
  { count := 36, limit := -1, base := 200000000, max := 3600000000000, mn := 2, md := 1, rn := 1, rd := 2 }

set_option exponentiation.threshold 2100

theorem old_code_negative : backoffOld witness (fin 1 2) = -9223372036854775808 := by decide

theorem old_code_nan : backoffOld { witness with count := 1024, base := 0 } (fin 1 2) = -9223372036854775808 := by
  decide

/-- the repaired code on the same inputs -/
theorem new_code_witness : backoff witness (fin 1 2) = 3600000000000 ∧
    backoff { witness with count := 1024, base := 0 } (fin 1 2) = 0 := by decide

/-- the range clause of C18 does not hold for the code as it was -/
theorem C18_range_fails_before_fix :
    ¬ (∀ (p : Params) (un ud : Nat), DomP p → 0 < ud → un ≤ ud → ¬ Stops p → 0 ≤ backoffOld p (fin un ud)) := by
  intro h
  have D : DomP witness := ⟨by decide, by decide, by decide, by decide, by decide, by decide, by decide, by decide⟩
  have := h witness 1 2 D (by decide) (by decide) (by unfold Stops; decide)
  rw [show (fin ((1:Nat):Int) 2) = fin 1 2 from rfl, old_code_negative] at this
  exact absurd this (by decide)

/-! ## second finding (repaired by /repo commit 352a74d): limit 0 = unlimited for `Shared.runtimeError`,
but "no retries" for the back-off.  With `WithRestartInterval` and `WithConsecutiveRestartLimit(0)` every
failed restart is retried (`retries 0 count`), and the old closure answered the stop signal `-1`, which
`time.AfterFunc` turns into "at once": the restarts ran back-to-back without any back-off. -/

open MV.Model.SharedRestart in
theorem shared_limit_zero_stop_signal_before_fix :
    retries 0 1 = true ∧
    delayLegacy { limit := 0, interval := .backoff 100000000 3000000000 } 1 (fin 1 2) = some (-1) ∧
    delay { limit := 0, interval := .backoff 100000000 3000000000 } 1 (fin 1 2) = some 200000000 := by decide

end MV.Findings.C18
