import MV.Model.Registry
import MV.Model.Address
/-!
# C12 — recorded findings (negation of the full statements, concrete witnesses)

1. `C12_lookup_current_fails`: the unchanged `Unregister` (`LoadAndDelete`, then `Terminate`) lets a
   `Register` of the same address succeed in between, while a caching reference still answers the
   removed process to a lookup that starts after that registration has returned.  The `lin` events of the
   witness schedule are **not** a legal run of the property as stated (`Mode.stated`), and the recorded
   call/return history has **no** linearisation for it at all (`linearizable .stated … = false`), while
   the `code` automaton explains it.
2. `C12_unregister_not_atomic`: even without a new registrant `Unregister` is not one atomic instant
   (an uncached lookup already sees the address free, a later cached lookup still sees the process);
   allowed by the property as stated, rejected by plain linearizability to the sequential map.
3. `C12_derivation_slash_collision`: under a parent other than the root, the names `x` and `/x` derive
   the same address.
-/
namespace MV.Findings.C12
open MV.Model.Conc MV.Model.Registry MV.Spec.Registry

/-- set-up: `Register(0)` → p1; a lookup through reference (0,0) caches p1.  Then: t2 = `Unregister(0)`
runs `LoadAndDelete`; t3 = `Register(0)` → ok, p2; t4 = lookup through (0,0), called after t3 returned:
cache load, `IsTerminated(p1)` = false → answers p1; t2 runs `Terminate`. -/
def witness : List (Ev PC) :=
  [.spawn (.rCall 0), .run 0, .run 0,
   .spawn (.gCall ⟨0, 0⟩), .run 1, .run 1, .run 1, .run 1,
   .spawn (.uCall 0), .run 2, .run 2,
   .spawn (.rCall 0), .run 3, .run 3,
   .spawn (.gCall ⟨0, 0⟩), .run 4, .run 4, .run 4,
   .run 2]

/-- what the operations returned in the witness execution -/
theorem witness_returns :
    (exec sys init witness).g.tr.filterMap (fun e => match e with | .ret k r => some (k, r) | _ => none) =
      [(0, .regOk 1), (1, .proc (some 1)), (3, .regOk 2), (4, .proc (some 1)), (2, .unit)] := by
  decide

/-- the full statement `∀ sched, runLins .stated … = some …` is false -/
theorem C12_lookup_current_fails :
    ∃ sched : List (Ev PC), runLins .stated Abs.init (lins (exec sys init sched).g.tr) = none :=
  ⟨witness, by decide⟩

/-- … the witness is exactly the excluded situation, and the weaker `code` automaton accepts it -/
theorem witness_in_window : (exec sys init witness).g.regInWindow = true := by decide

theorem witness_code_legal : (runLins .code Abs.init (lins (exec sys init witness).g.tr)).isSome = true := by
  decide

/-- the call/return history of the witness as the harness records it (positions in the history) -/
def witnessHistory : List HOp := [
  { id := 0, op := .reg 0, res := .regOk 1, call := 0, ret := 1 },
  { id := 1, op := .get 0, res := .proc (some 1), call := 2, ret := 3 },
  { id := 2, op := .unreg 0, res := .unit, call := 4, ret := 9 },
  { id := 3, op := .reg 0, res := .regOk 2, call := 5, ret := 6 },
  { id := 4, op := .get 0, res := .proc (some 1), call := 7, ret := 8 } ]

/-- no choice of instants makes the history legal for the property as stated; the `code` automaton has one -/
theorem witness_history_not_linearizable :
    linearizable .stated witnessHistory = false ∧ linearizable .code witnessHistory = true := by
  decide

/-- `Unregister` is not atomic even without a new registrant: set-up as above; t2 = `Unregister(0)` runs
`LoadAndDelete`; t3 = lookup through a fresh reference → substitute; t4 = lookup through (0,0), called
after t3 returned → p1; t2 runs `Terminate`. -/
def witnessAtomic : List (Ev PC) :=
  [.spawn (.rCall 0), .run 0, .run 0,
   .spawn (.gCall ⟨0, 0⟩), .run 1, .run 1, .run 1, .run 1,
   .spawn (.uCall 0), .run 2, .run 2,
   .spawn (.gCall ⟨0, 1⟩), .run 3, .run 3, .run 3,
   .spawn (.gCall ⟨0, 0⟩), .run 4, .run 4, .run 4,
   .run 2]

theorem C12_unregister_not_atomic :
    (exec sys init witnessAtomic).g.regInWindow = false ∧
    runLins .atomic Abs.init (lins (exec sys init witnessAtomic).g.tr) = none ∧
    (runLins .stated Abs.init (lins (exec sys init witnessAtomic).g.tr)).isSome = true := by
  decide

def witnessAtomicHistory : List HOp := [
  { id := 0, op := .reg 0, res := .regOk 1, call := 0, ret := 1 },
  { id := 1, op := .get 0, res := .proc (some 1), call := 2, ret := 3 },
  { id := 2, op := .unreg 0, res := .unit, call := 4, ret := 9 },
  { id := 3, op := .get 0, res := .proc none, call := 5, ret := 6 },
  { id := 4, op := .get 0, res := .proc (some 1), call := 7, ret := 8 } ]

theorem witnessAtomic_history :
    linearizable .atomic witnessAtomicHistory = false ∧ linearizable .stated witnessAtomicHistory = true := by
  decide

/-! ## address algebra -/
open MV.Model.Address

/-- distinct names, same derived reference: `/p` + `x` and `/p` + `/x` are both `/p/x` -/
theorem C12_derivation_slash_collision :
    (['x'] : List Char) ≠ ['/', 'x'] ∧
    derivation ⟨['n'], ['/', 'p']⟩ ['x'] = derivation ⟨['n'], ['/', 'p']⟩ ['/', 'x'] := by
  constructor
  · simp
  · simp [derivation, normName, hasSlashPrefix]

/-- hence `∀ parent n1 n2, n1 ≠ n2 → derivation parent n1 ≠ derivation parent n2` is false -/
theorem C12_derivation_injective_fails :
    ¬ ∀ (p : Pid) (n1 n2 : List Char), n1 ≠ n2 → derivation p n1 ≠ derivation p n2 := by
  intro h
  exact h ⟨['n'], ['/', 'p']⟩ ['x'] ['/', 'x'] C12_derivation_slash_collision.1 C12_derivation_slash_collision.2

end MV.Findings.C12
