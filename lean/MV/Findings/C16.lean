import MV.Lemmas.BitSet
/-!
# C16 — recorded findings: the full statements are false for the code as it is (witnesses)
-/
namespace MV.Findings.C16
open MV.Model

/-- `DynamicBitSet.Equal` is NOT set equality: the zero value and `NewDynamicBitSet()` are both empty
but not `Equal` (likewise `Set(100); Clear(100)` vs. a fresh set). -/
theorem bitset_equal_not_set_equality :
    ¬ (∀ a b : BitSet, (∀ p, a.isSet p = b.isSet p) → a.equal b = true) := by
  intro h
  have := h BitSet.zero BitSet.new BitSet.equal_zero_new_witness.1
  rw [BitSet.equal_zero_new_witness.2] at this
  cases this

/-- `DynamicBitSet.In` is NOT the subset test: a mask with a trailing zero word is not `In` a set that
contains all its members. -/
theorem bitset_in_not_subset :
    ¬ (∀ db mask : BitSet, (∀ p, mask.isSet p = true → db.isSet p = true) → db.isIn mask = true) := by
  intro h
  have := h BitSet.new ((BitSet.new.set 100).clear 100) BitSet.in_trailing_zero_witness.1
  rw [BitSet.in_trailing_zero_witness.2] at this
  cases this

end MV.Findings.C16
