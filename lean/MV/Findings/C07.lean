import MV.Model.Future
import MV.Spec.Future
/-!
# C07 — what the code did before the `fix:` commits (witnesses, all by evaluation)

`MV.Model.Future.trans` keeps the three legacy behaviours behind `Cfg`.  Each theorem below runs the
model with exactly one legacy setting on a concrete schedule and states the outcome that contradicts
the corresponding theorem of `MV/Props/C07.lean`.  The same schedules are in `corpus/future/`, the
end-to-end reproductions in `corpus/ask/defects.ops` (they are quiet now: the code is repaired).

A fourth defect is not a model configuration: `future.New` stored the reference only after
`rc.Register` had armed the timer, so a timer firing at once called `Unregister(nil, nil)` and crashed
the process (`ask sys 1 300 echo 1` → `fatal`); the shipped `New` stores it first, which is what the
model's `new`/`init`/`arm` steps assume.
-/
namespace MV.Findings.C07
open MV.Model.Conc MV.Model.Future MV.Spec.Future

/-! ## 1. `ctx.childGuid++` is a load and a store -/

/-- the shipped code except for the id counter -/
def racy : Cfg := ⟨false, true, true⟩

/-- two askers interleave load/load/store/store, both derive address 1; the second future is never
initialised; the reply to the second request completes the first ask; the second ask never resolves -/
def raceSched : List (Ev PC) :=
  [.spawn (.alloc true), .spawn (.alloc true), .run 0, .run 1, .run 0, .run 1,   -- both hold id 1
   .run 0, .run 0, .run 0,                                                      -- first New: registered, timer armed
   .run 1,                                                                      -- second New: address taken
   .spawn (.reply ⟨1, 9, false⟩), .spawn (.result 0), .spawn (.result 1),
   .run 3, .run 3, .run 3, .run 3, .run 3, .run 3, .run 3, .run 3,              -- the reply to request 1 …
   .run 4, .run 4, .run 4,                                                      -- … is what ask 0 gets
   .run 5, .run 5, .run 2]

def raceEnd : State := exec (sys racy) init raceSched

/-- **negation of `C07_addresses_unique`** for the legacy counter -/
theorem legacy_alloc_duplicate_address :
    raceEnd.g.nfut = 2 ∧ (raceEnd.g.futs 0).addr = (raceEnd.g.futs 1).addr := by decide

/-- **negation of `C07_own_reply`**: ask 0 resolves with the reply to request 1 -/
theorem legacy_alloc_wrong_reply :
    (raceEnd.g.futs 0).results = [(some ⟨1, 9, false⟩, none)] ∧
    classify 0 (some ⟨1, 9, false⟩, none) = .wrong := by decide

/-- **negation of `C07_no_hang`**: the state is quiescent, future 1 has a timeout and its `New` has
returned, yet it is not closed (no rc, no timer) and its reader waits for ever -/
theorem legacy_alloc_hang :
    (List.range raceEnd.ths.length).all (fun i => (step (sys racy) raceEnd i).isNone) = true ∧
    (raceEnd.g.futs 1).ready = true ∧ (raceEnd.g.futs 1).tmo = true ∧ (raceEnd.g.futs 1).closed = false ∧
    (raceEnd.g.futs 1).rcSet = false ∧ raceEnd.ths[5]? = some (.rWait 1) := by decide

/-- a legacy allocation that is not interleaved with anything is the atomic add: the load and the
store, executed back to back, give exactly what the one atomic step of the shipped code gives — a
single allocating thread (an actor calling `ctx.FutureAsk` from its own turns) was never affected -/
theorem legacy_alloc_alone_eq_atomic (g : G) (tmo : Bool) :
    (match MV.Model.Future.trans racy g (.alloc tmo) with
     | some (g1, pc1, _) => MV.Model.Future.trans racy g1 pc1
     | none => none) = MV.Model.Future.trans Cfg.shipped g (.alloc tmo) := by
  simp [MV.Model.Future.trans, racy, Cfg.shipped]

/-! ## 2. the error branch looked at the wrapper -/

def wrapped : Cfg := ⟨true, false, true⟩

/-- **negation of `C07_error_reply_fails`**: an error reply completes the ask successfully, the error
is its value -/
theorem legacy_error_reply_succeeds :
    let s := exec (sys wrapped) init [.spawn (.alloc false), .run 0, .run 0, .run 0,
      .spawn (.reply ⟨0, 7, true⟩), .spawn (.result 0), .run 1, .run 1, .run 1, .run 1, .run 1, .run 2, .run 2, .run 2]
    (s.g.futs 0).results = [(some ⟨0, 7, true⟩, none)] ∧ classify 0 (some ⟨0, 7, true⟩, none) = .errvalue := by
  decide

/-! ## 3. every deliverer wrote `message` before its CAS -/

def loserWrites : Cfg := ⟨true, true, false⟩

/-- **negation of `C07_result_stable`**: two overlapping replies; the second reader sees the message of
the reply that lost the CAS -/
theorem legacy_result_changes :
    let s := exec (sys loserWrites) init [.spawn (.alloc false), .run 0, .run 0, .run 0,
      .spawn (.reply ⟨0, 5, false⟩), .spawn (.reply ⟨0, 6, false⟩), .spawn (.result 0), .spawn (.result 0),
      .run 1, .run 1,                                 -- reply 5: routed, closed.Load() = false
      .run 2, .run 2, .run 2, .run 2, .run 2, .run 2, -- reply 6: message, CAS won, err, close(done)
      .run 3, .run 3, .run 3,                         -- first reader
      .run 1,                                         -- reply 5 writes its message
      .run 4, .run 4, .run 4]                         -- second reader
    (s.g.futs 0).results = [(some ⟨0, 6, false⟩, none), (some ⟨0, 5, false⟩, none)] := by
  decide

/-- a reply that lost against the timeout still left its value: `Result()` returns a value together
with the timeout error -/
theorem legacy_value_with_error :
    let s := exec (sys loserWrites) init [.spawn (.alloc true), .run 0, .run 0, .run 0, .run 0,
      .spawn (.reply ⟨0, 5, false⟩), .spawn (.result 0),
      .run 2, .run 2,                                 -- reply: routed, closed.Load() = false
      .run 1, .run 1, .run 1, .run 1,                 -- timer: fires, CAS won, err, close(done)
      .run 2,                                         -- the reply writes its message
      .run 3, .run 3, .run 3]
    (s.g.futs 0).results = [(some ⟨0, 5, false⟩, some .timeout)] := by
  decide

end MV.Findings.C07
