import MV.Model.ActorSys
/-!
# Specifications of C03–C06 as Bool checkers over the global event record of a run

The same predicates judge (a) event lists of the Lean model — the theorems of `MV.Props.C03…C06`
are about them — and (b) event lists recorded from the real actor system by the harness.
Every checker returns `none` when satisfied and `some label` naming the violated clause.
-/
namespace MV.Spec.ActorSys
open MV.Model.ActorSys

/-- handler observations of one incarnation, in order -/
def obsOf (evs : List Event) (a : Aid) (inc : Nat) : List Obs :=
  evs.filterMap fun e => match e with
    | .handled a' i o _ => if a' == a && i == inc then some o else none
    | _ => none

def incarnations (evs : List Event) : List (Aid × Nat) :=
  (evs.filterMap fun e => match e with
    | .handled a i _ _ => some (a, i)
    | _ => none).eraseDups

/-! ## C03 — well-formed lifecycle per incarnation

phases: 0 = nothing handled yet, 1 = `OnRestarted` seen (restart only), 2 = launched, 3 = `OnRestarting`
seen, 4 = `OnTerminate` seen, 5 = own `OnTerminated` seen (final). -/
def lcStep (self : Aid) (inc : Nat) : Nat → Obs → Except String Nat
  | 0, .launch => if inc == 0 then .ok 2 else .error "launch-without-restarted"
  | 0, .restarted => if inc == 0 then .error "restarted-on-first-incarnation" else .ok 1
  | 0, o => .error ((if inc == 0 then "before-launch:" else "before-launch-after-restart:") ++ (match o with
      | .user _ => "user" | .terminated _ => "terminated" | .terminate => "terminate"
      | .restarting => "restarting" | .dead _ _ => "dead" | _ => "other"))
  | 1, .launch => .ok 2
  | 1, _ => .error "between-restarted-and-launch"
  | 2, .launch => .error "second-launch"
  | 2, .restarted => .error "restarted-after-launch"
  | 2, .restarting => .ok 3
  | 2, .terminate => .ok 4
  | 2, .terminated w => if w == self then .error "terminated-without-terminate" else .ok 2
  | 2, _ => .ok 2
  | 3, .terminate => .ok 4
  | 3, .terminated w => if w == self then .error "terminated-without-terminate" else .ok 3
  | 3, .user _ => .error "user-message-during-restart"
  | 3, .dead _ _ => .error "user-message-during-restart"
  | 3, _ => .error "lifecycle-during-restart"
  | 4, .terminated w => if w == self then .ok 5 else .ok 4
  | 4, .user _ => .error "user-message-after-terminate"
  | 4, .dead _ _ => .error "user-message-after-terminate"
  | 4, _ => .error "lifecycle-after-terminate"
  | 5, .terminated _ => .error "after-own-terminated:terminated"
  | 5, .user _ => .error "after-own-terminated:user"
  | 5, _ => .error "after-own-terminated:other"
  | _, _ => .error "bad-phase"

def lcRun (self : Aid) (inc : Nat) : Nat → List Obs → Except String Nat
  | p, [] => .ok p
  | p, o :: os => match lcStep self inc p o with
    | .ok p' => lcRun self inc p' os
    | .error e => .error e

/-- did `a` fail (a `failed` event) after incarnation `inc` had handled its own `OnTerminated`, with no
other handler of `a` in between (i.e. the failing handler is that `OnTerminated` handler)? or did it
fail right after handling `OnTerminate`? -/
def farewellFailed (evs : List Event) (a : Aid) (inc : Nat) : Bool :=
  let rec go (armed : Bool) : List Event → Bool
    | [] => false
    | .handled a' i o _ :: es =>
      if a' == a then
        go (i == inc && (match o with | .terminated w => w == a | .terminate => true | _ => false)) es
      else go armed es
    | .failed a' :: es => if a' == a && armed then true else go armed es
    | _ :: es => go armed es
  go false evs

/-- C03 for a whole run: every incarnation's observation sequence is a prefix of a well-formed
lifecycle; an incarnation that was replaced by a restart (a later incarnation exists) ended with
`Restarting Terminate Terminated` -/
def c03 (evs : List Event) : Option String :=
  (incarnations evs).findSome? fun (a, i) =>
    match lcRun a i 0 (obsOf evs a i) with
    | .error e =>
      -- a farewell handler (OnTerminate / OnTerminated) that failed leaves the termination or restart
      -- half-done; the next notification re-runs the farewell sequence on the same incarnation
      if e.startsWith "after-own-terminated" && farewellFailed evs a i then
        some "c03:after-own-terminated-following-failed-farewell-handler"
      else some s!"c03:{e}"
    | .ok p =>
      if (incarnations evs).any (fun (a', i') => a' == a && i' > i) && p != 5 then
        some "c03:replaced-incarnation-not-finished"
      else none

/-! ## C05 — children before parents -/

def parentOf (evs : List Event) (c : Aid) : Option Aid :=
  evs.findSome? fun e => match e with
    | .spawned p c' => if c' == c then some p else none
    | _ => none

/-- is `x` a proper ancestor of `a` (parents taken from the `spawned` events; at most `fuel` levels)? -/
def isAncestor (evs : List Event) (x : Aid) : Nat → Aid → Bool
  | 0, _ => false
  | fuel + 1, a => match parentOf evs a with
    | some p => p == x || isAncestor evs x fuel p
    | none => false

def idxTerminatedSelf (evs : List Event) (a : Aid) : Option Nat :=
  (List.range evs.length).find? fun i => match evs[i]? with
    | some (Event.handled a' _ (.terminated w) _) => a' == a && w == a
    | _ => false

/-- the LAST own-`OnTerminated` of `a` (its final one, after any restarts) -/
def lastTerminatedSelf (evs : List Event) (a : Aid) : Option Nat :=
  ((List.range evs.length).reverse).find? fun i => match evs[i]? with
    | some (Event.handled a' _ (.terminated w) _) => a' == a && w == a
    | _ => false

/-- every own-`OnTerminated` of a parent is preceded by an own-`OnTerminated` of each child spawned
before it -/
def c05order (evs : List Event) : Option String :=
  (List.range evs.length).findSome? fun i => match evs[i]? with
    | some (Event.handled p _ (.terminated w) _) =>
      if w != p then none else
      -- children spawned before i
      ((List.range i).findSome? fun j => match evs[j]? with
        | some (Event.spawned p' c) =>
          if p' != p then none else
          if ((List.range i).any fun k => k > j && (match evs[k]? with
                | some (Event.handled c' _ (.terminated w') _) => c' == c && w' == c
                | _ => false)) then none
          else
            -- was the child created while the parent was already handling its own termination?
            if ((List.range j).any fun k => match evs[k]? with
                  | some (Event.handled p'' _ .terminate _) => p'' == p
                  | _ => false)
            then some s!"c05:child-{c}-spawned-while-parent-{p}-terminating-outlives-it"
            else some s!"c05:parent-{p}-terminated-before-child-{c}"
        | _ => none)
    | _ => none

/-- in a quiescent final state nobody outlives a parent that is gone (`gone` = terminated and
unregistered) -/
def c05complete (evs : List Event) (gone : Aid → Bool) : Option String :=
  (List.range evs.length).findSome? fun j => match evs[j]? with
    | some (Event.spawned p c) =>
      if p ≥ 2 && gone p && !gone c then
        if ((List.range j).any fun k => match evs[k]? with
              | some (Event.handled p' _ .terminate _) => p' == p
              | _ => false)
        then some s!"c05:child-{c}-spawned-while-parent-{p}-terminating-outlives-it"
        else some s!"c05:child-{c}-outlives-terminated-parent-{p}"
      else none
    | _ => none

/-- index of the first `OnTerminate` handled by `a` -/
def beganAt (evs : List Event) (a : Aid) : Option Nat :=
  (List.range evs.length).find? fun k => match evs[k]? with
    | some (Event.handled a' _ .terminate _) => a' == a
    | _ => false

/-- `d` is `t` or one of its descendants -/
def inSubtree (evs : List Event) (t d : Aid) : Bool := d == t || isAncestor evs t evs.length d

/-- in a quiescent final state every actor whose termination was requested is gone. When it is not,
the label says why: a handler of the actor or of one of its descendants failed after that actor had
begun to terminate (it then stays `terminating`/half-terminated and everybody above waits), or somebody
in the subtree spawned a child after it had begun to terminate (nobody tells that child to stop), or —
no excuse — the request simply had no effect. -/
def c05requests (evs : List Event) (gone : Aid → Bool) : Option String :=
  evs.findSome? fun e => match e with
    | .killreq t =>
      if t ≥ 2 && t < ghostBase && !gone t then
        if ((List.range evs.length).any fun j => match evs[j]? with
              | some (Event.failed d) => inSubtree evs t d &&
                  (match beganAt evs d with | some k => k < j | none => false)
              | _ => false)
        then some s!"c05:terminate-request-for-{t}-stuck-handler-failed-during-termination"
        else if ((List.range evs.length).any fun j => match evs[j]? with
              | some (Event.spawned p c) => inSubtree evs t p && !gone c &&
                  (match beganAt evs p with | some k => k < j | none => false)
              | _ => false)
        then some s!"c05:terminate-request-for-{t}-waits-for-child-spawned-during-termination"
        else some s!"c05:terminate-request-for-{t}-had-no-effect"
      else none
    | _ => none

/-! ## C06 — exactly one notification for the parent and for every watcher -/

def countNotified (evs : List Event) (o t : Aid) : Nat :=
  (evs.filter fun e => match e with
    | .handled o' _ (.terminated w) _ => o' == o && w == t
    | _ => false).length

def countWatchRequests (evs : List Event) (o t : Aid) : Nat :=
  (evs.filter fun e => match e with
    | .watch o' t' => o' == o && t' == t
    | _ => false).length

/-- nobody is told more often about one termination than it asked for. The termination itself tells
the parent once and every watcher once (a parent that also watches: once); besides, every `Watch`
that reaches the address after the actor is gone is answered on the spot. So an observer handles at
most one notification per `Watch` request it issued, plus one if it is the parent (and at most one when
it issued none) — a repeated `Watch` on a dead address is answered each time, which is not counted
against the property (the observer asked again) -/
def c06dup (evs : List Event) : Option String :=
  evs.findSome? fun e => match e with
    | .handled o _ (.terminated t) _ =>
      if o != t && countNotified evs o t >
          max 1 (countWatchRequests evs o t + (if parentOf evs t == some o then 1 else 0))
      then some s!"c06:duplicate-notification-{o}-about-{t}" else none
    | _ => none

/-- is `w` watching `t` at the end (last request wins)? -/
def watching (evs : List Event) (w t : Aid) : Bool :=
  (evs.foldl (fun acc e => match e with
    | .watch w' t' => if w' == w && t' == t then true else acc
    | .unwatch w' t' => if w' == w && t' == t then false else acc
    | _ => acc) false)

/-- in a quiescent final state: for every actor `t` that terminated for good, its parent and every
actor that watches it and is still alive have handled exactly one `OnTerminated t`.
`alive o` = `o` is alive in the final state; `gone t` = `t` is terminated and unregistered. -/
def c06missing (evs : List Event) (alive gone : Aid → Bool) : Option String :=
  evs.findSome? fun e => match e with
    | .watch w t =>
      if gone t && alive w && watching evs w t && countNotified evs w t == 0
      then some s!"c06:watcher-{w}-never-told-about-{t}" else none
    | .spawned p c =>
      if p ≥ 2 && gone c && alive p && countNotified evs p c == 0
      then some s!"c06:parent-{p}-never-told-about-{c}" else none
    | _ => none

/-- an actor that neither watches nor is the parent is not notified -/
def c06unsolicited (evs : List Event) : Option String :=
  evs.findSome? fun e => match e with
    | .handled o _ (.terminated t) _ =>
      if o == t then none
      else if parentOf evs t == some o then none
      else if evs.any (fun e' => match e' with | .watch w t' => w == o && t' == t | _ => false) then none
      else some s!"c06:unsolicited-notification-{o}-about-{t}"
    | _ => none

/-! ## C04 — suspended until the supervisor has decided -/

/-- between a failure of `a` and the next decision about `a`, `a` handles no user message -/
def c04suspended (evs : List Event) : Option String :=
  let rec go (pending : List Aid) : List Event → Option String
    | [] => none
    | .failed a :: es => go (if pending.contains a then pending else a :: pending) es
    | .decided _ v _ _ :: es => go (pending.filter (· != v)) es
    | .handled a _ (.user _) _ :: es =>
      if pending.contains a then some s!"c04:user-message-handled-while-awaiting-decision-{a}" else go pending es
    | .handled a _ .launch _ :: es => go (pending.filter (· != a)) es   -- a fresh start supersedes
    | _ :: es => go pending es
  go [] evs

/-- after `Stop` was decided for `v` nothing but its termination is handled by `v`; after `Restart`
the next thing `v` handles (apart from notifications about others) is `OnRestarting` -/
def c04directive (evs : List Event) : Option String :=
  let rec go (stopped : List Aid) : List Event → Option String
    | [] => none
    | .decided _ v .stop _ :: es => go (v :: stopped) es
    | .handled a _ (.user _) _ :: es =>
      if stopped.contains a then some s!"c04:user-message-after-stop-{a}" else go stopped es
    | .handled a _ .launch _ :: es => go (stopped.filter (· != a)) es
    | _ :: es => go stopped es
  go [] evs

/-- "Resume continues with the same instance and the queued messages": `stuck` lists the alive
actors that still hold messages when nothing can run any more (no runner anywhere, no timer armed).
Such an actor is acceptable only while its supervisor has not decided; if the last word about it was
a Resume decision, the directive did not take effect. -/
def c04stuck (evs : List Event) (stuck : List Aid) : Option String :=
  stuck.findSome? fun a =>
    let last : Option (Option Directive) := evs.reverse.findSome? fun e => match e with
      | .failed a' => if a' == a then some none else none
      | .decided _ v d _ => if v == a then some (some d) else none
      | _ => none
    match last with
    | some (some .resume) => some s!"c04:resumed-actor-{a}-never-continues-with-its-queued-messages"
    | _ => none

/-- "Escalate passes the decision to the next ancestor": after `sup` answered Escalate for the
`c`-th accident of `v`, the next decision about that accident — if any — is taken by a proper
ancestor of `sup` (ancestors without a strategy pass the record on without deciding), never by `sup`
itself again nor by anybody outside the path to the root -/
def c04escalate (evs : List Event) : Option String :=
  let rec go : List Event → Option String
    | [] => none
    | .decided sup v .escalate c :: es =>
      let next := es.findSome? fun e => match e with
        | .decided sup' v' _ c' => if v' == v && c' == c then some sup' else none
        | _ => none
      match next with
      | some sup' =>
        if isAncestor evs sup' evs.length sup then go es
        else some s!"c04:escalated-decision-about-{v}-taken-by-{sup'}-who-is-no-ancestor-of-{sup}"
      | none => go es
    | _ :: es => go es
  go evs

end MV.Spec.ActorSys
