import MV.Model.ActorSys
/-!
# Specifications of C03–C06 as Bool checkers over the global event record of a run

The same predicates judge (a) event lists of the Lean model — the theorems of `MV.Props.C03…C06`
are about them — and (b) event lists recorded from the real actor system by the harness.
Every checker returns `none` when satisfied and `some label` naming the violated clause.
-/
namespace MV.Spec.ActorSys
open MV.Model.ActorSys

/-- handler observations of one incarnation, in order -/
def obsOf (evs : List Event) (a : Aid) (inc : Nat) : List Obs :=
  evs.filterMap fun e => match e with
    | .handled a' i o _ => if a' == a && i == inc then some o else none
    | _ => none

def incarnations (evs : List Event) : List (Aid × Nat) :=
  (evs.filterMap fun e => match e with
    | .handled a i _ _ => some (a, i)
    | _ => none).eraseDups

/-! ## C03 — well-formed lifecycle per incarnation

phases: 0 = nothing handled yet, 1 = `OnRestarted` seen (restart only), 2 = launched, 3 = `OnRestarting`
seen, 4 = `OnTerminate` seen, 5 = own `OnTerminated` seen (final). -/
def lcStep (self : Aid) (inc : Nat) : Nat → Obs → Except String Nat
  | 0, .launch => if inc == 0 then .ok 2 else .error "launch-without-restarted"
  | 0, .restarted => if inc == 0 then .error "restarted-on-first-incarnation" else .ok 1
  | 0, o => .error ((if inc == 0 then "before-launch:" else "before-launch-after-restart:") ++ (match o with
      | .user _ => "user" | .terminated _ => "terminated" | .terminate => "terminate"
      | .restarting => "restarting" | .dead _ _ => "dead" | _ => "other"))
  | 1, .launch => .ok 2
  | 1, _ => .error "between-restarted-and-launch"
  | 2, .launch => .error "second-launch"
  | 2, .restarted => .error "restarted-after-launch"
  | 2, .restarting => .ok 3
  | 2, .terminate => .ok 4
  | 2, .terminated w => if w == self then .error "terminated-without-terminate" else .ok 2
  | 2, _ => .ok 2
  | 3, .terminate => .ok 4
  | 3, .terminated w => if w == self then .error "terminated-without-terminate" else .ok 3
  | 3, .user _ => .error "user-message-during-restart"
  | 3, .dead _ _ => .error "user-message-during-restart"
  | 3, _ => .error "lifecycle-during-restart"
  | 4, .terminated w => if w == self then .ok 5 else .ok 4
  | 4, .user _ => .error "user-message-after-terminate"
  | 4, .dead _ _ => .error "user-message-after-terminate"
  | 4, _ => .error "lifecycle-after-terminate"
  | 5, .terminated _ => .error "after-own-terminated:terminated"
  | 5, .user _ => .error "after-own-terminated:user"
  | 5, _ => .error "after-own-terminated:other"
  | _, _ => .error "bad-phase"

def lcRun (self : Aid) (inc : Nat) : Nat → List Obs → Except String Nat
  | p, [] => .ok p
  | p, o :: os => match lcStep self inc p o with
    | .ok p' => lcRun self inc p' os
    | .error e => .error e

/-- C03 for a whole run: every incarnation's observation sequence is a prefix of a well-formed
lifecycle; an incarnation that was replaced by a restart (a later incarnation exists) ended with
`Restarting Terminate Terminated` -/
def c03 (evs : List Event) : Option String :=
  (incarnations evs).findSome? fun (a, i) =>
    match lcRun a i 0 (obsOf evs a i) with
    | .error e => some s!"c03:{e}"
    | .ok p =>
      if (incarnations evs).any (fun (a', i') => a' == a && i' > i) && p != 5 then
        some "c03:replaced-incarnation-not-finished"
      else none

/-! ## C05 — children before parents -/

def parentOf (evs : List Event) (c : Aid) : Option Aid :=
  evs.findSome? fun e => match e with
    | .spawned p c' => if c' == c then some p else none
    | _ => none

def idxTerminatedSelf (evs : List Event) (a : Aid) : Option Nat :=
  (List.range evs.length).find? fun i => match evs[i]? with
    | some (Event.handled a' _ (.terminated w) _) => a' == a && w == a
    | _ => false

/-- the LAST own-`OnTerminated` of `a` (its final one, after any restarts) -/
def lastTerminatedSelf (evs : List Event) (a : Aid) : Option Nat :=
  ((List.range evs.length).reverse).find? fun i => match evs[i]? with
    | some (Event.handled a' _ (.terminated w) _) => a' == a && w == a
    | _ => false

/-- every own-`OnTerminated` of a parent is preceded by an own-`OnTerminated` of each child spawned
before it -/
def c05order (evs : List Event) : Option String :=
  (List.range evs.length).findSome? fun i => match evs[i]? with
    | some (Event.handled p _ (.terminated w) _) =>
      if w != p then none else
      -- children spawned before i
      ((List.range i).findSome? fun j => match evs[j]? with
        | some (Event.spawned p' c) =>
          if p' != p then none else
          if ((List.range i).any fun k => k > j && (match evs[k]? with
                | some (Event.handled c' _ (.terminated w') _) => c' == c && w' == c
                | _ => false)) then none
          else
            -- was the child created while the parent was already handling its own termination?
            if ((List.range j).any fun k => match evs[k]? with
                  | some (Event.handled p'' _ .terminate _) => p'' == p
                  | _ => false)
            then some s!"c05:child-{c}-spawned-while-parent-{p}-terminating-outlives-it"
            else some s!"c05:parent-{p}-terminated-before-child-{c}"
        | _ => none)
    | _ => none

/-- in a quiescent final state nobody outlives a parent that is gone (`gone` = terminated and
unregistered) -/
def c05complete (evs : List Event) (gone : Aid → Bool) : Option String :=
  (List.range evs.length).findSome? fun j => match evs[j]? with
    | some (Event.spawned p c) =>
      if p ≥ 2 && gone p && !gone c then
        if ((List.range j).any fun k => match evs[k]? with
              | some (Event.handled p' _ .terminate _) => p' == p
              | _ => false)
        then some s!"c05:child-{c}-spawned-while-parent-{p}-terminating-outlives-it"
        else some s!"c05:child-{c}-outlives-terminated-parent-{p}"
      else none
    | _ => none

/-- in a quiescent final state every actor whose termination was requested is gone -/
def c05requests (evs : List Event) (gone : Aid → Bool) : Option String :=
  evs.findSome? fun e => match e with
    | .killreq t =>
      if t ≥ 2 && t < ghostBase && !gone t then
        -- did a handler of `t` fail after `t` had begun to terminate? (then it stays `terminating`)
        let began := (List.range evs.length).find? fun k => match evs[k]? with
          | some (Event.handled a _ .terminate _) => a == t
          | _ => false
        match began with
        | some k =>
          if ((List.range evs.length).any fun j => j > k && (match evs[j]? with
                | some (Event.failed a) => a == t
                | _ => false))
          then some s!"c05:terminate-request-for-{t}-stuck-handler-failed-during-termination"
          else if ((List.range evs.length).any fun j => j > k && (match evs[j]? with
                | some (Event.spawned p c) => p == t && !gone c
                | _ => false))
          then some s!"c05:terminate-request-for-{t}-waits-for-child-spawned-during-termination"
          else some s!"c05:terminate-request-for-{t}-had-no-effect"
        | none => some s!"c05:terminate-request-for-{t}-had-no-effect"
      else none
    | _ => none

/-! ## C06 — exactly one notification for the parent and for every watcher -/

def countNotified (evs : List Event) (o t : Aid) : Nat :=
  (evs.filter fun e => match e with
    | .handled o' _ (.terminated w) _ => o' == o && w == t
    | _ => false).length

def countWatchRequests (evs : List Event) (o t : Aid) : Nat :=
  (evs.filter fun e => match e with
    | .watch o' t' => o' == o && t' == t
    | _ => false).length

/-- nobody is told more often about one termination than it asked for: at most once — a repeated
`Watch` on an address that is already dead is answered each time, which is not counted against the
property (the observer asked again) -/
def c06dup (evs : List Event) : Option String :=
  evs.findSome? fun e => match e with
    | .handled o _ (.terminated t) _ =>
      if o != t && countNotified evs o t > max 1 (countWatchRequests evs o t)
      then some s!"c06:duplicate-notification-{o}-about-{t}" else none
    | _ => none

/-- is `w` watching `t` at the end (last request wins)? -/
def watching (evs : List Event) (w t : Aid) : Bool :=
  (evs.foldl (fun acc e => match e with
    | .watch w' t' => if w' == w && t' == t then true else acc
    | .unwatch w' t' => if w' == w && t' == t then false else acc
    | _ => acc) false)

/-- in a quiescent final state: for every actor `t` that terminated for good, its parent and every
actor that watches it and is still alive have handled exactly one `OnTerminated t`.
`alive o` = `o` is alive in the final state; `gone t` = `t` is terminated and unregistered. -/
def c06missing (evs : List Event) (alive gone : Aid → Bool) : Option String :=
  evs.findSome? fun e => match e with
    | .watch w t =>
      if gone t && alive w && watching evs w t && countNotified evs w t == 0
      then some s!"c06:watcher-{w}-never-told-about-{t}" else none
    | .spawned p c =>
      if p ≥ 2 && gone c && alive p && countNotified evs p c == 0
      then some s!"c06:parent-{p}-never-told-about-{c}" else none
    | _ => none

/-- an actor that neither watches nor is the parent is not notified -/
def c06unsolicited (evs : List Event) : Option String :=
  evs.findSome? fun e => match e with
    | .handled o _ (.terminated t) _ =>
      if o == t then none
      else if parentOf evs t == some o then none
      else if evs.any (fun e' => match e' with | .watch w t' => w == o && t' == t | _ => false) then none
      else some s!"c06:unsolicited-notification-{o}-about-{t}"
    | _ => none

/-! ## C04 — suspended until the supervisor has decided -/

/-- between a failure of `a` and the next decision about `a`, `a` handles no user message -/
def c04suspended (evs : List Event) : Option String :=
  let rec go (pending : List Aid) : List Event → Option String
    | [] => none
    | .failed a :: es => go (if pending.contains a then pending else a :: pending) es
    | .decided _ v _ _ :: es => go (pending.filter (· != v)) es
    | .handled a _ (.user _) _ :: es =>
      if pending.contains a then some s!"c04:user-message-handled-while-awaiting-decision-{a}" else go pending es
    | .handled a _ .launch _ :: es => go (pending.filter (· != a)) es   -- a fresh start supersedes
    | _ :: es => go pending es
  go [] evs

/-- after `Stop` was decided for `v` nothing but its termination is handled by `v`; after `Restart`
the next thing `v` handles (apart from notifications about others) is `OnRestarting` -/
def c04directive (evs : List Event) : Option String :=
  let rec go (stopped : List Aid) : List Event → Option String
    | [] => none
    | .decided _ v .stop _ :: es => go (v :: stopped) es
    | .handled a _ (.user _) _ :: es =>
      if stopped.contains a then some s!"c04:user-message-after-stop-{a}" else go stopped es
    | .handled a _ .launch _ :: es => go (stopped.filter (· != a)) es
    | _ :: es => go stopped es
  go [] evs

end MV.Spec.ActorSys
