import MV.Model.Backoff
/-!
# Specification of the back-off delay (C18), in exact integer arithmetic

Independent of the `FVal` model.  With `product = base * (mn/md)^count` and the jitter half-width
`w = (rn/rd)/2 * base`, the documented contract for an answer `d` is

* `d = -1` exactly when a limit is set (`limit ≥ 0`) and `count > limit`; otherwise
* `0 ≤ d ≤ max`,
* `d ≥ min(max, ⌊product - w⌋)` and `d ≤ ⌊product + w⌋` (the jitter band; the clamp to `max`),
  hence `d = max` once `⌊product - w⌋ ≥ max` (saturation), however large `count` is.

`verdict tol p d` / `accept tol p d` is the `Bool` version used by the oracle on the implementation's answers;
`tol` widens the band (IEEE rounding is outside the model).  The clauses only make sense on the
documented domain `inDomain` (multiplier ≥ 1, 0 ≤ randomization ≤ 2, 0 ≤ base, max < 2^63).

Core Lean only.
-/
namespace MV.Spec.Backoff
open MV.Model.Backoff (Params)

/-- a limit is set and exceeded -/
def stop (p : Params) : Bool := decide (0 ≤ p.limit ∧ p.limit < (p.count : Int))

/-- the documented ranges of the arguments -/
def inDomain (p : Params) : Bool :=
  decide (0 < p.md ∧ 0 < p.rd ∧ p.md ≤ p.mn ∧ p.rn ≤ 2 * p.rd ∧
    0 ≤ p.base ∧ p.base < 2 ^ 63 ∧ 0 ≤ p.max ∧ p.max < 2 ^ 63)

/-- common denominator `2 * rd * md^count` -/
def den (p : Params) : Int := 2 * (p.rd : Int) * ((p.md ^ p.count : Nat) : Int)

/-- numerator of `product - w` -/
def lowNum (p : Params) : Int :=
  p.base * (2 * (p.rd : Int) * ((p.mn ^ p.count : Nat) : Int) - (p.rn : Int) * ((p.md ^ p.count : Nat) : Int))

/-- numerator of `product + w` -/
def highNum (p : Params) : Int :=
  p.base * (2 * (p.rd : Int) * ((p.mn ^ p.count : Nat) : Int) + (p.rn : Int) * ((p.md ^ p.count : Nat) : Int))

/-- `⌊product - w⌋` -/
def floorLow (p : Params) : Int := lowNum p / den p
/-- `⌊product + w⌋` -/
def floorHigh (p : Params) : Int := highNum p / den p

/-- the clauses of the contract -/
inductive Verdict where
  | ok | stopExpected | stopUnexpected | negative | aboveMax | saturate | bandLow | bandHigh
  deriving DecidableEq, Repr

def Verdict.text : Verdict → String
  | .ok => "ok"
  | .stopExpected => "bad:stop-expected"
  | .stopUnexpected => "bad:stop-unexpected"
  | .negative => "bad:negative"
  | .aboveMax => "bad:above-max"
  | .saturate => "bad:saturate"
  | .bandLow => "bad:band-low"
  | .bandHigh => "bad:band-high"

/-- verdict on an answer `d` -/
def verdict (tol : Int) (p : Params) (d : Int) : Verdict :=
  if stop p then (if d = -1 then .ok else .stopExpected)
  else if d = -1 then .stopUnexpected
  else if d < 0 then .negative
  else if d > p.max then .aboveMax
  else if d < p.max ∧ d < floorLow p - tol then
    (if p.max ≤ floorLow p - tol then .saturate else .bandLow)
  else if floorHigh p + tol < d then .bandHigh
  else .ok

def accept (tol : Int) (p : Params) (d : Int) : Bool := verdict tol p d = .ok

/-- the tolerance used on the implementation: relative `2^-40` of the upper band edge, plus one
    nanosecond for the truncation -/
def tolOf (p : Params) : Int := floorHigh p / 2 ^ 40 + 1

end MV.Spec.Backoff
