import MV.Model.Geometry
/-!
# Specification side of the geometry part of C20

* definitions of the geometric notions themselves (`OnSeg`, lexicographic interval intersection,
  convex containment by orientation signs, central symmetry), as `Prop`s for the theorems and as
  `Bool`/`Option` functions for the oracle's spec and judge roles;
* the judge's numeric machinery: an exact decimal parser (`parseDec`, Go's `%.12g` output →
  `Rat`) and the tolerance comparison `near` (`|impl − exact| ≤ 1e-9`); no `Float` anywhere.

Core Lean only.
-/
namespace MV.Spec.Geometry
open MV.Model.Geometry

/-! ## decimal strings → exact rationals -/

def digitsToNat (cs : List Char) : Option Nat :=
  cs.foldlM (fun acc c => if c.isDigit then some (acc * 10 + (c.toNat - 48)) else none) 0

/-- `[-+]digits[.digits][(e|E)[-+]digits]` → the exact rational; `none` for anything else
    (`NaN`, `+Inf`, empty, …) -/
def parseDec (s : String) : Option Rat :=
  let cs := s.toList
  let (neg, cs) := match cs with
    | '-' :: r => (true, r)
    | '+' :: r => (false, r)
    | _ => (false, cs)
  let isE := fun (c : Char) => c == 'e' || c == 'E'
  let mant := cs.takeWhile (fun c => !isE c)
  let rest := cs.dropWhile (fun c => !isE c)
  let ip := mant.takeWhile (· ≠ '.')
  let fp := (mant.dropWhile (· ≠ '.')).drop 1
  let dots := (mant.filter (· == '.')).length
  if (ip.isEmpty && fp.isEmpty) || dots > 1 then none
  else do
    let i ← digitsToNat ip
    let f ← digitsToNat fp
    let m : Rat := ((i * 10 ^ fp.length + f : Nat) : Rat) / ((10 ^ fp.length : Nat) : Rat)
    let e : Int ← match rest with
      | [] => some 0
      | _ :: es =>
        let (eneg, ds) := match es with
          | '-' :: r => (true, r)
          | '+' :: r => (false, r)
          | _ => (false, es)
        if ds.isEmpty then none
        else do
          let k ← digitsToNat ds
          if k > 400 then none else some (if eneg then -(k : Int) else (k : Int))
    let v : Rat := if e ≥ 0 then m * ((10 ^ e.toNat : Nat) : Rat) else m / ((10 ^ (-e).toNat : Nat) : Rat)
    some (if neg then -v else v)

def tol : Rat := 1 / 1000000000

/-- `|a − b| ≤ 1e-9` -/
def near (a b : Rat) : Bool := decide ((a - b).abs ≤ tol)

def nearPt (a b : Pt) : Bool := near a.x b.x && near a.y b.y

/-! ## segments -/

/-- the point `a + t (b − a)` -/
def lerp (a b : Pt) (t : Rat) : Pt := ⟨a.x + t * (b.x - a.x), a.y + t * (b.y - a.y)⟩

/-- `p` lies on the closed segment `ab` -/
def OnSeg (a b p : Pt) : Prop := ∃ t : Rat, 0 ≤ t ∧ t ≤ 1 ∧ p = lerp a b t

def dot (a b p : Pt) : Rat := (p.x - a.x) * (b.x - a.x) + (p.y - a.y) * (b.y - a.y)

/-- brute-force decision of `OnSeg`: collinear and the projection parameter is in `[0,1]` -/
def onSegB (a b p : Pt) : Bool :=
  if distSq a b = 0 then decide (p = a)
  else decide (areaTwice a b p = 0) && decide (0 ≤ dot a b p) && decide (dot a b p ≤ distSq a b)

/-- brute-force minimality of a candidate closest point `q` (within slack `e` on squared
    distances): no sample point `a + (k/64)(b − a)` is closer to `p` -/
def minimalOnSamples (a b p q : Pt) (e : Rat) : Bool :=
  (List.range 65).all fun k => decide (distSq p q ≤ distSq p (lerp a b ((k : Rat) / 64)) + e)

/-- lexicographic order used by `CalcLineSegmentOverlap` -/
def lexLt (a b : Pt) : Prop := a.x < b.x ∨ (a.x = b.x ∧ a.y < b.y)
instance (a b : Pt) : Decidable (lexLt a b) := by unfold lexLt; infer_instance
def lexMin (a b : Pt) : Pt := if lexLt b a then b else a
def lexMax (a b : Pt) : Pt := if lexLt b a then a else b

/-- intersection of the lexicographic intervals `[a,b]` and `[c,d]` if it has more than one point -/
def overlapSpec (a b c d : Pt) : Option (Pt × Pt) :=
  let lo := lexMax (lexMin a b) (lexMin c d)
  let hi := lexMin (lexMax a b) (lexMax c d)
  if lexLt lo hi then some (lo, hi) else none

/-! ## polygons -/

/-- strictly convex (all turns have the same strict orientation) -/
def convexB (l : List Pt) : Bool :=
  match l with
  | p0 :: p1 :: _ =>
    let tri := (l.zip (l.drop 1 ++ [p0])).zip (l.drop 2 ++ [p0, p1])
    let turns := tri.map fun e => areaTwice e.1.1 e.1.2 e.2
    decide (3 ≤ l.length) && (turns.all (fun t => decide (0 < t)) || turns.all (fun t => decide (t < 0)))
  | _ => false

/-- containment in a strictly convex polygon by orientation signs; `none` when the point is on the
    line of some edge (decision boundary) or the polygon is not strictly convex -/
def insideConvex (l : List Pt) (p : Pt) : Option Bool :=
  if !convexB l then none
  else
    let s := (edges l).map fun e => areaTwice e.1 e.2 p
    if s.any (fun t => decide (t = 0)) then none
    else some (s.all (fun t => decide (0 < t)) || s.all (fun t => decide (t < 0)))

/-- closed containment (interior or boundary) in a strictly convex polygon -/
def insideOrOnConvex (l : List Pt) (p : Pt) : Bool :=
  let s := (edges l).map fun e => areaTwice e.1 e.2 p
  convexB l && (s.all (fun t => decide (0 ≤ t)) || s.all (fun t => decide (t ≤ 0)))

def reflect (c p : Pt) : Pt := ⟨2 * c.x - p.x, 2 * c.y - p.y⟩

/-- the vertex list is symmetric under the point reflection through `c` -/
def CentrallySymmetric (c : Pt) (l : List Pt) : Prop := (l.map (reflect c)).Perm l

def count (l : List Pt) (p : Pt) : Nat := l.countP (· == p)

def centrallySymmetricB (c : Pt) (l : List Pt) : Bool :=
  l.all fun p => count l p == count l (reflect c p)

/-- centre of the bounding box (the only possible centre of symmetry) -/
def bboxCentre (l : List Pt) : Option Pt :=
  match l with
  | [] => none
  | p :: r =>
    let minx := r.foldl (fun m q => min m q.x) p.x
    let maxx := r.foldl (fun m q => max m q.x) p.x
    let miny := r.foldl (fun m q => min m q.y) p.y
    let maxy := r.foldl (fun m q => max m q.y) p.y
    some ⟨(minx + maxx) / 2, (miny + maxy) / 2⟩

end MV.Spec.Geometry
