/-!
# Specification of the scheduler: what a registration is supposed to do

The property, in closed form, with no timing wheel, no timer objects and no trigger counters: a
registration made at time `base` with (clamped) delay `after`, interval `interval` and repeat count
`total` (`≤ 0` = forever) has its firings due at `base + after + k * interval`, `k < total`; a firing
happens iff it is due no later than the moment the registration stopped being current (re-registered
name, `UnregisterTask`, `Clear`, `Close`) — under ideal timing, which is what the deterministic
executable of `MV.Model.Scheduler` implements and what the differential suite arranges (every
decision is taken at least 3 ticks after and 7 ticks before any due time).

Core Lean only.
-/

namespace MV.Spec.Scheduler

structure Reg where
  name : Nat
  base : Nat
  after : Nat
  interval : Nat
  total : Int
  cron : Option Nat
  cancel : Option Nat      -- time at which the registration stopped being current
  dead : Bool              -- made on a closed scheduler: never fires
  deriving Repr

/-- number of due times `base + after + k * interval` (`k = 0, 1, …`) that are `≤ T` -/
def dueCount (base after interval T : Nat) : Nat :=
  if T < base + after then 0 else (T - (base + after)) / interval + 1

/-- firings of a registration up to time `T` -/
def Reg.count (r : Reg) (T : Nat) : Nat :=
  if r.dead then 0 else
  let T' := match r.cancel with | some c => min c T | none => T
  match r.cron with
  | some p => T' / p - r.base / p
  | none =>
    let k := dueCount r.base r.after r.interval T'
    if r.total > 0 then min k r.total.toNat else k

structure State where
  tick : Nat
  now : Nat
  regs : List Reg          -- in registration order
  stopped : Bool

def init (tick : Nat) : State := { tick := tick, now := 0, regs := [], stopped := false }

def clampMs (tick : Nat) (d : Int) : Nat := if d < (tick : Int) then tick else d.toNat

def cancelIf (now : Nat) (p : Reg → Bool) (rs : List Reg) : List Reg :=
  rs.map (fun r => if r.cancel.isNone && p r then { r with cancel := some now } else r)

def cancelName (s : State) (n : Nat) : State := { s with regs := cancelIf s.now (fun r => r.name = n) s.regs }
def cancelAll (s : State) : State := { s with regs := cancelIf s.now (fun _ => true) s.regs }

/-- a closed scheduler ignores registrations (`if s.closed { return }`) -/
def register (s : State) (n : Nat) (after interval : Int) (cron : Option Nat) (times : Int) : State :=
  if s.stopped then s else
  let s1 := cancelName s n
  let r : Reg := { name := n, base := s.now,
                   after := (match cron with | none => clampMs s.tick after | some _ => 0),
                   interval := (match cron with | none => clampMs s.tick interval | some _ => 0),
                   total := times, cron := cron, cancel := none, dead := false }
  { s1 with regs := s1.regs ++ [r] }

def counts (s : State) : List Nat :=
  s.regs.map (fun r => r.count s.now)

def registered (s : State) : List Nat := (s.regs.filter (fun r => r.cancel.isNone)).map (·.name)

end MV.Spec.Scheduler
