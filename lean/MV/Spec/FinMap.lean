import MV.Model.SyncMap
/-!
# Finite-map specification for `SyncMap`, `Bucket`, `MutexBucket` (C16)

The abstract finite map is a function `Int → Option Int` observed through `lookup`; the executable
spec keeps it as an association list with the three primitive operations `put`, `remove`, `lookup`
only.  `MV.Lemmas.FinMap` proves the function laws (`lookup_put`, `lookup_remove`, …).
An operation on an absent key changes nothing and answers the zero value / `false`.
-/
namespace MV.Spec.FinMap
open MV.Model (Out FMap)

abbrev M := List (Int × Int)

def lookup (m : M) (k : Int) : Option Int := List.lookup k m
def remove (m : M) (k : Int) : M := m.filter (fun e => e.1 != k)
def put (m : M) (k v : Int) : M := (k, v) :: remove m k

/-- spec of the `SyncMap` methods -/
def stepSync (m : M) : MV.Model.SyncMap.Op → M × Out
  | .set k v => (put m k v, .unit)
  | .get k => (m, .int ((lookup m k).getD 0))
  | .exist k => (m, .bool (lookup m k).isSome)
  | .getExist k => (m, .intBool ((lookup m k).getD 0) (lookup m k).isSome)
  | .delete k => (remove m k, .unit)
  | .deleteGet k => (remove m k, .int ((lookup m k).getD 0))
  | .deleteGetExist k => (remove m k, .intBool ((lookup m k).getD 0) (lookup m k).isSome)
  | .deleteExist k => (remove m k, .bool (lookup m k).isSome)
  | .clear => ([], .unit)
  | .clearHandle => ([], .rows (FMap.entries m))
  | .range => (m, .rows (FMap.entries m))
  | .rangeStop n => (m, .int (if n ≤ 0 then (if m.length = 0 then 0 else 1) else min n.toNat m.length))
  | .keys => (m, .ints (FMap.keys m))
  | .slice => (m, .ints (FMap.vals m))
  | .map => (m, .rows (FMap.entries m))
  | .size => (m, .int m.length)
  | .atom k v d => (remove (put m k v) d, .unit)

def runSync (m : M) : List MV.Model.SyncMap.Op → List Out
  | [] => []
  | op :: ops => let (m', r) := stepSync m op; r :: runSync m' ops

/-- spec of the bucket methods: the bucket structure is invisible -/
def stepBucket (m : M) : MV.Model.Bucket.Op → M × Out
  | .get k => (m, .intBool ((lookup m k).getD 0) (lookup m k).isSome)
  | .set k v => (put m k v, .unit)
  | .del k => (remove m k, .unit)
  | .len => (m, .int m.length)
  | .clear => ([], .unit)
  | .getOrSet k v => match lookup m k with
      | some x => (m, .intBool x true)
      | none => (put m k v, .intBool v false)
  | .getAndDel k => (remove m k, .intBool ((lookup m k).getD 0) (lookup m k).isSome)

def runBucket (m : M) : List MV.Model.Bucket.Op → List Out
  | [] => []
  | op :: ops => let (m', r) := stepBucket m op; r :: runBucket m' ops

end MV.Spec.FinMap
