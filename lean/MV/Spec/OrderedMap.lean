import MV.Model.OrderMap
/-!
# Ordered-map specification (C16)

State: the association list of live entries (one per key) in visiting order plus a flag `clean`
("nothing was deleted since the map was last empty").  While `clean`, the visiting order *is* the
insertion order; after a deletion the order is not determined at this level (only the set of
entries is: `rangeSorted`).
-/
namespace MV.Spec.OrderedMap
open MV.Model (Out sortRows)
open MV.Model.OrderMap (Op)

structure St where
  l : List (Int × Int)
  clean : Bool
  deriving Repr

def init : St := ⟨[], true⟩

def put (l : List (Int × Int)) (k v : Int) : List (Int × Int) :=
  if (l.lookup k).isSome then l.map (fun e => if e.1 == k then (k, v) else e) else l ++ [(k, v)]

def step (s : St) : Op → St × Out
  | .get k => match s.l.lookup k with
      | some v => (s, .intBool v true)
      | none => (s, .intBool 0 false)
  | .add k v => (if (s.l.lookup k).isSome then s else { s with l := s.l ++ [(k, v)] }, .unit)
  | .set k v => ({ s with l := put s.l k v }, .unit)
  | .len => (s, .int s.l.length)
  | .del k =>
      if (s.l.lookup k).isSome then
        let l' := s.l.filter (fun e => e.1 != k)
        ({ l := l', clean := l'.isEmpty }, .unit)
      else (s, .unit)
  | .range => (s, if s.clean then .rows (s.l.map (fun e => [e.1, e.2])) else .undet)
  | .rangeSorted => (s, .rows (sortRows (s.l.map (fun e => [e.1, e.2]))))
  | .rangeN n => (s, if s.clean then .rows ((s.l.take n.toNat).map (fun e => [e.1, e.2])) else .undet)

def run (s : St) : List Op → List Out
  | [] => []
  | op :: ops => let (s', r) := step s op; r :: run s' ops

end MV.Spec.OrderedMap
