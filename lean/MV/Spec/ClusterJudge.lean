import MV.Spec.ClusterRegistry
/-!
# Judge of one concurrent phase of lookups (C13)

K callers send lookups at the same time; the manager serialises them in an order nobody outside
can see.  What *can* be said about the answers, whatever the order, is the property itself:

* `cAbility`  — an ability that is not offered is answered `err:ability`, an offered one never;
* `cLive`     — a pair that was live before the phase is answered with the reference it had;
* `cSame`     — the same pair gets the same answer from every caller, every time;
* `cFresh`    — a reference for a pair that was not live is the *next* launch at the pair's own address
                `identity-ability`, of a legal name that no live pair held;
* `cDistinct` — two new references with the same address belong to the same pair;
* `cRefusal`  — a refusal `err:create` has a reason: illegal name, address held by a live pair, or
                address won by another pair in this phase;
* `cLaunch`   — the launch counters the ability's provider reports afterwards have grown by exactly one
                for every address that got a new reference, and not at all otherwise (at most one
                launch per live pair, however many callers asked).

`accepts` is their conjunction, a `Bool` function of the registry state before the phase
(`MV.Spec.ClusterRegistry.Reg`), the observed (pair, answer) list in any order, and the reported
counters.  Every clause quantifies over *membership* in the observation list only, so the verdict
does not depend on the order or multiplicity in which the harness reports the answers.
`MV.Props.C13.C13_judge_accepts_model` proves that the answers of the manager model pass the judge
for every serialisation of every multiset of requests, reported in any order, and that `advance`
then describes the manager's state after the phase (so the next phase is judged against the right
registry).
-/
namespace MV.Spec.ClusterJudge
open MV.Model.ClusterManager (Name Key Ref Reply nameOf legalName)
open MV.Spec.ClusterRegistry

/-- one answered request -/
abbrev Obs := Key × Reply

def offeredKey (t : Reg) (k : Key) : Bool := decide (k.1 ∈ t.offered)

/-- a reference handed out for an offered pair that was not live before the phase -/
def isNewRef (t : Reg) (o : Obs) : Bool :=
  match o.2 with
  | .ref _ => offeredKey t o.1 && (findLive t.live o.1).isNone
  | _ => false

/-- could the pair be created at the start of the phase? -/
def free (t : Reg) (k : Key) : Bool := legalName k.2 && legalName k.1 && !nameTaken t.live k

def cAbility (t : Reg) (obs : List Obs) : Bool :=
  obs.all fun o => if offeredKey t o.1 then o.2 != .errAbility else o.2 == .errAbility

def cLive (t : Reg) (obs : List Obs) : Bool :=
  obs.all fun o => !offeredKey t o.1 ||
    match findLive t.live o.1 with
    | some n => o.2 == .ref ⟨keyName o.1, n⟩
    | none => true

def cSame (obs : List Obs) : Bool :=
  obs.all fun o => obs.all fun o' => o'.1 != o.1 || o'.2 == o.2

def cFresh (t : Reg) (obs : List Obs) : Bool :=
  obs.all fun o => !isNewRef t o ||
    (o.2 == .ref ⟨keyName o.1, t.launches.count (keyName o.1) + 1⟩ && free t o.1)

def cDistinct (t : Reg) (obs : List Obs) : Bool :=
  obs.all fun o => obs.all fun o' =>
    !(isNewRef t o && isNewRef t o' && keyName o.1 == keyName o'.1) || o.1 == o'.1

def cRefusal (t : Reg) (obs : List Obs) : Bool :=
  obs.all fun o => !(o.2 == .errCreate && offeredKey t o.1 && (findLive t.live o.1).isNone && free t o.1) ||
    obs.any fun o' => isNewRef t o' && keyName o'.1 == keyName o.1

/-- the counter reported for an address (absent = 0) -/
def reportedCount (reported : List (Name × Nat)) (n : Name) : Nat :=
  match reported.find? (fun e => e.1 == n) with
  | some e => e.2
  | none => 0

/-- does the phase hand out a new reference at address `n`? -/
def launchedNow (t : Reg) (obs : List Obs) (n : Name) : Bool :=
  obs.any fun o => isNewRef t o && keyName o.1 == n

def expectedCount (t : Reg) (obs : List Obs) (n : Name) : Nat :=
  t.launches.count n + (if launchedNow t obs n then 1 else 0)

/-- the addresses whose counters are compared: every reported one, every one launched before,
    every one of a requested pair -/
def candidates (t : Reg) (obs : List Obs) (reported : List (Name × Nat)) : List Name :=
  reported.map (·.1) ++ t.launches ++ obs.map (fun o => keyName o.1)

def cLaunch (t : Reg) (obs : List Obs) (reported : List (Name × Nat)) : Bool :=
  (candidates t obs reported).all fun n => reportedCount reported n == expectedCount t obs n

def accepts (t : Reg) (obs : List Obs) (reported : List (Name × Nat)) : Bool :=
  cAbility t obs && cLive t obs && cSame obs && cFresh t obs && cDistinct t obs && cRefusal t obs &&
    cLaunch t obs reported

/-- first failing clause, for the report -/
def verdict (t : Reg) (obs : List Obs) (reported : List (Name × Nat)) : String :=
  if !cAbility t obs then "bad:unknown-ability-not-an-error"
  else if !cLive t obs then "bad:live-pair-got-another-reference"
  else if !cSame obs then "bad:same-pair-different-answers"
  else if !cFresh t obs then "bad:new-reference-wrong-address-or-launch"
  else if !cDistinct t obs then "bad:two-pairs-share-an-actor"
  else if !cRefusal t obs then "bad:refused-without-reason"
  else if !cLaunch t obs reported then "bad:launch-count"
  else "ok"

def dedup : List Key → List Key
  | [] => []
  | k :: ks => if k ∈ dedup ks then dedup ks else k :: dedup ks

/-- the pairs that got a new reference in the phase, each once -/
def newKeys (t : Reg) (obs : List Obs) : List Key := dedup ((obs.filter (isNewRef t)).map (·.1))

/-- the registry after an accepted phase: every pair with a new reference becomes live with the next
    launch number of its address (what `cFresh` checked), one launch is logged for it -/
def advance (t : Reg) (obs : List Obs) : Reg :=
  { t with live := (newKeys t obs).map (fun k => (k, t.launches.count (keyName k) + 1)) ++ t.live,
           launches := (newKeys t obs).map keyName ++ t.launches }

end MV.Spec.ClusterJudge
