import MV.Model.Mailbox
/-!
# Specification of C01/C02 at the mailbox level, as Bool checkers over event traces

The same definitions judge (a) traces of the Lean model — the theorems of `MV.Props.C01/C02` prove they
hold for every schedule — and (b) traces recorded from the instrumented Go mailbox.
-/
namespace MV.Spec.Mailbox
open MV.Model.Mailbox

/-- C01: handler invocations never overlap: `enter` only when no invocation is open, `exit` only
for the open invocation, `accident` (runs inside the runner) only when none is open. State: `none` =
violated, `some o` = fine so far with `o` the open invocation. Ghost `pop` events are ignored. -/
def bstep : Option (Option (Bool × Msg)) → Event → Option (Option (Bool × Msg))
  | none, _ => none
  | some o, .pop _ _ => some o
  | some none, .enter s m => some (some (s, m))
  | some (some _), .enter _ _ => none
  | some (some (s, m)), .exit s' m' => if s == s' && m == m' then some none else none
  | some none, .exit _ _ => none
  | some none, .accident => some none
  | some (some _), .accident => none

def bracketState (tr : List Event) : Option (Option (Bool × Msg)) := tr.foldl bstep (some none)

def noOverlap (tr : List Event) : Bool := (bracketState tr).isSome

def entered (sys : Bool) (tr : List Event) : List Msg :=
  tr.filterMap (fun e => match e with
    | .enter s m => if s == sys then some m else none
    | _ => none)

/-- C02 (mailbox part): what was handed to the handler is a prefix of what was pushed, per queue, in
push order (so: nothing invented, nothing duplicated when pushed ids are distinct, order kept) -/
def fifoPrefix (pushedS pushedU : List Msg) (tr : List Event) : Bool :=
  (entered true tr).isPrefixOf pushedS && (entered false tr).isPrefixOf pushedU

/-- C02 (no stranded message): in a quiescent state every system message was handled, and every
user message unless the mailbox is suspended -/
def drained (susp : Bool) (pushedS pushedU : List Msg) (tr : List Event) : Bool :=
  entered true tr == pushedS && (susp || entered false tr == pushedU)

/-! ## parsing the implementation's final line (used by the judge suite) -/

def field (s key : String) : Option String :=
  match s.splitOn (key ++ "=[") with
  | _ :: rest :: _ => (rest.splitOn "]").head?
  | _ => none

def scalar (s key : String) : Option Int :=
  match s.splitOn (key ++ "=") with
  | _ :: rest :: _ => ((rest.splitOn " ").head?).bind String.toInt?
  | _ => none

def parseMsg (t : String) : Option Msg :=
  if t.endsWith "!" then (t.dropEnd 1).toString.toNat?.map (⟨·, true⟩) else t.toNat?.map (⟨·, false⟩)

def parseEvent (t : String) : Option Event :=
  match t.splitOn ":" with
  | ["enter", k, m] => (parseMsg m).map (.enter (k == "s"))
  | ["exit", k, m] => (parseMsg m).map (.exit (k == "s"))
  | ["accident"] => some .accident
  | _ => none

def words (s : String) : List String := (s.splitOn " ").filter (· ≠ "")

/-- messages are identified by id only in pushed lists; the panics flag is recovered from the trace -/
def sameIds (a : List Msg) (b : List Nat) : Bool := a.map (·.id) == b

/-- `c01 = true`: judge the C01 clause (overlap) only; `false`: the C02 clauses (order, duplicates,
stranded messages) -/
def judgeFinal (c01 : Bool) (toks : List String) : String :=
  let line := " ".intercalate toks
  match field line "trace", field line "pushedS", field line "pushedU", scalar line "susp", scalar line "run" with
  | some tr, some ps, some pu, some susp, some run =>
    match (words tr).mapM parseEvent, (words ps).mapM String.toNat?, (words pu).mapM String.toNat? with
    | some evs, some ps, some pu =>
      let eS := (entered true evs).map (·.id)
      let eU := (entered false evs).map (·.id)
      if c01 then (if !noOverlap evs then "bad:overlap" else "ok")
      else if !(eS.isPrefixOf ps && eU.isPrefixOf pu) then "bad:order-or-duplicate"
      else if run != 0 then "bad:still-running"
      else if eS != ps then "bad:stranded-system-message"
      else if susp == 0 && eU != pu then "bad:stranded-user-message"
      else "ok"
    | _, _, _ => "bad:unparsable"
  | _, _, _, _, _ => "bad:unparsable"

end MV.Spec.Mailbox
