import MV.Model.Unbounded
/-!
# Abstract specification of the backlog-backed unbounded buffers (C15)

State = the list of queued elements (oldest first) and the closed flag.  `take` is the documented
consuming step (receive, then `Load`).  `Close` of these gRPC-style buffers keeps only what already
sits in the consumer channel (at most one element, the head of the queue) and discards the rest of
the backlog; the statement of C15 promises "readable after close" only for the ring-backed buffers,
so the specification says what the documented behaviour is: `close` truncates to the head.

The bare receive `recv` (a receive *not* followed by `Load`) is outside the documented protocol: the
specification does not determine the answers from then on (`none`).
-/
namespace MV.Spec.ClosableQueue
open MV.Model.Unbounded (Op Out)

structure St where
  l : List Int
  closed : Bool
  deriving Repr, DecidableEq

def init : St := { l := [], closed := false }

def step (s : St) : Op → St × Out
  | .put v => (if s.closed then s else { s with l := s.l ++ [v] }, .unit)
  | .load => (s, .unit)
  | .recv => (s, .unit)   -- not used: see `isProto`
  | .take =>
      match s.l with
      | x :: xs => ({ s with l := xs }, .val x)
      | [] => (s, if s.closed then .closed else .empty)
  | .close => (if s.closed then s else { l := s.l.take 1, closed := true }, .unit)
  | .isClosed => (s, .bool s.closed)

def run (s : St) : List Op → List Out
  | [] => []
  | op :: ops => let (s', o) := step s op; o :: run s' ops

/-- operations of the documented protocol (everything but the bare receive) -/
def isProto : Op → Bool
  | .recv => false
  | _ => true

/-! ## History-level FIFO statement for arbitrary (also off-protocol, also concurrent) use

`accepted`: the values of the `put`s that happened while the buffer was open, in order;
`received`: the values handed out by `recv`/`take`, in order. -/

def received : List Out → List Int
  | [] => []
  | .val v :: os => v :: received os
  | _ :: os => received os

end MV.Spec.ClosableQueue
