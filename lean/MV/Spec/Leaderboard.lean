import MV.Model.Ranking
/-!
# Abstract leaderboard (C16)

State: the rank-ordered list of `(id, score)` and nothing else — no index map, no binary search,
no search windows.  A submission removes the competitor's old entry and re-inserts it *behind every
entry that is not worse* (`pos`); a newcomer to a full board enters only if it strictly beats the
last entry, which is then dropped.  `Good` is the property the board must keep: no competitor twice,
ordered by score in the configured direction, at most `cap` entries.
-/
namespace MV.Spec.Leaderboard
open MV.Model (rcmp Out)
open MV.Model.Ranking (Op)

structure Board where
  asc : Bool
  cap : Int
  l : List (Int × Int)
  deriving Repr

/-- number of leading entries that are not worse than `s` -/
def pos (asc : Bool) (l : List (Int × Int)) (s : Int) : Nat :=
  (l.takeWhile (fun e => decide (rcmp asc e.2 s ≥ 0))).length

def insertAt (l : List (Int × Int)) (p : Nat) (x : Int × Int) : List (Int × Int) := l.take p ++ x :: l.drop p

def eraseId (l : List (Int × Int)) (id : Int) : List (Int × Int) := l.filter (fun e => e.1 != id)

def scoreOf (l : List (Int × Int)) (id : Int) : Option Int := l.lookup id

def rankOf (l : List (Int × Int)) (id : Int) : Option Nat :=
  let i := l.findIdx (fun e => e.1 == id)
  if i < l.length then some i else none

/-- a newcomer is refused when the board is full and it does not strictly beat the last entry -/
def refuses (b : Board) (s : Int) : Bool :=
  let full : Bool := decide (b.cap > 0 ∧ (b.l.length : Int) ≥ b.cap)
  let beatsLast : Bool := match b.l.getLast? with
    | some last => decide (rcmp b.asc s last.2 > 0)
    | none => true
  full && !beatsLast

/-- a submission -/
def submit (b : Board) (id s : Int) : Board :=
  match scoreOf b.l id with
  | some v =>
    if v = s then b
    else
      let l1 := eraseId b.l id
      { b with l := insertAt l1 (pos b.asc l1 s) (id, s) }
  | none =>
    if refuses b s then b
    else
      let l2 := insertAt b.l (pos b.asc b.l s) (id, s)
      { b with l := if b.cap > 0 ∧ (l2.length : Int) > b.cap then l2.dropLast else l2 }

def step (b : Board) : Op → Board × Out
  | .competitor id s => (submit b id s, .undet)
  | .remove id => ({ b with l := eraseId b.l id }, .undet)
  | .rank id => match rankOf b.l id with
      | some n => (b, .int n)
      | none => (b, .err 1)
  | .at k => if k < 0 ∨ k ≥ b.l.length then (b, .err 3) else
      match b.l[k.toNat]? with
      | some d => (b, .int d.1)
      | none => (b, .err 3)
  | .range s e =>
      if s < 1 ∨ e < s then (b, .err 3)
      else if s > b.l.length then (b, .err 3)
      else
        let e' : Int := if e > b.l.length then b.l.length else e
        (b, .ints (((b.l.drop (s - 1).toNat).take (e' - (s - 1)).toNat).map (·.1)))
  | .score id => match scoreOf b.l id with
      | some s => (b, .int s)
      | none => (b, .err 1)
  | .all => (b, .ints (b.l.map (·.1)))
  | .size => (b, .int b.l.length)
  | .clear => ({ b with l := [] }, .unit)
  | .dump => (b, .rows (b.l.map (fun d => [d.1, d.2])))

def run (b : Board) : List Op → List Out
  | [] => []
  | op :: ops => let (b', o) := step b op; o :: run b' ops

/-- key under which the board is descending: `rcmp asc a b` is the sign of `key a - key b` -/
def key (asc : Bool) (s : Int) : Int := if asc then -s else s

/-- ordered by score in the configured direction -/
def Sorted (asc : Bool) (l : List (Int × Int)) : Prop := l.Pairwise (fun a b => key asc a.2 ≥ key asc b.2)

def NodupIds (l : List (Int × Int)) : Prop := (l.map (·.1)).Nodup

/-- the leaderboard property -/
def Good (b : Board) : Prop :=
  Sorted b.asc b.l ∧ NodupIds b.l ∧ (b.cap > 0 → (b.l.length : Int) ≤ b.cap)

/-- erase what the abstract board does not determine (the event lists) -/
def eraseAll : List Op → List Out → List Out
  | op :: ops, o :: os => (match op with
      | .competitor _ _ => Out.undet
      | .remove _ => Out.undet
      | _ => o) :: eraseAll ops os
  | _, _ => []

def erase : Op → Out → Out
  | .competitor _ _, _ => .undet
  | .remove _, _ => .undet
  | _, o => o

end MV.Spec.Leaderboard
