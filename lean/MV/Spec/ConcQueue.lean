/-!
# History specification of a concurrent FIFO queue at quiescence (C15)

A *history* is what can be observed from outside: `pushes[p]` = the values producer `p` pushed, in its
program order; `pops[c]` = the values consumer `c` obtained, in the order it obtained them (the final
sequential drain after all goroutines have been joined counts as one more consumer).

`judge` is the `Bool` specification the concurrent harness suites are judged with; the theorems
`C15_msq_history_ok` / `C15_mpsc_history_ok` prove that every quiescent, drained history of the
interleaving models satisfies it.
-/
namespace MV.Spec.ConcQueue

/-- each value is handed out at most once -/
def noDup (pops : List (List Int)) : Bool := decide pops.flatten.Nodup

/-- nothing is invented -/
def noneInvented (pushes pops : List (List Int)) : Bool :=
  pops.flatten.all (fun v => pushes.flatten.contains v)

/-- nothing is lost (after quiescence and the final drain) -/
def nothingLost (pushes pops : List (List Int)) : Bool :=
  pushes.flatten.all (fun v => pops.flatten.contains v)

/-- every consumer sees the values of every producer in that producer's program order -/
def orderKept (pushes pops : List (List Int)) : Bool :=
  pops.all (fun c => pushes.all (fun p => (c.filter (fun v => p.contains v)).isSublist p))

/-- the generator must hand in distinct values, otherwise the clauses above say nothing -/
def inputOk (pushes : List (List Int)) : Bool := decide pushes.flatten.Nodup

def judge (pushes pops : List (List Int)) : Bool :=
  inputOk pushes && noDup pops && noneInvented pushes pops && nothingLost pushes pops && orderKept pushes pops

/-- the verdict line of the oracle: the first clause that fails -/
def verdict (pushes pops : List (List Int)) : String :=
  if !inputOk pushes then "bad:input-not-distinct"
  else if !noDup pops then "bad:popped-twice"
  else if !noneInvented pushes pops then "bad:invented"
  else if !nothingLost pushes pops then "bad:lost"
  else if !orderKept pushes pops then "bad:producer-order"
  else "ok"

theorem verdict_ok_iff (pushes pops : List (List Int)) : verdict pushes pops = "ok" ↔ judge pushes pops = true := by
  unfold verdict judge
  cases inputOk pushes <;> cases noDup pops <;> cases noneInvented pushes pops <;>
    cases nothingLost pushes pops <;> cases orderKept pushes pops <;> decide

end MV.Spec.ConcQueue
