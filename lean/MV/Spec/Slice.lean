import MV.Model.PagedSlice
/-!
# Plain-slice specification for `PagedSlice` (C16)

State: the list of elements.  `Del` is the swap-delete the type documents (the last element moves
into the hole); growing appends zero values; writes outside `0..len-1` through `Set`/`BatchSet` are ignored,
through the growing writers a negative index panics; `Get` outside `0..len-1` is not
determined (the Go code has no bounds check there).
-/
namespace MV.Spec.Slice
open MV.Model (Out)
open MV.Model.Paged (Op maxIdx)

def growTo (l : List Int) (m : Int) : List Int :=
  if m ≥ l.length then l ++ List.replicate (m.toNat + 1 - l.length) 0 else l

/-- in-range write; `none` for an index outside `0..len-1` -/
def write (l : List Int) (i v : Int) : Option (List Int) :=
  if i < 0 ∨ i ≥ l.length then none else some (l.set i.toNat v)

def writeAll (l : List Int) : List Int → List Int → List Int × Bool
  | i :: is, v :: vs => match write l i v with
      | some l' => writeAll l' is vs
      | none => (l, false)
  | _, _ => (l, true)

/-- writes outside `0..len-1` are ignored -/
def setAll (l : List Int) : List Int → List Int → List Int
  | i :: is, v :: vs => setAll ((write l i v).getD l) is vs
  | _, _ => l

def del (l : List Int) (i : Int) : List Int :=
  if i < 0 ∨ i ≥ l.length then l else (l.set i.toNat (l.getLastD 0)).dropLast

def step (l : List Int) : Op → List Int × Out
  | .add v => (l ++ [v], .unit)
  | .del i => (del l i, .unit)
  | .get i => if i < 0 ∨ i ≥ l.length then (l, .undet) else (l, .int (l.getD i.toNat 0))
  | .set i v => ((write l i v).getD l, .unit)
  | .len => (l, .int l.length)
  | .grow is => (if is.isEmpty then l else growTo l (maxIdx is), .unit)
  | .growSet i v => match write (growTo l i) i v with
      | some l' => (l', .unit)
      | none => (growTo l i, .panic)
  | .batchGrowSet is vs =>
      if is.length ≠ vs.length then (l, .panic)
      else if is.isEmpty then (l, .unit)
      else match writeAll (growTo l (maxIdx is)) is vs with
        | (l', true) => (l', .unit)
        | (l', false) => (l', .panic)
  | .batchSet is vs =>
      if is.length ≠ vs.length then (l, .panic)
      else if is.isEmpty then (l, .unit)
      else (setAll l is vs, .unit)
  | .dump => (l, .ints l)

def run (l : List Int) : List Op → List Out
  | [] => []
  | op :: ops => let (l', o) := step l op; o :: run l' ops

end MV.Spec.Slice
