import MV.Spec.StreamGate
/-!
# Specification of C11 end to end, as a Bool checker of what recording actors observed

Per (sender, receiver) pair: the delivered sequence is an in-order duplicate-free selection of the
sent one (`List.isSublist`; the `Prop` version is `List.Sublist`, the conclusion of
`C11_no_dup_no_reorder_per_pair`), and it is the whole sent sequence when the link was never lost
during the operation.  The same for the replies a sender got back (values and error replies).
-/
namespace MV.Spec.Remote
open MV.Spec.StreamGate

def replyOffset : Nat := 500000000
def senderSpan : Nat := 100000
def isErrId (id : Nat) : Bool := id % 7 == 3

def idsOf (base k count : Nat) : List Nat := (List.range count).map (fun j => base + k * senderSpan + j)

def expectedReplies (ids : List Nat) : List Nat := (ids.filter (fun i => !isErrId i)).map (· + replyOffset)
def expectedErrors (ids : List Nat) : List Nat := ids.filter isErrId

/-- one pair: ordered duplicate-free selection; everything unless the link broke -/
def checkPair (broke : Bool) (expected got : List Nat) : Bool :=
  got.isSublist expected && (broke || got == expected)

/-- `s0:1-5,9|s1:…` → per-sender lists -/
def parsePerSender (s : String) : Option (List (List Nat)) :=
  if s.isEmpty then some [] else
  (s.splitOn "|").mapM (fun part =>
    match part.splitOn ":" with
    | [_, runs] => parseRunsBody runs
    | _ => none)

def fmtPerSender (ls : List (List Nat)) : String :=
  "|".intercalate (ls.zipIdx.map (fun (l, k) => s!"s{k}:{fmtRunsBody l}"))

/-- the clause that fails for a burst of `ns` senders with `count` messages each, or `none` -/
def checkBurst (broke : Bool) (ns count base : Nat) (recv rep err : List (List Nat)) (foreign : Nat) :
    Option String :=
  if recv.length != ns || rep.length != ns || err.length != ns then some "shape"
  else if foreign != 0 then some "foreign-sender"
  else
    let ks := List.range ns
    if !(ks.all fun k => checkPair broke (idsOf base k count) (recv.getD k [])) then
      some (if broke then "delivered-duplicate-or-reordered" else "delivered-not-equal-sent")
    else if !(ks.all fun k => checkPair broke (expectedReplies (idsOf base k count)) (rep.getD k [])) then
      some (if broke then "reply-duplicate-or-reordered" else "reply-lost-or-misrouted")
    else if !(ks.all fun k => checkPair broke (expectedErrors (idsOf base k count)) (err.getD k [])) then
      some (if broke then "error-reply-duplicate-or-reordered" else "error-reply-lost-or-misrouted")
    else none

end MV.Spec.Remote
