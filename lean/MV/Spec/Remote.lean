import MV.Spec.StreamGate
/-!
# Specification of C11 end to end, as a Bool checker of what recording actors observed

Per (sender, receiver) pair: the delivered sequence is an in-order duplicate-free selection of the
sent one (`List.isSublist`; the `Prop` version is `List.Sublist`, the conclusion of
`C11_no_dup_no_reorder_per_pair`), and it is the whole sent sequence when the link was never lost
during the operation.  The same for the replies a sender got back (values and error replies).
-/
namespace MV.Spec.Remote
open MV.Spec.StreamGate

def replyOffset : Nat := 500000000
def senderSpan : Nat := 100000
def isErrId (id : Nat) : Bool := id % 7 == 3

def idsOf (base k count : Nat) : List Nat := (List.range count).map (fun j => base + k * senderSpan + j)

def expectedReplies (ids : List Nat) : List Nat := (ids.filter (fun i => !isErrId i)).map (· + replyOffset)
def expectedErrors (ids : List Nat) : List Nat := ids.filter isErrId

/-- one pair: ordered duplicate-free selection; everything unless the link broke -/
def checkPair (broke : Bool) (expected got : List Nat) : Bool :=
  got.isSublist expected && (broke || got == expected)

def hasDup : List Nat → Bool
  | [] => false
  | x :: xs => xs.contains x || hasDup xs

/-- why a pair fails (for the report; `checkPair` is the specification) -/
def pairClause (broke : Bool) (expected got : List Nat) : String :=
  if hasDup got then "duplicate"
  else if !(got.all expected.contains) then "invented"
  else if !got.isSublist expected then "reordered"
  else if !broke && got != expected then "lost"
  else "ok"

/-- `s0:1-5,9|s1:…` → per-sender lists -/
def parsePerSender (s : String) : Option (List (List Nat)) :=
  if s.isEmpty then some [] else
  (s.splitOn "|").mapM (fun part =>
    match part.splitOn ":" with
    | [_, runs] => parseRunsBody runs
    | _ => none)

def fmtPerSender (ls : List (List Nat)) : String :=
  "|".intercalate (ls.zipIdx.map (fun (l, k) => s!"s{k}:{fmtRunsBody l}"))

/-- the clause that fails for a burst of `ns` senders with `count` messages each, or `none` -/
def checkBurst (broke : Bool) (ns count base : Nat) (recv rep err : List (List Nat)) (foreign : Nat) :
    Option String :=
  if recv.length != ns || rep.length != ns || err.length != ns then some "shape"
  else if foreign != 0 then some "foreign-sender"
  else
    let ks := List.range ns
    let bad (what : String) (exp : Nat → List Nat) (got : List (List Nat)) : Option String :=
      (ks.find? fun k => !checkPair broke (exp k) (got.getD k [])).map fun k =>
        what ++ "-" ++ pairClause broke (exp k) (got.getD k [])
    match bad "delivered" (fun k => idsOf base k count) recv with
    | some c => some c
    | none =>
      match bad "reply" (fun k => expectedReplies (idsOf base k count)) rep with
      | some c => some c
      | none => bad "error-reply" (fun k => expectedErrors (idsOf base k count)) err

end MV.Spec.Remote
