import MV.Model.PrioritySlice
/-!
# Priority-slice specification (C16)

After every method the items are ordered by priority and are, as a multiset, exactly what the
method asked for (`effect` applied to the items before the call): nothing appended is ever lost or
duplicated.  `judge` is the `Bool` version evaluated on the real code's raw item lists.
-/
namespace MV.Spec.PrioritySlice
open MV.Model.PrioritySlice

def SortedP (l : List Item) : Prop := l.Pairwise (fun a b => a.1 ≤ b.1)

/-- the contract of `sort.Slice` with the priority comparison -/
def SortSpec (srt : List Item → List Item) : Prop := ∀ l, (srt l).Perm l ∧ SortedP (srt l)

def sortedPB : List Item → Bool
  | [] => true
  | [_] => true
  | a :: b :: rest => decide (a.1 ≤ b.1) && sortedPB (b :: rest)

/-- `Bool` judge of one observed step: `before`/`after` are the real code's raw item lists -/
def judge (before : List Item) (op : Op) (after : List Item) : Bool :=
  match effect before op with
  | none => after == before                       -- the call panicked: nothing may change
  | some want => sortedPB after && after.isPerm want

end MV.Spec.PrioritySlice
