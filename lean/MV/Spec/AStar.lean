import MV.Model.AStar
/-!
# Specification of path finding (C20)

* `Reach G s y c` — there is a walk from `s` to `y` along graph edges whose total cost is `c`
  (the simplest inductive definition; no lists).
* `ValidPath G s g p` / `validPathB` — the list `p` starts at `s`, ends at `g`, and consecutive
  nodes are joined by edges.  `validPathB` is what the oracle's judge evaluates on the
  implementation's output; `MV.Props.C20.C20_validPathB_iff` relates the two.
* `Shortest G s g c` — `c` is the cost of some walk and no walk is cheaper.
* `Consistent G h` / `consistentB` — the heuristic hypothesis of the optimality theorem
  (`h u ≤ cost u v + h v` on every edge) and its executable check over the nodes `< G.n`.
* `optCost` — the optimum as computed by the search with the zero heuristic (Dijkstra is A* with
  `h = 0`); `MV.Props.C20.C20_optCost_shortest` proves it is the true minimum, so the judge's
  reference value is backed by a theorem, not by a second unverified algorithm.
* `judgeFind` — the `Bool`/clause version used on `find s g => <impl output>` lines.

Core Lean only.
-/
namespace MV.Spec.AStar
open MV.Model.AStar

inductive Reach (G : Graph) (s : Nat) : Nat → Nat → Prop
  | base : Reach G s s 0
  | step {y x c : Nat} : Reach G s y c → x ∈ G.nbrs y → Reach G s x (c + G.cost y x)

def Reachable (G : Graph) (s g : Nat) : Prop := ∃ c, Reach G s g c

def IsWalk (G : Graph) : Path → Prop
  | a :: b :: r => b ∈ G.nbrs a ∧ IsWalk G (b :: r)
  | _ => True

def isWalkB (G : Graph) : Path → Bool
  | a :: b :: r => (G.nbrs a).contains b && isWalkB G (b :: r)
  | _ => true

def ValidPath (G : Graph) (s g : Nat) (p : Path) : Prop :=
  p.head? = some s ∧ p.getLast? = some g ∧ IsWalk G p

def validPathB (G : Graph) (s g : Nat) (p : Path) : Bool :=
  p.head? == some s && p.getLast? == some g && isWalkB G p

def Shortest (G : Graph) (s g c : Nat) : Prop := Reach G s g c ∧ ∀ c', Reach G s g c' → c ≤ c'

/-- all nodes mentioned by the graph are `< G.n` -/
def WF (G : Graph) : Prop := ∀ v, v < G.n → ∀ x ∈ G.nbrs v, x < G.n

def wfB (G : Graph) : Bool := (List.range G.n).all fun v => (G.nbrs v).all fun x => decide (x < G.n)

def Consistent (G : Graph) (h : Nat → Nat) : Prop := ∀ u, u < G.n → ∀ v ∈ G.nbrs u, h u ≤ G.cost u v + h v

def consistentB (G : Graph) (h : Nat → Nat) : Bool :=
  (List.range G.n).all fun u => (G.nbrs u).all fun v => decide (h u ≤ G.cost u v + h v)

/-- the optimum: cost of the path found with the zero heuristic -/
def optCost (G : Graph) (s g : Nat) : Option Nat :=
  match find G s g (fun _ => 0) with
  | .found p => some (pathCost G.cost p)
  | _ => none

/-- verdict on the implementation's answer to `find s g` (`none` or `cost path`) -/
def judgeFind (G : Graph) (s g : Nat) (h : Nat → Nat) (out : Option (Nat × Path)) : String :=
  match out, optCost G s g with
  | none, none => "ok"
  | none, some _ => "bad:none-but-reachable"
  | some (c, p), opt =>
    if !validPathB G s g p then "bad:invalid-path"
    else if pathCost G.cost p ≠ c then "bad:cost-sum"
    else match opt with
      | none => "bad:path-to-unreachable"
      | some o =>
        if c < o then "bad:below-optimum"
        else if consistentB G h && c ≠ o then "bad:not-shortest"
        else "ok"

end MV.Spec.AStar
