/-!
# Specification of the collection helpers (C17)

Part 1: the laws as the simplest possible list definitions (run by the `-spec` oracle suites and
compared with the implementation).  Part 2: `Bool` predicates that judge an implementation output
that is not a function of the input (map iteration order, `sort.Slice` ties, random draws).
Core Lean only.
-/
namespace MV.Spec.Coll

/-! ## Part 1 — functional specifications -/

/-- first occurrence of every class of `eqv`, in order -/
def firstOccBy (eqv : Int → Int → Bool) : List Int → List Int
  | [] => []
  | x :: xs => x :: (firstOccBy eqv xs).filter (fun y => !eqv x y)

def firstOcc (l : List Int) : List Int := firstOccBy (· == ·) l

/-- consecutive chunks of `n ≥ 1` elements (the last one may be shorter) -/
def chunk (n : Nat) : Nat → List Int → List (List Int)
  | 0, _ => []
  | fuel + 1, l => if l.isEmpty then [] else l.take n :: chunk n fuel (l.drop n)

def chunks (n : Nat) (l : List Int) : List (List Int) := chunk n l.length l

/-- elements whose index is not listed -/
def dropIdx (l : List Int) (idx : List Int) : List Int :=
  ((List.range l.length).filter (fun (i : Nat) => !idx.contains (i : Int))).map (fun i => l.getD i 0)

def lookupD (m : List (Int × Int)) (k : Int) : Int := (m.lookup k).getD 0
def hasKey (m : List (Int × Int)) (k : Int) : Bool := (m.lookup k).isSome

/-- insertion sort of entries by key (canonical form of a finite map) -/
def insertByKey (e : Int × Int) : List (Int × Int) → List (Int × Int)
  | [] => [e]
  | x :: xs => if e.1 ≤ x.1 then e :: x :: xs else x :: insertByKey e xs
def sortByKey (m : List (Int × Int)) : List (Int × Int) := m.foldr insertByKey []

/-- keys occurring in any of the maps, each once -/
def unionKeys (ms : List (List (Int × Int))) : List Int := firstOcc (ms.flatMap (·.map (·.1)))

/-- later maps win -/
def mergeLast (ms : List (List (Int × Int))) : List (Int × Int) :=
  (unionKeys ms).map (fun k => (k, lookupD ((ms.reverse.filter (hasKey · k)).headD []) k))
/-- earlier maps win -/
def mergeFirst (ms : List (List (Int × Int))) : List (Int × Int) :=
  (unionKeys ms).map (fun k => (k, lookupD ((ms.filter (hasKey · k)).headD []) k))

/-- pointwise related, same length -/
def equalBy (h : Int → Int → Bool) (a b : List Int) : Bool :=
  a.length == b.length && (List.zipWith h a b).all id

/-- same key set and related values -/
def mapEqualBy (h : Int → Int → Bool) (m1 m2 : List (Int × Int)) : Bool :=
  m1.all (fun e => hasKey m2 e.1 && h e.2 (lookupD m2 e.1)) && m2.all (fun e => hasKey m1 e.1)

/-- first element whose key is minimal / maximal (0 for the empty list) -/
def argMin (g : Int → Int) (l : List Int) : Int := (l.find? (fun x => l.all (fun y => g x ≤ g y))).getD 0
def argMax (g : Int → Int) (l : List Int) : Int := (l.find? (fun x => l.all (fun y => g y ≤ g x))).getD 0

/-- `(i, l[i])` -/
def indexed (l : List Int) : List (Nat × Int) := (List.range l.length).map (fun i => (i, l.getD i 0))

/-- what a loop callback that answers `false` on its `stop`-th call gets to see -/
def visited {α : Type} (stop : Nat) (l : List α) : List α := if stop = 0 then l else l.take stop

def insertSorted (le : Int → Int → Bool) (x : Int) : List Int → List Int
  | [] => [x]
  | y :: ys => if le x y then x :: y :: ys else y :: insertSorted le x ys
def isort (le : Int → Int → Bool) (l : List Int) : List Int := l.foldr (insertSorted le) []

/-! ## Part 2 — judges -/

def isPermOf (a b : List Int) : Bool := a.isPerm b

/-- `a` is a sub-multiset of `b` -/
def subMultiset : List Int → List Int → Bool
  | [], _ => true
  | x :: xs, b => b.contains x && subMultiset xs (b.erase x)

def distinct : List Int → Bool
  | [] => true
  | x :: xs => !xs.contains x && distinct xs

/-- distinct members: no repetition and every element drawn from `pool` -/
def distinctMembers (out pool : List Int) : Bool := distinct out && out.all (pool.contains ·)

def sortedBy (le : Int → Int → Bool) : List Int → Bool
  | [] => true
  | [_] => true
  | x :: y :: rest => le x y && sortedBy le (y :: rest)

/-- `out` is `l` rearranged so that the keys `g` are non-decreasing -/
def sortedPermAsc (g : Int → Int) (l out : List Int) : Bool := isPermOf out l && sortedBy (fun a b => g a ≤ g b) out
def sortedPermDesc (g : Int → Int) (l out : List Int) : Bool := isPermOf out l && sortedBy (fun a b => g a ≥ g b) out

/-- batches: joining them gives `flat`, every batch but the last has exactly `n` elements, the last one
    between 1 and `n` -/
def batchSizesOk (n : Nat) : List (List Int) → Bool
  | [] => true
  | [b] => 1 ≤ b.length && b.length ≤ n
  | b :: rest => b.length == n && batchSizesOk n rest

/-- the callback of a map loop saw `vis = [(i, k, v), …]`.  `crit k v` is the sort key of an entry,
    `asc`/`desc` the direction (`none`: no order promised).  Required: positions count 0,1,2,…; every
    pair is an entry of `m`; no key twice; exactly `min(stop, len)` visits (all when `stop = 0`); the
    sort keys are monotone along the visits and no unvisited entry should have come earlier. -/
def visitedPairsMatch (m : List (Int × Int)) (crit : Option (Int → Int → Int)) (desc : Bool) (stop : Nat)
    (vis : List (Nat × Int × Int)) : Bool :=
  let ks := vis.map (·.2.1)
  let want := if stop = 0 ∨ stop ≥ m.length then m.length else stop
  vis.map (·.1) == List.range vis.length
  && vis.all (fun t => m.contains (t.2.1, t.2.2))
  && distinct ks
  && vis.length == want
  && (match crit with
      | none => true
      | some c =>
        let key := fun (t : Nat × Int × Int) => if desc then - c t.2.1 t.2.2 else c t.2.1 t.2.2
        sortedBy (fun a b => a ≤ b) (vis.map key)
        && (m.filter (fun e => !ks.contains e.1)).all (fun e =>
              vis.all (fun t => key t ≤ (if desc then - c e.1 e.2 else c e.1 e.2))))

/-! ### topological order

An item is `(index, dependencies)`; only dependencies on present indices count.  `out` lists the
indices in result order.  Documented direction: an item comes *before* everything it depends on. -/

def posOf (out : List Int) (x : Int) : Nat := out.findIdx (· == x)

def edgesOf (items : List (Int × List Int)) : List (Int × Int) :=
  let present := items.map (·.1)
  items.flatMap (fun it => (it.2.filter (present.contains ·)).map (fun d => (it.1, d)))

/-- every dependent strictly before each of its dependencies -/
def respectsDeps (items : List (Int × List Int)) (out : List Int) : Bool :=
  (edgesOf items).all (fun e => posOf out e.1 < posOf out e.2)

/-- `out` is a rearrangement of the indices that respects every dependency -/
def validOrder (items : List (Int × List Int)) (out : List Int) : Bool :=
  isPermOf out (items.map (·.1)) && respectsDeps items out

/-- Kahn's algorithm (used only by the judge to decide whether an order exists): repeatedly emit a
    remaining node that no remaining node depends on. -/
def kahn (edges : List (Int × Int)) : Nat → List Int → List Int → List Int
  | 0, _, acc => acc
  | fuel + 1, remaining, acc =>
    match remaining.find? (fun x => !(edges.any (fun e => e.2 == x && remaining.contains e.1))) with
    | none => acc
    | some x => kahn edges fuel (remaining.erase x) (acc ++ [x])

/-- does any valid order exist (i.e. is the dependency graph acyclic)? -/
def orderExists (items : List (Int × List Int)) : Bool :=
  let ids := items.map (·.1)
  validOrder items (kahn (edgesOf items) ids.length ids [])

/-- verdict on `TopologicalSort`: an order must be valid; the error is right exactly when two items
    share an index (the result would be shorter than the input) or no valid order exists -/
def topoVerdict (items : List (Int × List Int)) (out : Option (List Int)) : Bool :=
  match out with
  | some o => distinct (items.map (·.1)) && validOrder items o
  | none => !distinct (items.map (·.1)) || !orderExists items

end MV.Spec.Coll
