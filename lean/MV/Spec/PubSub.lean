import MV.Model.PubSub
/-!
# Specification of publish / subscribe (C10)

The property in its simplest form: the subscription service is the *set of current subscriptions*
(`Abs.live`, a flat list in order of establishment) and a counter of the subscriptions ever made.
A publication on topic `t` by `sender` must produce exactly one delivery per current subscription of
`t`, with the publisher as sender (`Abs.expected`); nothing else changes the set but a subscribe and
an unsubscribe that names topic and id of a subscription.

`Current h sub` is the same thing said in first-order terms over the history `h` of requests the
service has handled: `sub` was established by a subscribe request in `h` (its id is the rank of that
request among the subscribe requests) and no unsubscribe request for it comes later in `h`
(`MV.Props.C10.C10_live_iff` proves `sub ∈ (Abs.after h).live ↔ Current h sub`).

The second half of the file is the judge of the concurrent suite: a `Bool` function over an observed
run (windows of the calls on a logical clock + what every subscriber handled) — see `Obs`.
Core Lean only.
-/
namespace MV.Spec.PubSub
open MV.Model.PubSub

structure Abs where
  /-- the current subscriptions, oldest first -/
  live : List Subscription
  /-- number of subscriptions ever established -/
  count : Nat
deriving Repr

def Abs.init : Abs := { live := [], count := 0 }

def Abs.apply (a : Abs) : Msg → Abs
  | .subscribeRequest t r => { live := a.live ++ [{ topic := t, id := a.count + 1, subscriber := r }], count := a.count + 1 }
  | .unsubscribeRequest t i => { a with live := a.live.filter (fun s => !(s.topic == t && s.id == i)) }
  | _ => a

/-- the abstract state after the service has handled the requests `h` -/
def Abs.after (h : List Envelope) : Abs := h.foldl (fun a e => a.apply e.msg) Abs.init

/-- the current subscriptions of topic `t` -/
def Abs.on (a : Abs) (t : Topic) : List Subscription := a.live.filter (fun s => s.topic == t)

/-- what a publication of `p` on `t` by `sender` must produce: one delivery per current subscription -/
def Abs.expected (a : Abs) (t : Topic) (sender : Option Ref) (p : Nat) : List Eff :=
  (a.on t).map (fun s => Eff.deliver s.subscriber sender p)

def isSubscribe (e : Envelope) : Bool :=
  match e.msg with
  | .subscribeRequest _ _ => true
  | _ => false

/-- `sub` was established in `h` (its reply precedes everything after that request) and no later
    request in `h` cancels it -/
def Current (h : List Envelope) (sub : Subscription) : Prop :=
  ∃ h1 snd h2, h = h1 ++ { sender := snd, msg := .subscribeRequest sub.topic sub.subscriber } :: h2 ∧
    sub.id = (h1.filter isSubscribe).length + 1 ∧
    ∀ e ∈ h2, e.msg ≠ .unsubscribeRequest sub.topic sub.id

/-- the deliveries among a list of effects -/
def deliveries (effs : List Eff) : List Eff :=
  effs.filter (fun e => match e with | .deliver _ _ _ => true | _ => false)

/-- the deliveries addressed to `r` -/
def deliveriesTo (r : Ref) (effs : List Eff) : List Delivery :=
  effs.filterMap (fun e => match e with
    | .deliver to s p => if to = r then some { sender := s, payload := p } else none
    | _ => none)

/-! ## the judge of un-serialised runs

An observed run: every API call with the two reads of the logical clock that bracket it, what
every subscriber handled (in handling order) and the dead letters. The request of a call reaches
the subscription actor's FIFO mailbox at some instant strictly inside its window (`Subscribe` is
also answered inside its window); the order of those instants is the order in which the
subscription actor handles the requests. A subscription `s` is current for a publication `p` iff
its instant precedes `p`'s and no cancellation instant does (`Current`). The windows do not tell the
instants, only bounds — `mustB`: current for every choice of instants, `mayB`: current for some. -/

structure Win where
  lo : Nat
  hi : Nat
deriving Repr, DecidableEq

structure SubEv where
  actor : Nat
  topic : Nat
  id : Nat
  w : Win
deriving Repr

structure UnsubEv where
  actor : Nat
  id : Nat
  w : Win
deriving Repr

structure PubEv where
  publisher : Nat
  topic : Nat
  pid : Nat
  w : Win
deriving Repr

/-- a restart (`R`) or a termination (`T`) of an actor: both release everything recorded -/
structure LifeEv where
  actor : Nat
  w : Win
deriving Repr

structure DelEv where
  actor : Nat
  inc : Nat
  pid : Nat
  sender : Nat
deriving Repr

structure DeadEv where
  actor : Nat
  pid : Nat
  sender : Nat
deriving Repr

structure Obs where
  subs : List SubEv
  unsubs : List UnsubEv
  pubs : List PubEv
  restarts : List LifeEv
  terms : List LifeEv
  dels : List DelEv
  deads : List DeadEv
  /-- a terminated actor whose mailbox never drained -/
  stranded : List Nat
deriving Repr

/-- the windows of the calls that cancel `s`: `UnSubscribe` of its handle, restarts of its
    subscriber that began after `Subscribe` had returned, the termination of its subscriber -/
def cancels (o : Obs) (s : SubEv) : List Win :=
  (o.unsubs.filter (fun u => u.id == s.id)).map (·.w) ++
  (o.restarts.filter (fun r => r.actor == s.actor && decide (s.w.hi < r.w.lo))).map (·.w) ++
  (o.terms.filter (fun t => t.actor == s.actor)).map (·.w)

/-- surely current: subscribed before the publish began and no cancellation began before it returned -/
def mustB (s p : Win) (cs : List Win) : Bool :=
  decide (s.hi < p.lo) && cs.all (fun c => decide (p.hi < c.lo))

/-- possibly current: not surely subscribed after, not surely cancelled before -/
def mayB (s p : Win) (cs : List Win) : Bool :=
  decide (s.lo < p.hi) && cs.all (fun c => decide (p.lo < c.hi))

def subsOf (o : Obs) (a t : Nat) : List SubEv := o.subs.filter (fun s => s.actor == a && s.topic == t)

def lower (o : Obs) (p : PubEv) (a : Nat) : Nat := (subsOf o a p.topic).countP (fun s => mustB s.w p.w (cancels o s))
def upper (o : Obs) (p : PubEv) (a : Nat) : Nat := (subsOf o a p.topic).countP (fun s => mayB s.w p.w (cancels o s))

/-- copies of `p` that reached `a`: handled or dead-lettered -/
def copies (o : Obs) (p : PubEv) (a : Nat) : Nat :=
  o.dels.countP (fun d => d.actor == a && d.pid == p.pid) + o.deads.countP (fun d => d.actor == a && d.pid == p.pid)

def actorsOf (o : Obs) : List Nat :=
  (o.subs.map (·.actor) ++ o.dels.map (·.actor) ++ o.deads.map (·.actor)).eraseDups

def pubOf (o : Obs) (pid : Nat) : Option PubEv := o.pubs.find? (fun p => p.pid == pid)

/-- sender = publisher, and the payload was published at all -/
def senderOK (o : Obs) : Bool :=
  o.dels.all (fun d => match pubOf o d.pid with | some p => p.publisher == d.sender | none => false) &&
  o.deads.all (fun d => match pubOf o d.pid with | some p => p.publisher == d.sender | none => false)

def missingOK (o : Obs) : Bool := o.pubs.all (fun p => (actorsOf o).all (fun a => decide (lower o p a ≤ copies o p a)))
def extraOK (o : Obs) : Bool := o.pubs.all (fun p => (actorsOf o).all (fun a => decide (copies o p a ≤ upper o p a)))

def nondecreasing : List Nat → Bool
  | [] => true
  | [_] => true
  | a :: b :: rest => decide (a ≤ b) && nondecreasing (b :: rest)

/-- per (publisher, subscriber): the handled payloads appear in publication order (the publish calls
    of one publisher are sequential, so their windows are ordered: compare the window starts) -/
def orderOK (o : Obs) : Bool :=
  (actorsOf o).all (fun a => (o.pubs.map (·.publisher)).eraseDups.all (fun q =>
    nondecreasing ((o.dels.filter (fun d => d.actor == a && d.sender == q)).filterMap
      (fun d => (pubOf o d.pid).map (·.w.lo)))))

def nodupNat : List Nat → Bool
  | [] => true
  | a :: rest => !rest.contains a && nodupNat rest

def idsOK (o : Obs) : Bool := nodupNat (o.subs.map (·.id))
def harnessOK (o : Obs) : Bool := nodupNat (o.pubs.map (·.pid))

def judgeConc (o : Obs) : String :=
  if !harnessOK o then "bad-op"
  else if !idsOK o then "bad:duplicate-subscription-id"
  else if !senderOK o then "bad:sender"
  else if !missingOK o then "bad:missing"
  else if !extraOK o then "bad:extra"
  else if !orderOK o then "bad:order"
  else if !o.stranded.isEmpty then "bad:stranded"
  else "ok"

end MV.Spec.PubSub
