import MV.Model.Ring
/-!
# Abstract FIFO specification for the sequential queue-like containers (C15)

State = the list of queued elements, oldest first.  The same `Op`/`Out` language as the
ring model; `cap` is not observable at this level (answered `unit`, erased on both sides
before comparing).
-/
namespace MV.Spec.Queue
open MV.Model.Ring (Op Out)

def step (l : List Int) : Op → List Int × Out
  | .write v => (l ++ [v], .unit)
  | .read => match l with
      | [] => ([], .empty)
      | x :: xs => (xs, .val x)
  | .readMulti n =>
      if n ≤ 0 then (l, .nil)
      else if l = [] then (l, .empty)
      else (l.drop n.toNat, .list (l.take n.toNat))
  | .readAll => if l = [] then (l, .nil) else ([], .list l)
  | .peek => match l with
      | [] => (l, .empty)
      | x :: _ => (l, .val x)
  | .isEmpty => (l, .bool l.isEmpty)
  | .len => (l, .nat l.length)
  | .cap => (l, .unit)
  | .reset => ([], .unit)

def run (l : List Int) : List Op → List Out
  | [] => []
  | op :: ops => let (l', o) := step l op; o :: run l' ops

/-- erase what the abstract queue does not determine (the capacity report) -/
def erase : Op → Out → Out
  | .cap, _ => .unit
  | _, o => o

def eraseAll : List Op → List Out → List Out
  | op :: ops, o :: os => erase op o :: eraseAll ops os
  | _, _ => []

end MV.Spec.Queue
