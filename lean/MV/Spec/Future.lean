import MV.Model.Future
/-!
# C07 as a specification over observations of futures

An `Obs` is what can be seen of one future from outside (in the model: a projection of the state; in
the Go harness: accessors + what `Result()` calls returned + what forward targets received).  The
clauses below are `Bool` functions so that the *same* definitions are (a) proved of the model for every
schedule (`MV/Props/C07.lean`) and (b) evaluated on the observations of the real code (`future-judge`).
-/
namespace MV.Spec.Future
open MV.Model.Future

structure Obs where
  k : Nat
  addr : Nat
  tmo : Bool
  rcSet : Bool
  closed : Bool
  dones : Nat
  registered : Bool      -- the registry maps `addr` to this very future
  timerActive : Bool
  pendingFwd : Nat
  results : List Res
  fwdLog : List (Nat × Option Err)
  fwdReq : List Nat      -- targets of the Forward calls that have returned
  deriving DecidableEq, Repr

/-- the observation of future `k` in a model state -/
def observe (g : G) (k : Nat) : Obs :=
  let f := g.futs k
  { k := k, addr := f.addr, tmo := f.tmo, rcSet := f.rcSet, closed := f.closed, dones := f.dones,
    registered := g.reg f.addr == some k, timerActive := f.timerActive, pendingFwd := f.forwards.length,
    results := f.results, fwdLog := f.fwdLog, fwdReq := f.fwdReq }

def observeAll (g : G) : List Obs := (List.range g.nfut).map (observe g)

/-- **exactly once**: `done` is closed at most once, only by a future whose flag is set, and nothing
reads a result before -/
def onceOK (o : Obs) : Bool :=
  decide (o.dones ≤ 1) && (o.closed || o.dones == 0) && (o.results.isEmpty || o.dones == 1)

/-- **stable**: every `Result()` call returned the same pair -/
def stableOK (o : Obs) : Bool :=
  match o.results with
  | [] => true
  | x :: xs => xs.all (· == x)

/-- a value is a reply that was sent to this future's address, comes without error and is not a Go
`error`; an error reply surfaces as the error, without a value -/
def resOK (addrOf : Nat → Option Nat) (o : Obs) : Bool :=
  o.results.all fun (m, e) =>
    (match m with
     | none => true
     | some r => e == none && !r.isErr && addrOf r.tag == some o.addr) &&
    (match e with
     | some (.reply t _) => m == none && addrOf t == some o.addr
     | _ => true)

/-- **own reply**: the value answers this very request -/
def ownOK (o : Obs) : Bool :=
  o.results.all fun (m, e) =>
    (match m with
     | none => true
     | some r => r.tag == o.k) &&
    (match e with
     | some (.reply t _) => t == o.k
     | _ => true)

/-- **released** (at quiescence, no nil-rc panic): a completed future is no longer registered and its
timer is not pending -/
def releasedOK (o : Obs) : Bool :=
  !(o.dones == 1) || (!o.registered && !o.timerActive)

/-- **no hang** (at quiescence): an initialised future with a timeout is complete -/
def noHangOK (o : Obs) : Bool :=
  !(o.tmo && o.rcSet) || (o.closed && o.dones == 1)

/-- forward targets (at quiescence, completed future): each is told exactly once -/
def fwdOK (o : Obs) : Bool :=
  !(o.dones == 1) || (o.pendingFwd == 0 && (o.fwdLog.map (·.1)).isPerm o.fwdReq)

def addrOf (os : List Obs) (k : Nat) : Option Nat := (os.find? (·.k == k)).map (·.addr)

def addrsUnique (os : List Obs) : Bool := (os.map (·.addr)).Nodup

/-- clauses that hold in every reachable state -/
def safeClauses (os : List Obs) : List (String × Bool) := [
  ("completed-more-than-once", os.all onceOK),
  ("result-changed", os.all stableOK),
  ("foreign-or-error-value", os.all (resOK (addrOf os))),
  ("other-requests-reply", !addrsUnique os || os.all ownOK)]

/-- clauses for quiescent states (every enabled thread has finished) -/
def quietClauses (crashes : Nat) (os : List Obs) : List (String × Bool) := [
  ("address-or-timer-not-released", crashes != 0 || os.all releasedOK),
  ("hang", os.all noHangOK),
  ("forward-not-exactly-once", crashes != 0 || os.all fwdOK)]

def firstBad (cl : List (String × Bool)) : Option String := (cl.find? (fun c => !c.2)).map (·.1)

/-- verdict on a final observation -/
def verdict (crashes : Nat) (os : List Obs) : String :=
  match firstBad (safeClauses os ++ quietClauses crashes os) with
  | none => "ok"
  | some c => "bad:" ++ c

/-! ## outcome of one ask (end to end) -/

inductive Outcome where
  | own        -- the first reply to this very request, no error
  | timeout    -- no value, the timeout error
  | errreply   -- no value, the error that was replied to this very request
  | closed     -- no value, the reason somebody passed to Close
  | second | wrong | wrongerr | errvalue | nilok | other   -- everything else a Result() can return
  | hang | panic | unstable | skipped                       -- … or fail to return
  deriving DecidableEq, Repr

/-- classification of what `Result()` of ask `k` returned -/
def classify (k : Nat) : Res → Outcome
  | (some r, none) => if r.isErr then .errvalue else if r.tag = k then .own else .wrong
  | (some _, some _) => .other
  | (none, some .timeout) => .timeout
  | (none, some (.reply t _)) => if t = k then .errreply else .wrongerr
  | (none, some (.reason _)) => .closed
  | (none, none) => .nilok

/-- what an ask may resolve to when nobody calls `Close` on its future -/
def Outcome.allowed : Outcome → Bool
  | .own | .timeout | .errreply => true
  | _ => false

def Outcome.name : Outcome → String
  | .own => "own" | .timeout => "timeout" | .errreply => "errreply" | .closed => "closed"
  | .second => "second" | .wrong => "wrong" | .wrongerr => "wrongerr" | .errvalue => "errvalue"
  | .nilok => "nilok" | .other => "other" | .hang => "hang" | .panic => "panic"
  | .unstable => "unstable" | .skipped => "skipped"

def Outcome.all : List Outcome :=
  [.own, .timeout, .errreply, .closed, .second, .wrong, .wrongerr, .errvalue, .nilok, .other, .hang, .panic,
   .unstable, .skipped]

inductive Recv where | echo | silent | error | double | late
  deriving DecidableEq, Repr

/-- an `ask` operation of the end-to-end suite and what the harness counted -/
structure AskObs where
  askers : Nat
  each : Nat
  recv : Recv
  timeoutUs : Nat
  count : Outcome → Nat
  late : Nat          -- completed later than timeout + 10 s
  req : Nat           -- requests the receiver handled
  nilreq : Nat        -- requests that arrived without message
  regdelta : Int      -- registry size after − before
  spawnPanic : Bool

/-- a timeout under which an in-process echo must arrive even on a heavily loaded machine (60 s) -/
def generous (o : AskObs) : Bool := decide (60000000 ≤ o.timeoutUs)

def askClauses (o : AskObs) : List (String × Bool) :=
  let total := o.askers * o.each
  [("ask-lost-or-counted-twice", (Outcome.all.map o.count).sum == total)] ++
  (Outcome.all.filter (fun c => !c.allowed)).map (fun c => ("outcome-" ++ c.name, o.count c == 0)) ++
  [("completed-later-than-timeout+10s", o.late == 0),
   ("request-arrived-without-message", o.nilreq == 0),
   ("request-duplicated", decide (o.req ≤ total)),
   ("reply-address-not-released", o.regdelta == 0),
   ("spawn-panicked", !o.spawnPanic),
   ("reply-from-nowhere", !(o.recv == .silent) || (o.count .own == 0 && o.count .errreply == 0)),
   ("value-for-error-reply", !(o.recv == .error) || o.count .own == 0),
   ("error-for-value-reply", !(o.recv == .echo || o.recv == .double) || o.count .errreply == 0),
   ("reply-in-time-but-no-result",
      !(generous o && (o.recv == .echo || o.recv == .double)) || (o.count .own == total && o.req == total)),
   ("error-reply-in-time-but-no-error",
      !(generous o && o.recv == .error) || (o.count .errreply == total && o.req == total))]

def askVerdict (o : AskObs) : String :=
  match firstBad (askClauses o) with
  | none => "ok"
  | some c => "bad:" ++ c

end MV.Spec.Future
