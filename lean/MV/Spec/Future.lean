import MV.Model.Future
/-!
# C07 as a specification over observations of futures

An `Obs` is what can be seen of one future from outside (in the model: a projection of the state; in
the Go harness: accessors + what `Result()` calls returned + what forward targets received).  The
clauses below are `Bool` functions so that the *same* definitions are (a) proved of the model for every
schedule (`MV/Props/C07.lean`) and (b) evaluated on the observations of the real code (`future-judge`).
-/
namespace MV.Spec.Future
open MV.Model.Future

structure Obs where
  k : Nat
  addr : Nat
  tmo : Bool
  rcSet : Bool
  closed : Bool
  dones : Nat
  registered : Bool      -- the registry maps `addr` to this very future
  timerActive : Bool
  pendingFwd : Nat
  results : List Res
  fwdLog : List (Nat × Option Err)
  fwdReq : List Nat      -- targets of the Forward calls that have returned
  deriving DecidableEq, Repr

/-- **exactly once**: `done` is closed at most once, only by a future whose flag is set, and nothing
reads a result before -/
def onceOK (o : Obs) : Bool :=
  decide (o.dones ≤ 1) && (o.closed || o.dones == 0) && (o.results.isEmpty || o.dones == 1)

/-- **stable**: every `Result()` call returned the same pair -/
def stableOK (o : Obs) : Bool :=
  match o.results with
  | [] => true
  | x :: xs => xs.all (· == x)

/-- a value is a reply that was sent to this future's address, comes without error and is not a Go
`error`; an error reply surfaces as the error, without a value -/
def resOK (addrOf : Nat → Option Nat) (o : Obs) : Bool :=
  o.results.all fun (m, e) =>
    (match m with
     | none => true
     | some r => e == none && !r.isErr && addrOf r.tag == some o.addr) &&
    (match e with
     | some (.reply t _) => m == none && addrOf t == some o.addr
     | _ => true)

/-- **own reply**: the value answers this very request -/
def ownOK (o : Obs) : Bool :=
  o.results.all fun (m, _) => match m with
    | none => true
    | some r => r.tag == o.k

/-- **released** (at quiescence, no nil-rc panic): a completed future is no longer registered and its
timer is not pending -/
def releasedOK (o : Obs) : Bool :=
  !(o.dones == 1) || (!o.registered && !o.timerActive)

/-- **no hang** (at quiescence): an initialised future with a timeout is complete -/
def noHangOK (o : Obs) : Bool :=
  !(o.tmo && o.rcSet) || (o.closed && o.dones == 1)

/-- forward targets (at quiescence, completed future): each is told exactly once -/
def fwdOK (o : Obs) : Bool :=
  !(o.dones == 1) || (o.pendingFwd == 0 && (o.fwdLog.map (·.1)).isPerm o.fwdReq)

def addrOf (os : List Obs) (k : Nat) : Option Nat := (os.find? (·.k == k)).map (·.addr)

def addrsUnique (os : List Obs) : Bool := (os.map (·.addr)).Nodup

/-- clauses that hold in every reachable state -/
def safeClauses (os : List Obs) : List (String × Bool) := [
  ("completed-more-than-once", os.all onceOK),
  ("result-changed", os.all stableOK),
  ("foreign-or-error-value", os.all (resOK (addrOf os))),
  ("other-requests-reply", !addrsUnique os || os.all ownOK)]

/-- clauses for quiescent states (every enabled thread has finished) -/
def quietClauses (crashes : Nat) (os : List Obs) : List (String × Bool) := [
  ("address-or-timer-not-released", crashes != 0 || os.all releasedOK),
  ("hang", os.all noHangOK),
  ("forward-not-exactly-once", crashes != 0 || os.all fwdOK)]

def firstBad (cl : List (String × Bool)) : Option String := (cl.find? (fun c => !c.2)).map (·.1)

/-- verdict on a final observation -/
def verdict (crashes : Nat) (os : List Obs) : String :=
  match firstBad (safeClauses os ++ quietClauses crashes os) with
  | none => "ok"
  | some c => "bad:" ++ c

end MV.Spec.Future
