import MV.Model.ClusterManager
/-!
# Abstract specification of C13: a registry of (ability, identity) pairs

The property, as the simplest possible definitions.  The state is the set of *live pairs* (each with
the incarnation number of its actor) and the log of launches; there is no table of children, no
registry of names, nothing can panic:

* a lookup of an ability the node does not offer is an error and changes nothing;
* a lookup of a live pair returns that pair's reference — nothing is launched;
* a lookup of a pair that is not live launches its actor exactly once, unless no actor can carry the
  name (illegal identity/ability) or the address `identity-ability` belongs to *another* live pair
  (the name is not injective: `("a-b","c")` and `("a","b-c")`), in which case it is refused;
* a kill removes exactly that pair; a restart of the manager removes every pair.

Same `Op`/`Out` language as the model (`MV.Model.ClusterManager`).
-/
namespace MV.Spec.ClusterRegistry
open MV.Model.ClusterManager (Name Key Ref Reply Op Out nameOf legalName)

structure Reg where
  offered : List Name
  /-- live pairs (ability, identity) with the incarnation number of their actor -/
  live : List (Key × Nat)
  /-- one entry (the address name) per launch -/
  launches : List Name
deriving Repr

def init (offered : List Name) : Reg := { offered := offered, live := [], launches := [] }

def keyName (k : Key) : Name := nameOf k.2 k.1

def findLive : List (Key × Nat) → Key → Option Nat
  | [], _ => none
  | (k, n) :: rest, k' => if k = k' then some n else findLive rest k'

/-- the address of `k` belongs to a live pair -/
def nameTaken (live : List (Key × Nat)) (k : Key) : Bool :=
  live.any (fun e => keyName e.1 == keyName k)

def lookup (s : Reg) (i a : Name) : Reg × Reply :=
  if a ∉ s.offered then (s, .errAbility)
  else match findLive s.live (a, i) with
    | some n => (s, .ref ⟨keyName (a, i), n⟩)
    | none =>
      if !legalName i || !legalName a then (s, .errCreate)
      else if nameTaken s.live (a, i) then (s, .errCreate)
      else
        let launches := keyName (a, i) :: s.launches
        let n := launches.count (keyName (a, i))
        ({ s with live := ((a, i), n) :: s.live, launches := launches }, .ref ⟨keyName (a, i), n⟩)

def step (s : Reg) : Op → Reg × Out
  | .lookup i a => let (s', r) := lookup s i a; (s', .reply r)
  | .kill i a =>
    match findLive s.live (a, i) with
    | some _ => ({ s with live := s.live.filter (fun e => e.1 ≠ (a, i)) }, .killed (keyName (a, i)))
    | none => (s, .none)
  | .restart => ({ s with live := [] }, .restarted)

def run (s : Reg) : List Op → Reg × List Out
  | [] => (s, [])
  | op :: ops =>
    let (s', o) := step s op
    let (s'', os) := run s' ops
    (s'', o :: os)

end MV.Spec.ClusterRegistry
