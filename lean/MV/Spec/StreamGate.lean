import MV.Model.StreamGate
/-!
# Specification of the sender side of C11 as Bool checkers over what a stream observes

`checkFinal` judges a *quiescent* sender (every thread finished): nothing is stranded, the gate is
idle, every accepted batch has between 1 and `limit` messages, the concatenation of the accepted
batches is an in-order duplicate-free selection of the appended messages (`List.isSublist`), and it is
*all* of them when the stream never refused a `Send`.  The same function judges the final state of
the Lean model (theorem `C11_quiescent_judged`) and the batches recorded by the harness's fake
stream from the real `sharedStreamProcess`.
-/
namespace MV.Spec.StreamGate

def batchesOk (limit : Nat) (sent : List (List Nat)) : Bool :=
  sent.all (fun b => 0 < b.length && b.length ≤ limit)

/-- the clause that fails, or `none` -/
def checkFinal (limit : Nat) (active : Bool) (queued : Nat) (appended : List Nat)
    (sent : List (List Nat)) (refusedAny : Bool) : Option String :=
  if active then some "gate-still-active"
  else if queued ≠ 0 then some "stranded-message"
  else if !batchesOk limit sent then some "batch-size"
  else if !sent.flatten.isSublist appended then some "duplicate-reordered-or-invented"
  else if !refusedAny && sent.flatten != appended then some "lost-while-stream-works"
  else none

/-! ## compact list syntax shared by harness, model and judge: `[1-3,7,9-10]`, batches `[1-3;4,6]` -/

def fmtRunsAux : Nat → Nat → List Nat → List String
  | lo, hi, [] => [if lo == hi then toString lo else s!"{lo}-{hi}"]
  | lo, hi, x :: xs =>
    if x == hi + 1 then fmtRunsAux lo x xs
    else (if lo == hi then toString lo else s!"{lo}-{hi}") :: fmtRunsAux x x xs

def fmtRunsBody : List Nat → String
  | [] => ""
  | x :: xs => ",".intercalate (fmtRunsAux x x xs)

def fmtRuns (l : List Nat) : String := "[" ++ fmtRunsBody l ++ "]"

def fmtBatches (bs : List (List Nat)) : String := "[" ++ ";".intercalate (bs.map fmtRunsBody) ++ "]"

def parseRun (t : String) : Option (List Nat) :=
  match t.splitOn "-" with
  | [a] => a.toNat?.map (fun x => [x])
  | [a, b] => match a.toNat?, b.toNat? with
    | some lo, some hi => if lo ≤ hi then some ((List.range (hi + 1 - lo)).map (· + lo)) else none
    | _, _ => none
  | _ => none

def parseRunsBody (s : String) : Option (List Nat) :=
  if s.isEmpty then some [] else ((s.splitOn ",").mapM parseRun).map List.flatten

def unbracket (s : String) : Option String :=
  if s.startsWith "[" && s.endsWith "]" then some ((s.drop 1).dropEnd 1).toString else none

def parseRuns (s : String) : Option (List Nat) := (unbracket s).bind parseRunsBody

def parseBatches (s : String) : Option (List (List Nat)) :=
  (unbracket s).bind (fun b => if b.isEmpty then some [] else (b.splitOn ";").mapM parseRunsBody)

def kv (toks : List String) (key : String) : Option String :=
  (toks.find? (·.startsWith (key ++ "="))).map (fun t => (t.drop (key.length + 1)).toString)

/-- judge of the final line `act=… q=… appended=[…] sent=[…;…] refused=…` -/
def judgeFinal (limit : Nat) (toks : List String) : String :=
  match (kv toks "act").bind String.toNat?, (kv toks "q").bind String.toNat?,
        (kv toks "appended").bind parseRuns, (kv toks "sent").bind parseBatches,
        (kv toks "refused").bind String.toNat? with
  | some act, some q, some app, some sent, some refused =>
    match checkFinal limit (act != 0) q app sent (refused != 0) with
    | none => "ok"
    | some c => "bad:" ++ c
  | _, _, _, _, _ => "bad:unparsable"

end MV.Spec.StreamGate
