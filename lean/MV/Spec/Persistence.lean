import MV.Model.Persistence
/-!
# Specification of property C09

The persistent actor seen from outside: its state is the fold of every event it ever recorded, in
order — across restarts and across stop / re-create cycles; what the storage holds replays to the
state the actor had when it last persisted; recording an event leaves message and sender alone.

`step` answers the same operations as `MV.Model.Persistence.step` (`dash` where the specification says
nothing: journal length, replay log, raw record).
-/
namespace MV.Spec.Persistence
open MV.Model.Persistence

structure S (σ : Type) where
  /-- fold of all events recorded so far -/
  cur : σ
  /-- the state when the actor last persisted (the initial state when nothing is stored) -/
  persisted : σ
  launches : Nat
  deriving DecidableEq, Repr

def S.init {σ ε : Type} (F : Fold σ ε) : S σ := ⟨F.init, F.init, 1⟩

def step {σ ε : Type} (F : Fold σ ε) (s : S σ) : Op ε → S σ × Out σ ε
  | .ev e => let c := F.apply s.cur e; ({ s with cur := c }, .evOut c true true)
  | .evq e => ({ s with cur := F.apply s.cur e }, .quiet)
  -- a restart / a stop persists, the next generation recovers exactly that state
  | .fail => ({ s with persisted := s.cur, launches := s.launches + 1 }, .stateL s.cur (s.launches + 1))
  | .recreate => ({ s with persisted := s.cur, launches := s.launches + 1 }, .stateL s.cur (s.launches + 1))
  | .persist => ({ s with persisted := s.cur }, .ok)
  | .snap => (s, .ok)
  | .clear => ({ s with persisted := F.init }, .ok)
  | .get => (s, .state s.cur)
  | .count => (s, .dash)
  | .rlog => (s, .dash)
  | .stored => (s, .dash)
  | .replay => (s, .state s.persisted)

def run {σ ε : Type} (F : Fold σ ε) (s : S σ) (h : List (Op ε)) : S σ :=
  h.foldl (fun s o => (step F s o).1) s

/-- the answers along a history -/
def trace {σ ε : Type} (F : Fold σ ε) (s : S σ) : List (Op ε) → List (Out σ ε)
  | [] => []
  | o :: h => (step F s o).2 :: trace F (step F s o).1 h

/-- the events of a history, in order -/
def eventsOf {ε : Type} : List (Op ε) → List ε
  | [] => []
  | .ev e :: h => e :: eventsOf h
  | .evq e :: h => e :: eventsOf h
  | _ :: h => eventsOf h

/-- what the specification leaves open is not compared -/
def mask {σ ε : Type} : Op ε → Out σ ε → Out σ ε
  | .count, _ => .dash
  | .rlog, _ => .dash
  | .stored, _ => .dash
  | _, o => o

/-- a model trace with the open observations masked -/
def maskTrace {σ ε : Type} : List (Op ε) → List (Out σ ε) → List (Out σ ε)
  | o :: h, x :: t => mask o x :: maskTrace h t
  | _, _ => []

end MV.Spec.Persistence
