import MV.Model.Retry
/-!
# Specification of the retry helpers (C18): closed forms

Instead of loops: "the first attempt at which a stop condition holds", the invocations up to there,
one sleep per earlier attempt.  `MV.Props.C18` proves the loop models of `MV.Model.Retry` equal to
these closed forms for every script.

Core Lean only.
-/
namespace MV.Spec.Retry
open MV.Model.Retry

/-- least index `< bound` satisfying `p`, else `bound` -/
def firstIdx (p : Nat → Bool) (bound : Nat) : Nat := ((List.range bound).find? p).getD bound

/-- index of the first successful invocation (= number of leading failures; the operation
    succeeds once the script is exhausted) -/
def firstOk (script : List Outcome) : Nat := firstIdx (fun k => (outcomeAt script k).isNone) script.length

def resOf : Outcome → Res
  | none => .nil
  | some e => .err e

/-- `Retry(count, interval, f)`: `min(count, firstOk+1)` invocations, one sleep after each failure
    (also after the last one), `nil` iff a success came within `count` attempts, else the last error
    (`nil` when `count ≤ 0`: `f` is never invoked) -/
def retry (count : Int) (interval : Int) (script : List Outcome) : Run :=
  let k := firstOk script
  let n := count.toNat
  if k < n then ⟨k + 1, 0, List.replicate k interval, .nil⟩
  else ⟨n, 0, List.replicate n interval, if n = 0 then .nil else resOf (outcomeAt script (n - 1))⟩

/-- `RetryForever(interval, f)` -/
def retryForever (interval : Int) (script : List Outcome) : Run :=
  let k := firstOk script
  ⟨k + 1, 0, List.replicate k interval, .nil⟩

/-- `RetryByRule`: stops at the first attempt that succeeds or whose rule answer is `≤ 0` -/
def retryByRule (script : List Outcome) (rule : List Int) : Run :=
  let c := firstIdx (fun k => (outcomeAt script k).isNone || decide (rule.getD k 0 ≤ 0)) script.length
  match outcomeAt script c with
  | none => ⟨c + 1, c, (List.range c).map (fun k => rule.getD k 0), .nil⟩
  | some e => ⟨c + 1, c + 1, (List.range c).map (fun k => rule.getD k 0), .err e⟩

/-- stop condition of `ConditionalRetryByExponentialBackoff` at attempt `r` -/
def condStop (script : List Outcome) (cond : Option (List Bool)) (ignore : List Nat) (maxRetries : Int)
    (r : Nat) : Bool :=
  !condAt cond r ||
    match outcomeAt script r with
    | none => true
    | some e => ignored ignore e || decide ((r : Int) ≥ maxRetries)

def condRetry (script : List Outcome) (cond : Option (List Bool)) (ignore : List Nat) (maxRetries : Int)
    (delayOf : Nat → Int) : Run :=
  let r := firstIdx (condStop script cond ignore maxRetries) script.length
  let sl := (List.range r).map delayOf
  if condAt cond r = false then ⟨r, condCalls cond (r + 1), sl, .interrupted⟩
  else match outcomeAt script r with
    | none => ⟨r + 1, condCalls cond (r + 1), sl, .nil⟩
    | some e =>
      if ignored ignore e then ⟨r + 1, condCalls cond (r + 1), sl, .err e⟩
      else ⟨r + 1, condCalls cond (r + 1), sl, .maxRetries e⟩

end MV.Spec.Retry
