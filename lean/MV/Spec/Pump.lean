/-!
# History specification of the pump-backed unbounded buffers (C15)
(`buffer.RingUnbounded`, `channels.UnboundedRing`)

Observed from outside, for one run with several concurrent writers, a closer/canceller and one
reader that reads the output channel until it is closed:

* `writes[w]`: the values writer `w` handed to `Write`/`Put`, in program order;
* `lo[w]`: how many of them were *certainly accepted* (for `RingUnbounded`: the `Write` returned
  before `Close` was called; for `UnboundedRing`: `Put` returned `nil`);
* `hi[w]`: how many may have been accepted at most (`RingUnbounded`: all of them, `Write` does not
  say; `UnboundedRing`: the same number as `lo`);
* `out`: what the reader received, in order; `closed`: the reader saw the channel closed.

`judge`: the output ends (`closed`), nothing is invented, and for every writer the received values
are exactly a prefix of its writes (its order kept, nothing duplicated, nothing skipped) that covers
everything certainly accepted and nothing beyond what may have been accepted.
-/
namespace MV.Spec.Pump

/-- what the reader got from writer `w` -/
def fromWriter (ws : List Int) (out : List Int) : List Int := out.filter (fun v => ws.contains v)

def writerOk (ws : List Int) (lo hi : Nat) (out : List Int) : Bool :=
  let o := fromWriter ws out
  o.isPrefixOf ws && decide (lo ≤ o.length) && decide (o.length ≤ hi)

def zip3 : List (List Int) → List Nat → List Nat → List (List Int × Nat × Nat)
  | w :: ws, l :: ls, h :: hs => (w, l, h) :: zip3 ws ls hs
  | _, _, _ => []

def noneInvented (writes : List (List Int)) (out : List Int) : Bool :=
  out.all (fun v => writes.flatten.contains v)

def inputOk (writes : List (List Int)) (lo hi : List Nat) : Bool :=
  decide writes.flatten.Nodup && decide (lo.length = writes.length) && decide (hi.length = writes.length)

def judge (writes : List (List Int)) (lo hi : List Nat) (out : List Int) (closed : Bool) : Bool :=
  inputOk writes lo hi && closed && noneInvented writes out &&
    (zip3 writes lo hi).all (fun (ws, l, h) => writerOk ws l h out)

/-- the verdict line of the oracle: the first clause that fails -/
def verdict (writes : List (List Int)) (lo hi : List Nat) (out : List Int) (closed : Bool) : String :=
  if !inputOk writes lo hi then "bad:input"
  else if !closed then "bad:output-never-closed"
  else if !noneInvented writes out then "bad:invented"
  else if !(zip3 writes lo hi).all (fun (ws, _, _) => (fromWriter ws out).isPrefixOf ws) then "bad:order-or-duplicate"
  else if !(zip3 writes lo hi).all (fun (ws, l, _) => decide (l ≤ (fromWriter ws out).length)) then "bad:accepted-element-lost"
  else if !(zip3 writes lo hi).all (fun (ws, _, h) => decide ((fromWriter ws out).length ≤ h)) then "bad:rejected-element-delivered"
  else "ok"


theorem all_and3 {α : Type} (l : List α) (p q r : α → Bool) :
    l.all (fun x => p x && q x && r x) = (l.all p && l.all q && l.all r) := by
  induction l with
  | nil => rfl
  | cons x xs ih =>
    simp only [List.all_cons, ih]
    cases p x <;> cases q x <;> cases r x <;> cases xs.all p <;> cases xs.all q <;> cases xs.all r <;> rfl

theorem verdict_ok_iff (writes : List (List Int)) (lo hi : List Nat) (out : List Int) (closed : Bool) :
    verdict writes lo hi out closed = "ok" ↔ judge writes lo hi out closed = true := by
  have h := all_and3 (zip3 writes lo hi) (fun x => (fromWriter x.1 out).isPrefixOf x.1)
    (fun x => decide (x.2.1 ≤ (fromWriter x.1 out).length)) (fun x => decide ((fromWriter x.1 out).length ≤ x.2.2))
  unfold verdict judge writerOk
  simp only [] at h ⊢
  rw [h]
  cases inputOk writes lo hi <;> cases closed <;> cases noneInvented writes out <;>
    cases (zip3 writes lo hi).all (fun x => (fromWriter x.1 out).isPrefixOf x.1) <;>
    cases (zip3 writes lo hi).all (fun x => decide (x.2.1 ≤ (fromWriter x.1 out).length)) <;>
    cases (zip3 writes lo hi).all (fun x => decide ((fromWriter x.1 out).length ≤ x.2.2)) <;> decide

end MV.Spec.Pump
