import MV.Model.ECS
/-!
# Abstract specification of the ECS world (C14)

The property itself, as the simplest possible state: for every entity *name* (creation index)
whether it is living, the component ids it was spawned with, and the value of every component.
There are no slots, generations, archetypes, rows or masks at this level.

* an entity is living from its spawn until the first annihilation of its handle, never again;
* a query answers with exactly the living names whose component *set* satisfies the filter, each once;
* a component value is what was last written to that `(entity, component)`, `0` before any write.

The spec does not determine the numeric handle (`id.generation`) of a new entity: `spawn` answers
`any`; handle distinctness is a theorem about the model (`C14_handles_distinct`) and is judged on the
implementation's outputs by `fresh` below (suite `ecs-judge`).
-/
namespace MV.Spec.ECS
open MV.Model.ECS (Filter Op Out validIds)

/-! ## filters over component *sets* (given as any list of ids) -/

def has (comps : List Nat) (c : Nat) : Bool := comps.contains c

mutual
def sat (comps : List Nat) : Filter → Bool
  | .and l => satAll comps l
  | .or l => satAny comps l
  | .isIn ids => ids.all (fun c => has comps c)
  | .notIn ids => ids.all (fun c => !has comps c)
  | .eq ids => ids.all (fun c => has comps c) && comps.all (fun c => has ids c)
def satAll (comps : List Nat) : List Filter → Bool
  | [] => true
  | f :: fs => sat comps f && satAll comps fs
def satAny (comps : List Nat) : List Filter → Bool
  | [] => false
  | f :: fs => sat comps f || satAny comps fs
end

structure St where
  ncomp : Nat
  living : List Bool          -- per name
  comps : List (List Nat)     -- per name: the ids given to Spawn
  data : Nat → Nat → Int      -- name → component → value

def St.new : St := { ncomp := 0, living := [], comps := [], data := fun _ _ => 0 }

def St.n (s : St) : Nat := s.living.length
def St.isLiving (s : St) (i : Nat) : Bool := s.living.getD i false
def St.compsOf (s : St) (i : Nat) : List Nat := s.comps.getD i []

def St.kill (s : St) (i : Nat) : St := { s with living := s.living.set i false }

/-- living names matching a filter, ascending -/
def St.matches (s : St) (f : Filter) : List Nat :=
  (List.range s.n).filter (fun i => s.isLiving i && sat (s.compsOf i) f)

def St.setData (s : St) (i c : Nat) (v : Int) : St :=
  { s with data := fun i' c' => if i' = i ∧ c' = c then v else s.data i' c' }

def step (s : St) : Op → St × Out
  | .reg => ({ s with ncomp := s.ncomp + 1 }, .nat (s.ncomp + 1))
  | .rereg k => if 1 ≤ k ∧ k ≤ s.ncomp then (s, .nat k) else (s, .badOp)
  | .spawn ids =>
    if validIds s.ncomp ids then
      ({ s with living := s.living ++ [true], comps := s.comps ++ [ids] }, .any)
    else (s, .badOp)
  | .spawnN n ids =>
    if validIds s.ncomp ids then
      ({ s with living := s.living ++ List.replicate n true, comps := s.comps ++ List.replicate n ids }, .any)
    else (s, .badOp)
  | .kill h => if h < s.n then (s.kill h, .ok) else (s, .badOp)
  | .killN l => if l.all (· < s.n) then (l.foldl St.kill s, .ok) else (s, .badOp)
  | .alive h => if h < s.n then (s, .bool (s.isLiving h)) else (s, .badOp)
  | .read h c =>
    if h < s.n then
      (s, if s.isLiving h && has (s.compsOf h) c then .val (s.data h c) else .nil)
    else (s, .badOp)
  | .write h c v =>
    if h < s.n then
      if s.isLiving h && has (s.compsOf h) c then (s.setData h c v, .ok) else (s, .nil)
    else (s, .badOp)
  | .rread h c =>
    if h < s.n then
      (s, if s.isLiving h && has (s.compsOf h) c then .val (s.data h c) else .panic)
    else (s, .badOp)
  | .rwrite h c v =>
    if h < s.n then
      if s.isLiving h && has (s.compsOf h) c then (s.setData h c v, .ok) else (s, .panic)
    else (s, .badOp)
  | .query f => (s, .qres (s.matches f).length (s.matches f))
  | .qiter c f =>
    if (s.matches f).any (fun i => !has (s.compsOf i) c) then (s, .panic)
    else (s, .iter ((s.matches f).map (fun i => (i, some (s.data i c)))))
  | .alive0 => (s, .any)
  | .kill0 => (s, .any)

def run (s : St) : List Op → List Out
  | [] => []
  | op :: ops => (step s op).2 :: run (step s op).1 ops

/-- the state after a history -/
def exec (s : St) (ops : List Op) : St := ops.foldl (fun s op => (step s op).1) s

/-- what the spec does not determine: numeric handles, and the reserved zero entity -/
def erase : Op → Out → Out
  | .spawn _, .ent _ => .any
  | .spawnN _ _, .ents _ => .any
  | .alive0, _ => .any
  | .kill0, _ => .any
  | _, o => o

def eraseAll : List Op → List Out → List Out
  | op :: ops, o :: os => erase op o :: eraseAll ops os
  | _, _ => []

/-! ## judging the handles the implementation hands out -/

/-- `fresh issued new`: the handles returned by a spawn are pairwise distinct and none of them was
ever handed out before (hence distinct from every living *and* every dead handle). -/
def fresh (issued : List MV.Model.ECS.Entity) : List MV.Model.ECS.Entity → Bool
  | [] => true
  | e :: es => !issued.contains e && !es.contains e && fresh issued es

end MV.Spec.ECS
