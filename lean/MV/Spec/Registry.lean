/-!
# Specification of the process registry (`engine/prc/resource_controller.go`)

## The sequential object

A map `address → process`.  `Register a p` stores `p` when `a` is free and is refused (`exist`)
otherwise, leaving the map untouched; `Unregister a` removes whatever is stored; `GetProcess` through
a reference with address `a` returns the stored process or the not-found substitute (`none` here).

## Linearisation events

Every operation takes effect at one instant between its call and its return — except that
`Unregister` is given **two** instants, `del` (the process leaves the map) and `term` (the process is
marked terminated for the holders of caching references), with the removed process *in limbo* in
between.  `applyLin mode` is the sequential automaton over these events, in three strengths:

* `Mode.atomic` — `Unregister` is one atomic removal (at `del`): a lookup returns what the map holds at
  its instant.  Plain linearizability to the sequential map.
* `Mode.stated` — the property as stated: an `Unregister` in progress may be observed as done or as not
  yet done by each lookup (the removed process or the substitute), **but** once a newer registrant is
  in the map every lookup yields that one ("from a successful registration until its unregistration
  every lookup yields that process").  A lookup may return a limbo process only while the address is
  free.  This is what the judge demands of the implementation.
* `Mode.code` — additionally a lookup may return a process that is in limbo although a newer registrant
  is already stored.  This is all the unchanged code guarantees (finding `C12-stale-lookup-in-unregister-window`).

## Traces and histories

`TrEv` is a global trace of `call`/`lin`/`ret` events tagged with operation ids; `checkTrace` is the
`Bool` statement "the `lin` events form a legal run of the automaton, and every operation's own events
are `call, lin…, ret` in this order with the returned value being the linearised one" — i.e. the
trace is a linearisation proof of its own call/return history.  The model records such a trace as
ghost state and `MV.Props.C12` proves `checkTrace .code` for every schedule.

`linearizable mode ops` is the judge for histories recorded from the implementation (calls and
returns only): a search for instants (Wing–Gong style, over the same `applyLin`).

Core Lean only.
-/
namespace MV.Spec.Registry

abbrev Addr := Nat
abbrev Proc := Nat

/-- function update (the map, the terminated flags and the caches are total functions) -/
def upd {α β : Type} [DecidableEq α] (f : α → β) (a : α) (v : β) : α → β :=
  fun x => if x = a then v else f x

inductive Lin where
  | reg (a : Addr) (p : Proc) (ok : Bool)     -- LoadOrStore: stored (`ok`) or refused
  | del (a : Addr) (p : Option Proc)          -- LoadAndDelete: what was removed, if anything
  | term (a : Addr) (p : Proc)                -- Terminate of the removed process
  | get (a : Addr) (v : Option Proc)          -- lookup decides its answer (`none` = substitute)
  deriving DecidableEq, Repr

structure Abs where
  cur : Addr → Option Proc := fun _ => none
  limbo : List (Addr × Proc) := []

def Abs.init : Abs := {}

inductive Mode where
  | atomic | stated | code
  deriving DecidableEq, Repr

/-- may a lookup of `a` answer `v` in abstract state `s`? -/
def getAllowed (m : Mode) (s : Abs) (a : Addr) (v : Option Proc) : Bool :=
  s.cur a == v ||
    (match v with
      | some p => s.limbo.contains (a, p) &&
          (match m with
           | .atomic => false
           | .stated => (s.cur a).isNone
           | .code => true)
      | none => false)

def applyLin (mode : Mode) (s : Abs) : Lin → Option Abs
  | .reg a p true => if s.cur a = none then some { s with cur := upd s.cur a (some p) } else none
  | .reg a _ false => if (s.cur a).isSome then some s else none
  | .del a none => if s.cur a = none then some s else none
  | .del a (some p) =>
      if s.cur a = some p then some { cur := upd s.cur a none, limbo := (a, p) :: s.limbo } else none
  | .term a p => some { s with limbo := s.limbo.erase (a, p) }
  | .get a v => if getAllowed mode s a v then some s else none

def runLins (mode : Mode) : Abs → List Lin → Option Abs
  | s, [] => some s
  | s, l :: ls => match applyLin mode s l with
      | some s' => runLins mode s' ls
      | none => none

/-! ## traces -/

inductive Op where
  | reg (a : Addr) | unreg (a : Addr) | get (a : Addr)
  deriving DecidableEq, Repr

inductive Res where
  | regOk (p : Proc) | regExist | unit | proc (v : Option Proc)
  deriving DecidableEq, Repr

inductive TrEv where
  | call (k : Nat) (op : Op)
  | lin (k : Nat) (l : Lin)
  | ret (k : Nat) (r : Res)
  deriving DecidableEq, Repr

def TrEv.id : TrEv → Nat
  | .call k _ | .lin k _ | .ret k _ => k

def lins (tr : List TrEv) : List Lin :=
  tr.filterMap (fun e => match e with | .lin _ l => some l | _ => none)

/-- the events of operation `k`, in trace order -/
def proj (k : Nat) (tr : List TrEv) : List TrEv := tr.filter (fun e => e.id == k)

/-- admissible event sequences of ONE operation (complete, or a prefix while it is pending) -/
def shapeOK : List TrEv → Bool
  | [] => true
  | [.call _ _] => true
  | [.call _ (.reg a), .lin _ (.reg a' _ _)] => a == a'
  | [.call _ (.reg a), .lin _ (.reg a' p ok), .ret _ r] =>
      a == a' && r == (if ok then .regOk p else .regExist)
  | [.call _ (.unreg a), .lin _ (.del a' _)] => a == a'
  | [.call _ (.unreg a), .lin _ (.del a' none), .ret _ r] => a == a' && r == .unit
  | [.call _ (.unreg a), .lin _ (.del a' (some p)), .lin _ (.term a'' p')] =>
      a == a' && a == a'' && p == p'
  | [.call _ (.unreg a), .lin _ (.del a' (some p)), .lin _ (.term a'' p'), .ret _ r] =>
      a == a' && a == a'' && p == p' && r == .unit
  | [.call _ (.get a), .lin _ (.get a' _)] => a == a'
  | [.call _ (.get a), .lin _ (.get a' v), .ret _ r] => a == a' && r == .proc v
  | _ => false

/-- the trace proves its own call/return history linearizable w.r.t. `applyLin mode`:
legal run of the `lin` events + per-operation `call < lin < ret` with matching values. `n` bounds the
operation ids that occur. -/
def checkTrace (mode : Mode) (n : Nat) (tr : List TrEv) : Bool :=
  (runLins mode Abs.init (lins tr)).isSome &&
  tr.all (fun e => e.id < n) &&
  (List.range n).all (fun k => shapeOK (proj k tr))

/-! ## judge of recorded histories (calls and returns only) -/

/-- a completed operation with the positions of its call and return in the recorded history -/
structure HOp where
  id : Nat
  op : Op
  res : Res
  call : Nat
  ret : Nat
  deriving Repr

/-- search state of one operation: not yet linearised / unregister between `del` and `term` / done -/
inductive Phase where
  | todo | limbo (p : Proc) | fin
  deriving DecidableEq, Repr

/-- may operation `i` take its next instant now? every operation that returned before `i` was called
must be finished -/
def eligible (ops : List HOp) (ph : List Phase) (x : HOp) : Bool :=
  (ops.zip ph).all (fun (y, py) => !(y.ret < x.call) || py == .fin)

/-- the `lin` event operation `x` contributes next, and its phase afterwards -/
def nextLin (s : Abs) (x : HOp) (p : Phase) : Option (Lin × Phase) :=
  match p, x.op, x.res with
  | .todo, .reg a, .regOk q => some (.reg a q true, .fin)
  | .todo, .reg a, .regExist => some (.reg a 0 false, .fin)
  | .todo, .unreg a, .unit =>
      (match s.cur a with
       | none => some (.del a none, .fin)
       | some q => some (.del a (some q), .limbo q))
  | .limbo q, .unreg a, .unit => some (.term a q, .fin)
  | .todo, .get a, .proc v => some (.get a v, .fin)
  | _, _, _ => none

def setPhase (ph : List Phase) (i : Nat) (p : Phase) : List Phase := ph.set i p

/-- depth-first search over the orders of instants; `fuel` ≥ 2·(number of operations)+1 -/
def search (mode : Mode) (ops : List HOp) : Nat → Abs → List Phase → Bool
  | 0, _, ph => ph.all (· == .fin)
  | fuel + 1, s, ph =>
    if ph.all (· == .fin) then true
    else
      (List.range ops.length).any (fun i =>
        match ops[i]?, ph[i]? with
        | some x, some p =>
          if p == .fin then false
          else if p == .todo && !eligible ops ph x then false
          else match nextLin s x p with
            | none => false
            | some (l, p') => match applyLin mode s l with
                | none => false
                | some s' => search mode ops fuel s' (setPhase ph i p')
        | _, _ => false)

def linearizable (mode : Mode) (ops : List HOp) : Bool :=
  search mode ops (2 * ops.length + 1) Abs.init (ops.map (fun _ => Phase.todo))

/-- verdict on a recorded history: the property as stated; a history only the `code` automaton
explains is the known stale lookup -/
def judgeHistory (ops : List HOp) : String :=
  if linearizable .stated ops then "ok"
  else if linearizable .code ops then "bad:stale-lookup-in-unregister-window"
  else "bad:not-linearizable"

end MV.Spec.Registry
