import MV.Model.Civil
/-!
# C19 — what the calendar and period helpers of `toolkit/chrono` have to compute (spec)

Two forms of the same property.

* **Functional spec for fixed-offset zones** (`startOfDay`, `weekdayStart`, `relWeekStart`,
  `nextMoment`, …): closed arithmetic on day numbers (floor division by a day, Monday-based weeks),
  *no* civil-calendar round trip, no `time.Date` normalisation.  The model (`MV.Model.Chrono`) is
  proved equal to it (`MV.Props.C19`), and the oracle suite `chrono-spec` evaluates it on the
  operation lines to decide whether an implementation answer is a concrete failure.

* **Judges over an arbitrary zone** (`sodOk`, `sowOk`, `relSowOk`, `nextOk`, …): `Bool` predicates
  of the inputs and the *implementation's* answer, parameterised by the zone's offset function
  `zo : instant → seconds east`.  With a constant `zo` they are theorems about the model
  (`C19_*_judge`); with a transition table read from tzdata (`Zone`) they judge the real code in
  zones with daylight-saving shifts, where no theorem is claimed.

Instants are nanoseconds since the Unix epoch, offsets are seconds.
-/
namespace MV.Spec.Chrono
open MV.Model.Civil

/-! ## functional spec, fixed offset -/

/-- first instant of the local day containing `t` -/
def startOfDay (off t : Int) : Int := t - nsOfDay off t
/-- 23:59:59 of the local day containing `t` -/
def endOfDay (off t : Int) : Int := startOfDay off t + 86399 * nsPerSec
/-- day number of the Monday of the Monday-based week containing day `z` (1970-01-01 is a Thursday) -/
def mondayOf (z : Int) : Int := z - (z + 3) % 7
/-- position of Go weekday `wd` (0 = Sunday … 6 = Saturday) in a Monday-based week -/
def isoIndex (wd : Int) : Int := if wd = 0 then 6 else wd - 1
/-- instant of local midnight of day number `z` -/
def midnightOf (off z : Int) : Int := z * nsPerDay - off * nsPerSec
/-- 00:00:00 of the given weekday within the Monday-based week containing `t` -/
def weekdayStart (off t wd : Int) : Int := midnightOf off (mondayOf (localDays off t) + isoIndex wd)
/-- 00:00:00 of the latest `wd`-day that is not after the local date of `t`, shifted by `k` weeks -/
def relWeekStart (off t wd k : Int) : Int :=
  let z := localDays off t
  midnightOf off (z - (weekdayOfDays z - wd) % 7 + 7 * k)
/-- earliest instant strictly after `now` whose local wall clock shows `h:mi:s.000000000` -/
def nextMoment (off now h mi s : Int) : Int :=
  let x := startOfDay off now + (h * 3600 + mi * 60 + s) * nsPerSec
  if x > now then x else x + nsPerDay
def validHMS (h mi s : Int) : Bool := 0 ≤ h && h < 24 && 0 ≤ mi && mi < 60 && 0 ≤ s && s < 60
def validWeekday (wd : Int) : Bool := 0 ≤ wd && wd ≤ 6

def sameDay (off1 t1 off2 t2 : Int) : Bool := startOfDay off1 t1 == startOfDay off2 t2
def sameWeek (off1 t1 off2 t2 : Int) : Bool := weekdayStart off1 t1 1 == weekdayStart off2 t2 1
def sameMonth (off1 t1 off2 t2 : Int) : Bool :=
  let a := civilFromDays (localDays off1 t1)
  let b := civilFromDays (localDays off2 t2)
  a.1 == b.1 && a.2.1 == b.2.1

/-- interior intersection of `[a,b]` and `[c,d]` -/
def interiorsMeet (a b c d : Int) : Bool := decide (Max.max a c < Min.min b d)

/-! ## judges over an arbitrary zone `zo` -/

def wallDays (zo : Int → Int) (t : Int) : Int := localDays (zo t) t
def wallNsOfDay (zo : Int → Int) (t : Int) : Int := nsOfDay (zo t) t
def wallWeekday (zo : Int → Int) (t : Int) : Int := weekdayOfDays (wallDays zo t)

/-- `r` is 00:00:00 of the local day of `t` and not after `t` -/
def sodOk (zo : Int → Int) (t r : Int) : Bool :=
  decide (r ≤ t) && wallDays zo r == wallDays zo t && wallNsOfDay zo r == 0
/-- `r` is 23:59:59 of the local day of `t` -/
def eodOk (zo : Int → Int) (t r : Int) : Bool :=
  wallDays zo r == wallDays zo t && wallNsOfDay zo r == 86399 * nsPerSec
/-- `r` is 00:00:00 on weekday `wd` of the Monday-based week of `t` (less than a week away) -/
def sowOk (zo : Int → Int) (t wd r : Int) : Bool :=
  wallNsOfDay zo r == 0 && wallWeekday zo r == wd && mondayOf (wallDays zo r) == mondayOf (wallDays zo t)
/-- `r` is 23:59:59 on weekday `wd` of the Monday-based week of `t` -/
def eowOk (zo : Int → Int) (t wd r : Int) : Bool :=
  wallNsOfDay zo r == 86399 * nsPerSec && wallWeekday zo r == wd &&
    mondayOf (wallDays zo r) == mondayOf (wallDays zo t)
/-- `r` is 00:00:00 on a `wd`-day; un-shifting it by `k` weeks gives the latest such day not after
    the local date of `t` -/
def relSowOk (zo : Int → Int) (t wd k r : Int) : Bool :=
  wallNsOfDay zo r == 0 && wallWeekday zo r == wd &&
    decide (wallDays zo r - 7 * k ≤ wallDays zo t) && decide (wallDays zo t < wallDays zo r - 7 * k + 7)
/-- candidates for "an instant with wall clock `h:mi:s` near `now`": for every offset the zone uses
    near `now` (`offs`) and every local date from yesterday to the day after tomorrow -/
def wallCandidates (zo : Int → Int) (offs : List Int) (now h mi s : Int) : List Int :=
  let z := wallDays zo now
  (offs.flatMap fun o => [z - 1, z, z + 1, z + 2].map fun d =>
    (d * secPerDay + h * 3600 + mi * 60 + s - o) * nsPerSec).filter
      fun x => decide (x > now) && wallNsOfDay zo x == (h * 3600 + mi * 60 + s) * nsPerSec
/-- `r` is the earliest instant after `now` whose wall clock shows `h:mi:s` (`offs` lists every offset
    in force between yesterday and three days ahead) -/
def nextOk (zo : Int → Int) (offs : List Int) (now h mi s r : Int) : Bool :=
  decide (r > now) && wallNsOfDay zo r == (h * 3600 + mi * 60 + s) * nsPerSec &&
    (wallCandidates zo offs now h mi s).all fun x => decide (r ≤ x)
/-- same local calendar day / Monday-based week / month -/
def sameDayRel (zo : Int → Int) (t1 t2 : Int) : Bool := wallDays zo t1 == wallDays zo t2
def sameWeekRel (zo : Int → Int) (t1 t2 : Int) : Bool := mondayOf (wallDays zo t1) == mondayOf (wallDays zo t2)
def sameMonthRel (zo : Int → Int) (t1 t2 : Int) : Bool :=
  let a := civilFromDays (wallDays zo t1)
  let b := civilFromDays (wallDays zo t2)
  a.1 == b.1 && a.2.1 == b.2.1
/-- a period is normalised -/
def normalised (s e : Int) : Bool := decide (s ≤ e)
/-- a window contains its anchor (half-open) -/
def containsAnchor (s e t : Int) : Bool := decide (s ≤ t) && decide (t < e)
/-- the week window of `t`: Monday 00:00:00 of its week up to the next Monday 00:00:00 -/
def weekWindowOk (zo : Int → Int) (t s e : Int) : Bool :=
  sowOk zo t 1 s && wallNsOfDay zo e == 0 && wallDays zo e == wallDays zo s + 7 && containsAnchor s e t

/-! ## zones with transitions (executable only; judged, not proved) -/

/-- a zone near some instant: offset before the first listed transition, then
    `(transition instant in ns, offset from then on)` in increasing order -/
structure Zone where
  initial : Int
  trans : List (Int × Int)

def Zone.offAt (z : Zone) (t : Int) : Int :=
  z.trans.foldl (fun acc p => if p.1 ≤ t then p.2 else acc) z.initial

def Zone.offsets (z : Zone) : List Int := (z.initial :: z.trans.map (·.2)).eraseDups

/-- the instants of local date `d` whose wall clock shows second-of-day `sod` (0, 1 or 2 of them) -/
def wallInstants (zo : Int → Int) (offs : List Int) (d sod : Int) : List Int :=
  (offs.map fun o => (d * secPerDay + sod - o) * nsPerSec).filter fun x => wallDays zo x == d &&
    wallNsOfDay zo x == sod * nsPerSec

/-- `h:mi:s` exists exactly once on the local date of `now` and on the next one (false in the hour a
    daylight-saving shift skips or repeats): the situation the `nextOk` clause is claimed for -/
def regularWallClock (zo : Int → Int) (offs : List Int) (now h mi s : Int) : Bool :=
  let sod := h * 3600 + mi * 60 + s
  (wallInstants zo offs (wallDays zo now) sod).length == 1 &&
    (wallInstants zo offs (wallDays zo now + 1) sod).length == 1

/-- every local date within three weeks of `t` has a 00:00:00 (false near a shift that skips midnight,
    e.g. America/Sao_Paulo until 2018): the situation the day/week clauses are claimed for -/
def regularMidnights (zo : Int → Int) (offs : List Int) (t : Int) : Bool :=
  (List.range 45).all fun i => (wallInstants zo offs (wallDays zo t - 22 + (i : Int)) 0).length == 1

end MV.Spec.Chrono
