import MV.Spec.PubSub
/-!
# C10 — the judge of un-serialised runs is sound for the specification

The concurrent suite records every API call with two reads of a logical clock. The request of the
call is enqueued at the subscription actor (for `Subscribe`: enqueued and answered) at some instant
strictly inside that window; the subscription actor handles its requests in the order of those
instants (its mailbox is a linearizable FIFO queue, C02). By `C10_live_iff` a subscription is current
for a publication iff its instant precedes the publication's and no instant of a cancellation of it
does; by `C10_copies` the subscriber then gets exactly one copy per current subscription.

The instants are not observable, only the windows. The theorems below say that the judge's two
window predicates bracket the truth for **every** choice of instants inside the windows: `mustB` implies
current, current implies `mayB`, hence `lower ≤ (number of current subscriptions) ≤ upper`. So a run that
agrees with the specification for the (unknown) real instants is never flagged (no false alarm), and
a flagged run — fewer copies than `lower` or more than `upper` — disagrees with the specification for
every possible choice of instants: a genuine violation.
-/
namespace MV.Props.C10
open MV.Spec.PubSub

/-- the instant lies strictly inside the window of the call -/
def Inside (w : Win) (τ : Nat) : Prop := w.lo < τ ∧ τ < w.hi

/-- the subscription (instant `τs`, cancellations at the instants of `cs`) is current for the
    publication handled at `τp` -/
def CurrentAt (τs τp : Nat) (cs : List (Win × Nat)) : Prop := τs < τp ∧ ∀ c ∈ cs, ¬ c.2 < τp

theorem C10_judge_must_sound (s p : Win) (cs : List (Win × Nat)) (τs τp : Nat)
    (hs : Inside s τs) (hp : Inside p τp) (hc : ∀ c ∈ cs, Inside c.1 c.2)
    (h : mustB s p (cs.map (·.1)) = true) : CurrentAt τs τp cs := by
  simp only [mustB, Bool.and_eq_true, decide_eq_true_eq, List.all_eq_true, List.mem_map] at h
  obtain ⟨h1, h2⟩ := h
  refine ⟨by have := hs.2; have := hp.1; omega, ?_⟩
  intro c hcm
  have := h2 c.1 ⟨c, hcm, rfl⟩
  have hin := hc c hcm
  have := hp.2; have := hin.1
  omega

theorem C10_judge_may_sound (s p : Win) (cs : List (Win × Nat)) (τs τp : Nat)
    (hs : Inside s τs) (hp : Inside p τp) (hc : ∀ c ∈ cs, Inside c.1 c.2)
    (h : CurrentAt τs τp cs) : mayB s p (cs.map (·.1)) = true := by
  simp only [mayB, Bool.and_eq_true, decide_eq_true_eq, List.all_eq_true, List.mem_map]
  refine ⟨by have := hs.1; have := hp.2; have := h.1; omega, ?_⟩
  rintro w ⟨c, hcm, rfl⟩
  have := h.2 c hcm
  have hin := hc c hcm
  have := hp.1; have := hin.2
  omega

/-- a subscription as the judge sees it together with the (unobservable) instants -/
structure Timed where
  w : Win
  τ : Nat
  cs : List (Win × Nat)

def Timed.ok (x : Timed) : Prop := Inside x.w x.τ ∧ ∀ c ∈ x.cs, Inside c.1 c.2

/-- **The judge's interval contains the truth**, whatever the instants: the number of subscriptions
    that are surely current is at most the number that are current, which is at most the number that
    are possibly current. -/
theorem C10_judge_bounds (subs : List Timed) (hok : ∀ x ∈ subs, x.ok) (p : Win) (τp : Nat) (hp : Inside p τp)
    [DecidablePred fun x : Timed => CurrentAt x.τ τp x.cs] :
    subs.countP (fun x => mustB x.w p (x.cs.map (·.1))) ≤ subs.countP (fun x => decide (CurrentAt x.τ τp x.cs)) ∧
    subs.countP (fun x => decide (CurrentAt x.τ τp x.cs)) ≤ subs.countP (fun x => mayB x.w p (x.cs.map (·.1))) := by
  constructor
  · apply List.countP_mono_left
    intro x hx h
    simp only [decide_eq_true_eq]
    exact C10_judge_must_sound x.w p x.cs x.τ τp (hok x hx).1 hp (hok x hx).2 h
  · apply List.countP_mono_left
    intro x hx h
    simp only [decide_eq_true_eq] at h
    exact C10_judge_may_sound x.w p x.cs x.τ τp (hok x hx).1 hp (hok x hx).2 h

/-- **No false alarm / every alarm is genuine**: if the subscriber received one copy per current
    subscription (what `C10_copies` says the subscription actor produces and `C10_no_loss_no_dup`
    says the mailboxes preserve), the two count clauses of the judge hold; contrapositively a count
    outside the interval is explained by no choice of instants. -/
theorem C10_judge_no_false_alarm (subs : List Timed) (hok : ∀ x ∈ subs, x.ok) (p : Win) (τp : Nat) (hp : Inside p τp)
    [DecidablePred fun x : Timed => CurrentAt x.τ τp x.cs] (copies : Nat)
    (hexact : copies = subs.countP (fun x => decide (CurrentAt x.τ τp x.cs))) :
    subs.countP (fun x => mustB x.w p (x.cs.map (·.1))) ≤ copies ∧
    copies ≤ subs.countP (fun x => mayB x.w p (x.cs.map (·.1))) := by
  rw [hexact]; exact C10_judge_bounds subs hok p τp hp

/-- the order clause: a list the judge accepts as non-decreasing is sorted -/
theorem C10_judge_nondecreasing (l : List Nat) : nondecreasing l = true ↔ l.Pairwise (· ≤ ·) := by
  induction l with
  | nil => simp [nondecreasing]
  | cons a rest ih =>
    cases rest with
    | nil => simp [nondecreasing]
    | cons b rest' =>
      simp only [nondecreasing, Bool.and_eq_true, decide_eq_true_eq, ih, List.pairwise_cons]
      constructor
      · rintro ⟨hab, hb, hrest⟩
        refine ⟨?_, hb, hrest⟩
        intro x hx
        simp only [List.mem_cons] at hx
        rcases hx with rfl | hx
        · exact hab
        · exact Nat.le_trans hab (hb x hx)
      · rintro ⟨ha, hb, hrest⟩
        exact ⟨ha b (by simp), hb, hrest⟩

/-! ## non-vacuity: the judge accepts a correct run and rejects a duplicate, a wrong sender, a delivery after a cancellation that surely preceded the publication -/

def obsOK : Obs :=
  { subs := [{ actor := 0, topic := 1, id := 2, w := ⟨1, 2⟩ }], unsubs := [{ actor := 0, id := 2, w := ⟨7, 8⟩ }],
    pubs := [{ publisher := 1, topic := 1, pid := 100, w := ⟨3, 4⟩ }, { publisher := 1, topic := 1, pid := 101, w := ⟨9, 10⟩ }],
    restarts := [], terms := [], dels := [{ actor := 0, inc := 1, pid := 100, sender := 1 }], deads := [], stranded := [] }

example : judgeConc obsOK = "ok" := by decide
example : judgeConc { obsOK with dels := obsOK.dels ++ obsOK.dels } = "bad:extra" := by decide
example : judgeConc { obsOK with dels := [] } = "bad:missing" := by decide
example : judgeConc { obsOK with dels := [{ actor := 0, inc := 1, pid := 100, sender := 7 }] } = "bad:sender" := by decide
example : judgeConc { obsOK with dels := obsOK.dels ++ [{ actor := 0, inc := 1, pid := 101, sender := 1 }] } = "bad:extra" := by decide

end MV.Props.C10
