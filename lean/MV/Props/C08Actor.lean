import MV.Lemmas.ActorTimersSched
import MV.Model.TimerFacts
import MV.Props.C08
/-!
# C08 — the actor's side: callbacks are turns of the owner and die with it

`MV.Model.ActorTimers` is the timer-related slice of `actor_context.go` over `MV.Model.Scheduler`:
a firing of the scheduler is the *post* of `onSchedulerFunc(callback)` into the owner's mailbox; the
callback runs when the actor takes that message (`Turn`).  `arun (init tick idle expire) ops` ranges
over every sequence of messages that register / replace / stop tasks, busy handlers, crashes
(restart → `Clear`), terminations (→ `Close`) with handlers of any duration, and waits, for every
idle deadline and expiry.
-/
namespace MV.Props.C08
open MV.Model.ActorTimers MV.Model.Scheduler

/-- **In the actor.**  The five registration functions of `actor_context.go` hand the scheduler a
function whose whole body is the post `deliverySystemMessage(ctx.ref, ctx.ref, ctx.ref, nil,
onSchedulerFunc(func() { function(ctx) }))`, and `processMessage` runs it as `m()` — the text the
suite `timer-facts` regenerates from /repo on every run.  So a callback executes only as the turn
of a system message of the owner's own mailbox, and inherits C01 (turns of one actor never overlap;
`MV.Props.C01`).  Stated as: the recorded bodies are exactly `… Register…(args, post) }`. -/
theorem C08_in_actor :
    MV.Model.TimerFacts.table.lookup "AfterTask" =
      some ("{ ctx.initScheduler() ctx.scheduler.RegisterAfterTask(name, after, " ++ MV.Model.TimerFacts.post ++ ") }") ∧
    MV.Model.TimerFacts.table.lookup "RepeatedTask" =
      some ("{ ctx.initScheduler() ctx.scheduler.RegisterRepeatedTask(name, after, interval, times, " ++ MV.Model.TimerFacts.post ++ ") }") ∧
    MV.Model.TimerFacts.table.lookup "CronTask" =
      some ("{ ctx.initScheduler() return ctx.scheduler.RegisterCronTask(name, expression, " ++ MV.Model.TimerFacts.post ++ ") }") ∧
    MV.Model.TimerFacts.table.lookup "ImmediateCronTask" =
      some ("{ ctx.initScheduler() return ctx.scheduler.RegisterImmediateCronTask(name, expression, " ++ MV.Model.TimerFacts.post ++ ") }") ∧
    MV.Model.TimerFacts.table.lookup "DayMomentTask" =
      some ("{ ctx.initScheduler() ctx.scheduler.RegisterDayMomentTask(name, lastExecuted, offset, hour, min, sec, " ++ MV.Model.TimerFacts.post ++ ") }") ∧
    MV.Model.TimerFacts.schedulerFuncCase = "m()" := by
  refine ⟨rfl, rfl, rfl, rfl, rfl, rfl⟩

/-- **Never after termination.**  No callback ever runs in an actor that has terminated: every turn
was taken while the actor was live — for every history, including callbacks that were already
posted when the actor terminated (since `bb50462` `processMessage` drops them). -/
theorem C08_not_after_terminated (tick idle expire : Nat) (ops : List AOp) :
    ∀ t ∈ (arun (init tick idle expire) ops).turns, t.live = true :=
  TurnsLive_arun _ ops (TurnsLive_init tick idle expire)

/-- … and once the actor has terminated the list of turns never grows again, whatever is sent,
however long one waits. -/
theorem C08_no_turn_after_terminated (a : Actor) (h : a.live = false) (ops : List AOp) :
    (arun a ops).turns = a.turns ∧ (arun a ops).live = false :=
  dead_arun a ops h

/-- `Terminate` makes the actor not live (so the previous theorem applies from there on). -/
theorem C08_term_terminates (a : Actor) (d : Nat) : (astep a (.term d)).live = false := by
  simp only [astep, term]
  cases hl : a.live
  · simp [hl]
  · simp only [Bool.not_true, Bool.false_eq_true, if_false]
    have hterm : ∀ b : Actor, (terminate b).live = false := by
      intro b; unfold terminate
      cases hb : b.live
      · simp [hb]
      · simp only [if_true]; rw [(idleStart_turns _).2]
    unfold settle
    simp only
    have hd := dead_drain (post (terminate (inHandler (idleStop (graceful (drain (post a) (post a).mbox.length))) d)))
      (post (terminate (inHandler (idleStop (graceful (drain (post a) (post a).mbox.length))) d))).mbox.length (hterm _)
    exact (dead_graceful _ hd.2).2

/-- **The actor's scheduler is a reachable scheduler**: whatever the actor does to it (idle-deadline
refreshes, expiry, restarts, termination, the tasks of its handlers) is a sequence of scheduler
events, so every theorem of `MV.Props.C08` about `Reach`able states — counting, replacement,
cancellation, not-early, no post after `Close` — holds for the tasks of an actor. -/
theorem C08_actor_sched_reach (tick idle expire : Nat) (ht : 0 < tick) (ops : List AOp) :
    Reach (arun (init tick idle expire) ops).sched :=
  actor_sched_reach tick idle expire ht ops

/-- **Tasks die with a restart.**  After a crash has been answered by a restart (`tryRestarted` →
`Clear`), no task object that existed before ever posts again — for every history before and after.
(What was posted *during* the restarting turn is still delivered: known finding.) -/
theorem C08_restart_clears (tick idle expire : Nat) (ht : 0 < tick) (ops : List AOp) (d : Nat) (i : Nat)
    (hl : (arun (init tick idle expire) ops).live = true)
    (hi : i < (arun (init tick idle expire) ops).sched.nobjs) (ops' : List AOp) :
    let a' := astep (arun (init tick idle expire) ops) (.crash d)
    (a'.sched.objs i).kill = true ∧ fired (arun a' ops').sched i = fired a'.sched i := by
  generalize ha : arun (init tick idle expire) ops = a at *
  have hr : Reach a.sched := by rw [← ha]; exact actor_sched_reach tick idle expire ht ops
  simp only [astep, crash, hl, Bool.not_true, Bool.false_eq_true, if_false, Option.getD_some]
  generalize hx : inHandler (idleStop (settle (idleStart (idleStop a)))) d = x
  have ex : ASteps a x := by
    rw [← hx]
    exact StepsTo.trans (StepsTo.trans (StepsTo.trans (StepsTo.trans (idleStop_steps a) (idleStart_steps _))
      (settle_steps _)) (idleStop_steps _)) (inHandler_steps _ d)
  have hxi : i < x.sched.nobjs := Nat.lt_of_lt_of_le hi (StepsTo.ext ex).nobjs
  have hxinv : AInv x := (StepsTo.reach hr ex).inv
  have hk := restart_kills x hxinv i hxi
  have er : ASteps x (restart x) := restart_steps x
  have hri : i < (restart x).sched.nobjs := Nat.lt_of_lt_of_le hxi (StepsTo.ext er).nobjs
  have es : ASteps (restart x) (settle (restart x)) := settle_steps _
  have hk' := (StepsTo.ext es).kill i hri hk
  have hsi : i < (settle (restart x)).sched.nobjs := Nat.lt_of_lt_of_le hri (StepsTo.ext es).nobjs
  exact ⟨hk', (StepsTo.ext (arun_steps _ ops')).frozen i hsi hk'⟩

/-- **Tasks die with the actor.**  In every reachable actor state that is not live the scheduler has
been closed, hence (`C08_no_post_after_close`) nothing is ever posted again, whatever follows. -/
theorem C08_terminated_closed (tick idle expire : Nat) (ht : 0 < tick) (ops ops' : List AOp)
    (hd : (arun (init tick idle expire) ops).live = false) :
    (arun (init tick idle expire) ops).sched.stopped = true ∧
    (arun (arun (init tick idle expire) ops) ops').sched.log = (arun (init tick idle expire) ops).sched.log := by
  have hs := DeadStopped_arun _ ops (DeadStopped_init tick idle expire) hd
  refine ⟨hs, ?_⟩
  obtain ⟨evs, he⟩ := arun_steps (arun (init tick idle expire) ops) ops'
  rw [he]
  exact (C08_no_post_after_close _ (actor_sched_reach tick idle expire ht ops) hs evs).1

/-! ## Non-vacuity -/

/-- tick 2 ms: a task repeating every tick, a termination whose handler takes 6 ms: the callbacks posted
meanwhile are dropped, the ones before ran -/
def demoActor : Actor :=
  arun (init 2 0 0) [.tell (.repeated 0 2 2 (-1)), .wait 5, .term 6, .wait 3]

example : demoActor.live = false ∧ MV.Model.ActorTimers.counts demoActor = [2] ∧ afterTerminated demoActor = false := by decide
/-- an expiry that falls into a busy handler: the callbacks queued before the graceful termination
    (a user message) still run, in mailbox order, then the actor terminates -/
example : (fun a => (MV.Model.ActorTimers.counts a, a.live)) (arun (init 2 0 9) [.wait 4, .tell (.repeated 0 2 4 3), .busy 12, .wait 2])
    = ([3], false) := by decide
/-- the scheduler did post during the terminating turn (5 firings, 2 turns) -/
example : fired demoActor.sched 0 = 5 := by decide

end MV.Props.C08
