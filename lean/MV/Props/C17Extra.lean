import MV.Model.Collection.Edit
/-!
# C17 (extension) — `SwapSlice`, `SliceSum`, `MapSum`, `MappingFromSlice`, `MappingFromMap`

The remaining helpers of `toolkit/collection` (files item.go, calc.go, map.go), executed by the same
oracle `oracle-c17` (suite `c17-edit`) and compared line by line with the Go code.
-/
namespace MV.Props.C17
open MV.Model.Coll

/-! ## SwapSlice -/

/-- in range: cell `i` gets the old cell `j`, cell `j` the old cell `i`, every other cell is untouched,
and the length stays -/
theorem C17_swap_cells (l : List Int) (i j : Nat) (hi : i < l.length) (hj : j < l.length) :
    ∃ r, swapSlice (some l) i j = some r ∧ r.len = l.length ∧ r.backing.length = l.length ∧
      ∀ k, r.result.getD k 0 =
        if k = j then l.getD i 0 else if k = i then l.getD j 0 else l.getD k 0 := by
  have h : ¬ ((i : Int) < 0 ∨ (j : Int) < 0 ∨ (i : Int) ≥ (l.length : Int) ∨ (j : Int) ≥ (l.length : Int)) := by omega
  refine ⟨_, by simp only [swapSlice, Option.map_some, if_neg h]; rfl, rfl, by simp, ?_⟩
  intro k
  simp only [InPlace.result, Int.toNat_natCast]
  rw [List.take_of_length_le (by simp)]
  simp only [List.getD_eq_getElem?_getD, List.getElem?_set]
  by_cases hkj : k = j
  · subst hkj; simp [hj]
  · by_cases hki : k = i
    · subst hki
      have : ¬ j = k := fun h => hkj h.symm
      simp [this, hkj, hi]
    · have h1 : ¬ j = k := fun h => hkj h.symm
      have h2 : ¬ i = k := fun h => hki h.symm
      simp [h1, h2, hkj, hki]

/-- out of range (negative or ≥ len): nothing happens -/
theorem C17_swap_out_of_range (l : List Int) (i j : Int)
    (h : i < 0 ∨ j < 0 ∨ i ≥ (l.length : Int) ∨ j ≥ (l.length : Int)) :
    (swapSlice (some l) i j).map InPlace.result = some l := by
  simp [swapSlice, if_pos h, InPlace.result]

theorem ext_getD0 {l l' : List Int} (hl : l.length = l'.length) (h : ∀ k, l.getD k 0 = l'.getD k 0) : l = l' := by
  apply List.ext_getElem hl
  intro k h1 h2
  have := h k
  simpa [List.getD_eq_getElem?_getD, h1, h2] using this

/-- swapping the same two positions twice restores the slice -/
theorem C17_swap_involutive (l : List Int) (i j : Int) :
    ((swapSlice (some l) i j).map InPlace.result).bind
      (fun r => (swapSlice (some r) i j).map InPlace.result) = some l := by
  by_cases h : i < 0 ∨ j < 0 ∨ i ≥ (l.length : Int) ∨ j ≥ (l.length : Int)
  · rw [C17_swap_out_of_range l i j h]; simp only [Option.bind_some]; exact C17_swap_out_of_range l i j h
  · have hi0 : 0 ≤ i := by omega
    have hj0 : 0 ≤ j := by omega
    obtain ⟨a, rfl⟩ := Int.eq_ofNat_of_zero_le hi0
    obtain ⟨b, rfl⟩ := Int.eq_ofNat_of_zero_le hj0
    have ha : a < l.length := by omega
    have hb : b < l.length := by omega
    obtain ⟨r, hr, hlen, hbl, hcells⟩ := C17_swap_cells l a b ha hb
    have hrl : r.result.length = l.length := by
      simp only [InPlace.result, List.length_take]; omega
    rw [hr]; simp only [Option.map_some, Option.bind_some]
    obtain ⟨r2, hr2, hlen2, hbl2, hcells2⟩ := C17_swap_cells r.result a b (by omega) (by omega)
    rw [hr2]; simp only [Option.map_some, Option.some.injEq]
    have e1 : r2.result.length = l.length := by
      simp only [InPlace.result, List.length_take] at hrl hlen2 hbl2 ⊢; omega
    apply ext_getD0 e1
    intro k
    rw [hcells2 k, hcells a, hcells b, hcells k]
    by_cases hkb : k = b
    · subst hkb
      by_cases hab : a = k
      · subst hab; simp
      · simp [hab]
    · by_cases hka : k = a
      · subst hka; simp [hkb]
      · simp [hkb, hka]

/-! ## SliceSum, MapSum -/

theorem sliceSumFrom_eq (h : Nat → Int → Int) (l : List Int) (i : Nat) (acc : Int) :
    sliceSumFrom h i l acc = acc + ((List.range l.length).map fun k => h (i + k) (l.getD k 0)).sum := by
  induction l generalizing i acc with
  | nil => simp [sliceSumFrom]
  | cons v l ih =>
    simp only [sliceSumFrom, ih, List.length_cons, List.range_succ_eq_map, List.map_cons, List.map_map,
      List.sum_cons]
    have : (List.map ((fun k => h (i + k) ((v :: l).getD k 0)) ∘ Nat.succ) (List.range l.length)) =
        List.map (fun k => h (i + 1 + k) (l.getD k 0)) (List.range l.length) := by
      apply List.map_congr_left; intro k _
      simp only [Function.comp, List.getD_eq_getElem?_getD, List.getElem?_cons_succ]
      congr 1; omega
    rw [this]; simp only [Nat.add_zero, List.getD_eq_getElem?_getD, List.getElem?_cons_zero, Option.getD_some]
    omega

/-- `SliceSum` is the sum of `handler(k, s[k])` over all positions -/
theorem C17_sliceSum_eq (s : Sl) (h : Nat → Int → Int) :
    sliceSum s h = ((List.range s.els.length).map fun k => h k (s.els.getD k 0)).sum := by
  simp [sliceSum, sliceSumFrom_eq]

/-- with the identity handler it is the sum of the elements -/
theorem C17_sliceSum_id (l : List Int) : sliceSum (some l) (fun _ v => v) = l.sum := by
  simp only [sliceSum, Sl.els, Option.getD_some]
  suffices ∀ i acc, sliceSumFrom (fun _ v => v) i l acc = acc + l.sum by simpa using this 0 0
  induction l with
  | nil => intro i acc; simp [sliceSumFrom]
  | cons v l ih => intro i acc; simp only [sliceSumFrom, ih, List.sum_cons]; omega

theorem mapSum_foldl (h : Int → Int → Int) (l : List (Int × Int)) (acc : Int) :
    l.foldl (fun a e => a + h e.1 e.2) acc = acc + (l.map fun e => h e.1 e.2).sum := by
  induction l generalizing acc with
  | nil => simp
  | cons e l ih => simp only [List.foldl_cons, ih, List.map_cons, List.sum_cons]; omega

/-- `MapSum` is the sum over the entries … -/
theorem C17_mapSum_eq (m : Mp) (h : Int → Int → Int) :
    mapSum m h = (m.ents.map fun e => h e.1 e.2).sum := by
  simp [mapSum, mapSum_foldl]

theorem sum_perm {l l' : List Int} (p : l.Perm l') : l.sum = l'.sum := by
  induction p with
  | nil => rfl
  | cons _ _ ih => simp [ih]
  | swap a b l => simp only [List.sum_cons]; omega
  | trans _ _ ih1 ih2 => exact ih1.trans ih2

/-- … and therefore independent of the iteration order of the Go map -/
theorem C17_mapSum_order_independent (m m' : List (Int × Int)) (h : Int → Int → Int) (p : m.Perm m') :
    mapSum (some m) h = mapSum (some m') h := by
  rw [C17_mapSum_eq, C17_mapSum_eq]
  exact sum_perm (p.map _)

/-! ## MappingFromSlice, MappingFromMap -/

theorem C17_mappingFromSlice_eq (s : Sl) (g : Int → Int) : mappingFromSlice s g = s.map (List.map g) := rfl

theorem C17_mappingFromSlice_nil (g : Int → Int) : mappingFromSlice none g = none := rfl

theorem C17_mappingFromSlice_length (l : List Int) (g : Int → Int) :
    (mappingFromSlice (some l) g).els.length = l.length := by
  simp [mappingFromSlice, Sl.els]

/-- sum after mapping = sum with the mapping as handler -/
theorem C17_sum_of_mapping (l : List Int) (g : Int → Int) :
    sliceSum (mappingFromSlice (some l) g) (fun _ v => v) = sliceSum (some l) (fun _ v => g v) := by
  rw [C17_sliceSum_eq, C17_sliceSum_eq]
  simp only [mappingFromSlice, Option.map_some, Sl.els, Option.getD_some, List.length_map]
  congr 1
  apply List.map_congr_left
  intro k hk
  have hk' : k < l.length := by simpa using hk
  simp [List.getD_eq_getElem?_getD, hk']

/-- `MappingFromMap` keeps exactly the keys, in the same order, and converts each value -/
theorem C17_mappingFromMap_keys (m : List (Int × Int)) (g : Int → Int) :
    keysOf (mappingFromMap (some m) g).ents = keysOf m ∧
      valsOf (mappingFromMap (some m) g).ents = (valsOf m).map g := by
  simp [mappingFromMap, Mp.ents, keysOf, valsOf, Function.comp_def]

theorem C17_mappingFromMap_nil (g : Int → Int) : mappingFromMap none g = none := rfl

theorem C17_mappingFromMap_lookup (m : List (Int × Int)) (g : Int → Int) (k : Int) :
    (mappingFromMap (some m) g).ents.lookup k = (m.lookup k).map g := by
  simp only [mappingFromMap, Option.map_some, Mp.ents, Option.getD_some]
  induction m with
  | nil => rfl
  | cons e m ih =>
    obtain ⟨ek, ev⟩ := e
    simp only [List.map_cons, List.lookup_cons]
    cases hke : (k == ek) with
    | true => simp
    | false => simpa using ih

/-! non-vacuity -/
example : (swapSlice (some [1, 2, 3]) 0 2).map InPlace.result = some [3, 2, 1] := by decide
example : (swapSlice (some [1, 2, 3]) 0 3).map InPlace.result = some [1, 2, 3] := by decide
example : sliceSum (some [5, 6, 7]) (fun i v => (i : Int) * v) = 20 := by decide
example : mapSum (some [(1, 5), (2, 6)]) (fun k v => k * v) = 17 := by decide
example : mappingFromMap (some [(1, 5), (2, -6)]) (fun v => v * v) = some [(1, 25), (2, 36)] := by decide

end MV.Props.C17
