import MV.Lemmas.LFQueue
import MV.Lemmas.MPSC
/-!
# C15 — the lock-free queues (`toolkit/queues/lock_free.go`, `toolkit/queues/mpsc.go`)

All statements quantify over **every** number of threads, **every** finite program per thread and
**every** schedule (list of thread indices / actions, one atomic operation per entry) of the
interleaving models `MV.Model.LFQueue` and `MV.Model.MPSC`.
-/
namespace MV.Props.C15
open MV.Model

/-! ## Michael–Scott queue -/

/-- **Linearizability invariant of `LFQueue`**, for every schedule:
1. the values returned by the successful `Pop`s (in the order of their `head` CASes) followed by
   what is still queued are exactly the values pushed, in the order of the link CASes — nothing
   lost, duplicated, reordered or invented;
2. the pushes of each thread are linked in its program order (what thread `i` has linked so far
   is a prefix of the pushes of its program);
3. a `Pop` returns `nil` only if the queue was abstractly empty at its linearisation point (the
   load of `head.next` that saw `nil`);
4. no thread ever dereferences a `nil`/dangling node pointer. -/
theorem C15_msq_linearizable (progs : List (List LFQueue.Op)) (sched : List Nat) :
    let s := LFQueue.run (LFQueue.init progs) sched
    s.g.popped.map (·.2) ++ LFQueue.remaining s.g = LFQueue.pushed s.g
    ∧ (∀ i, LFQueue.linked s.g i <+: ((progs[i]?).map LFQueue.pushesOf).getD [])
    ∧ (∀ x ∈ s.g.nils, x.2 = true)
    ∧ (∀ th ∈ s.ths, th.pc ≠ .crashed) := by
  intro s
  have hI : LFQueue.SInv s := LFQueue.run_inv _ sched (LFQueue.init_inv progs)
  obtain ⟨⟨_, _, _, h4, h5⟩, hL⟩ := hI
  refine ⟨?_, fun i => ?_, h5, fun th hth hc => ?_⟩
  · unfold LFQueue.remaining LFQueue.pushed
    rw [h4, ← List.map_append]
    congr 1
    have : List.drop (s.g.head + 1) s.g.all = List.drop s.g.head (List.drop 1 s.g.all) := by
      rw [List.drop_drop, Nat.add_comm]
    rw [this, List.take_append_drop]
  · have := LFQueue.run_pushSeq _ sched (LFQueue.init_inv progs) i
    rw [LFQueue.init_pushSeq] at this
    exact ⟨_, this⟩
  · obtain ⟨j, hj⟩ := List.getElem?_of_mem hth
    have := hL j th hj
    rw [hc] at this; exact this

/-- the head of what is still queued is what the next successful `Pop` returns: the queue hands
its elements out in linearisation order of the pushes (restatement of clause 1 as a prefix). -/
theorem C15_msq_popped_prefix (progs : List (List LFQueue.Op)) (sched : List Nat) :
    (LFQueue.run (LFQueue.init progs) sched).g.popped.map (·.2)
      <+: LFQueue.pushed (LFQueue.run (LFQueue.init progs) sched).g :=
  ⟨_, (C15_msq_linearizable progs sched).1⟩

/-- quiescence: when every thread has finished its program every push of every program is linked
(so by clause 1 it was popped or is still queued). -/
theorem C15_msq_quiescent (progs : List (List LFQueue.Op)) (sched : List Nat)
    (hq : ∀ th ∈ (LFQueue.run (LFQueue.init progs) sched).ths, th.pc = .done) (i : Nat) :
    LFQueue.linked (LFQueue.run (LFQueue.init progs) sched).g i
      = ((progs[i]?).map LFQueue.pushesOf).getD [] := by
  have h := LFQueue.run_pushSeq _ sched (LFQueue.init_inv progs) i
  rw [LFQueue.init_pushSeq] at h
  rw [← h]
  unfold LFQueue.pushSeq
  cases hth : (LFQueue.run (LFQueue.init progs) sched).ths[i]? with
  | none => simp
  | some th =>
    have hd := hq th (List.mem_of_getElem? hth)
    have ht := LFQueue.run_done _ sched (LFQueue.init_done progs) i th hth hd
    simp [LFQueue.pushesLeft, hd, ht, LFQueue.pendingPush, LFQueue.pushesOf]

/-! ## MPSC queue -/

/-- **Safety of `MPSC`**, for every schedule of any number of producers and the consumer:
1. the values returned by `Pop` so far followed by what is still queued are exactly the values
   pushed, in the order of the swaps — nothing lost, duplicated, reordered or invented;
2. each producer's values are swapped in in its program order;
3. the consumer never follows a `nil`/dangling pointer. -/
theorem C15_mpsc_safe (progs : List (List Int)) (sched : List MPSC.Act) :
    let s := MPSC.run (MPSC.init progs) sched
    s.g.popped ++ MPSC.remaining s.g = MPSC.pushed s.g
    ∧ (∀ i, MPSC.linked s.g i <+: (progs[i]?).getD [])
    ∧ s.g.crashed = false := by
  intro s
  have hI : MPSC.SInv s := MPSC.run_inv _ sched (MPSC.init_inv progs)
  obtain ⟨⟨_, _, _, _, h5, h6⟩, _, _⟩ := hI
  refine ⟨?_, fun i => ?_, h6⟩
  · unfold MPSC.remaining MPSC.pushed
    rw [h5, ← List.map_append]
    congr 1
    have : List.drop (s.g.c + 1) s.g.order = List.drop s.g.c (List.drop 1 s.g.order) := by
      rw [List.drop_drop, Nat.add_comm]
    rw [this, List.take_append_drop]
  · have := MPSC.run_pushSeq _ sched (MPSC.init_inv progs) i
    rw [MPSC.init_pushSeq] at this
    exact ⟨_, this⟩

/-- what `Pop` returns is the oldest queued value (or `nil`), and it removes exactly that value. -/
theorem C15_mpsc_pop_head (progs : List (List Int)) (sched : List MPSC.Act) :
    let s := MPSC.run (MPSC.init progs) sched
    (MPSC.pop s.g).2 = none ∧ MPSC.remaining (MPSC.pop s.g).1 = MPSC.remaining s.g
    ∨ ∃ v, (MPSC.pop s.g).2 = some v ∧ MPSC.remaining s.g = v :: MPSC.remaining (MPSC.pop s.g).1 := by
  intro s
  have hI : MPSC.SInv s := MPSC.run_inv _ sched (MPSC.init_inv progs)
  obtain ⟨⟨h1, h2, h3, _, _, _⟩, _, _⟩ := hI
  unfold MPSC.pop
  cases hl : s.g.lk[s.g.c]? with
  | none => left; simp [MPSC.remaining]
  | some b =>
    cases b with
    | false => left; simp
    | true =>
      have hne : s.g.c ≠ s.g.order.length - 1 := by
        intro he; rw [he, h3] at hl; cases hl
      have hlt : s.g.c + 1 < s.g.order.length := by omega
      cases hn : s.g.order[s.g.c + 1]? with
      | none => rw [List.getElem?_eq_none_iff] at hn; omega
      | some nd =>
        right
        refine ⟨nd.val, rfl, ?_⟩
        simp only [MPSC.remaining]
        rw [List.drop_eq_getElem_cons hlt]
        have : s.g.order[s.g.c + 1] = nd := by
          rw [List.getElem?_eq_getElem hlt] at hn; exact Option.some.inj hn
        simp [this]

/-- **Quiescence of `MPSC`**: when no producer is between its swap and its store (in particular
when all producers have returned) `Pop` returns `nil` iff the queue is empty — so the consumer
can then drain every value that was pushed. -/
theorem C15_mpsc_quiescent (progs : List (List Int)) (sched : List MPSC.Act)
    (hq : ∀ th ∈ (MPSC.run (MPSC.init progs) sched).ths, ∀ k, th.pc ≠ .store k) :
    let s := MPSC.run (MPSC.init progs) sched
    ((MPSC.pop s.g).2 = none ↔ MPSC.remaining s.g = []) ∧ (MPSC.empty s.g = true ↔ MPSC.remaining s.g = []) := by
  intro s
  have hI : MPSC.SInv s := MPSC.run_inv _ sched (MPSC.init_inv progs)
  obtain ⟨⟨h1, h2, h3, _, _, _⟩, _, hQ⟩ := hI
  have hrem : MPSC.remaining s.g = [] ↔ s.g.c + 1 = s.g.order.length := by
    simp only [MPSC.remaining, List.map_eq_nil_iff, List.drop_eq_nil_iff]
    omega
  have hlk : s.g.lk[s.g.c]? = some true ↔ s.g.c + 1 < s.g.order.length := by
    constructor
    · intro hl
      have hne : s.g.c ≠ s.g.order.length - 1 := by
        intro he; rw [he, h3] at hl; cases hl
      omega
    · intro hlt
      cases hl : s.g.lk[s.g.c]? with
      | none => rw [List.getElem?_eq_none_iff] at hl; omega
      | some b =>
        cases b with
        | true => rfl
        | false =>
          obtain ⟨j, th, hj, hpc⟩ := hQ s.g.c hlt hl
          exact absurd hpc (hq th (List.mem_of_getElem? hj) _)
  refine ⟨?_, ?_⟩
  · rw [hrem]
    unfold MPSC.pop
    cases hl : s.g.lk[s.g.c]? with
    | none => rw [List.getElem?_eq_none_iff] at hl; omega
    | some b =>
      cases b with
      | false =>
        have : ¬ s.g.c + 1 < s.g.order.length := fun h => by
          have := hlk.mpr h; rw [hl] at this; cases this
        simp; omega
      | true =>
        have hlt := hlk.mp hl
        cases hn : s.g.order[s.g.c + 1]? with
        | none => rw [List.getElem?_eq_none_iff] at hn; omega
        | some nd => simp; omega
  · rw [hrem]
    unfold MPSC.empty
    by_cases hlt : s.g.c + 1 < s.g.order.length
    · have := hlk.mpr hlt
      simp [this]; omega
    · have : ¬ s.g.lk[s.g.c]? = some true := fun h => hlt (hlk.mp h)
      simp [this]; omega

/-- when all producers have finished, every value of every program has been swapped in. -/
theorem C15_mpsc_quiescent_all_pushed (progs : List (List Int)) (sched : List MPSC.Act)
    (hq : ∀ th ∈ (MPSC.run (MPSC.init progs) sched).ths, th.pc = .done) (i : Nat) :
    MPSC.linked (MPSC.run (MPSC.init progs) sched).g i = (progs[i]?).getD [] := by
  have h := MPSC.run_pushSeq _ sched (MPSC.init_inv progs) i
  rw [MPSC.init_pushSeq] at h
  rw [← h]
  unfold MPSC.pushSeq
  cases hth : (MPSC.run (MPSC.init progs) sched).ths[i]? with
  | none => simp
  | some th =>
    have hd := hq th (List.mem_of_getElem? hth)
    have ht := MPSC.run_done _ sched (MPSC.init_done progs) i th hth hd
    simp [MPSC.pushesLeft, hd, ht, MPSC.pendingPush]

/-! ## Non-vacuity: concrete interleavings of the models -/

/- two pushers racing (thread 1 links first, thread 0 has to retry and helps swing `tail`), then a
popper that overtakes both tail swings (it helps `tail` forward itself): FIFO in link order. -/
set_option maxRecDepth 8192 in
example :
    let s := LFQueue.run (LFQueue.init [[.push 10], [.push 20], [.pop, .pop, .pop]])
      [0, 1, 0, 1, 0, 1, 1, 0, 0, 0, 0, 0, 0, 0, 0, 0, 2, 2, 2, 2, 2, 2, 2, 2, 2, 2, 2, 2, 2, 2, 2, 2,
       2, 2, 2, 2, 0, 1]
    s.g.popped = [(2, 20), (2, 10)] ∧ s.g.nils = [(2, true)] ∧ s.ths.all (·.pc == .done) := by
  decide

/-- MPSC: the window between swap and store hides later values from the consumer (the hypothesis of
`C15_mpsc_quiescent` is needed), and they reappear after the store. -/
example :
    let s := MPSC.run (MPSC.init [[1], [2]]) [.prod 0, .prod 1, .prod 1, .pop]
    s.g.popped = [] ∧ MPSC.remaining s.g = [1, 2] := by decide
example :
    let s := MPSC.run (MPSC.init [[1], [2]]) [.prod 0, .prod 1, .prod 1, .pop, .prod 0, .pop, .pop, .pop]
    s.g.popped = [1, 2] ∧ MPSC.remaining s.g = [] := by decide

end MV.Props.C15
