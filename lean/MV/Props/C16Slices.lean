import MV.Lemmas.PrioritySlice
import MV.Model.SyncMap
import MV.Lemmas.PagedSlice
/-!
# C16 — priority slice (`PrioritySlice`, `SyncPrioritySlice`) and `SyncSlice`
-/
namespace MV.Props.C16
open MV.Model MV.Spec

section priority
open MV.Model.PrioritySlice MV.Spec.PrioritySlice

/-- **`C16_priority_sorted_perm` (one step)** — for *every* sorting function that meets the contract of
`sort.Slice` (returns a permutation ordered by priority; stability is NOT assumed): a method call on an
ordered slice leaves it ordered, and its items are — as a multiset — exactly what the call asked
for (`effect`): nothing appended is lost or duplicated.  A bad index panics and changes nothing. -/
theorem C16_priority_step (srt : List Item → List Item) (hs : SortSpec srt) (l : List Item) (hl : SortedP l)
    (op : PrioritySlice.Op) :
    SortedP (PrioritySlice.step srt l op).1 ∧
      (match effect l op with
       | some want => (PrioritySlice.step srt l op).1.Perm want
       | none => (PrioritySlice.step srt l op).1 = l ∧ (PrioritySlice.step srt l op).2 = .panic) :=
  step_spec hs l hl op

/-- **`C16_priority_sorted_perm`** — after any operation sequence the slice is ordered by priority -/
theorem C16_priority_sorted (srt : List Item → List Item) (hs : SortSpec srt) (ops : List PrioritySlice.Op) :
    SortedP (PrioritySlice.exec srt [] ops) := by
  suffices ∀ l, SortedP l → SortedP (PrioritySlice.exec srt l ops) from this _ List.Pairwise.nil
  induction ops with
  | nil => intro l h; exact h
  | cons op ops ih => intro l h; exact ih _ (step_spec hs l h op).1

/-- … and it keeps every appended element: after appending `items` (any mix of `Append`) the slice is a
permutation of `items`, ordered by priority. -/
theorem C16_priority_keeps_all (srt : List Item → List Item) (hs : SortSpec srt) (items : List (Int × Int)) :
    let l := PrioritySlice.exec srt [] (items.map (fun it => PrioritySlice.Op.append it.2 it.1))
    l.Perm items ∧ SortedP l := by
  intro l
  refine ⟨?_, C16_priority_sorted srt hs _⟩
  suffices ∀ l0 : List Item,
      (PrioritySlice.exec srt l0 (items.map (fun it => PrioritySlice.Op.append it.2 it.1))).Perm (l0 ++ items) by
    simpa using this []
  induction items with
  | nil => intro l0; simp [PrioritySlice.exec]
  | cons it items ih =>
    intro l0
    simp only [List.map_cons, PrioritySlice.exec, List.foldl_cons]
    have h1 : (PrioritySlice.step srt l0 (.append it.2 it.1)).1.Perm (l0 ++ [it]) := sortM_perm hs _
    refine (ih _).trans ?_
    have : l0 ++ it :: items = (l0 ++ [it]) ++ items := by simp
    rw [this]
    exact List.Perm.append_right _ h1

/-- the oracle's instance of `sort.Slice` (insertion sort) meets the contract -/
theorem C16_priority_isort_spec : SortSpec isortP := isortP_spec

/-- the `Bool` judge the harness' raw item lists are checked with *is* the specification -/
theorem C16_priority_judge_iff (before : List Item) (op : PrioritySlice.Op) (after : List Item) :
    PrioritySlice.judge before op after = true ↔
      (match effect before op with
       | some want => SortedP after ∧ after.Perm want
       | none => after = before) :=
  judge_iff before op after

/-- the model's own steps pass the judge (model and judge are consistent) -/
theorem C16_priority_model_judged (srt : List Item → List Item) (hs : SortSpec srt) (l : List Item)
    (hl : SortedP l) (op : PrioritySlice.Op) :
    PrioritySlice.judge l op (PrioritySlice.step srt l op).1 = true := by
  rw [judge_iff]
  have := step_spec hs l hl op
  cases he : effect l op with
  | none => rw [he] at this; exact this.2.1
  | some want => rw [he] at this; exact ⟨this.1, this.2⟩

/-- non-vacuity (ties, re-prioritising, a bad index) -/
example : (PrioritySlice.exec isortP []
    [.append 101 1, .append 102 0, .append 103 1, .setPriority 0 2, .set 5 9 9, .appends 0 [7, 8]]) =
    [(0, 7), (0, 8), (1, 101), (1, 103), (2, 102)] := by decide

end priority

/-! ## `SyncSlice`: the model *is* the plain slice; out-of-range calls panic and change nothing -/

theorem C16_syncslice_oob_total (l : List Int) (i v : Int) (h : i < 0 ∨ i ≥ l.length) :
    SyncSlice.step l (.set i v) = (l, .panic) ∧ SyncSlice.step l (.get i) = (l, .panic) := by
  simp [SyncSlice.step, h]

/-! ## `PagedSlice` -/
section paged
open MV.Model.Paged

/-- "the specification leaves it open" (`Get` outside `0..Len()-1`) or the answers are equal -/
def pagedAgree (impl spec : Out) : Prop := spec = .undet ∨ impl = spec

/-- **one step**: a well-formed paged slice (page size ≥ 1) stays well-formed, its contents change exactly
like the plain slice, and it answers like the plain slice — page-boundary arithmetic, page allocation
and release, `lenLast` bookkeeping included. -/
theorem C16_paged_step (s : Paged) (h : WF s) (op : Paged.Op) :
    WF (Paged.step s op).1 ∧ (Paged.step s op).1.abs = (Slice.step s.abs op).1 ∧
      pagedAgree (Paged.step s op).2 (Slice.step s.abs op).2 := by
  cases op with
  | add v =>
    obtain ⟨s', h1, h2, h3⟩ := add_spec s h v
    simp only [Paged.step, h1, Slice.step]
    exact ⟨h2, h3, Or.inr rfl⟩
  | del i =>
    by_cases hout : i < 0 ∨ i ≥ (s.len : Int)
    · simp only [Paged.step, del_out s i hout, Slice.step]
      refine ⟨h, ?_, Or.inr rfl⟩
      unfold Slice.del; rw [length_abs, if_pos hout]
    · obtain ⟨n, rfl⟩ : ∃ n : Nat, i = (n : Int) := ⟨i.toNat, by omega⟩
      obtain ⟨s', h1, h2, h3⟩ := del_spec s h n (by omega)
      simp only [Paged.step, h1, Slice.step]
      exact ⟨h2, h3, Or.inr rfl⟩
  | get i =>
    simp only [Paged.step, Slice.step, length_abs]
    by_cases hout : i < 0 ∨ i ≥ (s.len : Int)
    · rw [if_pos hout]
      cases s.get i <;> exact ⟨h, rfl, Or.inl rfl⟩
    · rw [if_neg hout]
      obtain ⟨n, rfl⟩ : ∃ n : Nat, i = (n : Int) := ⟨i.toNat, by omega⟩
      rw [get_in s h n (by omega)]
      exact ⟨h, rfl, Or.inr (by simp)⟩
  | set i v =>
    simp only [Paged.step, Slice.step]
    by_cases hout : i < 0 ∨ i ≥ (s.len : Int)
    · have h1 : s.set i v = some s := by unfold Paged.set; rw [if_pos hout]
      have h2 : Slice.write s.abs i v = none := by unfold Slice.write; rw [length_abs, if_pos hout]
      rw [h1, h2]
      (refine ⟨h, ?_, ?_⟩ <;> first | rfl | trivial | exact Or.inr rfl)
    · obtain ⟨n, rfl⟩ : ∃ n : Nat, i = (n : Int) := ⟨i.toNat, by omega⟩
      have hn : n < s.len := by omega
      have h2 : Slice.write s.abs (n : Int) v = some (s.abs.set n v) := by
        unfold Slice.write; rw [length_abs, if_neg hout]; simp
      rw [set_in s h n hn v, h2]
      exact ⟨wf_upd s h n hn v, abs_upd s n hn v, Or.inr rfl⟩
  | len =>
    simp only [Paged.step, Slice.step, length_abs]
    (refine ⟨h, ?_, ?_⟩ <;> first | rfl | trivial | exact Or.inr rfl)
  | grow is =>
    simp only [Paged.step, Slice.step, Paged.grow]
    cases hE : is.isEmpty with
    | true => simp only [if_true]; (refine ⟨h, ?_, ?_⟩ <;> first | rfl | trivial | exact Or.inr rfl)
    | false =>
      simp only [Bool.false_eq_true, if_false]
      have := growTo_spec s h (maxIdx is)
      exact ⟨this.1, this.2.1, Or.inr rfl⟩
  | growSet i v =>
    simp only [Paged.step, Slice.step, Paged.growSet]
    have hg := growTo_spec s h i
    by_cases hneg : i < 0
    · have h1 : (s.growTo i).write i v = none := write_neg _ i v hneg
      have h2 : Slice.write (Slice.growTo s.abs i) i v = none := by unfold Slice.write; simp [hneg]
      rw [h1, h2]
      exact ⟨hg.1, hg.2.1, Or.inr rfl⟩
    · obtain ⟨n, rfl⟩ : ∃ n : Nat, i = (n : Int) := ⟨i.toNat, by omega⟩
      have hn : n < (s.growTo (n : Int)).len := by have := hg.2.2.2 (by omega); simpa using this
      have h1 := write_eq (s.growTo (n : Int)) hg.1.ps1 n (by have := hg.1.fits; omega) v
      have h2 : Slice.write (Slice.growTo s.abs (n : Int)) (n : Int) v = some ((Slice.growTo s.abs (n : Int)).set n v) := by
        unfold Slice.write
        rw [← hg.2.1, length_abs]
        simp [hn]
      rw [h1, h2]
      refine ⟨wf_upd _ hg.1 n hn v, ?_, Or.inr rfl⟩
      rw [abs_upd _ n hn v, hg.2.1]
  | batchGrowSet is vs =>
    simp only [Paged.step, Slice.step, Paged.batchGrowSet]
    by_cases hl : is.length ≠ vs.length
    · rw [if_pos hl, if_pos hl]; (refine ⟨h, ?_, ?_⟩ <;> first | rfl | trivial | exact Or.inr rfl)
    · rw [if_neg hl, if_neg hl]
      cases hE : is.isEmpty with
      | true => simp only [if_true]; (refine ⟨h, ?_, ?_⟩ <;> first | rfl | trivial | exact Or.inr rfl)
      | false =>
        simp only [Bool.false_eq_true, if_false]
        have hg := growTo_spec s h (maxIdx is)
        have hb : ∀ i ∈ is, i < ((s.growTo (maxIdx is)).len : Int) := by
          intro i hi
          have hle := le_maxIdx is i hi
          by_cases hm : maxIdx is ≥ (s.len : Int)
          · have := hg.2.2.2 (by omega); omega
          · rw [growTo_small s _ hm]; omega
        have hw := writeAll_spec _ hg.1 is vs hb
        rw [hg.2.1] at hw
        cases hp : (s.growTo (maxIdx is)).writeAll is vs with
        | mk s' ok =>
          rw [hp] at hw
          cases hq : Slice.writeAll (Slice.growTo s.abs (maxIdx is)) is vs with
          | mk l' ok' =>
            rw [hq] at hw
            obtain ⟨w1, w2, w3⟩ := hw
            simp only at w1 w2 w3
            subst w3
            cases ok <;> exact ⟨w1, w2, Or.inr rfl⟩
  | batchSet is vs =>
    simp only [Paged.step, Slice.step, Paged.batchSet]
    by_cases hl : is.length ≠ vs.length
    · rw [if_pos hl, if_pos hl]; (refine ⟨h, ?_, ?_⟩ <;> first | rfl | trivial | exact Or.inr rfl)
    · rw [if_neg hl, if_neg hl]
      cases hE : is.isEmpty with
      | true => simp only [if_true]; (refine ⟨h, ?_, ?_⟩ <;> first | rfl | trivial | exact Or.inr rfl)
      | false =>
        simp only [Bool.false_eq_true, if_false]
        obtain ⟨s', h1, h2, h3⟩ := setAll_spec s h is vs
        rw [h1]
        exact ⟨h2, h3, Or.inr rfl⟩
  | dump =>
    refine ⟨h, rfl, Or.inr ?_⟩
    simp only [Paged.step, Slice.step]
    congr 1
    apply List.ext_getElem
    · simp [abs]
    · intro j h1 h2
      simp only [List.length_map, List.length_range] at h1
      have hj : j < s.abs.length := by rw [length_abs]; exact h1
      simp only [List.getElem_map, List.getElem_range]
      have := get_in s h j h1
      simp only [Int.ofNat_eq_natCast] at this ⊢
      rw [this]
      simp [List.getD_eq_getElem?_getD, List.getElem?_eq_getElem hj]

/-- **`C16_paged_refines`** — for every page size ≥ 1 and every operation sequence: the paged slice stays
well-formed and its logical contents are those of the plain slice … -/
theorem C16_paged_refines (ps : Nat) (hps : 1 ≤ ps) (ops : List Paged.Op) :
    let s := ops.foldl (fun s op => (Paged.step s op).1) (Paged.new ps)
    WF s ∧ s.abs = ops.foldl (fun l op => (Slice.step l op).1) [] := by
  intro s
  suffices ∀ (s0 : Paged) (l0 : List Int), WF s0 → s0.abs = l0 →
      WF (ops.foldl (fun s op => (Paged.step s op).1) s0) ∧
        (ops.foldl (fun s op => (Paged.step s op).1) s0).abs = ops.foldl (fun l op => (Slice.step l op).1) l0 from
    this _ _ (wf_new ps hps) (abs_new ps)
  induction ops with
  | nil => intro s0 l0 h1 h2; exact ⟨h1, h2⟩
  | cons op ops ih =>
    intro s0 l0 h1 h2
    subst h2
    obtain ⟨a, b, _⟩ := C16_paged_step s0 h1 op
    exact ih _ _ a b

/-- … and every answer is the plain slice's (where the plain slice determines one) -/
def PagedAgree : Paged → List Int → List Paged.Op → Prop
  | _, _, [] => True
  | s, l, op :: ops => pagedAgree (Paged.step s op).2 (Slice.step l op).2 ∧
      PagedAgree (Paged.step s op).1 (Slice.step l op).1 ops

theorem C16_paged_answers (ps : Nat) (hps : 1 ≤ ps) (ops : List Paged.Op) : PagedAgree (Paged.new ps) [] ops := by
  suffices ∀ (s0 : Paged), WF s0 → PagedAgree s0 s0.abs ops from this _ (wf_new ps hps)
  induction ops with
  | nil => intro _ _; trivial
  | cons op ops ih =>
    intro s0 h1
    obtain ⟨a, b, c⟩ := C16_paged_step s0 h1 op
    refine ⟨c, ?_⟩
    rw [← b]
    exact ih _ a

/-- **`C16_absent_total` (paged slice)** — `Del`, `Set` and `BatchSet` with an index outside `0..Len()-1`
(negative included) are total no-ops. -/
theorem C16_absent_total_paged (s : Paged) (i v : Int) (h : i < 0 ∨ i ≥ (s.len : Int)) :
    Paged.step s (.del i) = (s, .unit) ∧ Paged.step s (.set i v) = (s, .unit) ∧
      Paged.step s (.batchSet [i] [v]) = (s, .unit) := by
  refine ⟨?_, ?_, ?_⟩
  · simp [Paged.step, del_out s i h]
  · simp [Paged.step, Paged.set, h]
  · simp [Paged.step, Paged.batchSet, Paged.setAll, h]

/-- non-vacuity: deletes across a page boundary, re-growth (zero values, not the deleted element) -/
example : Paged.run (Paged.new 2) [.add 1, .add 2, .add 3, .del 0, .dump, .del 1, .grow [2], .dump, .growSet 4 9, .dump, .len] =
    [.unit, .unit, .unit, .unit, .ints [3, 2], .unit, .unit, .ints [3, 0, 0], .unit, .ints [3, 0, 0, 0, 9], .int 5] := by
  decide

end paged

end MV.Props.C16
