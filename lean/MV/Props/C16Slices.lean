import MV.Lemmas.PrioritySlice
import MV.Model.SyncMap
/-!
# C16 — priority slice (`PrioritySlice`, `SyncPrioritySlice`) and `SyncSlice`
-/
namespace MV.Props.C16
open MV.Model MV.Spec

section priority
open MV.Model.PrioritySlice MV.Spec.PrioritySlice

/-- **`C16_priority_sorted_perm` (one step)** — for *every* sorting function that meets the contract of
`sort.Slice` (returns a permutation ordered by priority; stability is NOT assumed): a method call on an
ordered slice leaves it ordered, and its items are — as a multiset — exactly what the call asked
for (`effect`): nothing appended is lost or duplicated.  A bad index panics and changes nothing. -/
theorem C16_priority_step (srt : List Item → List Item) (hs : SortSpec srt) (l : List Item) (hl : SortedP l)
    (op : PrioritySlice.Op) :
    SortedP (PrioritySlice.step srt l op).1 ∧
      (match effect l op with
       | some want => (PrioritySlice.step srt l op).1.Perm want
       | none => (PrioritySlice.step srt l op).1 = l ∧ (PrioritySlice.step srt l op).2 = .panic) :=
  step_spec hs l hl op

/-- **`C16_priority_sorted_perm`** — after any operation sequence the slice is ordered by priority -/
theorem C16_priority_sorted (srt : List Item → List Item) (hs : SortSpec srt) (ops : List PrioritySlice.Op) :
    SortedP (PrioritySlice.exec srt [] ops) := by
  suffices ∀ l, SortedP l → SortedP (PrioritySlice.exec srt l ops) from this _ List.Pairwise.nil
  induction ops with
  | nil => intro l h; exact h
  | cons op ops ih => intro l h; exact ih _ (step_spec hs l h op).1

/-- … and it keeps every appended element: after appending `items` (any mix of `Append`) the slice is a
permutation of `items`, ordered by priority. -/
theorem C16_priority_keeps_all (srt : List Item → List Item) (hs : SortSpec srt) (items : List (Int × Int)) :
    let l := PrioritySlice.exec srt [] (items.map (fun it => PrioritySlice.Op.append it.2 it.1))
    l.Perm items ∧ SortedP l := by
  intro l
  refine ⟨?_, C16_priority_sorted srt hs _⟩
  suffices ∀ l0 : List Item,
      (PrioritySlice.exec srt l0 (items.map (fun it => PrioritySlice.Op.append it.2 it.1))).Perm (l0 ++ items) by
    simpa using this []
  induction items with
  | nil => intro l0; simp [PrioritySlice.exec]
  | cons it items ih =>
    intro l0
    simp only [List.map_cons, PrioritySlice.exec, List.foldl_cons]
    have h1 : (PrioritySlice.step srt l0 (.append it.2 it.1)).1.Perm (l0 ++ [it]) := sortM_perm hs _
    refine (ih _).trans ?_
    have : l0 ++ it :: items = (l0 ++ [it]) ++ items := by simp
    rw [this]
    exact List.Perm.append_right _ h1

/-- the oracle's instance of `sort.Slice` (insertion sort) meets the contract -/
theorem C16_priority_isort_spec : SortSpec isortP := isortP_spec

/-- the `Bool` judge the harness' raw item lists are checked with *is* the specification -/
theorem C16_priority_judge_iff (before : List Item) (op : PrioritySlice.Op) (after : List Item) :
    PrioritySlice.judge before op after = true ↔
      (match effect before op with
       | some want => SortedP after ∧ after.Perm want
       | none => after = before) :=
  judge_iff before op after

/-- the model's own steps pass the judge (model and judge are consistent) -/
theorem C16_priority_model_judged (srt : List Item → List Item) (hs : SortSpec srt) (l : List Item)
    (hl : SortedP l) (op : PrioritySlice.Op) :
    PrioritySlice.judge l op (PrioritySlice.step srt l op).1 = true := by
  rw [judge_iff]
  have := step_spec hs l hl op
  cases he : effect l op with
  | none => rw [he] at this; exact this.2.1
  | some want => rw [he] at this; exact ⟨this.1, this.2⟩

end priority

/-! ## `SyncSlice`: the model *is* the plain slice; out-of-range calls panic and change nothing -/

theorem C16_syncslice_oob_total (l : List Int) (i v : Int) (h : i < 0 ∨ i ≥ l.length) :
    SyncSlice.step l (.set i v) = (l, .panic) ∧ SyncSlice.step l (.get i) = (l, .panic) := by
  simp [SyncSlice.step, h]

end MV.Props.C16
