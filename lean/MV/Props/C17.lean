import MV.Lemmas.Collection.Dedup
import MV.Lemmas.Collection.Filter
import MV.Lemmas.Collection.Batches
import MV.Lemmas.Collection.Equal
import MV.Lemmas.Collection.Maps
import MV.Lemmas.Collection.MinMax
import MV.Lemmas.Collection.FindLoop
import MV.Lemmas.Collection.Random
import MV.Lemmas.Collection.Judge
import MV.Lemmas.Collection.Loop
import MV.Lemmas.Collection.Kahn
import MV.Lemmas.Collection.Misc
/-!
# C17 — collection helpers obey their defining laws and leave inputs alone

The theorems are about the functions of `MV.Model.Coll` that the oracle `oracle-c17` executes for the
suites `c17-edit` / `c17-query` (compared line by line with `toolkit/collection`), about the
specification functions of `MV.Spec.Coll` that the `-spec` suites execute, and about the `Bool`
predicates of `MV.Spec.Coll` with which the suites `c17-order`, `c17-random`, `c17-topo` judge outputs
that depend on map iteration order, `sort.Slice` or `math/rand`.

Slices are `Option (List Int)` (`none` = nil), maps association lists with distinct keys whose list
order is the iteration order.  All statements are for every input (unbounded), every callback
(where a law needs an equivalence the hypothesis is stated), every iteration order / draw list.
-/
namespace MV.Props.C17
open MV.Model.Coll MV.Spec.Coll MV.Lemmas.Coll

/-! ## duplicate.go -/

/-- `DeduplicateSlice` returns the first occurrence of every distinct element, in order (`nil` stays `nil`) -/
theorem C17_dedup_first_occurrence (s : Sl) : deduplicateSlice s = s.map firstOcc := by
  cases s with
  | none => rfl
  | some l =>
    simp only [deduplicateSlice, Option.map_some]
    by_cases h : l.length < 2
    · simp only [h, if_true]
      match l, h with
      | [], _ => rfl
      | [x], _ => simp [firstOcc, firstOccBy]
    · simp only [h, if_false, dedupGo_nil]

/-- what "first occurrences in order and nothing else" means: the empty slice has none; appending an element
    keeps it iff it did not occur before and changes nothing else -/
theorem C17_firstOcc_law (eqv : Int → Int → Bool) :
    firstOccBy eqv [] = [] ∧
    ∀ (a : List Int) (x : Int), firstOccBy eqv (a ++ [x]) =
      if a.any (fun y => eqv y x) then firstOccBy eqv a else firstOccBy eqv a ++ [x] :=
  ⟨rfl, firstOccBy_append_singleton eqv⟩

/-- no duplicates, the same members, original order -/
theorem C17_firstOcc_nodup_mem_sublist (l : List Int) :
    (firstOcc l).Nodup ∧ (∀ x, x ∈ firstOcc l ↔ x ∈ l) ∧ (firstOcc l).Sublist l :=
  ⟨nodup_firstOcc l, mem_firstOcc l, firstOccBy_sublist _ l⟩

/-- in-place = copying: what `DeduplicateSliceInPlace` leaves in `*s` is what `DeduplicateSlice` returns -/
theorem C17_dedup_inplace_eq_copying (s : Sl) :
    (deduplicateSliceInPlace s).map InPlace.result = deduplicateSlice s := by
  cases s with
  | none => rfl
  | some l =>
    simp only [deduplicateSliceInPlace, deduplicateSlice]
    by_cases h : l.length < 2
    · simp [h, InPlace.result]
    · simp only [h, if_false, Option.map_some, dedupInPlace_result]

/-- `DeduplicateSliceWithCompare` with an equivalence (symmetric, transitive) keeps the first element of every class -/
theorem C17_dedup_compare_first_occurrence (s : Sl) (cmp : Int → Int → Bool) (hs : ∀ a b, cmp a b = cmp b a)
    (ht : ∀ a b c, cmp a b = true → cmp b c = true → cmp a c = true) :
    deduplicateSliceWithCompare s (some cmp) = s.map (firstOccBy cmp) := by
  cases s with
  | none => rfl
  | some l =>
    simp only [deduplicateSliceWithCompare, Option.map_some]
    by_cases h : l.length < 2
    · simp only [h, if_true]
      match l, h with
      | [], _ => rfl
      | [x], _ => simp [firstOccBy]
    · simp only [h, if_false, dedupCmpGo_nil cmp hs ht]

/-- in-place = copying for the compare variants, for *every* callback (this is the statement the
    original `DeduplicateSliceInPlaceWithCompare` violated, see findings.d/C17.json) -/
theorem C17_dedup_compare_inplace_eq_copying (s : Sl) (cmp : Int → Int → Bool) :
    (deduplicateSliceInPlaceWithCompare s cmp).map InPlace.result = deduplicateSliceWithCompare s (some cmp) := by
  cases s with
  | none => rfl
  | some l =>
    simp only [deduplicateSliceInPlaceWithCompare, deduplicateSliceWithCompare]
    by_cases h : l.length < 2
    · simp [h, InPlace.result]
    · simp only [h, if_false, Option.map_some, dedupCmpInPlace_result]

/-! ## clone.go -/

theorem C17_copyList_eq (l : List Int) : copyList l = l := by
  induction l with
  | nil => rfl
  | cons x xs ih => simp [copyList, ih]

/-- `CloneSlice` returns the same elements (and `nil` for `nil`) -/
theorem C17_clone_eq (s : Sl) : cloneSlice s = s := by
  cases s with
  | none => rfl
  | some l => simp [cloneSlice, C17_copyList_eq]

/-- `CloneMap` of a map (distinct keys) is that map -/
theorem C17_cloneMap_eq (m : Mp) (hd : (keysOf m.ents).Nodup) : cloneMap m = m := by
  cases m with
  | none => rfl
  | some l =>
    simp only [cloneMap, Option.map_some]
    rw [insertAll_append l [] (by simpa [Mp.ents] using hd)]
    simp

theorem C17_cloneSlices_eq (ss : Option (List Sl)) : cloneSlices ss = ss := by
  cases ss with
  | none => rfl
  | some l =>
    simp only [cloneSlices, Option.map_some]
    congr 1
    induction l with
    | nil => rfl
    | cons x xs ih => simp [C17_clone_eq, ih]

theorem C17_cloneSliceN_eq (l : List Int) (n : Int) :
    cloneSliceN (some l) n = some (List.replicate n.toNat (some l)) := by
  simp only [cloneSliceN, C17_clone_eq]
  by_cases h : n ≤ 0
  · have : n.toNat = 0 := by omega
    simp [h, this]
  · simp [h]

/-! ## merge.go -/

theorem C17_appendAll_eq (ss : List Sl) : ∀ acc, appendAll acc ss = acc ++ (ss.map Sl.els).flatten := by
  induction ss with
  | nil => intro acc; simp [appendAll]
  | cons s ss ih => intro acc; simp [appendAll, ih]

/-- `MergeSlices` = append of all arguments (`nil` without arguments) -/
theorem C17_merge_eq_append (ss : List Sl) :
    mergeSlices (some ss) = if ss.length = 0 then none else some ((ss.map Sl.els).flatten) := by
  simp only [mergeSlices, C17_appendAll_eq, List.nil_append]

theorem C17_mergeSlice_eq (s : Sl) : mergeSlice s = if s.els.length = 0 then none else some s.els := by
  simp [mergeSlice, C17_copyList_eq]

/-- one step of `MergeMaps` (later maps win): after merging `m` into `r`, a key of `m` has `m`'s value, every
    other key keeps the value it had -/
theorem C17_mergeMaps_last_wins (r m : List (Int × Int)) (hd : (keysOf m).Nodup) (k : Int) :
    (insertAll r m).lookup k = if mhas m k then m.lookup k else r.lookup k :=
  lookup_insertAll m r hd k

/-- one step of `MergeMapsWithSkip` (earlier maps win) -/
theorem C17_mergeMapsWithSkip_first_wins (r m : List (Int × Int)) (hd : (keysOf m).Nodup) (k : Int) :
    (insertNew r m).lookup k = if mhas r k then r.lookup k else m.lookup k :=
  lookup_insertNew m r hd k

/-- `MergeMaps` over any number of maps: every key ends up with the value of the last map that contains it -/
theorem C17_mergeMaps_lookup (ms : List Mp) (hne : ms ≠ []) (hd : ∀ m ∈ ms, (keysOf (Mp.ents m)).Nodup) (k : Int) :
    ∃ r, mergeMaps (some ms) = some r ∧
      r.lookup k = match ms.reverse.find? (fun m => mhas (Mp.ents m) k) with
        | some m => (Mp.ents m).lookup k
        | none => none := by
  have h0 : ¬ ms.length = 0 := fun h => hne (List.length_eq_zero_iff.mp h)
  refine ⟨mergeMapsGo [] ms, by simp [mergeMaps, h0], ?_⟩
  rw [lookup_mergeMapsGo ms [] hd k]
  cases ms.reverse.find? (fun m => mhas (Mp.ents m) k) <;> simp

/-- `MergeMapsWithSkip` over any number of maps: every key keeps the value of the first map that contains it -/
theorem C17_mergeMapsWithSkip_lookup (ms : List Mp) (hne : ms ≠ []) (hd : ∀ m ∈ ms, (keysOf (Mp.ents m)).Nodup) (k : Int) :
    ∃ r, mergeMapsWithSkip (some ms) = some r ∧
      r.lookup k = match ms.find? (fun m => mhas (Mp.ents m) k) with
        | some m => (Mp.ents m).lookup k
        | none => none := by
  have h0 : ¬ ms.length = 0 := fun h => hne (List.length_eq_zero_iff.mp h)
  refine ⟨mergeSkipGo [] ms, by simp [mergeMapsWithSkip, h0], ?_⟩
  rw [lookup_mergeSkipGo ms [] hd k]
  have : mhas [] k = false := rfl
  rw [this]
  rfl

/-! ## convert.go -/

/-- the index loop of `ConvertSliceToBatches` produces the consecutive chunks -/
theorem C17_batches_eq_chunks (l : List Int) (n : Nat) : batchesGo l n l.length 0 = chunks n l := by
  rw [batchesGo_eq_chunk]; simp [chunks]

/-- joining the batches gives the input back -/
theorem C17_batches_join (l : List Int) (n : Int) (hn : 0 < n) (hl : l ≠ []) :
    ∃ bs, convertSliceToBatches (some l) n = some bs ∧ bs.flatten = l := by
  have h0 : ¬ l.length = 0 := fun h => hl (List.length_eq_zero_iff.mp h)
  have h1 : ¬ ((Sl.els (some l)).length = 0 ∨ n ≤ 0) := by
    simp only [Sl.els, Option.getD_some]; omega
  refine ⟨_, by unfold convertSliceToBatches; rw [if_neg h1], ?_⟩
  simp only [Sl.els, Option.getD_some]
  rw [C17_batches_eq_chunks]
  exact chunk_join n.toNat (by omega) _ _ (Nat.le_refl _)

/-- every batch but the last has exactly `n` elements, the last one between 1 and `n` -/
theorem C17_batches_sizes (l : List Int) (n : Nat) (hn : 1 ≤ n) :
    (∀ b ∈ (chunks n l).dropLast, b.length = n) ∧ (∀ b ∈ (chunks n l).getLast?, 1 ≤ b.length ∧ b.length ≤ n) :=
  (batchSizesOk_iff n _).mp (chunk_sizes n hn _ _ (Nat.le_refl _))

theorem C17_batches_nil (s : Sl) (n : Int) (h : s.els = [] ∨ n ≤ 0) : convertSliceToBatches s n = none := by
  have : s.els.length = 0 ∨ n ≤ 0 := by
    rcases h with h | h
    · exact Or.inl (by simp [h])
    · exact Or.inr h
  unfold convertSliceToBatches
  rw [if_pos this]

/-- `ConvertSliceToMap` / `ConvertSliceToBoolMap`: the key set consists of the distinct values of the slice -/
theorem C17_sliceToMap_keys (l : List Int) (hne : l ≠ []) :
    convertSliceToMap (some l) = some (firstOcc l) ∧ convertSliceToBoolMap (some l) = some (firstOcc l) := by
  have h0 : ¬ l.length = 0 := fun h => hne (List.length_eq_zero_iff.mp h)
  simp [convertSliceToMap, convertSliceToBoolMap, Sl.els, h0, setOf_nil]

/-- `ConvertSliceToIndexMap`: exactly the pairs `(i, s[i])` -/
theorem C17_sliceToIndexMap (l : List Int) :
    convertSliceToIndexMap (some l) = some ((indexed l).map (fun p => ((p.1 : Int), p.2))) := by
  simp [convertSliceToIndexMap, Sl.els, enumFrom_zero_eq_indexed]

/-- `InvertMap` on a map whose values are pairwise different swaps every entry (so inverting twice restores it) -/
theorem C17_invert_injective (m : List (Int × Int)) (hv : (valsOf m).Nodup) :
    invertMap (some m) = some (m.map (fun e => (e.2, e.1))) := by
  simp only [invertMap, Option.map_some]
  rw [invertGo_append m [] (by simpa [keysOf] using hv)]
  simp

/-- `ReverseSlice` leaves the reversed list in the same backing array -/
theorem C17_reverse_eq (s : Sl) : (reverseSlice s).map InPlace.result = s.map List.reverse := by
  cases s with
  | none => rfl
  | some l =>
    simp only [reverseSlice, Option.map_some, InPlace.result, reverseFrom_eq_reverse]
    congr 1
    rw [List.take_of_length_le (by simp)]

/-- reversing twice restores the slice -/
theorem C17_reverse_involutive (l : List Int) :
    ((reverseSlice (some l)).map InPlace.result).bind (fun r => (reverseSlice (some r)).map InPlace.result) = some l := by
  rw [C17_reverse_eq]
  simp only [Option.map_some, Option.bind_some]
  rw [C17_reverse_eq]
  simp

/-! ## filter.go / drop.go -/

/-- `FilterOutByCondition` = `filter (¬ condition)` -/
theorem C17_filter_spec (l : List Int) (c : Int → Bool) :
    filterOutByCondition (some l) (some c) = some (l.filter (fun v => !c v)) := rfl

/-- in-place = copying: `DropSliceByCondition` leaves in `*s` what `FilterOutByCondition` returns -/
theorem C17_drop_condition_inplace_eq_copying (s : Sl) (c : Option (Int → Bool)) :
    (dropSliceByCondition s c).map InPlace.result = filterOutByCondition s c := by
  cases s with
  | none => cases c <;> rfl
  | some l =>
    cases c with
    | none => simp [dropSliceByCondition, filterOutByCondition, InPlace.result]
    | some c =>
      simp only [dropSliceByCondition, filterOutByCondition, Option.map_some]
      rw [compact_stateless (fun _ v => !c v) l]
      exact congrArg some (enum_filter_value (fun v => !c v) l 0)

/-- `FilterOutByIndices` returns the elements whose index is not listed -/
theorem C17_filter_indices_spec (l : List Int) (idx : Sl) :
    (filterOutByIndices (some l) idx).els = dropIdx l idx.els := filterOutByIndices_spec l idx

/-- `DropSliceByIndices` leaves the same elements in `*s` (in-place = copying) -/
theorem C17_drop_indices_inplace_eq_copying (l : List Int) (idx : Sl) :
    (dropSliceByIndices (some l) idx).map InPlace.result = some (filterOutByIndices (some l) idx).els := by
  rw [dropSliceByIndices_spec, filterOutByIndices_spec]

/-- `DropSliceOverlappingElements` removes exactly the elements that match a member of the other slice -/
theorem C17_drop_overlapping_spec (l o : List Int) (h : Int → Int → Bool) :
    (dropSliceOverlappingElements (some l) (some o) (some h)).map InPlace.result
      = some (l.filter (fun v => !o.any (fun x => h v x))) := by
  simp only [dropSliceOverlappingElements, Option.map_some]
  rw [compact_stateless (fun _ v => !inSlice o v h) l]
  exact congrArg some (enum_filter_value (fun v => !inSlice o v h) l 0)

theorem C17_clear (s : Sl) : (clearSlice s).map InPlace.result = s.map (fun _ => []) := by
  cases s <;> simp [clearSlice, InPlace.result]

/-! ## contains.go -/

/-- the model of `EqualSlice` is the specification the `-spec` suite runs -/
theorem C17_equalSlice_eq_spec (s1 s2 : Sl) (h : Int → Int → Bool) : equalSlice s1 s2 h = equalBy h s1.els s2.els :=
  equalSlice_eq_spec s1 s2 h

/-- `EqualSlice` ⇔ same length and the handler accepts every pair of corresponding elements -/
theorem C17_equalSlice_iff (s1 s2 : Sl) (h : Int → Int → Bool) :
    equalSlice s1 s2 h = true ↔
      s1.els.length = s2.els.length ∧ ∀ i (h1 : i < s1.els.length) (h2 : i < s2.els.length), h s1.els[i] s2.els[i] = true := by
  rw [equalSlice_eq_spec, equalBy_iff]

theorem C17_equalSlice_refl (s : Sl) (h : Int → Int → Bool) (hr : ∀ a, h a a = true) : equalSlice s s h = true := by
  rw [C17_equalSlice_iff]; exact ⟨rfl, fun i _ _ => hr _⟩

theorem C17_equalSlice_symm (s1 s2 : Sl) (h : Int → Int → Bool) (hs : ∀ a b, h a b = h b a) :
    equalSlice s1 s2 h = equalSlice s2 s1 h := by
  rw [Bool.eq_iff_iff, C17_equalSlice_iff, C17_equalSlice_iff]
  constructor
  · rintro ⟨hl, hall⟩; exact ⟨hl.symm, fun i h1 h2 => by rw [hs]; exact hall i h2 h1⟩
  · rintro ⟨hl, hall⟩; exact ⟨hl.symm, fun i h1 h2 => by rw [hs]; exact hall i h2 h1⟩

/-- `EqualComparableSlice` distinguishes slices with different contents: true exactly for equal element lists -/
theorem C17_equalComparableSlice_iff (s1 s2 : Sl) : equalComparableSlice s1 s2 = true ↔ s1.els = s2.els := by
  rw [equalComparableSlice, equalSlice_eq_spec, equalBy_beq_iff]

/-- `EqualMap` (as fixed) ⇔ same key set and the handler accepts the two values under every key -/
theorem C17_equalMap_iff (m1 m2 : Mp) (h : Int → Int → Bool) (hd1 : (keysOf m1.ents).Nodup) (hd2 : (keysOf m2.ents).Nodup) :
    equalMap m1 m2 h = true ↔
      (∀ k, k ∈ keysOf m1.ents ↔ k ∈ keysOf m2.ents) ∧ ∀ k, k ∈ keysOf m1.ents → h (mget m1.ents k) (mget m2.ents k) = true :=
  equalMap_iff m1 m2 h hd1 hd2

theorem C17_equalMap_refl (m : Mp) (h : Int → Int → Bool) (hr : ∀ a, h a a = true) (hd : (keysOf m.ents).Nodup) :
    equalMap m m h = true := by
  rw [equalMap_iff m m h hd hd]; exact ⟨fun _ => Iff.rfl, fun _ _ => hr _⟩

theorem C17_equalMap_symm (m1 m2 : Mp) (h : Int → Int → Bool) (hs : ∀ a b, h a b = h b a)
    (hd1 : (keysOf m1.ents).Nodup) (hd2 : (keysOf m2.ents).Nodup) : equalMap m1 m2 h = equalMap m2 m1 h := by
  rw [Bool.eq_iff_iff, equalMap_iff m1 m2 h hd1 hd2, equalMap_iff m2 m1 h hd2 hd1]
  constructor
  · rintro ⟨hk, hv⟩; exact ⟨fun k => (hk k).symm, fun k hk2 => by rw [hs]; exact hv k ((hk k).mpr hk2)⟩
  · rintro ⟨hk, hv⟩; exact ⟨fun k => (hk k).symm, fun k hk2 => by rw [hs]; exact hv k ((hk k).mpr hk2)⟩

/-- maps with different key sets are never equal (the statement the original `EqualMap` violated) -/
theorem C17_equalMap_different_keys (m1 m2 : Mp) (h : Int → Int → Bool) (hd1 : (keysOf m1.ents).Nodup)
    (hd2 : (keysOf m2.ents).Nodup) (k : Int) (hk1 : k ∈ keysOf m1.ents) (hk2 : k ∉ keysOf m2.ents) :
    equalMap m1 m2 h = false := by
  cases he : equalMap m1 m2 h with
  | false => rfl
  | true => exact absurd (((equalMap_iff m1 m2 h hd1 hd2).mp he).1 k |>.mp hk1) hk2

/-- membership tests are the plain list notions -/
theorem C17_inSlice_iff (l : List Int) (v : Int) (h : Int → Int → Bool) :
    inSlice l v h = true ↔ ∃ x ∈ l, h v x = true := by simp [inSlice]

theorem C17_inComparableSlice_iff (l : List Int) (v : Int) : inComparableSlice l v = true ↔ v ∈ l := by
  simp [inComparableSlice]

theorem C17_keyInMap_iff (m : List (Int × Int)) (k : Int) : keyInMap m k = true ↔ k ∈ keysOf m := mhas_iff m k

/-- the compound membership helpers, as coded: an empty container (or no containers) answers false, otherwise
    the obvious quantifier combination; `AnyValueInMaps` requires *every* map to contain one of the values
    (this is what its own table test expects, although its comment says "any map") -/
theorem C17_membership_as_coded (l values : List Int) (h : Int → Int → Bool) (ms : Option (List Mp)) :
    (allInSlice l values h = true ↔ l ≠ [] ∧ ∀ v ∈ values, ∃ x ∈ l, h v x = true) ∧
    (anyInSlice l values h = true ↔ l ≠ [] ∧ ∃ v ∈ values, ∃ x ∈ l, h v x = true) ∧
    (anyValueInMaps ms values h = true ↔ mapsOf ms ≠ [] ∧ ∀ m ∈ mapsOf ms, anyValueInMap m values h = true) := by
  refine ⟨?_, ?_, ?_⟩
  · by_cases hl : l = []
    · subst hl; simp [allInSlice]
    · have : ¬ l.length = 0 := fun hh => hl (List.length_eq_zero_iff.mp hh)
      simp [allInSlice, this, hl, inSlice]
  · by_cases hl : l = []
    · subst hl; simp [anyInSlice]
    · have : ¬ l.length = 0 := fun hh => hl (List.length_eq_zero_iff.mp hh)
      simp [anyInSlice, this, hl, inSlice]
  · by_cases hl : mapsOf ms = []
    · simp [anyValueInMaps, hl]
    · have : ¬ (mapsOf ms).length = 0 := fun hh => hl (List.length_eq_zero_iff.mp hh)
      simp [anyValueInMaps, this, hl]

/-! ## find.go -/

/-- `FindMinimumInSlice`: a member with the least key (the first such, `argMin`) -/
theorem C17_min_mem_le (l : List Int) (g : Int → Int) (hne : l ≠ []) :
    findMinimumInSlice l g ∈ l ∧ (∀ y ∈ l, g (findMinimumInSlice l g) ≤ g y) ∧ findMinimumInSlice l g = argMin g l :=
  ⟨(findMinimumInSlice_spec l g hne).1, (findMinimumInSlice_spec l g hne).2, findMinimumInSlice_eq_argMin l g⟩

/-- `FindMaximumInSlice`: a member with the greatest key (the first such, `argMax`) -/
theorem C17_max_mem_le (l : List Int) (g : Int → Int) (hne : l ≠ []) :
    findMaximumInSlice l g ∈ l ∧ (∀ y ∈ l, g y ≤ g (findMaximumInSlice l g)) ∧ findMaximumInSlice l g = argMax g l :=
  ⟨(findMaximumInSlice_spec l g hne).1, (findMaximumInSlice_spec l g hne).2, findMaximumInSlice_eq_argMax l g⟩

/-- `FindMaxFromMap` / `FindMinFromMap` (as fixed), for every iteration order of a non-empty map: a value of the
    map with the greatest / least key — never the zero value of an all-negative map -/
theorem C17_mapMinMax_mem_le (m : Mp) (g : Int → Int) (hne : m.ents ≠ []) :
    (findMaxFromMap m g ∈ valsOf m.ents ∧ ∀ v ∈ valsOf m.ents, g v ≤ g (findMaxFromMap m g)) ∧
    (findMinFromMap m g ∈ valsOf m.ents ∧ ∀ v ∈ valsOf m.ents, g (findMinFromMap m g) ≤ g v) := by
  have hv : valsOf m.ents ≠ [] := by
    intro h; apply hne; simpa [valsOf] using h
  exact ⟨findMaximumInSlice_spec _ g hv, findMinimumInSlice_spec _ g hv⟩

/-- the comparable variants do not depend on the iteration order: any rearrangement of the entries gives
    the same extremum -/
theorem C17_mapMax_order_independent (m m' : List (Int × Int)) (hp : m'.Perm m) :
    findMaxFromComparableMap (some m') = findMaxFromComparableMap (some m) := by
  by_cases hne : m = []
  · subst hne; have := hp.eq_nil; subst this; rfl
  · have hne' : m' ≠ [] := fun h => hne (by subst h; exact hp.symm.eq_nil)
    have h1 := (C17_mapMinMax_mem_le (some m) id (by simpa [Mp.ents] using hne)).1
    have h2 := (C17_mapMinMax_mem_le (some m') id (by simpa [Mp.ents] using hne')).1
    have hpv : (valsOf m').Perm (valsOf m) := hp.map _
    simp only [Mp.ents, Option.getD_some, id] at h1 h2
    have a := h1.2 _ (hpv.subset h2.1)
    have b := h2.2 _ (hpv.symm.subset h1.1)
    simp only [findMaxFromComparableMap]
    omega

/-- `FindInSlice`/`FindIndexInSlice`: the first index whose element satisfies the predicate -/
theorem C17_find_first (p : Int → Bool) (l : List Int) (j : Nat) (v : Int) (h : findFrom p 0 l = some (j, v)) :
    l[j]? = some v ∧ p v = true ∧ ∀ k < j, ∀ x, l[k]? = some x → p x = false := by
  obtain ⟨k, hk, h1, h2, h3⟩ := findFrom_some p l 0 j v h
  have : j = k := by omega
  subst this
  exact ⟨h1, h2, h3⟩

/-- … and `-1` exactly when no element satisfies it -/
theorem C17_find_none (p : Int → Bool) (l : List Int) : findIndexInSlice l p = -1 ↔ ∀ x ∈ l, p x = false := by
  simp only [findIndexInSlice, findInSlice]
  constructor
  · intro h
    cases hf : findFrom p 0 l with
    | none => exact (findFrom_none p l 0).mp hf
    | some q => rw [hf] at h; simp at h
  · intro h
    rw [(findFrom_none p l 0).mpr h]

/-- `FindCombinationsInSliceByRange` returns exactly the non-empty sub-sequences whose size lies in the range -/
theorem C17_combinations (l : List Int) (lo hi : Int) (c : List Int) :
    c ∈ combosLoop lo hi [] l ↔ c.Sublist l ∧ c ≠ [] ∧ lo ≤ (c.length : Int) ∧ (c.length : Int) ≤ hi := by
  constructor
  · intro h
    obtain ⟨t, hs, hne, hc, hlo, hhi⟩ := combosLoop_sound lo hi l [] c h
    simp only [List.nil_append] at hc
    subst hc
    exact ⟨hs, hne, hlo, hhi⟩
  · rintro ⟨hs, hne, hlo, hhi⟩
    simpa using combosLoop_complete lo hi l c hs hne [] (by simpa using hlo) (by simpa using hhi)

/-! ## loop.go -/

/-- `LoopSlice` hands over `(i, s[i])` in index order until the callback answers false -/
theorem C17_loopSlice_visits (l : List Int) (stop : Nat) : loopSlice l stop = visited stop (indexed l) := by
  simp only [loopSlice, loopGo_visited, enumFrom_zero_eq_indexed]

theorem C17_reverseLoopSlice_visits (l : List Int) (stop : Nat) :
    reverseLoopSlice l stop = visited stop (indexed l).reverse := by
  simp only [reverseLoopSlice, loopGo_visited, enumFrom_zero_eq_indexed]

/-- `LoopMapByOrderedKeyAsc` visits `(i, k, m[k])` for the keys in ascending order (each key once) until the callback
    answers false -/
theorem C17_loop_ordered_keys_asc (m : Mp) (stop : Nat) :
    ∃ ks, loopMapByOrderedKeyAsc m stop = visited stop (triplesOf m.ents ks) ∧
      ks = isort (fun a b => decide (a ≤ b)) (keysOf m.ents) ∧ ks.Perm (keysOf m.ents) ∧ ks.Pairwise (· ≤ ·) := by
  refine ⟨_, by simp only [loopMapByOrderedKeyAsc, loopGo_visited], mergeSort_eq_isort_le _, List.mergeSort_perm _ _, ?_⟩
  have := List.pairwise_mergeSort (le := fun (a b : Int) => decide (a ≤ b)) (by intro a b c; simp; omega)
    (by intro a b; simp; omega) (keysOf m.ents)
  exact this.imp (by intro a b h; simpa using h)

theorem C17_loop_ordered_keys_desc (m : Mp) (stop : Nat) :
    ∃ ks, loopMapByOrderedKeyDesc m stop = visited stop (triplesOf m.ents ks) ∧
      ks = isort (fun a b => decide (a ≥ b)) (keysOf m.ents) ∧ ks.Perm (keysOf m.ents) ∧ ks.Pairwise (· ≥ ·) := by
  refine ⟨_, by simp only [loopMapByOrderedKeyDesc, loopGo_visited], mergeSort_eq_isort_ge _, List.mergeSort_perm _ _, ?_⟩
  have := List.pairwise_mergeSort (le := fun (a b : Int) => decide (a ≥ b)) (by intro a b c; simp; omega)
    (by intro a b; simp; omega) (keysOf m.ents)
  exact this.imp (by intro a b h; simpa using h)

/-- every visited triple pairs a key with *its own* value (the statement the original
    `LoopMapByOrderedValueAsc/Desc` violated) -/
theorem C17_loop_pairs_match (m : List (Int × Int)) (keys : List Int) (t : Nat × Int × Int) (ht : t ∈ triplesOf m keys) :
    t.2.2 = mget m t.2.1 := by
  simp only [triplesOf, List.mem_map] at ht
  obtain ⟨p, _, rfl⟩ := ht
  rfl

/-- **ordered map loops** (`LoopMapByOrderedValueAsc/Desc` as fixed, `LoopMapByKeyGetterAsc/Desc`,
    `LoopMapByValueGetterAsc/Desc`): for every map with distinct keys, every key order `sort.Slice` may return
    (a rearrangement of the keys that is sorted by the criterion) and every stopping point, what the callback
    sees passes the judge `visitedPairsMatch`: positions 0,1,2,…, each `(k, m[k])` at most once, exactly
    `min(stop, len)` visits, criterion monotone, nothing unvisited that should have come earlier -/
theorem C17_loop_ordered_pairs (m : List (Int × Int)) (hd : (keysOf m).Nodup) (sortedKeys : List Int)
    (hp : sortedKeys.Perm (keysOf m)) (c : Int → Int → Int) (desc : Bool) (stop : Nat)
    (hs : sortedKeys.Pairwise (fun a b => keyOf m c desc a ≤ keyOf m c desc b)) :
    visitedPairsMatch m (some c) desc stop (loopMapSorted (some m) sortedKeys stop) = true := by
  simp only [loopMapSorted, loopGo_visited]
  exact visited_triples_match m hd sortedKeys hp (some c) desc stop (by intro c' hc; cases hc; exact hs)

/-- `LoopMap`: for every iteration order `m'` of the map the visits pass the judge (no order promised) -/
theorem C17_loopMap_pairs (m m' : List (Int × Int)) (hd : (keysOf m).Nodup) (hp : m'.Perm m) (stop : Nat) :
    visitedPairsMatch m none false stop (loopMap (some m') stop) = true := by
  have hget : ∀ e ∈ m', mget m e.1 = e.2 := fun e he => mget_of_mem m hd e (hp.subset he)
  have : loopMap (some m') stop = visited stop (triplesOf m (keysOf m')) := by
    simp only [loopMap, loopGo_visited, triplesOf]
    show visited stop (enumEntries 0 m') = _
    rw [enumEntries_eq m m' 0 hget]
  rw [this]
  exact visited_triples_match m hd (keysOf m') (hp.map _) none false stop (by intro c hc; cases hc)

/-- what an accepted verdict means: the callback saw positions 0,1,2,…, only entries of the map, no key twice, and
    the promised number of visits -/
theorem C17_visitedPairsMatch_sound (m : List (Int × Int)) (crit : Option (Int → Int → Int)) (desc : Bool) (stop : Nat)
    (vis : List (Nat × Int × Int)) (h : visitedPairsMatch m crit desc stop vis = true) :
    vis.map (·.1) = List.range vis.length ∧ (∀ t ∈ vis, (t.2.1, t.2.2) ∈ m) ∧ (vis.map (·.2.1)).Nodup ∧
      vis.length = (if stop = 0 ∨ stop ≥ m.length then m.length else stop) :=
  visitedPairsMatch_sound m crit desc stop vis h

/-! ## random.go -/

/-- `ChooseRandomIndexN` (as fixed): `n` pairwise distinct indices of the slice, for every list of draws -/
theorem C17_chooseN_distinct_members (l : List Int) (n : Nat) (draws : List Nat) (hne : l ≠ []) (hn : n ≤ l.length)
    (hd : ∀ d ∈ draws, d < l.length) :
    ∃ out, chooseRandomIndexN l (n : Int) draws = some (some out) ∧ out.length = n ∧ out.Nodup ∧
      ∀ x ∈ out, 0 ≤ x ∧ x < (l.length : Int) :=
  chooseRandomIndexN_spec l n draws hne hn hd

/-- the `…N` map helpers (as fixed): the first `n` keys of the iteration — `n` distinct keys of the map, for every
    iteration order; `n = 0` gives the empty slice -/
theorem C17_chooseMapKeyN_distinct_members (m : List (Int × Int)) (n : Nat) (hn : n ≤ m.length) (hd : (keysOf m).Nodup) :
    ∃ out, chooseRandomMapKeyN (some m) (n : Int) = some (some out) ∧ out.length = n ∧ out.Nodup ∧ ∀ k ∈ out, k ∈ keysOf m := by
  have hn' : ¬ ((n : Int) > (m.length : Int) ∨ (n : Int) < 0) := by omega
  refine ⟨(keysOf m).take n, by simp only [chooseRandomMapKeyN, hn', if_false, Int.toNat_natCast], ?_, hd.sublist (List.take_sublist _ _),
    fun k hk => List.mem_of_mem_take hk⟩
  simp [keysOf]; omega

/-- `ChooseRandomSliceElementN`: for every iteration order of the index set (pairwise distinct valid positions) the
    answer passes the judge clause `distinct-positions`: `n` elements taken from `n` different positions -/
theorem C17_chooseElementN_distinct_positions (l : List Int) (n : Nat) (order : List Nat) (hn1 : 1 ≤ n) (hn : n ≤ l.length)
    (hnd : order.Nodup) (hr : ∀ i ∈ order, i < l.length) (hlen : n ≤ order.length) :
    ∃ out, chooseRandomSliceElementN l (n : Int) order = some out ∧ out.length = n ∧ subMultiset out l = true := by
  have hg : ¬ (l.length = 0 ∨ (n : Int) ≤ 0 ∨ (n : Int) > (l.length : Int)) := by omega
  refine ⟨(order.take n).map (fun i => l.getD i 0), by simp only [chooseRandomSliceElementN, hg, if_false, Int.toNat_natCast],
    by simp only [List.length_map, List.length_take]; omega, ?_⟩
  exact map_nodup_indices_subMultiset l (order.take n) (hnd.sublist (List.take_sublist _ _))
    (fun i hi => hr i (List.mem_of_mem_take hi))

/-- the judge predicates of the suite `c17-random`, as statements -/
theorem C17_distinctMembers_iff (out pool : List Int) :
    distinctMembers out pool = true ↔ out.Nodup ∧ ∀ x ∈ out, x ∈ pool := distinctMembers_iff out pool

theorem C17_subMultiset_iff (a b : List Int) : subMultiset a b = true ↔ ∃ rest, (a ++ rest).Perm b := subMultiset_iff a b

/-! ## sort.go -/

/-- the judge predicate of `Asc`/`AscByClone` (`Desc…` alike): a rearrangement of the input with non-decreasing keys -/
theorem C17_sort_sorted_perm (g : Int → Int) (l out : List Int) :
    (sortedPermAsc g l out = true ↔ out.Perm l ∧ out.Pairwise (fun a b => g a ≤ g b)) ∧
    (sortedPermDesc g l out = true ↔ out.Perm l ∧ out.Pairwise (fun a b => g a ≥ g b)) :=
  ⟨sortedPermAsc_iff g l out, sortedPermDesc_iff g l out⟩

/-- … and it accepts what a correct sort returns (the predicate is satisfiable for every input) -/
theorem C17_sort_spec_satisfiable (g : Int → Int) (l : List Int) :
    sortedPermAsc g l (l.mergeSort (fun a b => decide (g a ≤ g b))) = true := sortedPermAsc_mergeSort g l

theorem C17_shuffle_perm (a b : List Int) : isPermOf a b = true ↔ a.Perm b := isPermOf_iff a b

/-! ## topological.go -/

/-- the judge predicate for a returned order: a rearrangement of the indices in which every item comes before
    everything it depends on (documented direction) -/
theorem C17_topo_respects (items : List (Int × List Int)) (out : List Int) :
    validOrder items out = true ↔ out.Perm (items.map (·.1)) ∧ ∀ e ∈ edgesOf items, posOf out e.1 < posOf out e.2 :=
  validOrder_iff items out

/-- an edge of the judge is a dependency on a present index -/
theorem C17_topo_edges (items : List (Int × List Int)) (a b : Int) :
    (a, b) ∈ edgesOf items ↔ ∃ it ∈ items, it.1 = a ∧ b ∈ it.2 ∧ b ∈ items.map (·.1) := mem_edgesOf items a b

/-- whenever the judge accepts an order the dependency graph has no cycle (no item depends on itself through a
    chain of dependencies); hence for cyclic input no answer but the error passes -/
theorem C17_topo_order_acyclic (items : List (Int × List Int)) (out : List Int)
    (h : topoVerdict items (some out) = true) : ∀ x, ¬ Reach (edgesOf items) x x := by
  simp only [topoVerdict, Bool.and_eq_true] at h
  exact validOrder_acyclic items out h.2

/-- error ⇔ cycle: for distinct indices the judge accepts `ErrCircularDependencyDetected` exactly when the
    dependencies contain a cycle — equivalently, exactly when no order respects all dependencies (the search the
    judge runs, Kahn's algorithm, is proved complete) -/
theorem C17_topo_cycle_iff_error (items : List (Int × List Int)) (hnd : (items.map (·.1)).Nodup) :
    (topoVerdict items none = true ↔ ∃ x, Reach (edgesOf items) x x) ∧
    (topoVerdict items none = true ↔ ¬ ∃ out, validOrder items out = true) :=
  ⟨topoVerdict_none_iff_cycle items hnd, topoVerdict_none_iff items hnd⟩

/-- two items with the same index: only the error is accepted (the code cannot return as many items as it got) -/
theorem C17_topo_duplicate_index (items : List (Int × List Int)) (hdup : ¬ (items.map (·.1)).Nodup) (out : List Int) :
    topoVerdict items none = true ∧ topoVerdict items (some out) = false := by
  have hd : distinct (items.map (·.1)) = false := by
    cases h : distinct (items.map (·.1)) with
    | false => rfl
    | true => exact absurd ((distinct_iff _).mp h) hdup
  simp [topoVerdict, hd]

/-- *partial* (model level): that the depth-first model `topologicalSort` itself passes `topoVerdict` for every
    iteration order of its node map is not proved in Lean; it is checked on every run by the judge clause
    `model-explains` (exhaustively for all dependency graphs on ≤ 3 nodes, a seventh / all of the 4-node graphs,
    and random graphs up to 12 nodes).  What is proved here: the model never reports an error for the empty input
    and the answers it gives on the package's own example. -/
theorem C17_topo_model_partial :
    topologicalSort [] [] = some [] ∧
    topoVerdict [(2, [4]), (1, [2, 3]), (3, [4]), (4, [5]), (5, [])]
      (topologicalSort [(2, [4]), (1, [2, 3]), (3, [4]), (4, [5]), (5, [])] [3, 5, 1, 2, 4]) = true := by
  constructor
  · rfl
  · decide

/-! ## non-vacuity -/

example : deduplicateSlice (some [1, 1, 2, 3, 2]) = some [1, 2, 3] := by decide
example : (deduplicateSliceInPlaceWithCompare (some [1, 1, 2, 3, 2]) (· == ·)).map InPlace.result = some [1, 2, 3] := by decide
example : convertSliceToBatches (some [1, 2, 3, 4, 5]) 2 = some [[1, 2], [3, 4], [5]] := by decide
example : (reverseSlice (some [1, 2, 3])).map InPlace.result = some [3, 2, 1] := by decide
example : equalMap (some [(0, 0)]) (some [(1, 0)]) (· == ·) = false := by decide
example : findMaxFromComparableMap (some [(0, -1), (1, -2)]) = -1 := by decide
example : (dropSliceByIndices (some [5, 6, 7]) (some [0, 2])).map InPlace.result = some [6] := by decide
example : loopSlice [5, 6, 7] 2 = [(0, 5), (1, 6)] := by decide
example : loopMap (some [(0, 5), (2, 6), (1, 7)]) 2 = [(0, 0, 5), (1, 2, 6)] := by decide
example : chooseRandomIndexN [10, 11, 12] 3 [1, 1, 2] = some (some [1, 0, 2]) := by decide
example : topologicalSort [(1, [2]), (2, [1])] [1, 2] = none := by decide
example : topologicalSort [(2, [4]), (1, [2, 3]), (3, [4]), (4, [5]), (5, [])] [5, 1, 2, 3, 4] = some [1, 2, 3, 4, 5] := by decide
example : topoVerdict [(1, [2]), (2, [1])] none = true := by decide
example : topoVerdict [(1, [2]), (2, [])] none = false := by decide
example : validOrder [(1, [2]), (2, [])] [2, 1] = false := by decide

end MV.Props.C17
