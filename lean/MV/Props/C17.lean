import MV.Model.Collection.Order
import MV.Spec.Collection
/-!
# C17 — collection helpers obey their defining laws and leave inputs alone
-/
namespace MV.Props.C17
open MV.Model.Coll MV.Spec.Coll

theorem C17_copyList_eq (l : List Int) : copyList l = l := by
  induction l with
  | nil => rfl
  | cons x xs ih => simp [copyList, ih]

/-- `CloneSlice` returns the same elements (and `nil` for `nil`) -/
theorem C17_clone_eq (s : Sl) : cloneSlice s = s := by
  cases s with
  | none => rfl
  | some l => simp [cloneSlice, C17_copyList_eq]

end MV.Props.C17
