import MV.Props.C05Tree
/-!
# C06 — a termination notice is never premature (run-level)

In every reachable world of the Layer-2 model, whatever the user code, strategies and schedule: a
`Terminated(x)` notification that sits in any actor's system queue — sent by `x`'s `tryTerminated` to its
watchers and its parent, by `onWatch` of a terminated actor, or by the dead-letter process answering a
`Watch` — names an actor that HAS terminated, or an address that never existed.  Nobody is ever told
about a termination that has not happened (the "not notified otherwise / not before" half of C06); the
counting half ("exactly once") is judged on the real system's event record (`c06dup`, `c06missing`,
`c06unsolicited`).
-/
namespace MV.Props.C06
open MV.Model.ActorSys MV.Props.C05

theorem C06_notice_only_after_termination (behs : List BehDef) (hb : ∀ b ∈ behs, BehOK b) (ops : List Op)
    (hok : RunOK (init behs) ops) (hn : nA (exec (init behs) ops) ≤ ghostBase)
    (a : Aid) (ha : a < nA (exec (init behs) ops)) (who : Aid) (s : Option Aid)
    (hq : (SMsg.terminated who, s) ∈ (actorAt (exec (init behs) ops) a).sysQ) :
    (who < nA (exec (init behs) ops) ∧ (actorAt (exec (init behs) ops) who).status = .terminated) ∨
      ghostBase ≤ who :=
  (C05_tree_invariant behs hb ops hok hn).msg a ha who s hq

/-- … and a child leaves its parent's children table only through such a notice: a living actor is
always listed by its parent (so the parent cannot terminate, `C05_children_first`) -/
theorem C06_living_child_is_listed (behs : List BehDef) (hb : ∀ b ∈ behs, BehOK b) (ops : List Op)
    (hok : RunOK (init behs) ops) (hn : nA (exec (init behs) ops) ≤ ghostBase)
    (c p : Aid) (hc : c < nA (exec (init behs) ops))
    (hp : (actorAt (exec (init behs) ops) c).parent = some p)
    (hlive : (actorAt (exec (init behs) ops) c).status ≠ .terminated) :
    c ∈ (actorAt (exec (init behs) ops) p).children := by
  rcases ((C05_tree_invariant behs hb ops hok hn).par c hc p hp).2 with h | h
  · exact h
  · exact absurd h hlive

/-- non-vacuity: after the subscription actor has terminated during a shutdown, the guard's queue holds
`Terminated(1)` and actor 1 is terminated -/
example : (SMsg.terminated 1, some 1) ∈
      (actorAt (exec (init []) [.run 0, .run 1, .shutdown false, .run 0, .run 1]) 0).sysQ ∧
    (actorAt (exec (init []) [.run 0, .run 1, .shutdown false, .run 0, .run 1]) 1).status = .terminated := by
  decide

end MV.Props.C06
