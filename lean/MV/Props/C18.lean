import MV.Lemmas.Backoff
/-!
# C18 — back-off delays stay within bounds; retry helpers call as often as documented

## `chrono.ExponentialBackoff` / `StandardExponentialBackoff` (toolkit/chrono/exponential_backoff.go)

The theorems are about `MV.Model.Backoff.backoff p u`, the transcription of the Go function over exact
arithmetic with the IEEE overflow/NaN cases (`u` = the value drawn by `rand.Float64()`), for **every**
count (no bound), every draw `u = un/ud ∈ [0,1]`, and every argument on the documented domain
`DomP p` (multiplier ≥ 1, 0 ≤ randomization ≤ 2, 0 ≤ base, max < 2^63).  Notation:
`prod = base·(mn/md)^count`, `jit = (u − 1/2)·(rn/rd)·base`, `halfW = (rn/rd)/2·base`, all in `ℚ`.

* `C18_stop_iff`     — the answer is `-1` exactly when a limit is set and the count exceeds it;
* `C18_range`        — otherwise `0 ≤ d ≤ max`; `C18_le_max` — `d ≤ max` (or the stop signal) holds for
                       *all* arguments and all float values, NaN and infinities included;
* `C18_band`         — while `prod + jit < max`: `|d − prod| ≤ halfW + 1`;
* `C18_saturate`     — once `prod − halfW ≥ max`: `d = max`, however large the count
                       (`C18_standard_saturates`: with the engine's parameters from count 64 on);
* `C18_model_interval` — the answer is monotone in the draw, so the answers for the draws 0 and 1 span
                       exactly the interval the oracle checks the implementation against;
* `C18_judge_accepts_model`, `C18_accept_sound` — the `Bool` judge run on the implementation's answers
                       accepts everything the model can answer and implies the clauses above.

Outside the theorems (stated in conf/C18.json): IEEE *rounding* of `Pow`, `*`, `+` (the band is checked
on the implementation with a relative tolerance of 2^-40).
-/
namespace MV.Props.C18
open MV.Model.Backoff MV.Model.Backoff.FVal MV.Lemmas.Backoff MV.Spec.Backoff

/-- a limit is set and the count exceeds it -/
def Stops (p : Params) : Prop := 0 ≤ p.limit ∧ p.limit < (p.count : Int)

theorem stop_iff_Stops (p : Params) : stop p = true ↔ Stops p := by
  unfold stop Stops; rw [decide_eq_true_iff]

theorem backoff_of_stops (p : Params) (u : FVal) (h : Stops p) : backoff p u = -1 := by
  unfold Stops at h
  unfold backoff
  have : (p.count : Int) > p.limit ∧ p.limit > -1 := by omega
  rw [if_pos this]

theorem backoff_of_not_stops (p : Params) (u : FVal) (h : ¬ Stops p) :
    backoff p u = delay p.count p.base p.max p.mn p.md p.rn p.rd u := by
  unfold Stops at h
  unfold backoff
  have : ¬ ((p.count : Int) > p.limit ∧ p.limit > -1) := by omega
  rw [if_neg this]

/-- **stop signal**: `-1` is returned exactly when `limit ≥ 0` and `count > limit` -/
theorem C18_stop_iff (p : Params) (un ud : Nat) (D : DomP p) (hud : 0 < ud) (hu : un ≤ ud) :
    backoff p (fin un ud) = -1 ↔ Stops p := by
  constructor
  · intro h
    by_contra hs
    rw [backoff_of_not_stops p _ hs] at h
    have := (delay_range p.count p.base p.max p.mn p.md p.rn p.rd un ud D hud hu).1
    omega
  · exact backoff_of_stops p _

/-- **range**: without the stop signal the delay is never negative and never above `max` -/
theorem C18_range (p : Params) (un ud : Nat) (D : DomP p) (hud : 0 < ud) (hu : un ≤ ud) (hs : ¬ Stops p) :
    0 ≤ backoff p (fin un ud) ∧ backoff p (fin un ud) ≤ p.max := by
  rw [backoff_of_not_stops p _ hs]
  exact delay_range p.count p.base p.max p.mn p.md p.rn p.rd un ud D hud hu

/-- the clamp holds unconditionally: any arguments, any float value of the draw (also NaN, ±Inf) -/
theorem C18_le_max (p : Params) (u : FVal) : backoff p u = -1 ∨ backoff p u ≤ p.max := by
  by_cases hs : Stops p
  · left; exact backoff_of_stops p u hs
  · right; rw [backoff_of_not_stops p u hs]; exact clampDur_le_max _ _

/-- **band**: while the exact sum stays below `max` the answer is within `halfW + 1` of
    `base·mult^count` -/
theorem C18_band (p : Params) (un ud : Nat) (D : DomP p) (hud : 0 < ud) (hu : un ≤ ud) (hs : ¬ Stops p)
    (hlt : prod p.count p.base p.mn p.md + jit p.base p.rn p.rd un ud < p.max) :
    |((backoff p (fin un ud) : Int) : ℚ) - prod p.count p.base p.mn p.md| ≤ halfW p.base p.rn p.rd + 1 := by
  rw [backoff_of_not_stops p _ hs, delay_eq p.count p.base p.max p.mn p.md p.rn p.rd un ud D hud hu]
  have hX : ¬ ((p.max:ℚ) ≤ X p.count p.base p.mn p.md p.rn p.rd un ud) := by unfold X; linarith
  rw [if_neg hX]
  obtain ⟨hj1, hj2⟩ := jit_bounds p.base p.rn p.rd un ud D.base_nn hud hu
  have h1 := Int.floor_le (X p.count p.base p.mn p.md p.rn p.rd un ud)
  have h2 := Int.lt_floor_add_one (X p.count p.base p.mn p.md p.rn p.rd un ud)
  unfold X at h1 h2 ⊢
  unfold halfW
  rw [abs_le]
  constructor <;> linarith

/-- **saturation**: once the lower edge of the band reaches `max` the answer is exactly `max` — for
    every count, however large (the `+Inf` and `NaN` branches of the float computation included) -/
theorem C18_saturate (p : Params) (un ud : Nat) (D : DomP p) (hud : 0 < ud) (hu : un ≤ ud) (hs : ¬ Stops p)
    (hge : (p.max : ℚ) ≤ prod p.count p.base p.mn p.md - halfW p.base p.rn p.rd) :
    backoff p (fin un ud) = p.max := by
  rw [backoff_of_not_stops p _ hs, delay_eq p.count p.base p.max p.mn p.md p.rn p.rd un ud D hud hu]
  obtain ⟨hj1, hj2⟩ := jit_bounds p.base p.rn p.rd un ud D.base_nn hud hu
  have hX : (p.max:ℚ) ≤ X p.count p.base p.mn p.md p.rn p.rd un ud := by
    unfold X; unfold halfW at hge; linarith
  rw [if_pos hX]

/-- `StandardExponentialBackoff` (multiplier 2, randomization 0.5) with a base of at least 1 ns and no
    limit answers exactly `max` for every count from 64 on -/
theorem C18_standard_saturates (count : Nat) (base max : Int) (un ud : Nat) (hc : 64 ≤ count)
    (hb : 1 ≤ base) (hb' : base < 2 ^ 63) (hm : 0 ≤ max) (hm' : max < 2 ^ 63) (hud : 0 < ud) (hu : un ≤ ud) :
    standard count (-1) base max (fin un ud) = max := by
  unfold standard
  have D : DomP { count := count, limit := -1, base := base, max := max, mn := 2, md := 1, rn := 1, rd := 2 } :=
    ⟨by show 0 < 1; decide, by show 0 < 2; decide, by show 1 ≤ 2; decide, by show 1 ≤ 2 * 2; decide,
      by show 0 ≤ base; omega, hb', hm, hm'⟩
  apply C18_saturate _ un ud D hud hu
  · unfold Stops; simp
  · show (max:ℚ) ≤ prod count base 2 1 - halfW base 1 2
    unfold prod halfW
    have h1 : ((2:ℚ)) ^ 64 ≤ (((2:Nat):ℚ) / ((1:Nat):ℚ)) ^ count := by
      have : (((2:Nat):ℚ) / ((1:Nat):ℚ)) = 2 := by norm_num
      rw [this]; exact pow_le_pow_right₀ (by norm_num) hc
    have hK : (2:ℚ) ^ 64 = 2 * 2 ^ 63 := by norm_num
    have hbq : (1:ℚ) ≤ base := by exact_mod_cast hb
    have hmq : (max:ℚ) < 2 ^ 63 := by exact_mod_cast hm'
    have : ((1:Nat):ℚ) / ((2:Nat):ℚ) / 2 = 1/4 := by norm_num
    rw [this]
    nlinarith

/-- **model interval**: the answer is monotone in the draw; the draws `0` and `1` give the extremes -/
theorem C18_model_interval (p : Params) (un ud un' ud' : Nat) (D : DomP p) (hud : 0 < ud) (hu : un ≤ ud)
    (hud' : 0 < ud') (hu' : un' ≤ ud') (hle : (un:ℚ)/ud ≤ (un':ℚ)/ud') :
    backoff p (fin un ud) ≤ backoff p (fin un' ud') := by
  by_cases hs : Stops p
  · rw [backoff_of_stops p _ hs, backoff_of_stops p _ hs]
  · rw [backoff_of_not_stops p _ hs, backoff_of_not_stops p _ hs,
      delay_eq _ _ _ _ _ _ _ un ud D hud hu, delay_eq _ _ _ _ _ _ _ un' ud' D hud' hu']
    apply clampQ_mono
    unfold X jit
    have hb : (0:ℚ) ≤ p.base := by exact_mod_cast D.base_nn
    have hr : (0:ℚ) ≤ (p.rn:ℚ)/p.rd := div_nonneg (Nat.cast_nonneg _) (Nat.cast_nonneg _)
    have hrb : (0:ℚ) ≤ (p.rn:ℚ)/p.rd * p.base := mul_nonneg hr hb
    nlinarith

/-- every answer of the model is accepted by the judge with tolerance 0 -/
theorem C18_judge_accepts_model (p : Params) (un ud : Nat) (D : DomP p) (hud : 0 < ud) (hu : un ≤ ud) :
    accept 0 p (backoff p (fin un ud)) = true := by
  unfold accept
  rw [decide_eq_true_iff]
  unfold verdict
  by_cases hs : Stops p
  · rw [if_pos ((stop_iff_Stops p).mpr hs), backoff_of_stops p _ hs]; simp
  · have hst : ¬ (stop p = true) := fun h => hs ((stop_iff_Stops p).mp h)
    rw [if_neg hst]
    obtain ⟨h0, hM⟩ := C18_range p un ud D hud hu hs
    have e := backoff_of_not_stops p (fin un ud) hs
    rw [delay_eq _ _ _ _ _ _ _ un ud D hud hu] at e
    obtain ⟨hj1, hj2⟩ := jit_bounds p.base p.rn p.rd un ud D.base_nn hud hu
    have hlowX : prod p.count p.base p.mn p.md - halfW p.base p.rn p.rd ≤ X p.count p.base p.mn p.md p.rn p.rd un ud := by
      unfold X halfW; linarith
    have hhighX : X p.count p.base p.mn p.md p.rn p.rd un ud ≤ prod p.count p.base p.mn p.md + halfW p.base p.rn p.rd := by
      unfold X halfW; linarith
    have hlow : backoff p (fin un ud) < p.max → floorLow p ≤ backoff p (fin un ud) := by
      intro hlt
      rw [floorLow_eq p D.md_pos D.rd_pos, e]
      by_cases hX : (p.max:ℚ) ≤ X p.count p.base p.mn p.md p.rn p.rd un ud
      · rw [e, if_pos hX] at hlt; omega
      · rw [if_neg hX]; exact Int.floor_le_floor hlowX
    have hhigh : backoff p (fin un ud) ≤ floorHigh p := by
      rw [floorHigh_eq p D.md_pos D.rd_pos, e]
      by_cases hX : (p.max:ℚ) ≤ X p.count p.base p.mn p.md p.rn p.rd un ud
      · rw [if_pos hX]; exact Int.le_floor.mpr (le_trans hX hhighX)
      · rw [if_neg hX]; exact Int.floor_le_floor hhighX
    have a1 : ¬ (backoff p (fin un ud) = -1) := by omega
    have a2 : ¬ (backoff p (fin un ud) < 0) := by omega
    have a3 : ¬ (backoff p (fin un ud) > p.max) := by omega
    have a4 : ¬ (backoff p (fin un ud) < p.max ∧ backoff p (fin un ud) < floorLow p - 0) := by
      intro ⟨h1, h2⟩; have := hlow h1; omega
    have a5 : ¬ (floorHigh p + 0 < backoff p (fin un ud)) := by omega
    rw [if_neg a1, if_neg a2, if_neg a3, if_neg a4, if_neg a5]

/-- what an accepted answer satisfies (the judge is the `Bool` form of the contract; `tol` only widens
    the band) -/
theorem C18_accept_sound (tol : Int) (p : Params) (d : Int) (h : accept tol p d = true) :
    (stop p = true → d = -1) ∧
    (stop p = false → d ≠ -1 ∧ 0 ≤ d ∧ d ≤ p.max ∧ (d < p.max → floorLow p - tol ≤ d) ∧ d ≤ floorHigh p + tol) := by
  unfold accept at h
  rw [decide_eq_true_iff] at h
  unfold verdict at h
  constructor
  · intro hs
    rw [if_pos hs] at h
    by_contra hd
    rw [if_neg hd] at h
    exact absurd h (by decide)
  · intro hs
    have hs' : ¬ (stop p = true) := by rw [hs]; decide
    rw [if_neg hs'] at h
    split_ifs at h
    omega

/-! ### non-vacuity -/

-- the closed examples below evaluate `2^1024` (the binary64 overflow threshold) and `2^2000`
set_option exponentiation.threshold 2100

/-- the engine's parameters satisfy the domain hypothesis -/
example : DomP { count := 40, limit := -1, base := 200000000, max := 3600000000000, mn := 2, md := 1, rn := 1, rd := 2 } :=
  ⟨by decide, by decide, by decide, by decide, by decide, by decide, by decide, by decide⟩

/-- 40 consecutive failures with a 200 ms base and a 1 h cap: exactly one hour (the unrepaired code
    answered −9223372036854775808 here, see `MV.Findings.C18`) -/
example : standard 40 (-1) 200000000 3600000000000 (fin 1 3) = 3600000000000 := by decide

/-- the stop signal -/
example : standard 4 3 200000000 3600000000000 (fin 1 3) = -1 := by decide

/-- a value inside the band: count 3, draw 0 -/
example : standard 3 (-1) 200000000 3600000000000 (fin 0 1) = 1550000000 := by decide

/-- zero base delay and an overflowing power (`0 * +Inf = NaN`): still zero -/
example : standard 2000 (-1) 0 3600000000000 (fin 1 3) = 0 := by decide

end MV.Props.C18
