import MV.Lemmas.Backoff
import MV.Lemmas.Retry
/-!
# C18 — back-off delays stay within bounds; retry helpers call as often as documented

## `chrono.ExponentialBackoff` / `StandardExponentialBackoff` (toolkit/chrono/exponential_backoff.go)

The theorems are about `MV.Model.Backoff.backoff p u`, the transcription of the Go function over exact
arithmetic with the IEEE overflow/NaN cases (`u` = the value drawn by `rand.Float64()`), for **every**
count (no bound), every draw `u = un/ud ∈ [0,1]`, and every argument on the documented domain
`DomP p` (multiplier ≥ 1, 0 ≤ randomization ≤ 2, 0 ≤ base, max < 2^63).  Notation:
`prod = base·(mn/md)^count`, `jit = (u − 1/2)·(rn/rd)·base`, `halfW = (rn/rd)/2·base`, all in `ℚ`.

* `C18_stop_iff`     — the answer is `-1` exactly when a limit is set and the count exceeds it
                       (`Stops p := 0 ≤ p.limit ∧ p.limit < p.count`, defined in `MV.Lemmas.Backoff`);
* `C18_range`        — otherwise `0 ≤ d ≤ max`; `C18_le_max` — `d ≤ max` (or the stop signal) holds for
                       *all* arguments and all float values, NaN and infinities included;
* `C18_band`         — while `prod + jit < max`: `|d − prod| ≤ halfW + 1`;
* `C18_saturate`     — once `prod − halfW ≥ max`: `d = max`, however large the count
                       (`C18_standard_saturates`: with the engine's parameters from count 64 on);
* `C18_model_interval` — the answer is monotone in the draw, so the answers for the draws 0 and 1 span
                       exactly the interval the oracle checks the implementation against;
* `C18_judge_accepts_model`, `C18_accept_sound` — the `Bool` judge run on the implementation's answers
                       accepts everything the model can answer and implies the clauses above.

## the retry helpers (toolkit/retry.go)

`MV.Model.Retry` transcribes the loops of `Retry` (= `RetryAsync`), `RetryByRule`, `RetryForever` and
`ConditionalRetryByExponentialBackoff` (= `RetryByExponentialBackoff` with `cond = nil`) over a script of
outcomes of arbitrary length.  `C18_retry_refines`: every loop equals its closed form in `MV.Spec.Retry`
("stop at the first attempt at which a stop condition holds").  From it:

* `C18_retry_count`        — `f` is invoked at most `count` / `maxRetries + 1` times, and never again
                             after its first success;
* `C18_retry_first_success`— a success within the limits ends the helper with `nil` after exactly that call;
* `C18_retry_ignore`       — an error of the ignore list is returned unchanged, immediately;
* `C18_retry_cond`         — a `false` interruption condition ends the helper before the next call;
* `C18_retry_last_error`   — otherwise the error of the last invocation is returned (wrapped for the
                             back-off variant, and only once `retry ≥ maxRetries`);
* `C18_retry_sleeps_nonneg`— every slept duration of the back-off variant lies in `[0, maxDelay]`
                             (never negative or wrapped around), those of `RetryByRule` are positive,
                             those of `Retry`/`RetryForever` are the given interval.

Outside the theorems (stated in conf/C18.json): IEEE *rounding* of `Pow`, `*`, `+` (the band is checked
on the implementation with a relative tolerance of 2^-40).
-/
namespace MV.Props.C18
open MV.Model.Backoff MV.Model.Backoff.FVal MV.Lemmas.Backoff MV.Spec.Backoff

/-- **stop signal**: `-1` is returned exactly when `limit ≥ 0` and `count > limit` -/
theorem C18_stop_iff (p : Params) (un ud : Nat) (D : DomP p) (hud : 0 < ud) (hu : un ≤ ud) :
    backoff p (fin un ud) = -1 ↔ Stops p := by
  constructor
  · intro h
    by_contra hs
    rw [backoff_of_not_stops p _ hs] at h
    have := (delay_range p.count p.base p.max p.mn p.md p.rn p.rd un ud D hud hu).1
    omega
  · exact backoff_of_stops p _

/-- **range**: without the stop signal the delay is never negative and never above `max` -/
theorem C18_range (p : Params) (un ud : Nat) (D : DomP p) (hud : 0 < ud) (hu : un ≤ ud) (hs : ¬ Stops p) :
    0 ≤ backoff p (fin un ud) ∧ backoff p (fin un ud) ≤ p.max := by
  rw [backoff_of_not_stops p _ hs]
  exact delay_range p.count p.base p.max p.mn p.md p.rn p.rd un ud D hud hu

/-- the clamp holds unconditionally: any arguments, any float value of the draw (also NaN, ±Inf) -/
theorem C18_le_max (p : Params) (u : FVal) : backoff p u = -1 ∨ backoff p u ≤ p.max := by
  by_cases hs : Stops p
  · left; exact backoff_of_stops p u hs
  · right; rw [backoff_of_not_stops p u hs]; exact clampDur_le_max _ _

/-- **band**: while the exact sum stays below `max` the answer is within `halfW + 1` of
    `base·mult^count` -/
theorem C18_band (p : Params) (un ud : Nat) (D : DomP p) (hud : 0 < ud) (hu : un ≤ ud) (hs : ¬ Stops p)
    (hlt : prod p.count p.base p.mn p.md + jit p.base p.rn p.rd un ud < p.max) :
    |((backoff p (fin un ud) : Int) : ℚ) - prod p.count p.base p.mn p.md| ≤ halfW p.base p.rn p.rd + 1 := by
  rw [backoff_of_not_stops p _ hs, delay_eq p.count p.base p.max p.mn p.md p.rn p.rd un ud D hud hu]
  have hX : ¬ ((p.max:ℚ) ≤ X p.count p.base p.mn p.md p.rn p.rd un ud) := by unfold X; linarith
  rw [if_neg hX]
  obtain ⟨hj1, hj2⟩ := jit_bounds p.base p.rn p.rd un ud D.base_nn hud hu
  have h1 := Int.floor_le (X p.count p.base p.mn p.md p.rn p.rd un ud)
  have h2 := Int.lt_floor_add_one (X p.count p.base p.mn p.md p.rn p.rd un ud)
  unfold X at h1 h2 ⊢
  unfold halfW
  rw [abs_le]
  constructor <;> linarith

/-- **saturation**: once the lower edge of the band reaches `max` the answer is exactly `max` — for
    every count, however large (the `+Inf` and `NaN` branches of the float computation included) -/
theorem C18_saturate (p : Params) (un ud : Nat) (D : DomP p) (hud : 0 < ud) (hu : un ≤ ud) (hs : ¬ Stops p)
    (hge : (p.max : ℚ) ≤ prod p.count p.base p.mn p.md - halfW p.base p.rn p.rd) :
    backoff p (fin un ud) = p.max := by
  rw [backoff_of_not_stops p _ hs, delay_eq p.count p.base p.max p.mn p.md p.rn p.rd un ud D hud hu]
  obtain ⟨hj1, hj2⟩ := jit_bounds p.base p.rn p.rd un ud D.base_nn hud hu
  have hX : (p.max:ℚ) ≤ X p.count p.base p.mn p.md p.rn p.rd un ud := by
    unfold X; unfold halfW at hge; linarith
  rw [if_pos hX]

/-- `StandardExponentialBackoff` (multiplier 2, randomization 0.5) with a base of at least 1 ns and no
    limit answers exactly `max` for every count from 64 on -/
theorem C18_standard_saturates (count : Nat) (base max : Int) (un ud : Nat) (hc : 64 ≤ count)
    (hb : 1 ≤ base) (hb' : base < 2 ^ 63) (hm : 0 ≤ max) (hm' : max < 2 ^ 63) (hud : 0 < ud) (hu : un ≤ ud) :
    standard count (-1) base max (fin un ud) = max := by
  unfold standard
  have D : DomP { count := count, limit := -1, base := base, max := max, mn := 2, md := 1, rn := 1, rd := 2 } :=
    ⟨by show 0 < 1; decide, by show 0 < 2; decide, by show 1 ≤ 2; decide, by show 1 ≤ 2 * 2; decide,
      by show 0 ≤ base; omega, hb', hm, hm'⟩
  apply C18_saturate _ un ud D hud hu
  · unfold Stops; simp
  · show (max:ℚ) ≤ prod count base 2 1 - halfW base 1 2
    unfold prod halfW
    have h1 : ((2:ℚ)) ^ 64 ≤ (((2:Nat):ℚ) / ((1:Nat):ℚ)) ^ count := by
      have : (((2:Nat):ℚ) / ((1:Nat):ℚ)) = 2 := by norm_num
      rw [this]; exact pow_le_pow_right₀ (by norm_num) hc
    have hK : (2:ℚ) ^ 64 = 2 * 2 ^ 63 := by norm_num
    have hbq : (1:ℚ) ≤ base := by exact_mod_cast hb
    have hmq : (max:ℚ) < 2 ^ 63 := by exact_mod_cast hm'
    have : ((1:Nat):ℚ) / ((2:Nat):ℚ) / 2 = 1/4 := by norm_num
    rw [this]
    nlinarith

/-- **model interval**: the answer is monotone in the draw; the draws `0` and `1` give the extremes -/
theorem C18_model_interval (p : Params) (un ud un' ud' : Nat) (D : DomP p) (hud : 0 < ud) (hu : un ≤ ud)
    (hud' : 0 < ud') (hu' : un' ≤ ud') (hle : (un:ℚ)/ud ≤ (un':ℚ)/ud') :
    backoff p (fin un ud) ≤ backoff p (fin un' ud') := by
  by_cases hs : Stops p
  · rw [backoff_of_stops p _ hs, backoff_of_stops p _ hs]
  · rw [backoff_of_not_stops p _ hs, backoff_of_not_stops p _ hs,
      delay_eq _ _ _ _ _ _ _ un ud D hud hu, delay_eq _ _ _ _ _ _ _ un' ud' D hud' hu']
    apply clampQ_mono
    unfold X jit
    have hb : (0:ℚ) ≤ p.base := by exact_mod_cast D.base_nn
    have hr : (0:ℚ) ≤ (p.rn:ℚ)/p.rd := div_nonneg (Nat.cast_nonneg _) (Nat.cast_nonneg _)
    have hrb : (0:ℚ) ≤ (p.rn:ℚ)/p.rd * p.base := mul_nonneg hr hb
    nlinarith

/-- every answer of the model is accepted by the judge with tolerance 0 -/
theorem C18_judge_accepts_model (p : Params) (un ud : Nat) (D : DomP p) (hud : 0 < ud) (hu : un ≤ ud) :
    accept 0 p (backoff p (fin un ud)) = true := by
  unfold accept
  rw [decide_eq_true_iff]
  unfold verdict
  by_cases hs : Stops p
  · rw [if_pos ((stop_iff_Stops p).mpr hs), backoff_of_stops p _ hs]; simp
  · have hst : ¬ (stop p = true) := fun h => hs ((stop_iff_Stops p).mp h)
    rw [if_neg hst]
    obtain ⟨h0, hM⟩ := C18_range p un ud D hud hu hs
    have e := backoff_of_not_stops p (fin un ud) hs
    rw [delay_eq _ _ _ _ _ _ _ un ud D hud hu] at e
    obtain ⟨hj1, hj2⟩ := jit_bounds p.base p.rn p.rd un ud D.base_nn hud hu
    have hlowX : prod p.count p.base p.mn p.md - halfW p.base p.rn p.rd ≤ X p.count p.base p.mn p.md p.rn p.rd un ud := by
      unfold X halfW; linarith
    have hhighX : X p.count p.base p.mn p.md p.rn p.rd un ud ≤ prod p.count p.base p.mn p.md + halfW p.base p.rn p.rd := by
      unfold X halfW; linarith
    have hlow : backoff p (fin un ud) < p.max → floorLow p ≤ backoff p (fin un ud) := by
      intro hlt
      rw [floorLow_eq p D.md_pos D.rd_pos, e]
      by_cases hX : (p.max:ℚ) ≤ X p.count p.base p.mn p.md p.rn p.rd un ud
      · rw [e, if_pos hX] at hlt; omega
      · rw [if_neg hX]; exact Int.floor_le_floor hlowX
    have hhigh : backoff p (fin un ud) ≤ floorHigh p := by
      rw [floorHigh_eq p D.md_pos D.rd_pos, e]
      by_cases hX : (p.max:ℚ) ≤ X p.count p.base p.mn p.md p.rn p.rd un ud
      · rw [if_pos hX]; exact Int.le_floor.mpr (le_trans hX hhighX)
      · rw [if_neg hX]; exact Int.floor_le_floor hhighX
    have a1 : ¬ (backoff p (fin un ud) = -1) := by omega
    have a2 : ¬ (backoff p (fin un ud) < 0) := by omega
    have a3 : ¬ (backoff p (fin un ud) > p.max) := by omega
    have a4 : ¬ (backoff p (fin un ud) < p.max ∧ backoff p (fin un ud) < floorLow p - 0) := by
      intro ⟨h1, h2⟩; have := hlow h1; omega
    have a5 : ¬ (floorHigh p + 0 < backoff p (fin un ud)) := by omega
    rw [if_neg a1, if_neg a2, if_neg a3, if_neg a4, if_neg a5]

/-- what an accepted answer satisfies (the judge is the `Bool` form of the contract; `tol` only widens
    the band) -/
theorem C18_accept_sound (tol : Int) (p : Params) (d : Int) (h : accept tol p d = true) :
    (stop p = true → d = -1) ∧
    (stop p = false → d ≠ -1 ∧ 0 ≤ d ∧ d ≤ p.max ∧ (d < p.max → floorLow p - tol ≤ d) ∧ d ≤ floorHigh p + tol) := by
  unfold accept at h
  rw [decide_eq_true_iff] at h
  unfold verdict at h
  constructor
  · intro hs
    rw [if_pos hs] at h
    by_contra hd
    rw [if_neg hd] at h
    exact absurd h (by decide)
  · intro hs
    have hs' : ¬ (stop p = true) := by rw [hs]; decide
    rw [if_neg hs'] at h
    split_ifs at h
    omega

/-! ### non-vacuity -/

-- the closed examples below evaluate `2^1024` (the binary64 overflow threshold) and `2^2000`
set_option exponentiation.threshold 2100

/-- the engine's parameters satisfy the domain hypothesis -/
example : DomP { count := 40, limit := -1, base := 200000000, max := 3600000000000, mn := 2, md := 1, rn := 1, rd := 2 } :=
  ⟨by decide, by decide, by decide, by decide, by decide, by decide, by decide, by decide⟩

/-- 40 consecutive failures with a 200 ms base and a 1 h cap: exactly one hour (the unrepaired code
    answered −9223372036854775808 here, see `MV.Findings.C18`) -/
example : standard 40 (-1) 200000000 3600000000000 (fin 1 3) = 3600000000000 := by decide

/-- the stop signal -/
example : standard 4 3 200000000 3600000000000 (fin 1 3) = -1 := by decide

/-- a value inside the band: count 3, draw 0 -/
example : standard 3 (-1) 200000000 3600000000000 (fin 0 1) = 1550000000 := by decide

/-- zero base delay and an overflowing power (`0 * +Inf = NaN`): still zero -/
example : standard 2000 (-1) 0 3600000000000 (fin 1 3) = 0 := by decide

/-! ## the retry helpers -/

section RetryHelpers
open MV.Model.Retry MV.Lemmas.Retry
open MV.Spec.Retry (firstIdx firstOk resOf condStop)

/-- every loop of `toolkit/retry.go` equals its closed form, for every script -/
theorem C18_retry_refines :
    (∀ count iv s, MV.Model.Retry.retry count iv s = MV.Spec.Retry.retry count iv s) ∧
    (∀ iv s, MV.Model.Retry.retryForever iv s = MV.Spec.Retry.retryForever iv s) ∧
    (∀ s rule, MV.Model.Retry.retryByRule s rule = MV.Spec.Retry.retryByRule s rule) ∧
    (∀ s cond ig mr b m mn md rn rd draw,
      condRetry s cond ig mr b m mn md rn rd draw =
        MV.Spec.Retry.condRetry s cond ig mr (delayOf b m mn md rn rd draw)) :=
  ⟨retry_eq_spec, retryForever_eq_spec, retryByRule_eq_spec,
   fun s cond ig mr _ _ _ _ _ _ _ => condLoop_eq_spec s cond ig mr _⟩

/-- **invocation counts**: `Retry` calls `f` at most `count` times, the back-off variants at most
    `maxRetries + 1` times, and no helper calls `f` again after its first success -/
theorem C18_retry_count :
    (∀ count iv s, (MV.Model.Retry.retry count iv s).calls ≤ count.toNat ∧
        (MV.Model.Retry.retry count iv s).calls ≤ firstOk s + 1) ∧
    (∀ iv s, (MV.Model.Retry.retryForever iv s).calls = firstOk s + 1) ∧
    (∀ s rule, (MV.Model.Retry.retryByRule s rule).calls ≤ firstOk s + 1 ∧
        (MV.Model.Retry.retryByRule s rule).aux ≤ (MV.Model.Retry.retryByRule s rule).calls) ∧
    (∀ s cond ig mr b m mn md rn rd draw,
      (condRetry s cond ig mr b m mn md rn rd draw).calls ≤ mr.toNat + 1 ∧
      (condRetry s cond ig mr b m mn md rn rd draw).calls ≤ firstOk s + 1) := by
  refine ⟨?_, ?_, ?_, ?_⟩
  · intro count iv s
    rw [retry_eq_spec]
    unfold MV.Spec.Retry.retry
    simp only []
    split <;> simp <;> omega
  · intro iv s
    rw [retryForever_eq_spec]; rfl
  · intro s rule
    rw [retryByRule_eq_spec]
    unfold MV.Spec.Retry.retryByRule
    simp only []
    have hle : firstIdx (ruleStop s rule) s.length ≤ firstOk s := by
      by_contra h
      have hlt : firstOk s < firstIdx (ruleStop s rule) s.length := by omega
      have := firstIdx_not _ _ _ hlt
      unfold ruleStop at this
      rw [firstOk_none s] at this
      simp at this
    have e : (fun k => (outcomeAt s k).isNone || decide (rule.getD k 0 ≤ 0)) = ruleStop s rule := rfl
    rw [e]
    split <;> simp <;> omega
  · intro s cond ig mr b m mn md rn rd draw
    rw [C18_retry_refines.2.2.2]
    have h1 := condRetry_calls_le s cond ig mr (delayOf b m mn md rn rd draw)
    have h2 := stopAttempt_le_maxRetries s cond ig mr
    have h3 := stopAttempt_le_firstOk s cond ig mr
    omega

/-- **first success**: a success within the limits ends the helper with `nil` right after that call -/
theorem C18_retry_first_success :
    (∀ count iv s, firstOk s < count.toNat →
        MV.Model.Retry.retry count iv s = ⟨firstOk s + 1, 0, List.replicate (firstOk s) iv, .nil⟩) ∧
    (∀ iv s, MV.Model.Retry.retryForever iv s = ⟨firstOk s + 1, 0, List.replicate (firstOk s) iv, .nil⟩) ∧
    (∀ s rule, (∀ j, j < firstOk s → 0 < rule.getD j 0) →
        (MV.Model.Retry.retryByRule s rule).calls = firstOk s + 1 ∧ (MV.Model.Retry.retryByRule s rule).res = .nil) ∧
    (∀ s cond ig mr b m mn md rn rd draw,
      (∀ j, j ≤ firstOk s → condAt cond j = true) →
      (∀ j e, j < firstOk s → outcomeAt s j = some e → ignored ig e = false) →
      (firstOk s : Int) ≤ mr →
      (condRetry s cond ig mr b m mn md rn rd draw).calls = firstOk s + 1 ∧
      (condRetry s cond ig mr b m mn md rn rd draw).res = .nil) := by
  refine ⟨?_, ?_, ?_, ?_⟩
  · intro count iv s h
    rw [retry_eq_spec]; unfold MV.Spec.Retry.retry; simp only []; rw [if_pos h]
  · intro iv s
    rw [retryForever_eq_spec]; rfl
  · intro s rule hpos
    rw [retryByRule_eq_spec]
    unfold MV.Spec.Retry.retryByRule
    simp only []
    have e : (fun k => (outcomeAt s k).isNone || decide (rule.getD k 0 ≤ 0)) = ruleStop s rule := rfl
    rw [e]
    have hidx : firstIdx (ruleStop s rule) s.length = firstOk s := by
      apply firstIdx_eq_of _ _ _ (firstOk_le s)
      · intro j hj
        obtain ⟨e, he⟩ := firstOk_some s j hj
        have := hpos j hj
        rw [ruleStop_some s rule j e he]
        exact decide_eq_false (by omega)
      · intro _; unfold ruleStop; rw [firstOk_none s]; simp
    rw [hidx, firstOk_none s]
    simp
  · intro s cond ig mr b m mn md rn rd draw hcond hign hmr
    rw [C18_retry_refines.2.2.2]
    unfold MV.Spec.Retry.condRetry
    simp only []
    have hidx : firstIdx (condStop s cond ig mr) s.length = firstOk s := by
      apply firstIdx_eq_of _ _ _ (firstOk_le s)
      · intro j hj
        obtain ⟨e, he⟩ := firstOk_some s j hj
        rw [condStop_some s cond ig mr j e he, hcond j (by omega), hign j e hj he]
        have : ¬ ((j:Int) ≥ mr) := by omega
        simp [this]
      · intro _; exact condStop_of_none s cond ig mr _ (firstOk_none s)
    rw [hidx, firstOk_none s, hcond (firstOk s) (Nat.le_refl _)]
    simp

/-- **ignore list**: the first error that `errors.Is` one of the ignored errors is returned unchanged,
    right after that call: no further invocation, no further sleep -/
theorem C18_retry_ignore (s : List Outcome) (cond : Option (List Bool)) (ig : List Nat) (mr : Int)
    (b m : Int) (mn md rn rd : Nat) (draw : Nat → FVal) (r : Nat) (e : Err)
    (hgo : ∀ j, j < r → condStop s cond ig mr j = false)
    (hc : condAt cond r = true) (ho : outcomeAt s r = some e) (hi : ignored ig e = true) :
    condRetry s cond ig mr b m mn md rn rd draw =
      ⟨r + 1, condCalls cond (r + 1), (List.range r).map (delayOf b m mn md rn rd draw), .err e⟩ := by
  rw [C18_retry_refines.2.2.2, condRetry_at s cond ig mr _ r hgo (by rw [condStop_some s cond ig mr r e ho, hc, hi]; simp)]
  unfold condResult
  rw [hc, ho]
  simp [hi]

/-- **interruption**: when `cond()` answers `false` the helper returns `interrupted` without calling
    `f` again -/
theorem C18_retry_cond (s : List Outcome) (cond : Option (List Bool)) (ig : List Nat) (mr : Int)
    (b m : Int) (mn md rn rd : Nat) (draw : Nat → FVal) (r : Nat)
    (hgo : ∀ j, j < r → condStop s cond ig mr j = false) (hc : condAt cond r = false) :
    condRetry s cond ig mr b m mn md rn rd draw =
      ⟨r, condCalls cond (r + 1), (List.range r).map (delayOf b m mn md rn rd draw), .interrupted⟩ := by
  rw [C18_retry_refines.2.2.2, condRetry_at s cond ig mr _ r hgo (by unfold condStop; rw [hc]; simp)]
  unfold condResult
  rw [if_pos hc]

/-- **last error**: `Retry` without a success within `count > 0` attempts returns the error of its
    last (the `count`-th) invocation; the back-off variant returns an error only as the outcome of its
    last invocation — unchanged iff it is on the ignore list, else wrapped as "max retries reached"
    and only when `maxRetries` retries have been used up -/
theorem C18_retry_last_error :
    (∀ count iv s, ¬ firstOk s < count.toNat → 0 < count.toNat →
        (MV.Model.Retry.retry count iv s).calls = count.toNat ∧
        ∃ e, outcomeAt s (count.toNat - 1) = some e ∧ (MV.Model.Retry.retry count iv s).res = .err e) ∧
    (∀ s cond ig mr b m mn md rn rd draw e,
      (condRetry s cond ig mr b m mn md rn rd draw).res = .maxRetries e →
        outcomeAt s ((condRetry s cond ig mr b m mn md rn rd draw).calls - 1) = some e ∧
        ignored ig e = false ∧
        (((condRetry s cond ig mr b m mn md rn rd draw).calls - 1 : Nat) : Int) ≥ mr) ∧
    (∀ s cond ig mr b m mn md rn rd draw e,
      (condRetry s cond ig mr b m mn md rn rd draw).res = .err e →
        outcomeAt s ((condRetry s cond ig mr b m mn md rn rd draw).calls - 1) = some e ∧ ignored ig e = true) := by
  refine ⟨?_, ?_, ?_⟩
  · intro count iv s h hpos
    rw [retry_eq_spec]; unfold MV.Spec.Retry.retry; simp only []; rw [if_neg h]
    obtain ⟨e, he⟩ := firstOk_some s (count.toNat - 1) (by omega)
    refine ⟨rfl, e, he, ?_⟩
    have : ¬ (count.toNat = 0) := by omega
    simp [this, he, resOf]
  · intro s cond ig mr b m mn md rn rd draw e
    rw [C18_retry_refines.2.2.2]
    have hstop := stop_at_first s (condStop s cond ig mr) (condStop_of_none s cond ig mr)
    unfold MV.Spec.Retry.condRetry
    simp only []
    generalize firstIdx (condStop s cond ig mr) s.length = r at hstop
    split
    · intro h; simp at h
    · rename_i hc
      have hct : condAt cond r = true := by simpa using hc
      cases ho : outcomeAt s r with
      | none => intro h; simp at h
      | some e' =>
        simp only []
        by_cases hi : ignored ig e' = true
        · rw [if_pos hi]; intro h; simp at h
        · rw [if_neg hi]
          intro h
          have he : e' = e := by simpa using h
          subst he
          rw [condStop_some s cond ig mr r e' ho, hct] at hstop
          have : ignored ig e' = false := by simpa using hi
          rw [this] at hstop
          have hmr : (r:Int) ≥ mr := by simpa using hstop
          simp [ho, this, hmr]
  · intro s cond ig mr b m mn md rn rd draw e
    rw [C18_retry_refines.2.2.2]
    unfold MV.Spec.Retry.condRetry
    simp only []
    generalize firstIdx (condStop s cond ig mr) s.length = r
    split
    · intro h; simp at h
    · cases ho : outcomeAt s r with
      | none => intro h; simp at h
      | some e' =>
        simp only []
        by_cases hi : ignored ig e' = true
        · rw [if_pos hi]
          intro h
          have he : e' = e := by simpa using h
          subst he
          simp [ho, hi]
        · rw [if_neg hi]; intro h; simp at h

/-- the jitter draws are values of `rand.Float64()`: rationals in `[0,1]` -/
def DrawOK (draw : Nat → FVal) : Prop := ∀ k, ∃ un ud : Nat, draw k = fin un ud ∧ 0 < ud ∧ un ≤ ud

/-- **sleeps**: the back-off variant never sleeps a negative or wrapped-around time — every argument of
    `time.Sleep` lies in `[0, maxDelay]`, for every number of retries; `RetryByRule` only sleeps positive
    durations; `Retry` / `RetryForever` sleep exactly the given interval -/
theorem C18_retry_sleeps_nonneg :
    (∀ s cond ig mr b m mn md rn rd draw, Dom b m mn md rn rd → DrawOK draw →
        ∀ d ∈ (condRetry s cond ig mr b m mn md rn rd draw).sleeps, 0 ≤ d ∧ d ≤ m) ∧
    (∀ s rule, ∀ d ∈ (MV.Model.Retry.retryByRule s rule).sleeps, 0 < d) ∧
    (∀ count iv s, ∀ d ∈ (MV.Model.Retry.retry count iv s).sleeps, d = iv) ∧
    (∀ iv s, ∀ d ∈ (MV.Model.Retry.retryForever iv s).sleeps, d = iv) := by
  refine ⟨?_, ?_, ?_, ?_⟩
  · intro s cond ig mr b m mn md rn rd draw D hdraw d hd
    rw [C18_retry_refines.2.2.2] at hd
    have hmem : ∃ k, d = delayOf b m mn md rn rd draw k := by
      unfold MV.Spec.Retry.condRetry at hd
      simp only [] at hd
      have key : d ∈ (List.range (firstIdx (condStop s cond ig mr) s.length)).map (delayOf b m mn md rn rd draw) := by
        split at hd
        · exact hd
        · split at hd
          · exact hd
          · split at hd <;> exact hd
      obtain ⟨k, _, hk⟩ := List.mem_map.mp key
      exact ⟨k, hk.symm⟩
    obtain ⟨k, rfl⟩ := hmem
    obtain ⟨un, ud, hu, hud, hle⟩ := hdraw k
    unfold delayOf
    rw [hu]
    exact delay_range k b m mn md rn rd un ud D hud hle
  · intro s rule d hd
    rw [retryByRule_eq_spec] at hd
    unfold MV.Spec.Retry.retryByRule at hd
    simp only [] at hd
    have e : (fun k => (outcomeAt s k).isNone || decide (rule.getD k 0 ≤ 0)) = ruleStop s rule := rfl
    rw [e] at hd
    have key : d ∈ (List.range (firstIdx (ruleStop s rule) s.length)).map (fun k => rule.getD k 0) := by
      split at hd <;> exact hd
    obtain ⟨k, hk, rfl⟩ := List.mem_map.mp key
    rw [List.mem_range] at hk
    have := firstIdx_not _ _ k hk
    cases ho : outcomeAt s k with
    | none => unfold ruleStop at this; rw [ho] at this; simp at this
    | some e' =>
      rw [ruleStop_some s rule k e' ho] at this
      have h2 : ¬ (rule.getD k 0 ≤ 0) := of_decide_eq_false this
      omega
  · intro count iv s d hd
    rw [retry_eq_spec] at hd
    unfold MV.Spec.Retry.retry at hd
    simp only [] at hd
    split at hd <;> exact (List.mem_replicate.mp hd).2
  · intro iv s d hd
    rw [retryForever_eq_spec] at hd
    exact (List.mem_replicate.mp hd).2

/-! ### non-vacuity -/

/-- three failures then success, `count = 5`: four calls, three sleeps, `nil` -/
example : MV.Model.Retry.retry 5 7 [some [1], some [2], some [1], none] = ⟨4, 0, [7, 7, 7], .nil⟩ := by decide

/-- `count = 2`: the error of the second call -/
example : MV.Model.Retry.retry 2 7 [some [1], some [2], some [1], none] = ⟨2, 0, [7, 7], .err [2]⟩ := by decide

/-- ignored error `3` (wrapped inside `4`) after one retry -/
example : (condLoop [some [1], some [4, 3], some [1]] none [3] 5 (fun _ => 9) 4 0 []) = ⟨2, 0, [9], .err [4, 3]⟩ := by
  decide

/-- `maxRetries = 1`: two calls, then "max retries reached" -/
example : (condLoop [some [1], some [2], some [1]] none [] 1 (fun _ => 9) 4 0 []) = ⟨2, 0, [9], .maxRetries [2]⟩ := by
  decide

/-- interruption before the second call -/
example : (condLoop [some [1], some [2]] (some [true, false]) [] 5 (fun _ => 9) 3 0 []) = ⟨1, 2, [9], .interrupted⟩ := by
  decide

/-- the draws hypothesis is satisfiable -/
example : DrawOK (fun _ => fin 1 3) := fun _ => ⟨1, 3, rfl, by decide, by decide⟩

end RetryHelpers

end MV.Props.C18
