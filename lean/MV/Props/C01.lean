import MV.Lemmas.Mailbox
/-!
# C01 — an actor handles at most one message at a time

Model: `MV.Model.Mailbox` (the program of both shipped lock-free mailboxes, one atomic operation per
step, handlers opaque `enter … exit` pairs that may take arbitrarily long and may panic, the
dispatcher = "run the submitted function exactly once, at any later time").  Quantifier: **every
schedule** `sched : List (Ev PC)` — any interleaving of any number of user/system senders,
suspenders and resumers that arrive at any moment (`Ev.spawn`) with the runner threads the
dispatcher starts.

Outside the theorem (named assumption, see DESIGN): the model is sequentially consistent; "everything
one invocation wrote is visible to the next" is the Go memory model's guarantee for the
`Store(idle)` → `CAS(idle→running)` → `go f()` chain and is not provable here.
-/
namespace MV.Props.C01
open MV.Model.Conc MV.Model.Mailbox MV.Spec.Mailbox

/-- the gate: exactly one runner owns the mailbox while its status is `running`, none while `idle` -/
theorem C01_gate (sched : List (Ev PC)) :
    (exec sys init sched).ths.countP owns = if (exec sys init sched).g.running then 1 else 0 :=
  (all_reachable sched).1

/-- at most one runner thread is ever between dispatch and its `Store(idle)` -/
theorem C01_one_runner (sched : List (Ev PC)) : (exec sys init sched).ths.countP owns ≤ 1 := by
  have := C01_gate sched; split at this <;> omega

/-- at most one thread is inside the receive handler (user message, system message — which is how
lifecycle messages, timer callbacks and local functions arrive — alike) -/
theorem C01_at_most_one_in_handler (sched : List (Ev PC)) :
    (exec sys init sched).ths.countP inHandler ≤ 1 := by
  have h1 := C01_one_runner sched
  have h2 := owns_split (exec sys init sched).ths
  omega

/-- **no overlap**: in the global event trace of every execution an invocation begins only when none
is open, ends only the open one, and the accident handler (which runs inside the runner's recover)
runs only when none is open -/
theorem C01_noOverlap (sched : List (Ev PC)) :
    noOverlap (exec sys init sched).g.trace = true := by
  obtain ⟨o, hb, _, _⟩ := (all_reachable sched).2.2.2.1
  simp [noOverlap, hb]

/-- the same while the mailbox is suspended/resumed concurrently: `susp`/`res` threads are ordinary
members of the schedule; stated separately for readability -/
theorem C01_noOverlap_with_suspend_resume (pre post : List (Ev PC)) :
    noOverlap (exec sys init (pre ++ [.spawn .susp, .spawn .res] ++ post)).g.trace = true :=
  C01_noOverlap _

/-- non-vacuity: two user senders race, the loser of the CAS leaves its message to the running
runner; both messages are handled, one after the other -/
example :
    (exec sys init [.spawn (.uPush ⟨1, false⟩), .spawn (.uPush ⟨2, true⟩), .run 0, .run 0, .run 0,
      .run 2, .run 2, .run 2, .run 2, .run 2, .run 1, .run 1, .run 1, .run 2, .run 2,
      .run 2, .run 2, .run 2, .run 2, .run 2, .run 2]).g.trace =
      [.pop false ⟨1, false⟩, .enter false ⟨1, false⟩, .exit false ⟨1, false⟩,
       .pop false ⟨2, true⟩, .enter false ⟨2, true⟩, .exit false ⟨2, true⟩, .accident] := by
  decide

end MV.Props.C01
