import MV.Lemmas.Chrono
/-!
# C19 — calendar and period helpers agree with the civil calendar for every instant

Statements are about `MV.Model.Chrono` (the transcription of `toolkit/chrono/moment.go` and `period.go`
that the oracle executes against the Go code) for **every** instant (`Int` nanoseconds since the Unix
epoch) and **every** fixed-offset zone (`Int` seconds east).  Sections:

1. the reference calendar (`MV.Model.Civil`): inverse conversions, validity, the elementary calendar
   rules, 146097-day periodicity;
2. start / end of day; 3. weekday of the week and relative week start; 4. next moment;
5. same day / week / month; 6. periods (normalised, window contains anchor, overlap);
7. the `Bool` judges of `MV.Spec.Chrono` accept the model in every constant zone (the same judges decide
   the implementation's answers in zones with daylight-saving shifts, where nothing is proved);
8. every helper commutes with a shift by one 400-year cycle (so the full-cycle differential sweep
   exercises every calendar situation); non-vacuity examples.

Zones with transitions are outside these theorems (`…` holds there only as far as the judged
differential runs show; two deviations are recorded in `MV.Findings.C19`).
-/
namespace MV.Props.C19
open MV.Model MV.Model.Civil MV.Model.Chrono MV.Spec.Chrono

/-! ## 1. The reference calendar -/

/-- `civilFromDays` is a right inverse of `daysFromCivil`: every day number is the day number of its date -/
theorem C19_civil_roundtrip_days (z : Int) :
    daysFromCivil (civilFromDays z).1 (civilFromDays z).2.1 (civilFromDays z).2.2 = z :=
  daysFromCivil_civilFromDays z

/-- … and a left inverse on the dates that exist -/
theorem C19_civil_roundtrip_date (y m d : Int) (h : validDate y m d = true) :
    civilFromDays (daysFromCivil y m d) = (y, m, d) := by
  simp only [validDate, Bool.and_eq_true, decide_eq_true_eq] at h
  exact civilFromDays_daysFromCivil y m d h.1.1.1 h.1.1.2 h.1.2 h.2

/-- the date of every day number exists (month 1..12, day 1..length of that month) -/
theorem C19_civil_valid (z : Int) :
    validDate (civilFromDays z).1 (civilFromDays z).2.1 (civilFromDays z).2.2 = true := by
  obtain ⟨a, b, c, d⟩ := civilFromDays_valid z
  simp only [validDate, Bool.and_eq_true, decide_eq_true_eq]
  exact ⟨⟨⟨a, b⟩, c⟩, d⟩

/-- the calendar is the one defined by the elementary rules: 1970-01-01 is day 0 (a Thursday), the
    next day is one more, a month has `daysInMonth` days (leap-year rule `isLeap`), December is
    followed by January of the next year -/
theorem C19_civil_calendar_rules :
    daysFromCivil 1970 1 1 = 0 ∧ weekdayOfDays 0 = 4 ∧
    (∀ y m d k, daysFromCivil y m (d + k) = daysFromCivil y m d + k) ∧
    (∀ y m, 1 ≤ m → m ≤ 11 → daysFromCivil y (m + 1) 1 = daysFromCivil y m 1 + daysInMonth y m) ∧
    (∀ y, daysFromCivil (y + 1) 1 1 = daysFromCivil y 12 1 + 31) ∧
    (∀ z, weekdayOfDays (z + 1) = (weekdayOfDays z + 1) % 7 ∧ 0 ≤ weekdayOfDays z ∧ weekdayOfDays z ≤ 6) := by
  refine ⟨by decide, by decide, daysFromCivil_day, daysFromCivil_month_step, daysFromCivil_year_step, ?_⟩
  intro z; unfold weekdayOfDays; omega

/-- the calendar repeats every 146097 days = 400 years = 20871 weeks: dates shift by 400 years,
    weekdays do not change (so a sweep over one cycle visits every (month, day, weekday, leap-ness)) -/
theorem C19_civil_periodic_146097 (z : Int) :
    civilFromDays (z + 146097) = ((civilFromDays z).1 + 400, (civilFromDays z).2.1, (civilFromDays z).2.2) ∧
    weekdayOfDays (z + 146097) = weekdayOfDays z ∧
    (∀ y m d, daysFromCivil (y + 400) m d = daysFromCivil y m d + 146097) ∧
    (∀ y, isLeap (y + 400) = isLeap y) := by
  refine ⟨civilFromDays_add146097 z, weekdayOfDays_add146097 z, daysFromCivil_add400, ?_⟩
  intro y
  have h := isLeap_iff y
  have h' := isLeap_iff (y + 400)
  cases h1 : isLeap y <;> cases h2 : isLeap (y + 400) <;> simp_all <;> omega

/-- `GetMonthDays` is the length of the month of the instant -/
theorem C19_monthDays (t : Time) : getMonthDays t = daysInMonth t.year t.month := getMonthDays_eq t

/-! ## 2. Start / end of day -/

/-- `GetStartOfDay t` is the closed-form local midnight (model = functional spec) -/
theorem C19_startOfDay_refines (t : Time) :
    getStartOfDay t = ⟨Spec.Chrono.startOfDay t.off t.ns, t.off⟩ := getStartOfDay_eq t

theorem C19_endOfDay_refines (t : Time) :
    getEndOfDay t = ⟨Spec.Chrono.endOfDay t.off t.ns, t.off⟩ := getEndOfDay_eq t

/-- start of day: not after `t`, less than a day before it, on the same local date, wall clock 00:00:00.0,
    in the location of `t` -/
theorem C19_startOfDay (t : Time) :
    let r := getStartOfDay t
    r.ns ≤ t.ns ∧ t.ns < r.ns + nsPerDay ∧ r.off = t.off ∧
    localDays t.off r.ns = localDays t.off t.ns ∧
    r.hour = 0 ∧ r.minute = 0 ∧ r.second = 0 ∧ r.nanosecond = 0 := by
  intro r
  have hr : r = ⟨Spec.Chrono.startOfDay t.off t.ns, t.off⟩ := getStartOfDay_eq t
  have hrange := nsOfDay_range t.off t.ns
  have hm := localDays_midnight t.off (localDays t.off t.ns) 0 (by omega) (by unfold nsPerDay; omega)
  rw [Int.add_zero, ← startOfDay_eq] at hm
  rw [hr]
  simp only [Time.hour, Time.minute, Time.second, Time.nanosecond, Civil.hour, Civil.minute, Civil.second,
    Civil.nanosecond, hm.2]
  refine ⟨?_, ?_, trivial, hm.1, by decide, by decide, by decide, by decide⟩
  · unfold Spec.Chrono.startOfDay; omega
  · unfold Spec.Chrono.startOfDay; omega

/-- end of day: same local date, wall clock 23:59:59.0, less than a day after `t`'s midnight, never before
    `t` by a second or more -/
theorem C19_endOfDay (t : Time) :
    let r := getEndOfDay t
    r.off = t.off ∧ localDays t.off r.ns = localDays t.off t.ns ∧
    r.hour = 23 ∧ r.minute = 59 ∧ r.second = 59 ∧ r.nanosecond = 0 ∧
    r.ns = (getStartOfDay t).ns + 86399 * nsPerSec ∧ t.ns < r.ns + nsPerSec := by
  intro r
  have hr : r = ⟨Spec.Chrono.endOfDay t.off t.ns, t.off⟩ := getEndOfDay_eq t
  have hrange := nsOfDay_range t.off t.ns
  have hm := localDays_midnight t.off (localDays t.off t.ns) (86399 * nsPerSec) (by unfold nsPerSec; omega)
    (by unfold nsPerDay nsPerSec; omega)
  rw [← startOfDay_eq] at hm
  rw [hr, getStartOfDay_eq]
  simp only [Time.hour, Time.minute, Time.second, Time.nanosecond, Civil.hour, Civil.minute, Civil.second,
    Civil.nanosecond, Spec.Chrono.endOfDay, hm.2]
  refine ⟨trivial, hm.1, by decide, by decide, by decide, by decide, trivial, ?_⟩
  unfold Spec.Chrono.startOfDay nsPerDay nsPerSec at *; omega

/-- relative start / end of day: the boundary of the local date `offsetDays` days away -/
theorem C19_relativeDay (t : Time) (k : Int) :
    getRelativeStartOfDay t k = ⟨(getStartOfDay t).ns + k * nsPerDay, t.off⟩ ∧
    getRelativeEndOfDay t k = ⟨(getEndOfDay t).ns + k * nsPerDay, t.off⟩ := by
  rw [getRelativeStartOfDay_eq, getRelativeEndOfDay_eq, getStartOfDay_eq, getEndOfDay_eq]
  exact ⟨rfl, rfl⟩

/-! ## 3. Weekday of the week, relative week start -/

theorem C19_startOfWeek_refines (t : Time) (wd : Int) :
    getStartOfWeek t wd = ⟨weekdayStart t.off t.ns wd, t.off⟩ := getStartOfWeek_eq t wd

/-- `GetStartOfWeek t wd`: 00:00:00 on the requested weekday, inside the Monday-based week that contains
    `t`'s local date (Sunday is its last day), hence less than a week away on either side -/
theorem C19_startOfWeek (t : Time) (wd : Int) (h0 : 0 ≤ wd) (h1 : wd ≤ 6) :
    let r := getStartOfWeek t wd
    r.off = t.off ∧ r.weekday = wd ∧ nsOfDay t.off r.ns = 0 ∧
    mondayOf (localDays t.off r.ns) = mondayOf (localDays t.off t.ns) ∧
    r.ns < t.ns + nsPerWeek ∧ t.ns < r.ns + nsPerWeek := by
  intro r
  have hr : r = ⟨weekdayStart t.off t.ns wd, t.off⟩ := getStartOfWeek_eq t wd
  obtain ⟨hl, hn⟩ := weekdayStart_local t.off t.ns wd
  have hs := local_split t.off t.ns
  have hrange := nsOfDay_range t.off t.ns
  have hs' := local_split t.off (weekdayStart t.off t.ns wd)
  rw [hl, hn] at hs'
  rw [hr]
  simp only [Time.weekday, Civil.weekday, hl, hn]
  generalize localDays t.off t.ns = z at *
  generalize nsOfDay t.off t.ns = x at *
  unfold mondayOf isoIndex weekdayOfDays nsPerWeek nsPerDay nsPerSec at *
  refine ⟨trivial, ?_, trivial, ?_, ?_, ?_⟩ <;> split at hs' <;> (try split) <;> omega

/-- `GetEndOfWeek t wd` is 23:59:59 of that same day -/
theorem C19_endOfWeek (t : Time) (wd : Int) :
    getEndOfWeek t wd = ⟨(getStartOfWeek t wd).ns + 86399 * nsPerSec, t.off⟩ := by
  rw [getEndOfWeek_eq, getStartOfWeek_eq]

theorem C19_relStartOfWeek_refines (t : Time) (wd k : Int) (h0 : 0 ≤ wd) (h1 : wd ≤ 6) :
    getRelativeStartOfWeek t wd k = ⟨relWeekStart t.off t.ns wd k, t.off⟩ :=
  getRelativeStartOfWeek_eq t wd k h0 h1

/-- `GetRelativeStartOfWeek now wd 0` is the latest `wd`-day 00:00:00 that is not after `now`: it is a
    `wd`-day at midnight, not after `now`, less than a week before it, and every local midnight of a
    `wd`-day that is not after `now` is not after it -/
theorem C19_relStartOfWeek_latest_not_after (t : Time) (wd : Int) (h0 : 0 ≤ wd) (h1 : wd ≤ 6) :
    let r := getRelativeStartOfWeek t wd 0
    r.off = t.off ∧ r.weekday = wd ∧ nsOfDay t.off r.ns = 0 ∧ r.ns ≤ t.ns ∧ t.ns < r.ns + nsPerWeek ∧
    ∀ x : Int, nsOfDay t.off x = 0 → weekdayOfDays (localDays t.off x) = wd → x ≤ t.ns → x ≤ r.ns := by
  intro r
  have hr : r = ⟨relWeekStart t.off t.ns wd 0, t.off⟩ := getRelativeStartOfWeek_eq t wd 0 h0 h1
  obtain ⟨hl, hn⟩ := relWeekStart_local t.off t.ns wd 0
  have hs := local_split t.off t.ns
  have hrange := nsOfDay_range t.off t.ns
  have hs' := local_split t.off (relWeekStart t.off t.ns wd 0)
  rw [hl, hn] at hs'
  rw [hr]
  simp only [Time.weekday, Civil.weekday, hl, hn]
  refine ⟨trivial, ?_, trivial, ?_, ?_, ?_⟩
  · unfold weekdayOfDays; omega
  · unfold nsPerDay nsPerSec at *; omega
  · unfold nsPerWeek nsPerDay nsPerSec at *; omega
  · intro x hx0 hxw hxt
    have hsx := local_split t.off x
    rw [hx0] at hsx
    generalize localDays t.off x = zx at *
    generalize localDays t.off t.ns = z at *
    unfold weekdayOfDays nsPerDay nsPerSec at *
    omega

/-- … and `offsetWeeks` moves it by whole weeks -/
theorem C19_relStartOfWeek_shift (t : Time) (wd k : Int) (h0 : 0 ≤ wd) (h1 : wd ≤ 6) :
    getRelativeStartOfWeek t wd k = ⟨(getRelativeStartOfWeek t wd 0).ns + k * nsPerWeek, t.off⟩ := by
  rw [getRelativeStartOfWeek_eq t wd k h0 h1, getRelativeStartOfWeek_eq t wd 0 h0 h1]
  congr 1
  unfold relWeekStart midnightOf nsPerWeek nsPerDay; dsimp only; omega

/-- relative end of week / time of week: 23:59:59, resp. `now`'s own wall-clock time, on that day -/
theorem C19_relEndOfWeek_timeOfWeek (t : Time) (wd k : Int) (h0 : 0 ≤ wd) (h1 : wd ≤ 6) :
    getRelativeEndOfWeek t wd k = ⟨(getRelativeStartOfWeek t wd k).ns + 86399 * nsPerSec, t.off⟩ ∧
    getRelativeTimeOfWeek t wd k = ⟨(getRelativeStartOfWeek t wd k).ns + nsOfDay t.off t.ns, t.off⟩ := by
  rw [getRelativeEndOfWeek_eq t wd k h0 h1, getRelativeTimeOfWeek_eq t wd k h0 h1,
    getRelativeStartOfWeek_eq t wd k h0 h1]
  exact ⟨rfl, rfl⟩


/-! ## 4. Next moment -/

theorem C19_nextMoment_refines (now : Time) (h mi s : Int) :
    getNextMoment now.off now h mi s = ⟨nextMoment now.off now.ns h mi s, now.off⟩ :=
  getNextMoment_eq now h mi s

/-- `GetNextMoment now h:mi:s` (with `now` expressed in `time.Local`) is the earliest instant strictly
    after `now` whose wall clock shows `h:mi:s.000000000`: it is in the future, at most a day ahead,
    shows that time, and no instant in between does -/
theorem C19_nextMoment_earliest_future (now : Time) (h mi s : Int) (hv : validHMS h mi s = true) :
    let r := getNextMoment now.off now h mi s
    r.off = now.off ∧ now.ns < r.ns ∧ r.ns ≤ now.ns + nsPerDay ∧
    nsOfDay now.off r.ns = (h * 3600 + mi * 60 + s) * nsPerSec ∧
    ∀ x : Int, now.ns < x → nsOfDay now.off x = (h * 3600 + mi * 60 + s) * nsPerSec → r.ns ≤ x := by
  intro r
  have hr : r = ⟨nextMoment now.off now.ns h mi s, now.off⟩ := getNextMoment_eq now h mi s
  have hv' := hv
  simp only [validHMS, Bool.and_eq_true, decide_eq_true_eq] at hv'
  have hs := local_split now.off now.ns
  have hrange := nsOfDay_range now.off now.ns
  have h1 := nsOfDay_of_hms now.off (localDays now.off now.ns) h mi s hv
  have h2 := nsOfDay_of_hms now.off (localDays now.off now.ns + 1) h mi s hv
  rw [hr]
  unfold nextMoment
  rw [startOfDay_eq]
  dsimp only
  generalize hw : (h * 3600 + mi * 60 + s) * nsPerSec = w at *
  have hw0 : 0 ≤ w := by rw [← hw]; unfold nsPerSec; omega
  have hw1 : w < nsPerDay := by rw [← hw]; unfold nsPerDay nsPerSec; omega
  generalize localDays now.off now.ns = z at *
  by_cases hc : z * nsPerDay - now.off * nsPerSec + w > now.ns
  · rw [if_pos hc]
    refine ⟨rfl, hc, ?_, h1.1, ?_⟩
    · unfold nsPerDay nsPerSec at *; omega
    · intro x hx hxw
      have hsx := local_split now.off x
      rw [hxw] at hsx
      generalize localDays now.off x = zx at *
      unfold nsPerDay nsPerSec at *; omega
  · rw [if_neg hc]
    have e : z * nsPerDay - now.off * nsPerSec + w + nsPerDay = (z + 1) * nsPerDay - now.off * nsPerSec + w := by
      unfold nsPerDay; omega
    rw [e]
    refine ⟨rfl, ?_, ?_, h2.1, ?_⟩
    · unfold nsPerDay nsPerSec at *; omega
    · unfold nsPerDay nsPerSec at *; omega
    · intro x hx hxw
      have hsx := local_split now.off x
      rw [hxw] at hsx
      generalize localDays now.off x = zx at *
      unfold nsPerDay nsPerSec at *; omega

/-- `IsMomentPassed` / `IsMomentFuture`: strictly after today's moment, resp. not -/
theorem C19_momentPassed (now : Time) (h mi s : Int) :
    (isMomentPassed now.off now h mi s = true ↔ nsOfDay now.off now.ns > (h * 3600 + mi * 60 + s) * nsPerSec) ∧
    isMomentFuture now.off now h mi s = !isMomentPassed now.off now h mi s := by
  refine ⟨?_, rfl⟩
  unfold isMomentPassed mkDate Time.year Time.month Time.day Time.after
  dsimp only
  rw [date_of_fields0]
  have hs := local_split now.off now.ns
  simp only [decide_eq_true_eq]
  unfold secPerDay nsPerDay nsPerSec at *
  omega

/-! ## 5. Same day / week / month -/

/-- the three predicates are kernels of functions (start of day, Monday of the week, (year, month)),
    hence equivalence relations — for times in any zones -/
theorem C19_same_equivalence :
    (∀ a, isSameDay a a = true) ∧ (∀ a b, isSameDay a b = isSameDay b a) ∧
    (∀ a b c, isSameDay a b = true → isSameDay b c = true → isSameDay a c = true) ∧
    (∀ a, isSameWeek a a = true) ∧ (∀ a b, isSameWeek a b = isSameWeek b a) ∧
    (∀ a b c, isSameWeek a b = true → isSameWeek b c = true → isSameWeek a c = true) ∧
    (∀ a, isSameMonth a a = true) ∧ (∀ a b, isSameMonth a b = isSameMonth b a) ∧
    (∀ a b c, isSameMonth a b = true → isSameMonth b c = true → isSameMonth a c = true) := by
  simp only [isSameDay, isSameWeek, isSameMonth, Time.equal, decide_eq_true_eq, Bool.and_eq_true, beq_iff_eq]
  refine ⟨fun _ => trivial, ?_, ?_, fun _ => trivial, ?_, ?_, fun _ => ⟨trivial, trivial⟩, ?_, ?_⟩
  · intro a b; exact decide_eq_decide.mpr ⟨Eq.symm, Eq.symm⟩
  · intro a b c h1 h2; exact h1.trans h2
  · intro a b; exact decide_eq_decide.mpr ⟨Eq.symm, Eq.symm⟩
  · intro a b c h1 h2; exact h1.trans h2
  · intro a b
    cases h1 : (a.month == b.month) <;> cases h2 : (a.year == b.year) <;>
      cases h3 : (b.month == a.month) <;> cases h4 : (b.year == a.year) <;> simp_all
  · intro a b c h1 h2; exact ⟨h1.1.trans h2.1, h1.2.trans h2.2⟩

/-- consistency with the boundaries, for two times of one zone: same day ⇔ same local date ⇔ the second
    lies in `[start of day, start of day + 24 h)` of the first -/
theorem C19_sameDay_boundaries (off a b : Int) :
    (isSameDay ⟨a, off⟩ ⟨b, off⟩ = true ↔ localDays off a = localDays off b) ∧
    (isSameDay ⟨a, off⟩ ⟨b, off⟩ = true ↔
      (getStartOfDay ⟨a, off⟩).ns ≤ b ∧ b < (getStartOfDay ⟨a, off⟩).ns + nsPerDay) := by
  simp only [isSameDay, Time.equal, getStartOfDay_eq, decide_eq_true_eq]
  rw [startOfDay_eq, startOfDay_eq]
  have hb := local_split off b
  have hrb := nsOfDay_range off b
  generalize localDays off a = za at *
  generalize localDays off b = zb at *
  unfold nsPerDay nsPerSec at *
  constructor <;> constructor <;> intro h <;> omega

/-- same week ⇔ same Monday ⇔ the second lies in `[Monday 00:00, Monday 00:00 + 7 days)` of the first -/
theorem C19_sameWeek_boundaries (off a b : Int) :
    (isSameWeek ⟨a, off⟩ ⟨b, off⟩ = true ↔ mondayOf (localDays off a) = mondayOf (localDays off b)) ∧
    (isSameWeek ⟨a, off⟩ ⟨b, off⟩ = true ↔
      (getStartOfWeek ⟨a, off⟩ 1).ns ≤ b ∧ b < (getStartOfWeek ⟨a, off⟩ 1).ns + nsPerWeek) := by
  simp only [isSameWeek, Time.equal, getStartOfWeek_eq, decide_eq_true_eq]
  unfold weekdayStart midnightOf
  have hb := local_split off b
  have hrb := nsOfDay_range off b
  generalize localDays off a = za at *
  generalize localDays off b = zb at *
  unfold mondayOf isoIndex nsPerWeek nsPerDay nsPerSec at *
  simp only [show ¬ ((1 : Int) = 0) by decide, if_false]
  constructor <;> constructor <;> intro h <;> omega

/-- same month ⇔ equal (year, month) ⇔ equal first-of-month day number; a same day is in the same week,
    month and year -/
theorem C19_sameMonth_boundaries (off a b : Int) :
    (isSameMonth ⟨a, off⟩ ⟨b, off⟩ = true ↔
      daysFromCivil (year off a) (month off a) 1 = daysFromCivil (year off b) (month off b) 1) ∧
    (isSameDay ⟨a, off⟩ ⟨b, off⟩ = true →
      isSameWeek ⟨a, off⟩ ⟨b, off⟩ = true ∧ isSameMonth ⟨a, off⟩ ⟨b, off⟩ = true ∧ isSameYear ⟨a, off⟩ ⟨b, off⟩ = true) := by
  constructor
  · simp only [isSameMonth, Time.month, Time.year, Bool.and_eq_true, beq_iff_eq]
    constructor
    · intro h; rw [h.1, h.2]
    · intro h
      obtain ⟨a1, a2, _, _⟩ := civilFromDays_valid (localDays off a)
      obtain ⟨b1, b2, _, _⟩ := civilFromDays_valid (localDays off b)
      have da := daysInMonth_eq (year off a) (month off a) a1 a2
      have db := daysInMonth_eq (year off b) (month off b) b1 b2
      have := daysFromCivil_inj (year off a) (month off a) 1 (year off b) (month off b) 1 a1 a2 (by omega)
        (by unfold year month at da ⊢; omega) b1 b2 (by omega) (by unfold year month at db ⊢; omega) h
      exact ⟨this.2.1, this.1⟩
  · intro h
    have hd := ((C19_sameDay_boundaries off a b).1).mp h
    refine ⟨((C19_sameWeek_boundaries off a b).1).mpr (by rw [hd]), ?_, ?_⟩
    · simp only [isSameMonth, Time.month, Time.year, Civil.month, Civil.year, hd, Bool.and_eq_true, beq_iff_eq]
      exact ⟨trivial, trivial⟩
    · simp only [isSameYear, Time.year, Civil.year, hd, beq_iff_eq]


/-! ## 6. Periods -/

/-- every constructor returns a period that starts no later than it ends -/
theorem C19_period_normalised :
    (∀ s e, (newPeriod s e).1.ns ≤ (newPeriod s e).2.ns) ∧
    (∀ t size, (newPeriodWindow t size).1.ns ≤ (newPeriodWindow t size).2.ns) ∧
    (∀ t, (newPeriodWindowWeek t).1.ns ≤ (newPeriodWindowWeek t).2.ns) ∧
    (∀ t d, (newPeriodWithDayZero t d).1.ns ≤ (newPeriodWithDayZero t d).2.ns) ∧
    (∀ t d, (newPeriodWithDay t d).1.ns ≤ (newPeriodWithDay t d).2.ns) ∧
    (∀ u t n, (newPeriodWithUnit u t n).1.ns ≤ (newPeriodWithUnit u t n).2.ns) := by
  have np : ∀ s e, (newPeriod s e).1.ns ≤ (newPeriod s e).2.ns := by
    intro s e
    unfold newPeriod Time.after
    by_cases h : s.ns > e.ns
    · simp only [h, decide_true, if_true]; omega
    · simp only [h, decide_false]; simp; omega
  refine ⟨np, fun t size => np _ _, ?_, fun t d => np _ _, fun t d => np _ _, fun u t n => np _ _⟩
  intro t
  unfold newPeriodWindowWeek
  simp only [Time.addDate]
  rw [addDate_days]
  unfold nsPerDay; omega

/-- `NewPeriod` keeps both endpoints (it only orders them) -/
theorem C19_newPeriod_endpoints (s e : Time) :
    (newPeriod s e = (s, e) ∧ s.ns ≤ e.ns) ∨ (newPeriod s e = (e, s) ∧ e.ns < s.ns) := by
  unfold newPeriod Time.after
  by_cases h : s.ns > e.ns
  · right; simp [h]
  · left; simp [h]; omega

/-- a window of positive size is the half-open cell `[k·size, (k+1)·size)` (counted from Go's zero time)
    that contains its anchor -/
theorem C19_window_contains_anchor (t : Time) (size : Int) (h : 0 < size) :
    let p := newPeriodWindow t size
    p.1.ns ≤ t.ns ∧ t.ns < p.2.ns ∧ p.2.ns - p.1.ns = size ∧ (p.1.ns + unixToInternalNs) % size = 0 := by
  intro p
  have hp : p = (⟨Civil.truncate t.ns size, t.off⟩, ⟨Civil.truncate t.ns size + size, t.off⟩) := by
    show newPeriodWindow t size = _
    unfold newPeriodWindow newPeriod Time.truncate Time.add Time.after
    dsimp only
    have : ¬ (Civil.truncate t.ns size > Civil.truncate t.ns size + size) := by omega
    simp [this]
  rw [hp]
  dsimp only
  unfold Civil.truncate
  have hn : ¬ (size ≤ 0) := by omega
  rw [if_neg hn]
  have h1 := Int.emod_nonneg (t.ns + unixToInternalNs) (show size ≠ 0 by omega)
  have h2 := Int.emod_lt_of_pos (t.ns + unixToInternalNs) h
  refine ⟨by omega, by omega, by omega, ?_⟩
  have e : t.ns - (t.ns + unixToInternalNs) % size + unixToInternalNs =
      (t.ns + unixToInternalNs) - (t.ns + unixToInternalNs) % size := by omega
  rw [e]
  have h3 := Int.emod_add_mul_ediv (t.ns + unixToInternalNs) size
  have e2 : (t.ns + unixToInternalNs) - (t.ns + unixToInternalNs) % size = size * ((t.ns + unixToInternalNs) / size) := by omega
  rw [e2]
  exact Int.mul_emod_right _ _

/-- the week window of `t` is Monday 00:00:00 of its week up to the next Monday 00:00:00 and contains `t` -/
theorem C19_weekWindow_contains_anchor (t : Time) :
    let p := newPeriodWindowWeek t
    p.1 = getStartOfWeek t 1 ∧ p.2.ns = p.1.ns + nsPerWeek ∧ p.1.ns ≤ t.ns ∧ t.ns < p.2.ns := by
  intro p
  have hp : p = (getStartOfWeek t 1, (getStartOfWeek t 1).addDate 0 0 7) := rfl
  rw [hp]
  simp only [Time.addDate]
  rw [addDate_days, getStartOfWeek_eq]
  dsimp only
  have hs := local_split t.off t.ns
  have hrange := nsOfDay_range t.off t.ns
  unfold weekdayStart midnightOf mondayOf isoIndex
  generalize localDays t.off t.ns = z at *
  simp only [show ¬ ((1 : Int) = 0) by decide, if_false]
  unfold nsPerWeek nsPerDay nsPerSec at *
  refine ⟨trivial, by omega, by omega, by omega⟩

/-- a period made from an anchor and a non-negative length starts at the anchor -/
theorem C19_periodWith_contains_anchor (u : Int) (t : Time) (n : Int) :
    let p := newPeriodWithUnit u t n
    p.1.ns ≤ t.ns ∧ t.ns ≤ p.2.ns ∧ (p.2.ns - p.1.ns = n * u ∨ p.2.ns - p.1.ns = -(n * u)) := by
  intro p
  rcases C19_newPeriod_endpoints t (t.add (n * u)) with ⟨h, h'⟩ | ⟨h, h'⟩
  · have : p = (t, t.add (n * u)) := h
    rw [this]; simp only [Time.add] at *; omega
  · have : p = (t.add (n * u), t) := h
    rw [this]; simp only [Time.add] at *; omega

/-- overlap is symmetric -/
theorem C19_overlap_symm (p q : Period) : Period.isOverlap p q = Period.isOverlap q p := by
  unfold Period.isOverlap; exact Bool.or_comm _ _

/-- two positive-length periods overlap exactly when they share interior time -/
theorem C19_overlap_iff_interior (p q : Period) (hp : p.1.ns < p.2.ns) (hq : q.1.ns < q.2.ns) :
    Period.isOverlap p q = true ↔ Max.max p.1.ns q.1.ns < Min.min p.2.ns q.2.ns := by
  simp only [Period.isOverlap, Period.isBetweenOrEqualPeriod, Period.isBetween, Time.before, Time.after,
    Time.equal, Bool.or_eq_true, Bool.and_eq_true, decide_eq_true_eq]
  rw [Int.max_def, Int.min_def]
  split <;> split <;> omega

/-- … and the judge form used on the implementation's answers -/
theorem C19_overlap_judge (a b c d : Int) (h1 : a < b) (h2 : c < d) :
    Period.isOverlap (⟨a, 0⟩, ⟨b, 0⟩) (⟨c, 0⟩, ⟨d, 0⟩) = interiorsMeet a b c d := by
  have := C19_overlap_iff_interior (⟨a, 0⟩, ⟨b, 0⟩) (⟨c, 0⟩, ⟨d, 0⟩) h1 h2
  dsimp only at this
  unfold interiorsMeet
  cases h : Period.isOverlap (⟨a, 0⟩, ⟨b, 0⟩) (⟨c, 0⟩, ⟨d, 0⟩)
  · rw [h] at this; simp only [Bool.false_eq_true, false_iff] at this; simp [this]
  · rw [h] at this; simp only [true_iff] at this; simp [this]

/-- point predicates of a normalised period -/
theorem C19_period_point_predicates (p : Period) (t : Time) (h : p.1.ns ≤ p.2.ns) :
    (Period.isBefore p t = true ↔ p.2.ns < t.ns) ∧ (Period.isAfter p t = true ↔ t.ns < p.1.ns) ∧
    (Period.isBetween p t = true ↔ p.1.ns < t.ns ∧ t.ns < p.2.ns) ∧
    (Period.isOngoing p t = true ↔ p.1.ns ≤ t.ns ∧ t.ns < p.2.ns) ∧
    (Period.isBetweenOrEqual p t = true ↔ p.1.ns ≤ t.ns ∧ t.ns ≤ p.2.ns) := by
  simp only [Period.isBefore, Period.isAfter, Period.isBetween, Period.isOngoing, Period.isBetweenOrEqual,
    Time.before, Time.after, Time.equal, Bool.or_eq_true, Bool.and_eq_true, decide_eq_true_eq]
  refine ⟨trivial, ?_, trivial, ?_, ?_⟩ <;> constructor <;> intro h' <;> omega



/-! ## 7. The judges applied to the model (constant zone) always accept -/

theorem C19_startOfDay_judge (t : Time) :
    sodOk (fun _ => t.off) t.ns (getStartOfDay t).ns = true := by
  obtain ⟨h1, _, _, h4, _⟩ := C19_startOfDay t
  have hn : nsOfDay t.off (getStartOfDay t).ns = 0 := by
    rw [getStartOfDay_eq]; dsimp only; rw [startOfDay_eq]
    have := localDays_midnight t.off (localDays t.off t.ns) 0 (by omega) (by unfold nsPerDay; omega)
    rw [Int.add_zero] at this; exact this.2
  simp only [sodOk, wallDays, wallNsOfDay, Bool.and_eq_true, decide_eq_true_eq, beq_iff_eq]
  exact ⟨⟨h1, h4⟩, hn⟩

theorem C19_endOfDay_judge (t : Time) :
    eodOk (fun _ => t.off) t.ns (getEndOfDay t).ns = true := by
  have hm := localDays_midnight t.off (localDays t.off t.ns) (86399 * nsPerSec) (by unfold nsPerSec; omega)
    (by unfold nsPerDay nsPerSec; omega)
  rw [← startOfDay_eq] at hm
  simp only [eodOk, wallDays, wallNsOfDay, Bool.and_eq_true, beq_iff_eq, getEndOfDay_eq, Spec.Chrono.endOfDay]
  exact hm

theorem C19_startOfWeek_judge (t : Time) (wd : Int) (hv : validWeekday wd = true) :
    sowOk (fun _ => t.off) t.ns wd (getStartOfWeek t wd).ns = true := by
  simp only [validWeekday, Bool.and_eq_true, decide_eq_true_eq] at hv
  obtain ⟨_, h2, h3, h4, _⟩ := C19_startOfWeek t wd hv.1 hv.2
  simp only [sowOk, wallDays, wallNsOfDay, wallWeekday, Bool.and_eq_true, beq_iff_eq]
  exact ⟨⟨h3, h2⟩, h4⟩

theorem C19_endOfWeek_judge (t : Time) (wd : Int) (hv : validWeekday wd = true) :
    eowOk (fun _ => t.off) t.ns wd (getEndOfWeek t wd).ns = true := by
  simp only [validWeekday, Bool.and_eq_true, decide_eq_true_eq] at hv
  obtain ⟨hl, hn⟩ := weekdayStart_local t.off t.ns wd
  have hs := local_split t.off (weekdayStart t.off t.ns wd)
  rw [hl, hn] at hs
  have hm := localDays_midnight t.off (mondayOf (localDays t.off t.ns) + isoIndex wd) (86399 * nsPerSec)
    (by unfold nsPerSec; omega) (by unfold nsPerDay nsPerSec; omega)
  have e : weekdayStart t.off t.ns wd + 86399 * nsPerSec =
      (mondayOf (localDays t.off t.ns) + isoIndex wd) * nsPerDay - t.off * nsPerSec + 86399 * nsPerSec := by omega
  simp only [eowOk, wallDays, wallNsOfDay, wallWeekday, Bool.and_eq_true, beq_iff_eq, getEndOfWeek_eq, e, hm.1, hm.2]
  unfold mondayOf isoIndex weekdayOfDays
  generalize localDays t.off t.ns = z
  refine ⟨⟨trivial, ?_⟩, ?_⟩ <;> split <;> omega

theorem C19_relStartOfWeek_judge (t : Time) (wd k : Int) (hv : validWeekday wd = true) :
    relSowOk (fun _ => t.off) t.ns wd k (getRelativeStartOfWeek t wd k).ns = true := by
  simp only [validWeekday, Bool.and_eq_true, decide_eq_true_eq] at hv
  obtain ⟨hl, hn⟩ := relWeekStart_local t.off t.ns wd k
  simp only [relSowOk, wallDays, wallNsOfDay, wallWeekday, Bool.and_eq_true, beq_iff_eq, decide_eq_true_eq,
    getRelativeStartOfWeek_eq t wd k hv.1 hv.2, hl, hn]
  unfold weekdayOfDays
  generalize localDays t.off t.ns = z
  refine ⟨⟨⟨trivial, ?_⟩, ?_⟩, ?_⟩ <;> omega

theorem C19_nextMoment_judge (now : Time) (h mi s : Int) (offs : List Int) (hv : validHMS h mi s = true) :
    nextOk (fun _ => now.off) offs now.ns h mi s (getNextMoment now.off now h mi s).ns = true := by
  obtain ⟨_, h2, _, h4, h5⟩ := C19_nextMoment_earliest_future now h mi s hv
  simp only [nextOk, wallCandidates, wallNsOfDay, Bool.and_eq_true, decide_eq_true_eq, beq_iff_eq,
    List.all_eq_true, List.mem_filter]
  refine ⟨⟨h2, h4⟩, ?_⟩
  intro x hx
  exact h5 x hx.2.1 hx.2.2

theorem C19_same_judge (off a b : Int) :
    isSameDay ⟨a, off⟩ ⟨b, off⟩ = sameDayRel (fun _ => off) a b ∧
    isSameWeek ⟨a, off⟩ ⟨b, off⟩ = sameWeekRel (fun _ => off) a b ∧
    isSameMonth ⟨a, off⟩ ⟨b, off⟩ = sameMonthRel (fun _ => off) a b := by
  refine ⟨?_, ?_, ?_⟩
  · have := (C19_sameDay_boundaries off a b).1
    unfold sameDayRel wallDays
    cases h : isSameDay ⟨a, off⟩ ⟨b, off⟩ <;> simp_all
  · have := (C19_sameWeek_boundaries off a b).1
    unfold sameWeekRel wallDays
    cases h : isSameWeek ⟨a, off⟩ ⟨b, off⟩ <;> simp_all
  · simp only [isSameMonth, sameMonthRel, wallDays, Time.month, Time.year, Civil.month, Civil.year]
    exact Bool.and_comm _ _

theorem C19_weekWindow_judge (t : Time) :
    weekWindowOk (fun _ => t.off) t.ns (newPeriodWindowWeek t).1.ns (newPeriodWindowWeek t).2.ns = true := by
  obtain ⟨h1, h2, h3, h4⟩ := C19_weekWindow_contains_anchor t
  have hj := C19_startOfWeek_judge t 1 (by decide)
  obtain ⟨hl, hn⟩ := weekdayStart_local t.off t.ns 1
  have hs := local_split t.off (weekdayStart t.off t.ns 1)
  rw [hl, hn] at hs
  have hm := localDays_midnight t.off (mondayOf (localDays t.off t.ns) + isoIndex 1 + 7) 0 (by omega) (by unfold nsPerDay; omega)
  have e : (getStartOfWeek t 1).ns + nsPerWeek =
      (mondayOf (localDays t.off t.ns) + isoIndex 1 + 7) * nsPerDay - t.off * nsPerSec + 0 := by
    rw [getStartOfWeek_eq]; dsimp only; unfold nsPerWeek nsPerDay at *; omega
  have h2' : (newPeriodWindowWeek t).2.ns = (getStartOfWeek t 1).ns + nsPerWeek := by rw [h2, h1]
  rw [h2'] at h4
  simp only [weekWindowOk, containsAnchor, Bool.and_eq_true, decide_eq_true_eq, beq_iff_eq, wallNsOfDay, wallDays]
  rw [h2', h1, e, hm.1, hm.2]
  rw [e] at h4
  refine ⟨⟨⟨hj, rfl⟩, ?_⟩, h3, h4⟩
  rw [getStartOfWeek_eq]; dsimp only; rw [hl]

theorem C19_window_judge (t : Time) (size : Int) :
    normalised (newPeriodWindow t size).1.ns (newPeriodWindow t size).2.ns = true ∧
    (0 < size → containsAnchor (newPeriodWindow t size).1.ns (newPeriodWindow t size).2.ns t.ns = true) := by
  refine ⟨by simpa [normalised] using C19_period_normalised.2.1 t size, ?_⟩
  intro h
  obtain ⟨h1, h2, _⟩ := C19_window_contains_anchor t size h
  simp only [containsAnchor, Bool.and_eq_true, decide_eq_true_eq]
  exact ⟨h1, h2⟩

/-- a zone table without transitions is the constant zone: the `dst-judge` oracle then evaluates exactly
    the predicates of section 7 -/
theorem C19_zone_without_transitions (off : Int) :
    (Zone.offAt ⟨off, []⟩ = fun _ => off) ∧ Zone.offsets ⟨off, []⟩ = [off] := by
  constructor
  · funext t; rfl
  · rfl

/-- in a constant zone every wall-clock time exists exactly once per day, so the two irregularity
    labels under which the known findings of `MV.Findings.C19` are matched (`regularWallClock = false`,
    `regularMidnights = false`) never apply there: the deviations are confined to zones with shifts -/
theorem C19_constant_zone_regular (off t h mi s : Int) (hv : validHMS h mi s = true) :
    regularWallClock (fun _ => off) [off] t h mi s = true ∧ regularMidnights (fun _ => off) [off] t = true := by
  have key : ∀ d sod : Int, 0 ≤ sod → sod < 86400 →
      (wallInstants (fun _ => off) [off] d sod).length = 1 := by
    intro d sod h0 h1
    have hm := localDays_midnight off d (sod * nsPerSec) (by unfold nsPerSec; omega) (by unfold nsPerDay nsPerSec; omega)
    have e : (d * secPerDay + sod - off) * nsPerSec = d * nsPerDay - off * nsPerSec + sod * nsPerSec := by
      unfold secPerDay nsPerDay nsPerSec; omega
    simp only [wallInstants, List.map_cons, List.map_nil, wallDays, wallNsOfDay, e]
    rw [List.filter_cons_of_pos (by simp [hm.1, hm.2])]
    rfl
  simp only [validHMS, Bool.and_eq_true, decide_eq_true_eq] at hv
  constructor
  · simp only [regularWallClock, Bool.and_eq_true, beq_iff_eq]
    exact ⟨key _ _ (by omega) (by omega), key _ _ (by omega) (by omega)⟩
  · simp only [regularMidnights, List.all_eq_true, beq_iff_eq]
    intro i _
    exact key _ 0 (by omega) (by omega)

/-! ## 8. One 400-year cycle is enough -/

/-- shifting the instant by 146097 days shifts every answer by 146097 days (week helpers: 146097 = 7·20871)
    and leaves the predicates unchanged -/
theorem C19_helpers_periodic (t : Time) (wd k h mi s : Int) (h0 : 0 ≤ wd) (h1 : wd ≤ 6) :
    (getStartOfDay ⟨t.ns + 146097 * nsPerDay, t.off⟩).ns = (getStartOfDay t).ns + 146097 * nsPerDay ∧
    (getEndOfDay ⟨t.ns + 146097 * nsPerDay, t.off⟩).ns = (getEndOfDay t).ns + 146097 * nsPerDay ∧
    (getStartOfWeek ⟨t.ns + 146097 * nsPerDay, t.off⟩ wd).ns = (getStartOfWeek t wd).ns + 146097 * nsPerDay ∧
    (getRelativeStartOfWeek ⟨t.ns + 146097 * nsPerDay, t.off⟩ wd k).ns =
      (getRelativeStartOfWeek t wd k).ns + 146097 * nsPerDay ∧
    (getNextMoment t.off ⟨t.ns + 146097 * nsPerDay, t.off⟩ h mi s).ns =
      (getNextMoment t.off t h mi s).ns + 146097 * nsPerDay ∧
    Time.weekday ⟨t.ns + 146097 * nsPerDay, t.off⟩ = t.weekday ∧
    Time.month ⟨t.ns + 146097 * nsPerDay, t.off⟩ = t.month ∧
    Time.day ⟨t.ns + 146097 * nsPerDay, t.off⟩ = t.day ∧
    Time.year ⟨t.ns + 146097 * nsPerDay, t.off⟩ = t.year + 400 := by
  have hl : localDays t.off (t.ns + 146097 * nsPerDay) = localDays t.off t.ns + 146097 := localDays_add_days _ _ _
  have hn : nsOfDay t.off (t.ns + 146097 * nsPerDay) = nsOfDay t.off t.ns := nsOfDay_add_days _ _ _
  have hc := civilFromDays_add146097 (localDays t.off t.ns)
  have hnm := getNextMoment_eq (⟨t.ns + 146097 * nsPerDay, t.off⟩ : Time) h mi s
  dsimp only at hnm
  have hnm0 := getNextMoment_eq t h mi s
  simp only [getStartOfDay_eq, getEndOfDay_eq, getStartOfWeek_eq, getRelativeStartOfWeek_eq _ wd k h0 h1, hnm, hnm0,
    Time.weekday, Time.month, Time.day, Time.year, Civil.weekday, Civil.month, Civil.day, Civil.year]
  rw [hl, hc, weekdayOfDays_add146097]
  unfold Spec.Chrono.endOfDay Spec.Chrono.startOfDay weekdayStart relWeekStart nextMoment Spec.Chrono.startOfDay
  dsimp only
  rw [hl, hn]
  unfold midnightOf mondayOf weekdayOfDays
  generalize localDays t.off t.ns = z
  generalize nsOfDay t.off t.ns = x
  unfold nsPerDay nsPerSec
  refine ⟨by omega, by omega, by omega, by omega, ?_, rfl, rfl, rfl, rfl⟩
  split <;> split <;> omega

/-! ## Non-vacuity: the statements speak about real dates -/

example : civilFromDays 19782 = (2024, 2, 29) ∧ daysFromCivil 2024 2 29 = 19782 ∧ weekdayOfDays 19782 = 4 := by decide
example : validDate 2024 2 29 = true ∧ validDate 2023 2 29 = false ∧ validDate 1900 2 29 = false ∧
    validDate 2000 2 29 = true := by decide
/-- 2024-03-03 (a Sunday) 12:00 UTC: the Monday of its week is 2024-02-26, the latest Saturday is 03-02 -/
example : (getStartOfWeek ⟨1709467200000000000, 0⟩ 1).ns = 1708905600000000000 ∧
    (getRelativeStartOfWeek ⟨1709467200000000000, 0⟩ 6 0).ns = 1709337600000000000 ∧
    (getRelativeStartOfWeek ⟨1709467200000000000, 0⟩ 6 (-1)).ns = 1708732800000000000 := ⟨by rfl, by decide +kernel, by decide +kernel⟩
/-- at 12:00:00 exactly, the next 12:00:00 is tomorrow; one nanosecond earlier it is now+1ns -/
example : (getNextMoment 0 ⟨1609502400000000000, 0⟩ 12 0 0).ns = 1609588800000000000 ∧
    (getNextMoment 0 ⟨1609502399999999999, 0⟩ 12 0 0).ns = 1609502400000000000 := ⟨by rfl, by rfl⟩
/-- touching periods do not overlap, nested ones do; a negative window size is normalised -/
example : Period.isOverlap (⟨0, 0⟩, ⟨10, 0⟩) (⟨10, 0⟩, ⟨20, 0⟩) = false ∧
    Period.isOverlap (⟨0, 0⟩, ⟨10, 0⟩) (⟨2, 0⟩, ⟨5, 0⟩) = true ∧
    newPeriodWindow ⟨5, 0⟩ (-3) = (⟨2, 0⟩, ⟨5, 0⟩) := by decide


end MV.Props.C19
