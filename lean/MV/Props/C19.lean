import MV.Lemmas.Chrono
/-!
# C19 — calendar and period helpers agree with the civil calendar for every instant
(work in progress: theorems are added below)
-/
namespace MV.Props.C19
open MV.Model MV.Model.Civil MV.Model.Chrono

/-- `civilFromDays` is a right inverse of `daysFromCivil` for every day number -/
theorem C19_civil_roundtrip_days (z : Int) :
    daysFromCivil (civilFromDays z).1 (civilFromDays z).2.1 (civilFromDays z).2.2 = z :=
  daysFromCivil_civilFromDays z

end MV.Props.C19
