import MV.Model.ActorSys
namespace MV.Props.C04
theorem C04_placeholder : True := trivial
end MV.Props.C04
