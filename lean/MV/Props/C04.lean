import MV.Lemmas.ActorSysTurns
import MV.Spec.ActorSys
import MV.Props.C03
/-!
# C04 — a failing actor is suspended and the supervisor's directive is applied

Model, tie and quantifiers as for C03 (`MV.Model.ActorSys`, any world, any behaviour tables, any
strategies, any operation).  Proved here:

* a failure (a panic that reaches the mailbox's recover handler) of an alive actor suspends its
  mailbox and counts the accident, before anything else (`C04_failure_suspends`); failures of an actor
  that is not alive are ignored (`C04_failure_of_non_alive_ignored`);
* **while the mailbox is suspended the actor handles no user message**, whatever is queued, whoever
  runs — system messages (the supervisor's directive among them) are still processed
  (`C04_suspended_handles_no_user_message`);
* a restart request only acts on an alive actor (`C04_restart_only_when_alive`): a second decision or
  a late timer cannot restart twice or pull a terminating actor back;
* the decision is the entry of the strategy table for the accident count, the last entry repeating
  (`C04_decide_table`), and a Restart beyond the limit is a Stop (`C04_limit_is_stop`).

Outside the theorems: the restart delay (C18 proves its bounds), wall-clock time, isolation of other
subtrees as a global statement (checked on the real system by the judge and the model comparison).
Known finding: Escalate reaching the root is process-fatal (see `MV.Findings.C04`).
-/
namespace MV.Props.C04
open MV.Model.ActorSys MV.Spec.ActorSys

/-- the world after the recover handler's `ReportAbnormal` -/
def afterReport (w : World) (a : Aid) : World := (((reportAbnormal a).run).run w).2

theorem C04_failure_suspends (w : World) (a : Aid)
    (halive : (actorAt w a).status = .alive) (hreg : isLive w a = true) :
    (actorAt (afterReport w a) a).suspended = true ∧
    (actorAt (afterReport w a) a).accidents = (actorAt w a).accidents + 1 := by
  have := run_of_triple (reportAbnormal a) (fun x => x = w) _ _ (reportAbnormal_suspends a w halive hreg) w rfl
  unfold afterReport
  revert this
  generalize ((reportAbnormal a).run).run w = r
  obtain ⟨e, w'⟩ := r
  cases e <;> simp

theorem C04_failure_of_non_alive_ignored (w : World) (a : Aid) (h : (actorAt w a).status ≠ .alive) :
    afterReport w a = w := by
  have := run_of_triple (reportAbnormal a) (fun x => x = w) _ _ (reportAbnormal_only_when_alive a w h) w rfl
  unfold afterReport
  revert this
  generalize ((reportAbnormal a).run).run w = r
  obtain ⟨e, w'⟩ := r
  cases e <;> simp

/-- **suspended ⇒ no user message reaches the handler**, for every operation -/
theorem C04_suspended_handles_no_user_message (w : World) (a : Aid)
    (hs : (actorOf w a).suspended = true) (op : Op) (es : List Event)
    (h : (step w op).events = w.events ++ es) (i tag : Nat) (s : Option Aid) :
    Event.handled a i (.user tag) s ∉ es := by
  intro he
  have := MV.Props.C03.C03_user_message_only_when_alive_and_idle_system_queue w op es h a i tag s he
  rw [hs] at this
  exact absurd this.2.1 (by simp)

/-- the same for dead-letter events delivered as user messages -/
theorem C04_suspended_handles_no_dead_letter_event (w : World) (a : Aid)
    (hs : (actorOf w a).suspended = true) (op : Op) (es : List Event)
    (h : (step w op).events = w.events ++ es) (i : Nat) (r : Aid) (tag : Nat) (s : Option Aid) :
    Event.handled a i (.dead r tag) s ∉ es := by
  intro he
  obtain ⟨es', h', hall⟩ := step_evok w op
  have : es = es' := List.append_cancel_left (h.symm.trans h')
  subst this
  have hr := hall _ he
  cases op with
  | run b =>
    simp [stepR, Rh] at hr
    obtain ⟨hab, hobs⟩ := hr
    subst hab
    rcases hobs.2 with hs' | hs'
    · exact absurd hs' (by simp [sysObs])
    · rw [hs] at hs'; exact absurd hs'.2.1 (by simp)
  | _ => simp [stepR, Rh] at hr

/-- a restart request acts only on an alive actor -/
theorem C04_restart_only_when_alive (w : World) (a : Aid) (h : (actorAt w a).status ≠ .alive) :
    (((onRestart a).run).run w).2 = w := by
  have := run_of_triple (onRestart a) (fun x => x = w) _ _ (onRestart_only_when_alive a w h) w rfl
  revert this
  generalize ((onRestart a).run).run w = r
  obtain ⟨e, w'⟩ := r
  cases e <;> simp

/-- the decision for the `count`-th accident is the `count`-th table entry, the last one repeating -/
theorem C04_decide_table (limit : Int) (d : Directive) (ds : List Directive) (count : Nat) :
    (Strategy.decide { limit := limit, table := d :: ds } count) =
      ((d :: ds)[count - 1]?).getD ((d :: ds).getLast (by simp)) := rfl

theorem C04_decide_within_table (limit : Int) (tab : List Directive) (count : Nat)
    (h1 : 1 ≤ count) (h2 : count ≤ tab.length) :
    some (Strategy.decide { limit := limit, table := tab } count) = tab[count - 1]? := by
  cases tab with
  | nil => simp at h2; omega
  | cons d ds =>
    have : count - 1 < (d :: ds).length := by simp at h2 ⊢; omega
    simp [Strategy.decide, List.getElem?_eq_getElem this]

/-- non-vacuity -/
example : Strategy.decide { limit := 3, table := [.restart, .resume, .stop] } 2 = .resume ∧
          Strategy.decide { limit := 3, table := [.restart, .resume, .stop] } 7 = .stop := by decide

/-- **Resume continues with the same instance and the queued messages**: when the supervisor's
decision for a registered victim is `Resume`, the victim's mailbox is open again afterwards and has a
runner, and its incarnation, status and both queues are untouched -/
theorem C04_resume_unsuspends (w : World) (self victim : Aid) (st : Strategy)
    (hd : st.decide (actorAt w victim).accidents = .resume) (hlive : isLive w victim = true) :
    let w' := (((decide self victim st).run).run w).2
    (actorAt w' victim).suspended = false ∧ (actorAt w' victim).hasRunner = true ∧
    (actorAt w' victim).userQ = (actorAt w victim).userQ ∧ (actorAt w' victim).sysQ = (actorAt w victim).sysQ ∧
    (actorAt w' victim).inc = (actorAt w victim).inc ∧ (actorAt w' victim).status = (actorAt w victim).status := by
  have := run_of_triple (MV.Model.ActorSys.decide self victim st) (fun x => x = w) _ _ (decide_resume self victim st w hd hlive) w rfl
  intro w'
  have hw' : w' = (((MV.Model.ActorSys.decide self victim st).run).run w).2 := rfl
  revert this hw'
  generalize ((MV.Model.ActorSys.decide self victim st).run).run w = r
  obtain ⟨e, w''⟩ := r
  intro h hw'
  cases e <;> simp at h hw' <;> simp [hw', h]

/-- non-vacuity: a suspended registered victim whose strategy says Resume -/
example : ∃ (w : World) (st : Strategy), st.decide (actorAt w 2).accidents = .resume ∧ isLive w 2 = true ∧
    (actorAt w 2).suspended = true :=
  ⟨{ actors := [default, default, { (default : Actor) with suspended := true, accidents := 1 }] },
   { limit := -1, table := [.resume] }, by decide⟩

/-- **Escalate passes the decision to the next ancestor**: when the deciding actor `self` answers
`Escalate`, the accident of `victim` is appended to the system queue of `self`'s parent (sender
`self`), and no other actor's state changes -/
theorem C04_escalate_goes_to_next_ancestor (w : World) (self victim p : Aid) (st : Strategy)
    (hd : st.decide (actorAt w victim).accidents = .escalate)
    (hp : (actorAt w self).parent = some p) (hlive : isLive w p = true) :
    let w' := (((MV.Model.ActorSys.decide self victim st).run).run w).2
    (actorAt w' p).sysQ = (actorAt w p).sysQ ++ [(.accident victim, some self)] ∧
    ∀ b, b ≠ p → actorAt w' b = actorAt w b := by
  have := run_of_triple (MV.Model.ActorSys.decide self victim st) (fun x => x = w) _ _
    (decide_escalate self victim p st w hd hp hlive) w rfl
  intro w'
  have hw' : w' = (((MV.Model.ActorSys.decide self victim st).run).run w).2 := rfl
  revert this hw'
  generalize ((MV.Model.ActorSys.decide self victim st).run).run w = r
  obtain ⟨e, w''⟩ := r
  intro h hw'
  cases e <;> simp at h hw' <;> (subst hw'; exact ⟨h.1, fun b hb => h.2 b hb⟩)

/-- the judge's clause agrees: an Escalate by 3 (child of 2) followed by a decision of 2 is accepted,
a second decision by 3 itself is rejected -/
example : c04escalate [.spawned 0 2, .spawned 2 3, .spawned 3 4, .failed 4,
    .decided 3 4 .escalate 1, .decided 2 4 .resume 1] = none ∧
  (c04escalate [.spawned 0 2, .spawned 2 3, .spawned 3 4, .failed 4,
    .decided 3 4 .escalate 1, .decided 3 4 .escalate 1]).isSome = true := by decide

/-- … and `c04stuck` rejects exactly the resumed-but-never-continuing victim -/
example : c04stuck [.failed 4, .decided 3 4 .resume 1] [4] =
    some "c04:resumed-actor-4-never-continues-with-its-queued-messages" ∧
  c04stuck [.failed 4, .decided 3 4 .resume 1, .failed 4] [4] = none ∧
  c04stuck [.failed 4] [4] = none := by decide

end MV.Props.C04
