import MV.Model.LockFacts
/-!
# C16 — synchronized variants: lock discipline

The sequential theorems (`C16Maps`, `C16Slices`) treat every method of a `Sync*` type as one atomic
step.  What justifies that reading is the lock discipline: every exported method holds the type's
`sync.RWMutex` around every access to the guarded fields.  The facts are re-extracted from the
source text on every run and compared with `LockFacts.table`; this file proves the table satisfies
the discipline.
-/
namespace MV.Props.C16
open MV.Model.LockFacts

/-- **`C16_lock_discipline`** — on every path through every exported method of `SyncMap`, `SyncSlice`,
`SyncPrioritySlice`, `OrderSync`, `MutexBucket`, `MutexBucketItem`: locks and unlocks are balanced (no
second unlock, nothing held at return), guarded fields are read only under a lock and written only
under the write lock, an index that can panic is evaluated only while the unlock is deferred, and
locking methods are never re-entered. -/
theorem C16_lock_discipline : ∀ e ∈ table, checkAll e.paths = .ok := by
  have h := table_disciplined
  rw [List.all_eq_true] at h
  intro e he
  have := h e he
  simpa using this

/-- the predicate is not vacuous: it rejects the shapes the unrepaired methods had -/
theorem C16_lock_discipline_rejects_old :
    check [.L, .dU, .A, .U, .ret] = .unlockOfUnlocked ∧ check [.L, .Wi, .U] = .panicLeaksLock ∧
    check [.Ai, .ret] = .unlockedRead ∧ check [.cx "Append", .cu "sort"] = .helperWithoutWriteLock ∧
    check [.L, .U, .W, .ret] = .unlockedWrite := old_shapes_rejected

end MV.Props.C16
