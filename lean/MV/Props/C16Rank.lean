import MV.Lemmas.Ranking
/-!
# C16 — leaderboard (`ranking.BinarySearch`)

Every theorem is about `MV.Model.Ranking` (the transcription of the Go code the oracle executes and
the differential runs compare with the real code) and relates it to the abstract board
`MV.Spec.Leaderboard` (the spec oracle).
-/
namespace MV.Props.C16
open MV.Model MV.Model.Ranking MV.Spec MV.Spec.Leaderboard

/-- **one step**: under the representation invariant every method keeps the invariant, changes the
rank list exactly as the abstract board does and gives the abstract board's answer (the event lists
of `Competitor`/`RemoveCompetitor` are outside the abstract board and erased). -/
theorem C16_rank_step (r : Ranking) (h : RInv r) (op : Op) :
    RInv (Ranking.step r op).1 ∧ board (Ranking.step r op).1 = (Leaderboard.step (board r) op).1 ∧
      Leaderboard.erase op (Ranking.step r op).2 = (Leaderboard.step (board r) op).2 := by
  cases op with
  | competitor id s =>
    obtain ⟨r', es, h1, h2, h3⟩ := competitor_refines r h id s
    simp only [Ranking.step, h1, Leaderboard.step, Leaderboard.erase]
    exact ⟨h2, h3, trivial⟩
  | remove id =>
    obtain ⟨r', es, h1, h2, h3⟩ := remove_refines r h id
    simp only [Ranking.step, h1, Leaderboard.step, Leaderboard.erase]
    exact ⟨h2, h3, trivial⟩
  | rank id =>
    simp only [Ranking.step, Leaderboard.step, Leaderboard.erase]
    cases hv : scoreOf r.scores id with
    | none =>
      have h1 : r.comp.get id = none := by rw [h.get, hv]
      have hv' : scoreOf (board r).l id = none := hv
      rw [getRank_absent r id h1, rankOf_of_absent _ _ hv']
      (refine ⟨h, ?_, ?_⟩ <;> first | rfl | trivial)
    | some v =>
      obtain ⟨p, hp, hpe⟩ := exists_idx_of_scoreOf hv
      have hid : r.scores[p].1 = id := by rw [hpe]
      have h1 := getRank_ok r h p hp
      have h2 := rankOf_of_idx h.nodup p hp
      rw [hid] at h1 h2
      have h2' : rankOf (board r).l id = some p := h2
      rw [h1, h2']
      (refine ⟨h, ?_, ?_⟩ <;> first | rfl | trivial)
  | «at» k =>
    simp only [Ranking.step, Leaderboard.step, Leaderboard.erase, getCompetitor]
    have hl : (board r).l = r.scores := rfl
    rw [hl]
    by_cases hk : k < 0 ∨ k ≥ (r.scores.length : Int)
    · simp only [hk, if_true]; (refine ⟨h, ?_, ?_⟩ <;> first | rfl | trivial)
    · simp only [hk, if_false]
      cases r.scores[k.toNat]? with
      | none => (refine ⟨h, ?_, ?_⟩ <;> first | rfl | trivial)
      | some d => (refine ⟨h, ?_, ?_⟩ <;> first | rfl | trivial)
  | range s e =>
    simp only [Ranking.step, Leaderboard.step, Leaderboard.erase, getRange]
    have hl : (board r).l = r.scores := rfl
    rw [hl]
    by_cases h1 : s < 1 ∨ e < s
    · simp only [h1, if_true]; (refine ⟨h, ?_, ?_⟩ <;> first | rfl | trivial)
    · simp only [h1, if_false]
      by_cases h2 : s > (r.scores.length : Int)
      · simp only [h2, if_true]; (refine ⟨h, ?_, ?_⟩ <;> first | rfl | trivial)
      · simp only [h2, if_false]; (refine ⟨h, ?_, ?_⟩ <;> first | rfl | trivial)
  | score id =>
    simp only [Ranking.step, Leaderboard.step, Leaderboard.erase, getScore]
    rw [h.get]
    have hl : (board r).l = r.scores := rfl
    rw [hl]
    cases scoreOf r.scores id with
    | none => (refine ⟨h, ?_, ?_⟩ <;> first | rfl | trivial)
    | some v => (refine ⟨h, ?_, ?_⟩ <;> first | rfl | trivial)
  | all => (refine ⟨h, ?_, ?_⟩ <;> first | rfl | trivial)
  | size =>
    refine ⟨h, rfl, ?_⟩
    simp only [Ranking.step, Leaderboard.step, Leaderboard.erase, Ranking.size]
    rw [size_eq_length r h]; rfl
  | clear =>
    refine ⟨?_, rfl, rfl⟩
    refine ⟨⟨List.Pairwise.nil, List.nodup_nil, ?_⟩, List.nodup_nil, fun _ => rfl⟩
    intro hc
    have := h.capped hc
    show ((0 : Nat) : Int) ≤ r.cap
    omega
  | dump =>
    refine ⟨h, rfl, ?_⟩
    simp only [Ranking.step, Leaderboard.step, Leaderboard.erase, getScore]
    congr 1
    apply List.map_congr_left
    intro d hd
    have := FMap.get_eq_some_of_mem r.scores h.nodup d hd
    rw [h.get, scoreOf_eq_get, this]; rfl

/-- **`C16_rank_inv`** — after *any* sequence of operations on a new leaderboard (any direction, any
size limit): ordered by score in the configured direction, no competitor twice, at most `cap`
entries, and the `competitors` index holds exactly the listed `(id, score)` pairs. -/
theorem C16_rank_inv (asc : Bool) (c : Option Int) (ops : List Op) : RInv (Ranking.exec (Ranking.new asc c) ops) := by
  suffices ∀ r, RInv r → RInv (Ranking.exec r ops) from this _ (rinv_new asc c)
  induction ops with
  | nil => intro r h; exact h
  | cons op ops ih => intro r h; exact ih _ (C16_rank_step r h op).1

/-- the abstract board never changes direction or size limit -/
theorem board_step_cfg (b : Board) (op : Op) :
    (Leaderboard.step b op).1.asc = b.asc ∧ (Leaderboard.step b op).1.cap = b.cap := by
  cases op <;> simp only [Leaderboard.step] <;> (try exact ⟨rfl, rfl⟩) <;> (try trivial)
  · unfold submit; repeat' split
    all_goals first | exact ⟨rfl, rfl⟩ | trivial
  all_goals (repeat' split)
  all_goals first | exact ⟨rfl, rfl⟩ | trivial

/-- the size limit of a leaderboard is positive and never changes (`WithBinarySearchCount` maps
non-positive requests to 1, the default is 100) -/
theorem C16_rank_cap_pos (asc : Bool) (c : Option Int) (ops : List Op) :
    (Ranking.exec (Ranking.new asc c) ops).cap > 0 := by
  have h0 : (Ranking.new asc c).cap > 0 := by
    unfold Ranking.new
    cases c with
    | none => show (100 : Int) > 0; decide
    | some k => show (if k ≤ 0 then (1 : Int) else k) > 0; split <;> omega
  suffices ∀ r, RInv r → r.cap > 0 → (Ranking.exec r ops).cap > 0 from this _ (rinv_new asc c) h0
  induction ops with
  | nil => intro r _ h; exact h
  | cons op ops ih =>
    intro r h hc
    obtain ⟨h1, h2, _⟩ := C16_rank_step r h op
    apply ih _ h1
    have : (Ranking.step r op).1.cap = (board (Ranking.step r op).1).cap := rfl
    rw [this, h2, (board_step_cfg (board r) op).2]
    exact hc

/-- the invariant spelled out -/
theorem C16_rank_inv_spelled (asc : Bool) (c : Option Int) (ops : List Op) :
    let r := Ranking.exec (Ranking.new asc c) ops
    r.scores.Pairwise (fun a b => key r.asc a.2 ≥ key r.asc b.2) ∧ (r.scores.map (·.1)).Nodup ∧
      (r.scores.length : Int) ≤ r.cap ∧
      (∀ id s, r.comp.get id = some s ↔ (id, s) ∈ r.scores) ∧ r.size = r.scores.length := by
  intro r
  have h := C16_rank_inv asc c ops
  refine ⟨h.sorted, h.nodup, h.capped (C16_rank_cap_pos asc c ops), ?_, size_eq_length _ h⟩
  intro id s
  rw [h.get]
  constructor
  · exact FMap.mem_of_get_eq_some _ _ _
  · intro hm; exact FMap.get_eq_some_of_mem _ h.nodup (id, s) hm

/-- **refinement, all operation sequences**: a new leaderboard answers exactly like the abstract board -/
theorem C16_rank_refines (asc : Bool) (c : Option Int) (ops : List Op) :
    Leaderboard.eraseAll ops (Ranking.run (Ranking.new asc c) ops) =
      Leaderboard.eraseAll ops (Leaderboard.run (board (Ranking.new asc c)) ops) := by
  suffices ∀ r, RInv r → Leaderboard.eraseAll ops (Ranking.run r ops) =
      Leaderboard.eraseAll ops (Leaderboard.run (board r) ops) from this _ (rinv_new asc c)
  induction ops with
  | nil => intro r h; rfl
  | cons op ops ih =>
    intro r h
    obtain ⟨h1, h2, h3⟩ := C16_rank_step r h op
    unfold Ranking.run Leaderboard.run
    simp only [Leaderboard.eraseAll]
    rw [ih _ h1, h2]
    congr 1
    cases op <;> first | rfl | exact h3

/-- **`C16_rank_inverse`** — rank lookup and competitor-at-rank are inverse: `GetRank(GetCompetitor(k)) = k`
for every occupied rank … -/
theorem C16_rank_inverse (r : Ranking) (h : RInv r) (k : Nat) (hk : k < r.scores.length) :
    ∃ id, r.getCompetitor k = some id ∧ r.getRank id = .ok k := by
  refine ⟨r.scores[k].1, ?_, getRank_ok r h k hk⟩
  unfold getCompetitor
  have : ¬ ((k : Int) < 0 ∨ (k : Int) ≥ r.scores.length) := by omega
  simp [this, hk]

/-- … and `GetCompetitor(GetRank(id)) = id` for every listed competitor; an unlisted one has no rank. -/
theorem C16_rank_inverse' (r : Ranking) (h : RInv r) (id : Int) :
    (∃ k, r.getRank id = .ok k ∧ r.getCompetitor k = some id) ∨
      (r.getRank id = .errNotExist ∧ r.getScore id = none) := by
  cases hv : scoreOf r.scores id with
  | none =>
    right
    have h1 : r.comp.get id = none := by rw [h.get, hv]
    exact ⟨getRank_absent r id h1, h1⟩
  | some v =>
    left
    obtain ⟨p, hp, hpe⟩ := exists_idx_of_scoreOf hv
    have hid : r.scores[p].1 = id := by rw [hpe]
    have h1 := getRank_ok r h p hp
    rw [hid] at h1
    refine ⟨p, h1, ?_⟩
    unfold getCompetitor
    have : ¬ ((p : Int) < 0 ∨ (p : Int) ≥ r.scores.length) := by omega
    simp [this, hp, hid]

/-- **`C16_rank_search_terminates`** — in every reachable state no method runs out of fuel (the Go loop
of `GetRank` cannot spin: the tie scan always finds the competitor) and no slice index is out of range. -/
theorem C16_rank_search_terminates (r : Ranking) (h : RInv r) (id s : Int) :
    (r.getRank id ≠ .hang ∧ r.getRank id ≠ .panic) ∧
      (∃ r' es, r.competitor id s = .done r' es) ∧ (∃ r' es, r.remove id = .done r' es) := by
  refine ⟨?_, ?_, ?_⟩
  · rcases C16_rank_inverse' r h id with ⟨k, hk, _⟩ | ⟨hk, _⟩ <;> rw [hk] <;> exact ⟨by simp, by simp⟩
  · obtain ⟨r', es, h1, _⟩ := competitor_refines r h id s; exact ⟨r', es, h1⟩
  · obtain ⟨r', es, h1, _⟩ := remove_refines r h id; exact ⟨r', es, h1⟩

end MV.Props.C16
