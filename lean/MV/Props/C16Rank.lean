import MV.Lemmas.Ranking
/-!
# C16 — leaderboard (`ranking.BinarySearch`)

Every theorem is about `MV.Model.Ranking` (the transcription of the Go code the oracle executes and
the differential runs compare with the real code) and relates it to the abstract board
`MV.Spec.Leaderboard` (the spec oracle).
-/
namespace MV.Props.C16
open MV.Model MV.Model.Ranking MV.Spec MV.Spec.Leaderboard

/-- **one step**: under the representation invariant every method keeps the invariant, changes the
rank list exactly as the abstract board does and gives the abstract board's answer (the event lists
of `Competitor`/`RemoveCompetitor` are outside the abstract board and erased). -/
theorem C16_rank_step (r : Ranking) (h : RInv r) (op : Op) :
    RInv (Ranking.step r op).1 ∧ board (Ranking.step r op).1 = (Leaderboard.step (board r) op).1 ∧
      Leaderboard.erase op (Ranking.step r op).2 = (Leaderboard.step (board r) op).2 := by
  cases op with
  | competitor id s =>
    obtain ⟨r', es, h1, h2, h3⟩ := competitor_refines r h id s
    simp only [Ranking.step, h1, Leaderboard.step, Leaderboard.erase]
    exact ⟨h2, h3, trivial⟩
  | remove id =>
    obtain ⟨r', es, h1, h2, h3⟩ := remove_refines r h id
    simp only [Ranking.step, h1, Leaderboard.step, Leaderboard.erase]
    exact ⟨h2, h3, trivial⟩
  | rank id =>
    simp only [Ranking.step, Leaderboard.step, Leaderboard.erase]
    cases hv : scoreOf r.scores id with
    | none =>
      have h1 : r.comp.get id = none := by rw [h.get, hv]
      have hv' : scoreOf (board r).l id = none := hv
      rw [getRank_absent r id h1, rankOf_of_absent _ _ hv']
      (refine ⟨h, ?_, ?_⟩ <;> first | rfl | trivial)
    | some v =>
      obtain ⟨p, hp, hpe⟩ := exists_idx_of_scoreOf hv
      have hid : r.scores[p].1 = id := by rw [hpe]
      have h1 := getRank_ok r h p hp
      have h2 := rankOf_of_idx h.nodup p hp
      rw [hid] at h1 h2
      have h2' : rankOf (board r).l id = some p := h2
      rw [h1, h2']
      (refine ⟨h, ?_, ?_⟩ <;> first | rfl | trivial)
  | «at» k =>
    simp only [Ranking.step, Leaderboard.step, Leaderboard.erase, getCompetitor]
    have hl : (board r).l = r.scores := rfl
    rw [hl]
    by_cases hk : k < 0 ∨ k ≥ (r.scores.length : Int)
    · simp only [hk, if_true]; (refine ⟨h, ?_, ?_⟩ <;> first | rfl | trivial)
    · simp only [hk, if_false]
      cases r.scores[k.toNat]? with
      | none => (refine ⟨h, ?_, ?_⟩ <;> first | rfl | trivial)
      | some d => (refine ⟨h, ?_, ?_⟩ <;> first | rfl | trivial)
  | range s e =>
    simp only [Ranking.step, Leaderboard.step, Leaderboard.erase, getRange]
    have hl : (board r).l = r.scores := rfl
    rw [hl]
    by_cases h1 : s < 1 ∨ e < s
    · simp only [h1, if_true]; (refine ⟨h, ?_, ?_⟩ <;> first | rfl | trivial)
    · simp only [h1, if_false]
      by_cases h2 : s > (r.scores.length : Int)
      · simp only [h2, if_true]; (refine ⟨h, ?_, ?_⟩ <;> first | rfl | trivial)
      · simp only [h2, if_false]; (refine ⟨h, ?_, ?_⟩ <;> first | rfl | trivial)
  | score id =>
    simp only [Ranking.step, Leaderboard.step, Leaderboard.erase, getScore]
    rw [h.get]
    have hl : (board r).l = r.scores := rfl
    rw [hl]
    cases scoreOf r.scores id with
    | none => (refine ⟨h, ?_, ?_⟩ <;> first | rfl | trivial)
    | some v => (refine ⟨h, ?_, ?_⟩ <;> first | rfl | trivial)
  | all => (refine ⟨h, ?_, ?_⟩ <;> first | rfl | trivial)
  | size =>
    refine ⟨h, rfl, ?_⟩
    simp only [Ranking.step, Leaderboard.step, Leaderboard.erase, Ranking.size]
    rw [size_eq_length r h]; rfl
  | clear =>
    refine ⟨?_, rfl, rfl⟩
    refine ⟨⟨List.Pairwise.nil, List.nodup_nil, ?_⟩, List.nodup_nil, fun _ => rfl⟩
    intro hc
    have := h.capped hc
    show ((0 : Nat) : Int) ≤ r.cap
    omega
  | dump =>
    refine ⟨h, rfl, ?_⟩
    simp only [Ranking.step, Leaderboard.step, Leaderboard.erase, getScore]
    congr 1
    apply List.map_congr_left
    intro d hd
    have := FMap.get_eq_some_of_mem r.scores h.nodup d hd
    rw [h.get, scoreOf_eq_get, this]; rfl

/-- **`C16_rank_inv`** — after *any* sequence of operations on a new leaderboard (any direction, any
size limit): ordered by score in the configured direction, no competitor twice, at most `cap`
entries, and the `competitors` index holds exactly the listed `(id, score)` pairs. -/
theorem C16_rank_inv (asc : Bool) (c : Option Int) (ops : List Op) : RInv (Ranking.exec (Ranking.new asc c) ops) := by
  suffices ∀ r, RInv r → RInv (Ranking.exec r ops) from this _ (rinv_new asc c)
  induction ops with
  | nil => intro r h; exact h
  | cons op ops ih => intro r h; exact ih _ (C16_rank_step r h op).1

/-- the abstract board never changes direction or size limit -/
theorem board_step_cfg (b : Board) (op : Op) :
    (Leaderboard.step b op).1.asc = b.asc ∧ (Leaderboard.step b op).1.cap = b.cap := by
  cases op <;> simp only [Leaderboard.step] <;> (try exact ⟨rfl, rfl⟩) <;> (try trivial)
  · unfold submit; repeat' split
    all_goals first | exact ⟨rfl, rfl⟩ | trivial
  all_goals (repeat' split)
  all_goals first | exact ⟨rfl, rfl⟩ | trivial

/-- the size limit of a leaderboard is positive and never changes (`WithBinarySearchCount` maps
non-positive requests to 1, the default is 100) -/
theorem C16_rank_cap_pos (asc : Bool) (c : Option Int) (ops : List Op) :
    (Ranking.exec (Ranking.new asc c) ops).cap > 0 := by
  have h0 : (Ranking.new asc c).cap > 0 := by
    unfold Ranking.new
    cases c with
    | none => show (100 : Int) > 0; decide
    | some k => show (if k ≤ 0 then (1 : Int) else k) > 0; split <;> omega
  suffices ∀ r, RInv r → r.cap > 0 → (Ranking.exec r ops).cap > 0 from this _ (rinv_new asc c) h0
  induction ops with
  | nil => intro r _ h; exact h
  | cons op ops ih =>
    intro r h hc
    obtain ⟨h1, h2, _⟩ := C16_rank_step r h op
    apply ih _ h1
    have : (Ranking.step r op).1.cap = (board (Ranking.step r op).1).cap := rfl
    rw [this, h2, (board_step_cfg (board r) op).2]
    exact hc

/-- the invariant spelled out -/
theorem C16_rank_inv_spelled (asc : Bool) (c : Option Int) (ops : List Op) :
    let r := Ranking.exec (Ranking.new asc c) ops
    r.scores.Pairwise (fun a b => key r.asc a.2 ≥ key r.asc b.2) ∧ (r.scores.map (·.1)).Nodup ∧
      (r.scores.length : Int) ≤ r.cap ∧
      (∀ id s, r.comp.get id = some s ↔ (id, s) ∈ r.scores) ∧ r.size = r.scores.length := by
  intro r
  have h := C16_rank_inv asc c ops
  refine ⟨h.sorted, h.nodup, h.capped (C16_rank_cap_pos asc c ops), ?_, size_eq_length _ h⟩
  intro id s
  rw [h.get]
  constructor
  · exact FMap.mem_of_get_eq_some _ _ _
  · intro hm; exact FMap.get_eq_some_of_mem _ h.nodup (id, s) hm

/-- **refinement, all operation sequences**: a new leaderboard answers exactly like the abstract board -/
theorem C16_rank_refines (asc : Bool) (c : Option Int) (ops : List Op) :
    Leaderboard.eraseAll ops (Ranking.run (Ranking.new asc c) ops) =
      Leaderboard.eraseAll ops (Leaderboard.run (board (Ranking.new asc c)) ops) := by
  suffices ∀ r, RInv r → Leaderboard.eraseAll ops (Ranking.run r ops) =
      Leaderboard.eraseAll ops (Leaderboard.run (board r) ops) from this _ (rinv_new asc c)
  induction ops with
  | nil => intro r h; rfl
  | cons op ops ih =>
    intro r h
    obtain ⟨h1, h2, h3⟩ := C16_rank_step r h op
    unfold Ranking.run Leaderboard.run
    simp only [Leaderboard.eraseAll]
    rw [ih _ h1, h2]
    congr 1
    cases op <;> first | rfl | exact h3

/-- **`C16_rank_inverse`** — rank lookup and competitor-at-rank are inverse: `GetRank(GetCompetitor(k)) = k`
for every occupied rank … -/
theorem C16_rank_inverse (r : Ranking) (h : RInv r) (k : Nat) (hk : k < r.scores.length) :
    ∃ id, r.getCompetitor k = some id ∧ r.getRank id = .ok k := by
  refine ⟨r.scores[k].1, ?_, getRank_ok r h k hk⟩
  unfold getCompetitor
  simp [hk]

/-- … and `GetCompetitor(GetRank(id)) = id` for every listed competitor; an unlisted one has no rank. -/
theorem C16_rank_inverse' (r : Ranking) (h : RInv r) (id : Int) :
    (∃ k, r.getRank id = .ok k ∧ r.getCompetitor k = some id) ∨
      (r.getRank id = .errNotExist ∧ r.getScore id = none) := by
  cases hv : scoreOf r.scores id with
  | none =>
    right
    have h1 : r.comp.get id = none := by rw [h.get, hv]
    exact ⟨getRank_absent r id h1, h1⟩
  | some v =>
    left
    obtain ⟨p, hp, hpe⟩ := exists_idx_of_scoreOf hv
    have hid : r.scores[p].1 = id := by rw [hpe]
    have h1 := getRank_ok r h p hp
    rw [hid] at h1
    refine ⟨p, h1, ?_⟩
    unfold getCompetitor
    simp [hp, hid]

/-- **`C16_rank_search_terminates`** — in every reachable state no method runs out of fuel (the Go loop
of `GetRank` cannot spin: the tie scan always finds the competitor) and no slice index is out of range. -/
theorem C16_rank_search_terminates (r : Ranking) (h : RInv r) (id s : Int) :
    (r.getRank id ≠ .hang ∧ r.getRank id ≠ .panic) ∧
      (∃ r' es, r.competitor id s = .done r' es) ∧ (∃ r' es, r.remove id = .done r' es) := by
  refine ⟨?_, ?_, ?_⟩
  · rcases C16_rank_inverse' r h id with ⟨k, hk, _⟩ | ⟨hk, _⟩ <;> rw [hk] <;> exact ⟨by simp, by simp⟩
  · obtain ⟨r', es, h1, _⟩ := competitor_refines r h id s; exact ⟨r', es, h1⟩
  · obtain ⟨r', es, h1, _⟩ := remove_refines r h id; exact ⟨r', es, h1⟩

end MV.Props.C16

namespace MV.Props.C16
open MV.Model MV.Model.Ranking MV.Spec MV.Spec.Leaderboard

/-! ## scores and the membership rule of the size limit (statements about the abstract board, which the
model refines by `C16_rank_refines`/`C16_rank_step`) -/

theorem getElem_insertAt_self (l : List (Int × Int)) (p : Nat) (x : Int × Int) (hp : p ≤ l.length) :
    (insertAt l p x)[p]'(by rw [length_insertAt _ _ _ hp]; omega) = x := by
  unfold insertAt
  rw [List.getElem_append_right (by simp; omega)]
  simp [Nat.min_eq_left hp]

/-- an already listed competitor always stays listed, with the score it submitted last -/
theorem C16_rank_update_listed (b : Board) (id s v : Int) (h : scoreOf b.l id = some v) :
    scoreOf (submit b id s).l id = some s := by
  unfold submit
  rw [h]
  dsimp only
  by_cases he : v = s
  · rw [if_pos he, h, he]
  · rw [if_neg he]
    show scoreOf (insertAt _ _ _) id = _
    rw [scoreOf_insertAt _ _ _ _ (by rw [scoreOf_eraseId]; simp)]
    simp

/-- **membership rule of the cap** for a newcomer: refused (board unchanged) exactly when the board is full
and the score does not strictly beat the last entry; otherwise listed with its score. -/
theorem C16_rank_membership (b : Board) (hg : Good b) (id s : Int) (h : scoreOf b.l id = none) :
    (refuses b s = true → submit b id s = b) ∧
      (refuses b s = false → scoreOf (submit b id s).l id = some s) := by
  unfold submit
  rw [h]
  dsimp only
  constructor
  · intro hr; rw [if_pos hr]
  · intro hr
    have hr' : ¬ refuses b s = true := by rw [hr]; simp
    rw [if_neg hr']
    dsimp only
    have hpos := pos_isPos hg.1 s
    have hN := nodupIds_insertAt hg.2.1 id s (pos b.asc b.l s) h
    have hL := length_insertAt b.l (pos b.asc b.l s) (id, s) hpos.1
    have hins : scoreOf (insertAt b.l (pos b.asc b.l s) (id, s)) id = some s := by
      rw [scoreOf_insertAt _ _ _ _ h]; simp
    by_cases hc : b.cap > 0 ∧ ((insertAt b.l (pos b.asc b.l s) (id, s)).length : Int) > b.cap
    · rw [if_pos hc]
      have hlen0 : 0 < (insertAt b.l (pos b.asc b.l s) (id, s)).length := by omega
      rw [dropLast_eq_eraseId hN hlen0, scoreOf_eraseId, hins]
      -- the dropped entry is not the newcomer: the newcomer sits at `pos < len`
      have hfull : b.cap > 0 ∧ (b.l.length : Int) ≥ b.cap := by omega
      have hposlt : pos b.asc b.l s < b.l.length := by
        apply Nat.lt_of_le_of_ne hpos.1
        intro e
        -- full and `pos = len` ⇒ the newcomer does not beat the last entry ⇒ refused
        apply hr'
        unfold refuses
        dsimp only
        have hlt : b.l.length - 1 < b.l.length := by omega
        have : decide (b.cap > 0 ∧ (b.l.length : Int) ≥ b.cap) = true := by simp [hfull]
        rw [this, List.getLast?_eq_getElem?, List.getElem?_eq_getElem hlt]
        dsimp only
        have := hpos.2.1 (b.l.length - 1) hlt (by omega)
        have : ¬ rcmp b.asc s (b.l[b.l.length - 1]).2 > 0 := by
          intro hh; have := (rcmp_pos _ _ _).mp hh; omega
        simp [this]
      have hself := getElem_insertAt_self b.l (pos b.asc b.l s) (id, s) hpos.1
      have hne : ¬ id = ((insertAt b.l (pos b.asc b.l s) (id, s))[(insertAt b.l (pos b.asc b.l s) (id, s)).length - 1]'(by omega)).1 := by
        intro e
        have := nodup_idx hN (pos b.asc b.l s) ((insertAt b.l (pos b.asc b.l s) (id, s)).length - 1)
          (by omega) (by omega) (by rw [hself]; exact e)
        omega
      simp [hne]
    · rw [if_neg hc]; exact hins

/-- a submission never changes the score of another competitor that is still listed afterwards -/
theorem C16_rank_others_unchanged (b : Board) (hg : Good b) (id s id' v' : Int) (hne : id' ≠ id)
    (h : scoreOf (submit b id s).l id' = some v') : scoreOf b.l id' = some v' := by
  unfold submit at h
  cases hv : scoreOf b.l id with
  | some v =>
    rw [hv] at h
    dsimp only at h
    by_cases he : v = s
    · rw [if_pos he] at h; exact h
    · rw [if_neg he] at h
      change scoreOf (insertAt _ _ _) id' = _ at h
      rw [scoreOf_insertAt _ _ _ _ (by rw [scoreOf_eraseId]; simp), if_neg hne, scoreOf_eraseId, if_neg hne] at h
      exact h
  | none =>
    rw [hv] at h
    dsimp only at h
    by_cases hr : refuses b s = true
    · rw [if_pos hr] at h; exact h
    · rw [if_neg hr] at h
      dsimp only at h
      have hpos := pos_isPos hg.1 s
      have hN := nodupIds_insertAt hg.2.1 id s (pos b.asc b.l s) hv
      have hL := length_insertAt b.l (pos b.asc b.l s) (id, s) hpos.1
      by_cases hc : b.cap > 0 ∧ ((insertAt b.l (pos b.asc b.l s) (id, s)).length : Int) > b.cap
      · rw [if_pos hc] at h
        have hlen0 : 0 < (insertAt b.l (pos b.asc b.l s) (id, s)).length := by omega
        rw [dropLast_eq_eraseId hN hlen0, scoreOf_eraseId] at h
        split at h
        · cases h
        · rw [scoreOf_insertAt _ _ _ _ hv, if_neg hne] at h; exact h
      · rw [if_neg hc] at h
        rw [scoreOf_insertAt _ _ _ _ hv, if_neg hne] at h; exact h

/-- **`C16_absent_total` (leaderboard)** — operations on a competitor that is not listed are total no-ops
(in every reachable state): `RemoveCompetitor` changes nothing and fires no event, `GetRank` / `GetScore`
answer `ErrNotExistCompetitor`. -/
theorem C16_absent_total_rank (r : Ranking) (id : Int) (h : r.comp.get id = none) :
    Ranking.step r (.remove id) = (r, .rows []) ∧ Ranking.step r (.rank id) = (r, .err 1) ∧
      Ranking.step r (.score id) = (r, .err 1) := by
  refine ⟨?_, ?_, ?_⟩
  · simp [Ranking.step, Ranking.remove, h]
  · simp [Ranking.step, getRank_absent r id h]
  · simp [Ranking.step, Ranking.getScore, h]

/-! ## non-vacuity: the hypotheses are met and the conclusions are not trivially true -/

example : Ranking.run (Ranking.new false (some 2))
    [.competitor 1 5, .competitor 2 5, .competitor 3 7, .dump, .rank 2, .competitor 2 9, .all, .size, .competitor 4 7, .dump] =
    [.rows [[1, -1, 0, 0, 5]], .rows [[2, -1, 1, 0, 5]], .rows [[3, -1, 0, 0, 7], [2, 2, -1, 5, 5]],
     .rows [[3, 7], [1, 5]], .err 1, .rows [[2, -1, 0, 0, 9], [1, 2, -1, 5, 5]], .ints [2, 3], .int 2,
     .rows [], .rows [[2, 9], [3, 7]]] := by decide

/-- without the invariant the rank search really can spin: a stale index entry makes the tie scan fail
for ever (the model answers `hang`) — the invariant is what `C16_rank_search_terminates` needs -/
example : Ranking.getRank { asc := false, cap := 3, comp := [(9, 5)], scores := [(1, 5), (2, 5)] } 9 = .hang := by
  decide

end MV.Props.C16
