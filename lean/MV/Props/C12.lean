import MV.Lemmas.RegistryTrace
import MV.Lemmas.Address
/-!
# C12 — an address resolves to its currently registered process, or to dead letters

## Registry (`engine/prc/resource_controller.go`)

Model: `MV.Model.Registry` — one atomic shared-memory operation per step (`LoadOrStore`;
`LoadAndDelete`, `Terminate`; cache load, `IsTerminated`, cache clear, map load, cache store), any
number of concurrent callers of `Register` / `Unregister` / `GetProcess` over any addresses and any
shared or private reference objects, arriving at any moment.  Quantifier: **every schedule**
`sched : List (Ev PC)`.  The model records, as ghost state, the trace `tr` of `call` / `lin` / `ret`
events; the `lin` events are the instants at which the operations take effect (between call and return
by construction of `trans`: the `call` event is the thread's first step, the `ret` event its last).

Specification: `MV.Spec.Registry.applyLin` — the sequential map in three strengths (`atomic`,
`stated`, `code`), see there.  The judge of the harness applies the same automaton to the histories the
implementation produces.

What is proved, for every schedule:
* `C12_register_first_wins` — a `Register` on a taken address is refused and changes nothing;
* `C12_linearization_legal_partial` — the `lin` events form a legal run of the `code` automaton whose
  state is the model's map: registration is first-wins, lookups return the current registrant or the
  substitute — or a process in limbo (removed by a `LoadAndDelete` whose `Terminate` has not run yet);
* `C12_lookup_current_partial` — as long as no `Register` has stored a new registrant while the old one
  was in limbo, the run is legal for the property **as stated** (`stated` automaton);
* `C12_trace_linearizes_partial` — moreover the whole ghost trace passes `checkTrace .code`: it is a
  linearisation proof of the execution's own call/return history (per operation `call < lin < ret`,
  returned value = linearised value);
* `C12_never_removed_after_unregister` — once an `Unregister` that removed `p` has returned, no lookup
  ever decides for `p` again, whatever happens later.

`…_partial`: the full statement (legal for `stated` on every schedule) is **false** for the unchanged
code — `MV.Findings.C12` has the schedule (3 threads, 5 steps after the set-up).  Outside the theorems
(trusted): per-key atomicity of `xsync.MapOf`; sequential consistency of `atomic.Pointer` / `atomic.Bool`.

## Address algebra (`engine/prc/process_id.go`)

`MV.Model.Address`: `Derivation`, `Equal`, `Clone`, `URL` over `List Char`, for all strings.
-/
namespace MV.Props.C12
open MV.Model.Conc MV.Model.Registry MV.Spec.Registry MV.Lemmas.Registry

/-! ## registry -/

/-- **first wins**: `LoadOrStore` on a taken address answers `exist` and leaves the map, the
terminated flags, the caches and the limbo list untouched (only the caller's own, never published,
process object is consumed) -/
theorem C12_register_first_wins (g : G) (k : Nat) (a : Addr) (q : Proc) (h : g.map a = some q) :
    ∃ g', MV.Model.Registry.trans g (.rLos k a) = some (g', .done, []) ∧
      g'.map = g.map ∧ g'.term = g.term ∧ g'.cache = g.cache ∧ g'.limbo = g.limbo ∧
      g'.tr = g.tr ++ [.lin k (.reg a g.nextProc false), .ret k .regExist] := by
  simp only [MV.Model.Registry.trans, h]
  exact ⟨_, rfl, rfl, rfl, rfl, rfl, rfl⟩

/-- … and on a free address it stores the caller's process and answers `ok` -/
theorem C12_register_free_stores (g : G) (k : Nat) (a : Addr) (h : g.map a = none) :
    ∃ g', MV.Model.Registry.trans g (.rLos k a) = some (g', .done, []) ∧
      g'.map a = some g.nextProc ∧ (∀ a', a' ≠ a → g'.map a' = g.map a') ∧
      g'.tr = g.tr ++ [.lin k (.reg a g.nextProc true), .ret k (.regOk g.nextProc)] := by
  simp only [MV.Model.Registry.trans, h]
  refine ⟨_, rfl, by simp [upd], ?_, rfl⟩
  intro a' ha; simp [upd, ha]

/-- **every execution linearizes to the `code` automaton**: the `lin` events, in trace order, are a
legal run of the sequential registry in which a lookup returns the current registrant, the substitute
when there is none, or a process in limbo; the run ends in the model's map.  In particular every
`Register` that succeeded found the address free at its instant and every refused one found it taken. -/
theorem C12_linearization_legal_partial (sched : List (Ev PC)) :
    let s := exec sys init sched
    runLins .code Abs.init (lins s.g.tr) = some (absOf s.g) :=
  (all_reachable sched).ginv.legal

/-- **the property as stated, under the hypothesis that excludes the finding**: if no `Register` has
stored a new registrant while the previous one was still in limbo (`regInWindow = false`), every
lookup returned the registrant of its instant, the substitute when there was none, or — while the
address is free — the process of an `Unregister` that is still in progress. -/
theorem C12_lookup_current_partial (sched : List (Ev PC))
    (h : (exec sys init sched).g.regInWindow = false) :
    let s := exec sys init sched
    runLins .stated Abs.init (lins s.g.tr) = some (absOf s.g) :=
  (all_reachable sched).ginv.legalStated h

/-- **the trace of every execution is a linearisation proof of its own call/return history** for the
`code` automaton (`checkTrace` is the `Bool` the oracle can evaluate): the `lin` events are a legal
run; every event belongs to an allocated operation id; and the events of each operation are, in trace
order, `call`, `lin` (for `Unregister` that removed something: `del` then `term`), `ret` — or a prefix
while it is pending — with the returned value equal to the linearised one.  Since all events sit in
one global trace, an operation that returned before another was called has its instant first
(real-time order). -/
theorem C12_trace_linearizes_partial (sched : List (Ev PC)) :
    let s := exec sys init sched
    checkTrace .code s.g.nextOp s.g.tr = true :=
  checkTrace_code sched

/-- the same for the property as stated, under the hypothesis that excludes the finding -/
theorem C12_trace_linearizes_stated_partial (sched : List (Ev PC))
    (h : (exec sys init sched).g.regInWindow = false) :
    let s := exec sys init sched
    checkTrace .stated s.g.nextOp s.g.tr = true :=
  checkTrace_stated sched h

/-- no two threads ever work on the same operation id (the bracketing is per operation) -/
theorem C12_operation_ids_unique (sched : List (Ev PC)) (k : Nat) :
    (exec sys init sched).ths.countP (hasOp k) ≤ 1 :=
  ((all_bracketed sched).uniq k).1

/-- the moment a lookup trusts its cache (`IsTerminated` answered false), the cached process is the
current registrant of the address or in limbo — in every reachable state, for every thread -/
theorem C12_cached_answer_current_or_limbo (sched : List (Ev PC)) (i k : Nat) (r : Ref) (p : Proc)
    (hpc : (exec sys init sched).ths[i]? = some (.gIsTerm k r p))
    (hnt : (exec sys init sched).g.term p = false) :
    (exec sys init sched).g.map r.addr = some p ∨ (r.addr, p) ∈ (exec sys init sched).g.limbo := by
  have h := (all_reachable sched).locals _ (List.mem_of_getElem? hpc)
  rcases h with h | h | h
  · rw [hnt] at h; cases h
  · exact Or.inl h
  · exact Or.inr h

/-- whatever a reference object has cached is terminated, current, or in limbo (cache coherence) -/
theorem C12_cache_coherent (sched : List (Ev PC)) (r : Ref) (p : Proc)
    (h : (exec sys init sched).g.cache r = some p) :
    (exec sys init sched).g.term p = true ∨ (exec sys init sched).g.map r.addr = some p ∨
      (r.addr, p) ∈ (exec sys init sched).g.limbo :=
  (all_reachable sched).ginv.cacheCoh r p h

/-- **never the removed one**: once the `Unregister` that removed `p` has returned (`p ∈ gone` after
`sched`), then after any continuation `more` the process is still gone, it is terminated, no address
maps to it, and none of the trace events added by `more` is a lookup deciding for `p`. -/
theorem C12_never_removed_after_unregister (sched more : List (Ev PC)) (p : Proc)
    (hp : p ∈ (exec sys init sched).g.gone) :
    let s := exec sys init sched
    let s' := exec sys init (sched ++ more)
    p ∈ s'.g.gone ∧ s'.g.term p = true ∧ (∀ a, s'.g.map a ≠ some p) ∧
      ∃ evs, s'.g.tr = s.g.tr ++ evs ∧ ∀ e ∈ evs, decides p e = false := by
  intro s s'
  have hs' : s' = exec sys s more := by simp [s', s, exec, List.foldl_append]
  have key : SInv s' ∧ p ∈ s'.g.gone ∧ ∃ evs, s'.g.tr = s.g.tr ++ evs ∧ ∀ e ∈ evs, decides p e = false := by
    rw [hs']
    refine exec_inv sys
      (fun t => SInv t ∧ p ∈ t.g.gone ∧ ∃ evs, t.g.tr = s.g.tr ++ evs ∧ ∀ e ∈ evs, decides p e = false)
      ?_ ?_ s ⟨all_reachable sched, hp, [], by simp, by intro e he; cases he⟩ more
    · intro t t' i ⟨hI, hg, evs, htr, hev⟩ hst
      obtain ⟨evs', htr', hgone, hdec⟩ := step_trace t t' i hI hst
      refine ⟨sinv_step t t' i hI hst, hgone p hg, evs ++ evs', by rw [htr', htr, List.append_assoc], ?_⟩
      intro e he
      rcases List.mem_append.mp he with he | he
      · exact hev e he
      · exact hdec p hg e he
    · intro t pc ⟨hI, hg, hev⟩ ha
      exact ⟨sinv_spawn t pc hI ha, hg, hev⟩
  obtain ⟨hI, hg, hev⟩ := key
  exact ⟨hg, (hI.ginv.goneDead p hg).1, (hI.ginv.goneDead p hg).2, hev⟩

/-- registered processes are distinct objects: no process is stored under two addresses, and process
ids are never reused (`Register` is given a fresh process object) -/
theorem C12_map_injective (sched : List (Ev PC)) (a a' : Addr) (p : Proc)
    (h1 : (exec sys init sched).g.map a = some p) (h2 : (exec sys init sched).g.map a' = some p) : a = a' :=
  (all_reachable sched).ginv.inj a a' p h1 h2

/-- non-vacuity: register, look up through a caching reference (cache filled), unregister, register
again, look up through the same reference: the stale cache entry is noticed (`IsTerminated`), cleared,
and the new registrant is returned -/
example :
    let s := exec sys init [.spawn (.rCall 0), .run 0, .run 0,
      .spawn (.gCall ⟨0, 0⟩), .run 1, .run 1, .run 1, .run 1,
      .spawn (.uCall 0), .run 2, .run 2, .run 2,
      .spawn (.rCall 0), .run 3, .run 3,
      .spawn (.gCall ⟨0, 0⟩), .run 4, .run 4, .run 4, .run 4, .run 4, .run 4]
    s.g.tr.filterMap (fun e => match e with | .ret k r => some (k, r) | _ => none) =
      [(0, .regOk 1), (1, .proc (some 1)), (2, .unit), (3, .regOk 2), (4, .proc (some 2))] ∧
    s.g.regInWindow = false ∧ s.g.gone = [1] ∧ s.g.cache ⟨0, 0⟩ = some 2 := by
  decide

/-! ## address algebra -/
open MV.Model.Address MV.Lemmas.Address

/-- a derived reference lives on the parent's node -/
theorem C12_derivation_keeps_node (p : Pid) (n : List Char) : (derivation p n).phys = p.phys := rfl

/-- exact characterisation: two names derived from one parent give the same reference iff the names
are equal, or the parent is not the root `/` and the names differ by exactly one leading slash -/
theorem C12_derivation_eq_iff (p : Pid) (n1 n2 : List Char) :
    derivation p n1 = derivation p n2 ↔
      (n1 = n2 ∨ (p.logical ≠ ['/'] ∧
        ((hasSlashPrefix n1 = false ∧ n2 = '/' :: n1) ∨ (hasSlashPrefix n2 = false ∧ n1 = '/' :: n2)))) := by
  rw [derivation_eq_iff_norm, normName_eq_iff]

/-- **distinct names → distinct derived references**, under the guard the code needs: the parent is the
root, or neither name starts with `/` (for names with a leading slash see `MV.Findings.C12`) -/
theorem C12_derivation_injective (p : Pid) (n1 n2 : List Char)
    (guard : p.logical = ['/'] ∨ (hasSlashPrefix n1 = false ∧ hasSlashPrefix n2 = false))
    (h : derivation p n1 = derivation p n2) : n1 = n2 := by
  rcases (C12_derivation_eq_iff p n1 n2).mp h with e | ⟨hl, ⟨_, e⟩ | ⟨_, e⟩⟩
  · exact e
  · rcases guard with g | ⟨_, g⟩
    · exact absurd g hl
    · rw [e] at g; simp [hasSlashPrefix] at g
  · rcases guard with g | ⟨g, _⟩
    · exact absurd g hl
    · rw [e] at g; simp [hasSlashPrefix] at g

/-- **two references are equal exactly when both exist and node and logical address both match** -/
theorem C12_equal_iff (a b : Option Pid) :
    equal a b = true ↔ ∃ x y, a = some x ∧ b = some y ∧ x.phys = y.phys ∧ x.logical = y.logical := by
  cases a with
  | none => simp [equal]
  | some x =>
    cases b with
    | none => simp [equal]
    | some y =>
      simp only [equal]
      by_cases h1 : x.phys = y.phys <;> by_cases h2 : x.logical = y.logical <;> simp [h1, h2]

/-- `Equal` on existing references is equality of the address pair -/
theorem C12_equal_iff_eq (x y : Pid) : equal (some x) (some y) = true ↔ x = y := by
  rw [C12_equal_iff]
  constructor
  · rintro ⟨x', y', hx, hy, h1, h2⟩
    cases hx; cases hy
    cases x; cases y; simp_all
  · rintro rfl; exact ⟨x, x, rfl, rfl, rfl, rfl⟩

/-- a clone is equal to its original; the URL determines the reference -/
theorem C12_clone_equal (x : Pid) : equal (some (clone x)) (some x) = true := by
  rw [C12_equal_iff_eq]; rfl

theorem C12_url_injective (x y : Pid) (h : url (some x) = url (some y)) : x = y := by
  have h1 : x.phys = y.phys := congrArg Url.host h
  have h2 : x.logical = y.logical := congrArg Url.path h
  cases x; cases y; simp only [Pid.mk.injEq]; exact ⟨h1, h2⟩

/-- non-vacuity -/
example : derivation ⟨['n'], ['/', 'u']⟩ ['a'] = ⟨['n'], ['/', 'u', '/', 'a']⟩ := by
  simp [derivation, normName, hasSlashPrefix]
example : derivation ⟨['n'], ['/']⟩ ['u'] = ⟨['n'], ['/', 'u']⟩ := by
  simp [derivation, normName, hasSlashPrefix]
example : derivation ⟨['n'], ['/']⟩ ['/', 'u'] = ⟨['n'], ['/', '/', 'u']⟩ := by
  simp [derivation, normName, hasSlashPrefix]

end MV.Props.C12
