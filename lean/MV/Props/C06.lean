import MV.Lemmas.ActorSysTurns
import MV.Spec.ActorSys
/-!
# C06 — parent and watchers learn of a termination exactly once

Model, tie and quantifiers as for C03.  Proved here:

* a `Watch` on an address that is not (or no longer) registered is answered at once with
  `Terminated(address)` to the watcher (`C06_watch_on_dead_address_answered`) — the case "watching an
  address that no longer or never existed";
* the watcher table never holds one watcher twice (`C06_watchers_nodup_step`), so the notification
  loop of `tryTerminated` tells each watcher once; the parent is skipped there and told right after;
* only the actor itself records handler invocations in its own step (`C06_notification_handled_by_observer`),
  so an `OnTerminated(t)` observed at `o` was handled by `o`.

The global counting statement (exactly one per parent/watcher, none for others) is checked on the real
system by the `c06*` judges over the recorded events; two defects it found are fixed in /repo.
-/
namespace MV.Props.C06
open MV.Model.ActorSys MV.Spec.ActorSys

theorem C06_watch_on_dead_address_answered (w : World) (t sd : Aid)
    (hdead : isLive w t = false) (hlive : isLive w sd = true) :
    (actorAt (((sendSys t .watch (some sd)).run).run w).2 sd).sysQ =
      (actorAt w sd).sysQ ++ [(.terminated t, some t)] := by
  have := run_of_triple (sendSys t .watch (some sd)) (fun x => x = w) _ _
    (watch_dead_address_answered t sd w hdead hlive) w rfl
  revert this
  generalize ((sendSys t .watch (some sd)).run).run w = r
  obtain ⟨e, w'⟩ := r
  cases e <;> simp

/-- the update `onWatch` applies to the watcher table keeps it duplicate-free -/
theorem C06_watchers_nodup_step (l : List Aid) (s : Aid) (h : l.Nodup) :
    (if l.contains s then l else l ++ [s]).Nodup := by
  split
  · exact h
  · rename_i hc
    rw [List.nodup_append]
    refine ⟨h, by simp, ?_⟩
    intro a ha b hb
    simp at hb; subst hb
    intro hab; subst hab
    exact hc (by simpa using ha)

/-- … and `onUnWatch` removes the watcher completely -/
theorem C06_unwatch_removes (l : List Aid) (s : Aid) : s ∉ l.filter (· ≠ s) := by
  simp

theorem C06_notification_handled_by_observer (w : World) (op : Op) (es : List Event)
    (h : (step w op).events = w.events ++ es) (o : Aid) (i : Nat) (t : Aid) (s : Option Aid)
    (he : Event.handled o i (.terminated t) s ∈ es) :
    op = .run o ∧ (actorOf w o).status ≠ .terminated := by
  obtain ⟨es', h', hall⟩ := step_evok w op
  have : es = es' := List.append_cancel_left (h.symm.trans h')
  subst this
  have hr := hall _ he
  cases op with
  | run b =>
    simp [stepR, Rh] at hr
    obtain ⟨hab, hobs⟩ := hr
    subst hab
    exact ⟨rfl, hobs.1⟩
  | _ => simp [stepR, Rh] at hr

end MV.Props.C06
