import MV.Model.ActorSys
namespace MV.Props.C06
theorem C06_placeholder : True := trivial
end MV.Props.C06
