import MV.Props.C18
import MV.Model.SharedRestart
/-!
# C18 — the restart back-off of the remoting listener never hands the stop signal to a timer

`C18_shared_restart_delay`: whenever `Shared.runtimeError` decides to retry after the `count`-th consecutive
failure, the delay it takes from a `WithRestartInterval(base, max)` configuration is a real delay in
`[0, max]` — never the stop signal `-1` (which `time.AfterFunc` would turn into "at once") — for every
limit (positive, zero = unlimited, negative = unlimited), every count and every jitter draw, in
whichever order the two options were applied.
-/
namespace MV.Props.C18
open MV.Model.Backoff MV.Model.Backoff.FVal MV.Model.SharedRestart MV.Lemmas.Backoff

theorem C18_shared_restart_delay (limit base max : Int) (count un ud : Nat)
    (hb : 0 ≤ base) (hb' : base < 2 ^ 63) (hm : 0 ≤ max) (hm' : max < 2 ^ 63) (hud : 0 < ud) (hu : un ≤ ud)
    (hr : retries limit count = true) (d : Int)
    (hd : MV.Model.SharedRestart.delay { limit := limit, interval := .backoff base max } count (fin un ud) = some d) :
    d ≠ -1 ∧ 0 ≤ d ∧ d ≤ max := by
  simp only [MV.Model.SharedRestart.delay, Option.some.injEq] at hd
  subst hd
  unfold standard
  have D : DomP { count := count, limit := maxRetries limit, base := base, max := max, mn := 2, md := 1, rn := 1, rd := 2 } :=
    ⟨by show 0 < 1; decide, by show 0 < 2; decide, by show 1 ≤ 2; decide, by show 1 ≤ 2 * 2; decide, hb, hb', hm, hm'⟩
  have hs : ¬ Stops { count := count, limit := maxRetries limit, base := base, max := max, mn := 2, md := 1, rn := 1, rd := 2 } := by
    unfold Stops maxRetries
    simp only [retries, Bool.or_eq_true, decide_eq_true_eq] at hr
    intro hst
    simp only at hst
    split at hst <;> omega
  have hrange := C18_range _ un ud D hud hu hs
  refine ⟨?_, hrange.1, hrange.2⟩
  intro h; rw [h] at hrange; omega

/-- the order of the two options does not matter: the closure reads the limit when it is called -/
theorem C18_shared_restart_order (c : Cfg) (n base max : Int) (count : Nat) (u : FVal) :
    MV.Model.SharedRestart.delay ((c.withBackoff base max).withLimit n) count u =
      MV.Model.SharedRestart.delay ((c.withLimit n).withBackoff base max) count u := rfl

/-- non-vacuity: default limit 10, 11th failure is not retried; with limit 25 (set after the interval) it is -/
example : retries 10 11 = false ∧ retries 25 11 = true ∧ retries 0 1000 = true ∧ retries (-1) 7 = true := by decide

end MV.Props.C18
