import MV.Lemmas.Ring
import MV.Props.C15Unbounded
import MV.Props.C15Queues
import MV.Props.C15History
import MV.Props.C15Pump
/-!
# C15 — queues, ring buffers and unbounded channels are loss-free FIFOs

Files of the property (all theorems live in `namespace MV.Props.C15`):
* this file — `buffer.Ring` (`C15_ring_refines`, `C15_ring_inv`);
* `C15Unbounded.lean` — `buffer.Unbounded` / `channels.UnboundedBacklog` (`C15_unbounded_refines`,
  `C15_unbounded_fifo_any_use`);
* `C15Queues.lean` — `queues.LFQueue` (`C15_msq_linearizable`, `C15_msq_quiescent`) and `queues.MPSC`
  (`C15_mpsc_safe`, `C15_mpsc_pop_head`, `C15_mpsc_quiescent`), interleaving models;
* `C15Pump.lean` — `buffer.RingUnbounded` (`C15_pump_lossless`, `C15_pump_mutex`,
  `C15_pump_closed_accepts_nothing`), lock/cond/channel-level interleaving model;
* `C15History.lean` — the `Bool` judges of the concurrent harness suites are consequences of the
  above (`C15_msq_history_ok`, `C15_mpsc_history_ok`, `C15_unbounded_history_ok`).

## `buffer.Ring` (toolkit/buffer/ring.go)

`C15_ring_refines`: for every initial capacity and *every* operation sequence
(write / read / read-n / read-all / peek / isEmpty / len / cap / reset) the answers of the ring
model are the answers of the abstract list queue — nothing lost, duplicated, reordered or invented,
across growth, wrap-around, bulk reads, peeks and resets; `len`/`isEmpty` match the contents.
-/
namespace MV.Props.C15
open MV.Model MV.Model.Ring MV.Spec

/-- one step: invariant preserved, abstraction commutes, same observable answer -/
theorem C15_ring_step_refines (b : Ring Int) (h : WF b) (op : Op) :
    WF (Ring.step b op).1 ∧ (Ring.step b op).1.abs = (Queue.step b.abs op).1 ∧
      Queue.erase op (Ring.step b op).2 = (Queue.step b.abs op).2 := by
  cases op with
  | write v =>
    exact ⟨write_wf b v h, write_abs b v h, rfl⟩
  | read =>
    have hw := read_wf b h
    obtain ⟨h1, h2⟩ := read_abs b h
    unfold Ring.step Queue.step
    cases hr : b.read with
    | mk o b' =>
      rw [hr] at h1 h2 hw
      cases o with
      | none =>
        cases ha : b.abs with
        | nil => simp_all [Queue.erase]
        | cons x xs => simp_all
      | some v =>
        cases ha : b.abs with
        | nil => simp_all
        | cons x xs => simp_all [Queue.erase]
  | readMulti n =>
    unfold Ring.step Queue.step readMulti
    by_cases hn : n ≤ 0
    · simp [hn, h, Queue.erase]
    · by_cases he : b.r = b.w
      · have := (abs_nil_iff b h).mpr he
        simp [hn, he, this, h, Queue.erase]
      · have hne : ¬ b.abs = [] := fun hh => he ((abs_nil_iff b h).mp hh)
        simp only [hn, he, hne, if_false]
        exact ⟨rmNext_wf b n h he, rmNext_abs b n h he, by simp [Queue.erase, rmData_eq b n h he]⟩
  | readAll =>
    have hw := readAll_wf b h
    obtain ⟨h1, h2⟩ := readAll_abs b h
    unfold Ring.step Queue.step
    cases hr : b.readAll with
    | mk o b' =>
      rw [hr] at h1 h2 hw
      by_cases hn : b.abs = []
      · simp_all [Queue.erase]
      · simp_all [Queue.erase]
  | peek =>
    have hp := peek_abs b h
    unfold Ring.step Queue.step
    cases ho : b.peek with
    | none =>
      rw [ho] at hp
      cases ha : b.abs with
      | nil => simp_all [Queue.erase]
      | cons x xs => simp_all
    | some v =>
      rw [ho] at hp
      cases ha : b.abs with
      | nil => simp_all
      | cons x xs => simp_all [Queue.erase]
  | isEmpty =>
    refine ⟨h, rfl, ?_⟩
    unfold Ring.step Queue.step Queue.erase isEmpty
    have := abs_nil_iff b h
    by_cases he : b.r = b.w
    · simp [he, this.mpr he]
    · have hne : ¬ b.abs = [] := fun hh => he (this.mp hh)
      have e1 : (b.r == b.w) = false := by simp [he]
      have e2 : b.abs.isEmpty = false := by simp [List.isEmpty_iff, hne]
      rw [e1, e2]
  | len =>
    refine ⟨h, rfl, ?_⟩
    simp [Ring.step, Queue.step, Queue.erase]
  | cap =>
    exact ⟨h, rfl, rfl⟩
  | reset =>
    exact ⟨reset_wf b h, reset_abs b, rfl⟩

/-- **Refinement, all operation sequences**: a well-formed ring answers exactly like the list queue
holding its abstraction. -/
theorem C15_ring_refines (b : Ring Int) (h : WF b) (ops : List Op) :
    Queue.eraseAll ops (Ring.run b ops) = Queue.run b.abs ops := by
  induction ops generalizing b with
  | nil => rfl
  | cons op ops ih =>
    obtain ⟨hw, ha, ho⟩ := C15_ring_step_refines b h op
    unfold Ring.run Queue.run
    simp only [Queue.eraseAll]
    rw [ih _ hw, ha, ho]

/-- every ring returned by `NewRing` (any requested capacity, also < 2) is a loss-free FIFO -/
theorem C15_ring_new_refines (k : Int) (ops : List Op) :
    Queue.eraseAll ops (Ring.run (Ring.new 0 k) ops) = Queue.run [] ops := by
  have := C15_ring_refines (Ring.new 0 k) (new_wf 0 k) ops
  rwa [new_abs] at this

/-- the representation invariant holds in every reachable state -/
theorem C15_ring_inv (k : Int) (ops : List Op) :
    WF (ops.foldl (fun b op => (Ring.step b op).1) (Ring.new 0 k)) := by
  suffices ∀ b : Ring Int, WF b → WF (ops.foldl (fun b op => (Ring.step b op).1) b) from
    this _ (new_wf 0 k)
  induction ops with
  | nil => intro b h; exact h
  | cons op ops ih => intro b h; exact ih _ (C15_ring_step_refines b h op).1

/-- non-vacuity: a wrapped, grown ring meets the hypotheses and answers as the list does -/
example : Ring.run (Ring.new 0 2) [.write 1, .write 2, .read, .write 3, .write 4, .readMulti 2, .readAll]
    = [.unit, .unit, .val 1, .unit, .unit, .list [2, 3], .list [4]] := by decide

end MV.Props.C15
