import MV.Lemmas.ActorSysTreeRun
/-!
# C05 — run-level theorems: children terminate first, Shutdown waits for everyone

For every behaviour table (user code), every supervision strategy and every schedule of the Layer-2
model (`MV.Model.ActorSys`: `exec (init behs) ops`, one mailbox message per step, external sends /
spawns / terminate requests / timer firings in between):

* `C05_children_first`: an actor is `terminated` only when every actor it ever created is;
* `C05_descendants_first`: the same for all descendants;
* `C05_shutdown_waits`: the channel `Shutdown` waits on is closed only when EVERY actor is terminated;
* `C05_tree_invariant`: the invariant behind them (`MV.Model.ActorSys.TI`), e.g. a queued
  `Terminated(x)` notification is always about an actor that has terminated, only a terminated actor is
  unregistered, a living actor is listed in its parent's children table.

Hypotheses, each of them the exact boundary of a recorded finding or a model artefact:
* `BehOK` — the handler of an actor's OWN `OnTerminated` creates no children (known finding
  `C05-child-spawned-during-termination-outlives-parent`; without it the statement is false:
  `MV.Props.C05.C05_late_spawn_counterexample`);
* `RunOK` — nobody calls `system.ActorOf` after the guard has terminated (the same finding, from outside);
* fewer than `ghostBase` (500 000) actors are created: the model numbers never-existing addresses from there.
-/
namespace MV.Props.C05
open MV.Model.ActorSys

/-- the world `init` starts from: the guard alone, its `OnLaunch` queued -/
def preInit (behs : List BehDef) : World :=
  { behs := [({ actorStrategy := some { limit := 10, table := [.restart] } } : BehDef), ({} : BehDef)] ++ behs,
    actors := [{ beh := 0, parent := none, sysQ := [(.launch, none)], hasRunner := true }] }

theorem init_eq (behs : List BehDef) : init behs = extern (do let _ ← spawnChild 0 1) (preInit behs) := rfl

theorem preInit_behs_ok (behs : List BehDef) (h : ∀ b ∈ behs, BehOK b) : ∀ b ∈ (preInit behs).behs, BehOK b := by
  intro b hb
  simp only [preInit, List.cons_append, List.nil_append, List.mem_cons] at hb
  rcases hb with rfl | rfl | hb
  · intro r hr; simp at hr
  · intro r hr; simp at hr
  · exact h b hb

theorem preInit_actor (behs : List BehDef) (a : Aid) (ha : a < nA (preInit behs)) :
    a = 0 ∧ actorAt (preInit behs) a = { beh := 0, parent := none, sysQ := [(.launch, none)], hasRunner := true } := by
  have : a = 0 := by simp [preInit, nA] at ha; exact ha
  subst this
  exact ⟨rfl, rfl⟩

theorem preInit_TI (behs : List BehDef) (h : ∀ b ∈ behs, BehOK b) : TI (preInit behs) := by
  refine ⟨?_, ?_, ?_, ?_, ?_, ?_, ?_, ?_, ?_, ?_, ?_, ?_, ?_, preInit_behs_ok behs h⟩
  · intro c hc p hp; obtain ⟨rfl, hx⟩ := preInit_actor behs c hc; rw [hx] at hp; cases hp
  · intro a ha who s hm; obtain ⟨rfl, hx⟩ := preInit_actor behs a ha; rw [hx] at hm; simp at hm
  · intro a ha hr; obtain ⟨rfl, hx⟩ := preInit_actor behs a ha; rw [hx] at hr; cases hr
  · intro a ha hd; obtain ⟨rfl, hx⟩ := preInit_actor behs a ha; rw [hx] at hd; cases hd
  · intro a ha m x hm; obtain ⟨rfl, hx⟩ := preInit_actor behs a ha; rw [hx] at hm; simp at hm
  · intro a ha m x hm; obtain ⟨rfl, hx⟩ := preInit_actor behs a ha; rw [hx] at hm; simp at hm
  · intro a ha; obtain ⟨rfl, hx⟩ := preInit_actor behs a ha; rw [hx]; trivial
  · intro a ha hs; obtain ⟨rfl, hx⟩ := preInit_actor behs a ha; rw [hx] at hs; cases hs
  · intro a ha hs; obtain ⟨rfl, hx⟩ := preInit_actor behs a ha; rw [hx] at hs; cases hs
  · intro a ha; obtain ⟨rfl, hx⟩ := preInit_actor behs a ha; rw [hx]; intro k i s hk; simp at hk
  · intro a ha _; exact (preInit_actor behs a ha).1
  · intro hc; cases hc
  · intro p hp; simp [preInit] at hp

/-- the initial world of every run satisfies what is carried along (`Reach`) -/
theorem init_reach (behs : List BehDef) (h : ∀ b ∈ behs, BehOK b) : Reach (init behs) := by
  have hti := preInit_TI behs h
  have hJ : J (preInit behs) := fun _ => hti
  have h0 : 0 < nA (preInit behs) := by simp [preInit, nA]
  have hs : Steps (preInit behs) (init behs) := by
    rw [init_eq]; unfold extern
    exact (run_of_stable _ _ (spawnTop_gs hJ (actorAt (preInit behs) 0).status 1 h0 (by rw [(preInit_actor behs 0 h0).2]; decide)) _
      ⟨Steps.refl _, rfl⟩).1
  exact ⟨J_steps hs hJ, by rw [hs.behs_eq]; exact preInit_behs_ok behs h, Nat.lt_of_lt_of_le h0 hs.nA_le⟩

/-- **the invariant holds in every reachable world** -/
theorem C05_tree_invariant (behs : List BehDef) (hb : ∀ b ∈ behs, BehOK b) (ops : List Op)
    (hok : RunOK (init behs) ops) (hn : nA (exec (init behs) ops) ≤ ghostBase) :
    TI (exec (init behs) ops) :=
  ((init_reach behs hb).exec ops hok).inv hn

/-- **children first**: a terminated actor has no child that is not terminated -/
theorem C05_children_first (behs : List BehDef) (hb : ∀ b ∈ behs, BehOK b) (ops : List Op)
    (hok : RunOK (init behs) ops) (hn : nA (exec (init behs) ops) ≤ ghostBase) (a c : Aid)
    (hc : c < nA (exec (init behs) ops))
    (hpar : (actorAt (exec (init behs) ops) c).parent = some a)
    (hterm : (actorAt (exec (init behs) ops) a).status = .terminated) :
    (actorAt (exec (init behs) ops) c).status = .terminated := by
  have hti := C05_tree_invariant behs hb ops hok hn
  have ha : a < nA (exec (init behs) ops) := lt_of_terminated _ a hterm
  rcases (hti.par c hc a hpar).2 with hin | hd
  · rw [hti.leaf a ha hterm] at hin; cases hin
  · exact hd

/-- `a` is a proper ancestor of `d` (following the parent links, at most `n` levels) -/
def IsAncestor (w : World) (a : Aid) : Nat → Aid → Prop
  | 0, _ => False
  | n + 1, d => ∃ p, (actorAt w d).parent = some p ∧ (p = a ∨ IsAncestor w a n p)

/-- **descendants first**: when an actor is terminated, all of its descendants are -/
theorem C05_descendants_first (behs : List BehDef) (hb : ∀ b ∈ behs, BehOK b) (ops : List Op)
    (hok : RunOK (init behs) ops) (hn : nA (exec (init behs) ops) ≤ ghostBase) (a : Aid)
    (hterm : (actorAt (exec (init behs) ops) a).status = .terminated) (n : Nat) (d : Aid)
    (hd : d < nA (exec (init behs) ops)) (hanc : IsAncestor (exec (init behs) ops) a n d) :
    (actorAt (exec (init behs) ops) d).status = .terminated := by
  induction n generalizing d with
  | zero => exact absurd hanc id
  | succ n ih =>
    obtain ⟨p, hp, hor⟩ := hanc
    have hti := C05_tree_invariant behs hb ops hok hn
    have hpd := (hti.par d hd p hp).1
    have hpt : (actorAt (exec (init behs) ops) p).status = .terminated := by
      rcases hor with rfl | hrec
      · exact hterm
      · exact ih p (Nat.lt_trans hpd hd) hrec
    exact C05_children_first behs hb ops hok hn p d hd hp hpt

/-- **Shutdown waits for everyone**: the channel `Shutdown` blocks on is closed only in worlds where
every actor — the guard, the subscription actor, every actor ever created — is terminated -/
theorem C05_shutdown_waits (behs : List BehDef) (hb : ∀ b ∈ behs, BehOK b) (ops : List Op)
    (hok : RunOK (init behs) ops) (hn : nA (exec (init behs) ops) ≤ ghostBase)
    (hclosed : (exec (init behs) ops).closed = true) (a : Aid) (ha : a < nA (exec (init behs) ops)) :
    (actorAt (exec (init behs) ops) a).status = .terminated := by
  have hti := C05_tree_invariant behs hb ops hok hn
  have h0 := hti.shut hclosed
  induction a using Nat.strongRecOn with
  | _ a ih =>
    cases hp : (actorAt (exec (init behs) ops) a).parent with
    | none => rw [hti.root a ha hp]; exact h0
    | some p =>
      have hpa := (hti.par a ha p hp).1
      exact C05_children_first behs hb ops hok hn p a ha hp (ih p hpa (Nat.lt_trans hpa ha))

/-- only a terminated actor is unregistered, and a queued `Terminated(x)` is about a terminated actor -/
theorem C05_unregistered_only_after_termination (behs : List BehDef) (hb : ∀ b ∈ behs, BehOK b) (ops : List Op)
    (hok : RunOK (init behs) ops) (hn : nA (exec (init behs) ops) ≤ ghostBase) (a : Aid)
    (ha : a < nA (exec (init behs) ops)) (hr : (actorAt (exec (init behs) ops) a).registered = false) :
    (actorAt (exec (init behs) ops) a).status = .terminated :=
  (C05_tree_invariant behs hb ops hok hn).reg a ha hr

/-! ## Non-vacuity and the boundary of the hypotheses -/

/-- a complete shutdown: both built-in actors launch, `Shutdown(false)`, the guard tells the subscription
actor to stop, it terminates and notifies the guard, the guard terminates and closes the channel -/
def shutdownRun : List Op := [.run 0, .run 1, .shutdown false, .run 0, .run 1, .run 0]

example : RunOK (init []) shutdownRun := by simp [RunOK, shutdownRun, OpOK]
example : (exec (init []) shutdownRun).closed = true ∧
    (exec (init []) shutdownRun).actors.map (·.status) = [.terminated, .terminated] := by decide
example : ∀ b ∈ ([] : List BehDef), BehOK b := by simp

/-- an actor whose handler of its OWN `OnTerminated` spawns a child (not `BehOK`) -/
def lateSpawner : BehDef := { rules := [(.terminatedSelf, [.spawn 3])] }

/-- **without `BehOK` children-first is false** (known finding
`C05-child-spawned-during-termination-outlives-parent`): actor 2 is terminated while its child 3, created
by the handler of 2's own `OnTerminated`, is alive and nobody will ever tell it to stop -/
theorem C05_late_spawn_counterexample :
    let w := exec (init [lateSpawner, {}]) [.run 0, .run 1, .spawnTop 2, .run 2, .kill 2 false, .run 2]
    (actorAt w 2).status = .terminated ∧ (actorAt w 3).parent = some 2 ∧ (actorAt w 3).status = .alive := by
  decide

end MV.Props.C05
