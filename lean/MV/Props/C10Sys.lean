import MV.Lemmas.PubSubFlow
import MV.Props.C10
/-!
# C10, system level — mailboxes, release on restart / termination, two nodes

All statements are about `MV.Model.PubSub.Sys` (`Net` for two nodes), the model the oracle suites
`pubsub` / `pubsub-remote` execute, and hold in **every** state reachable by **any** interleaving of
actor steps, subscription-actor turns, mailbox turns, restarts, terminations and link traffic
(`Reachable` / `NReachable`; the two side conditions of `Allowed` are discharged for everything an
actor can hold by `C10_held_genuine`).
-/
namespace MV.Props.C10
open MV.Model.PubSub MV.Spec.PubSub MV.Lemmas.PubSub MV.Lemmas.PubSubSys MV.Lemmas.PubSubFlow

/-- every handle an actor has recorded satisfies the side condition of `UnSubscribe` -/
theorem C10_held_genuine {self : Nat} {s : Sys} (h : Reachable self s) (r : Ref) (sub : Subscription)
    (hs : sub ∈ (s.actors r).held) : Genuine s sub := by
  have hi := inv_reachable h
  intro t y hy hid
  have := (hi.held r sub hs).2 t y hy hid
  rw [← this]; exact ((hi.sawf t y hy).1).symm

/-- **Every current subscription is accounted for**: it is recorded in its subscriber's
    `ctx.subscriptions` (and will be released when that actor restarts or terminates) or its
    cancellation is already in the subscription actor's mailbox. -/
theorem C10_release_invariant {self : Nat} {s : Sys} (h : Reachable self s) (t : Topic) (x : Subscription)
    (hx : x ∈ s.sa.lookup t) :
    x ∈ (s.actors x.subscriber).held ∨ unsubEnvelope x ∈ s.saQ :=
  (inv_reachable h).rel t x hx

/-- **Release on restart.** Right after `tryRestarted` of `r` nothing is recorded any more and the
    cancellation of every subscription of `r` that the subscription actor still has is in its mailbox
    (behind everything enqueued earlier, before anything enqueued later — FIFO); by `C10_cancel` no
    publication handled after that cancellation is delivered for it. -/
theorem C10_release_on_restart {self : Nat} {s : Sys} (h : Reachable self s) (r : Ref) :
    let s' := s.step (.restart r)
    (s.canAct r = true → (s'.actors r).held = []) ∧
    (s.canAct r = true → ∀ t x, x ∈ s'.sa.lookup t → x.subscriber = r → unsubEnvelope x ∈ s'.saQ) := by
  intro s'
  have hr : Reachable self s' := Reachable.step (.restart r) h trivial
  have hheld : s.canAct r = true → (s'.actors r).held = [] := by
    intro hc
    show ((s.step (.restart r)).actors r).held = []
    simp [Sys.step, hc, release, Sys.setActor]
  refine ⟨hheld, fun hc t x hx hsub => ?_⟩
  rcases C10_release_invariant hr t x hx with h1 | h1
  · rw [hsub, hheld hc] at h1; cases h1
  · exact h1

/-- **Release on termination**, the same for `tryTerminated`. -/
theorem C10_release_on_terminate {self : Nat} {s : Sys} (h : Reachable self s) (r : Ref) :
    let s' := s.step (.terminate r)
    (s.canAct r = true → (s'.actors r).held = [] ∧ (s'.actors r).status = .terminated) ∧
    (s.canAct r = true → ∀ t x, x ∈ s'.sa.lookup t → x.subscriber = r → unsubEnvelope x ∈ s'.saQ) := by
  intro s'
  have hr : Reachable self s' := Reachable.step (.terminate r) h trivial
  have hheld : s.canAct r = true → (s'.actors r).held = [] ∧ (s'.actors r).status = .terminated := by
    intro hc
    show ((s.step (.terminate r)).actors r).held = [] ∧ ((s.step (.terminate r)).actors r).status = .terminated
    simp [Sys.step, hc, release, Sys.setActor]
  refine ⟨hheld, fun hc t x hx hsub => ?_⟩
  rcases C10_release_invariant hr t x hx with h1 | h1
  · rw [hsub, (hheld hc).1] at h1; cases h1
  · exact h1

/-- **A terminated (or never spawned) actor is subscribed to nothing** once the subscription actor has
    emptied its mailbox: no later publication is addressed to it. -/
theorem C10_release_on_restart_terminate {self : Nat} {s : Sys} (h : Reachable self s) (r : Ref)
    (hdead : (s.actors r).status ≠ .alive) (hq : s.saQ = []) :
    ∀ t x, x ∈ s.sa.lookup t → x.subscriber ≠ r := by
  intro t x hx hsub
  have hi := inv_reachable h
  rcases hi.rel t x hx with h1 | h1
  · rw [hsub, (hi.dormant r hdead).1] at h1; cases h1
  · rw [hq] at h1; cases h1

/-- **Nothing is lost, nothing is duplicated between the subscription actor and the handlers**: for
    every actor `r` and every (sender, payload), the number of copies `r` has handled or still has in
    its mailbox, plus the dead letters addressed to `r`, is the number of deliveries the subscription
    actor has addressed to `r` (which `C10_fanout_exact` / `C10_copies` determine). -/
theorem C10_no_loss_no_dup {self : Nat} {s : Sys} (h : Reachable self s) (r : Ref) (d : Delivery) :
    (arrived s r).count d + (lost s r).count d = (deliveriesTo r (allEffs self s)).count d :=
  (flow_reachable h).acct r d

/-- the subscription actor's state is the machine of part 1 run on what it has processed -/
theorem C10_sa_is_machine {self : Nat} {s : Sys} (h : Reachable self s) : s.sa = (SubActor.run (SubActor.init self) s.processed).1 :=
  (flow_reachable h).saState

/-- **Order: two FIFO hops compose.**
    (1) publisher → subscription actor: the local publish requests the subscription actor has handled
    or still holds, in that order, are the `Publish` calls in call order (per publisher: filter both
    sides by the publisher);
    (2) subscription actor → subscriber: what `r` has handled followed by what waits in its mailbox
    is a subsequence — same order, no repetition — of the deliveries the subscription actor addressed
    to `r` (all of them while `r` lives; a gap is a dead letter, `C10_no_loss_no_dup`).
    Hence one publisher's messages reach one subscriber in publication order. -/
theorem C10_order {self : Nat} {s : Sys} (h : Reachable self s) :
    (s.processed ++ s.saQ).filterMap localPubOf = s.published ∧
    ∀ r, (arrived s r).Sublist (deliveriesTo r (allEffs self s)) :=
  ⟨(flow_reachable h).pubs, (flow_reachable h).order⟩

/-- per publisher -/
theorem C10_order_per_publisher {self : Nat} {s : Sys} (h : Reachable self s) (p : Ref) :
    ((s.processed ++ s.saQ).filterMap localPubOf).filter (fun x => x.1 = p) = s.published.filter (fun x => x.1 = p) := by
  rw [(C10_order h).1]

/-- what `r`'s handler has seen so far, in order, is a subsequence of what was addressed to it -/
theorem C10_handled_in_order {self : Nat} {s : Sys} (h : Reachable self s) (r : Ref) :
    ((s.actors r).handled.map (·.2)).Sublist (deliveriesTo r (allEffs self s)) :=
  List.Sublist.trans (List.sublist_append_left _ _) ((C10_order h).2 r)

/-- `Subscribe("")` panics before anything is sent: the system does not change -/
theorem C10_subscribe_empty_topic (s : Sys) (r : Ref) : s.step (.subscribeCall r emptyTopic) = s := by
  simp [Sys.step, emptyTopic]

/-- publishing to a topic nobody listens to changes no mailbox and produces no dead letter -/
theorem C10_empty_topic_harmless_sys (s : Sys) (snd : Option Ref) (t : Topic) (p : Payload) (rest : List Envelope)
    (hq : s.saQ = { sender := snd, msg := .localPublishRequest t p } :: rest) (hnone : s.sa.lookup t = []) (r : Ref) :
    arrived (s.step .saStep) r = arrived s r ∧ lost (s.step .saStep) r = lost s r ∧ (s.step .saStep).sa = s.sa := by
  simp only [Sys.step, hq]
  obtain ⟨_, b2, b3, _, _, _, _, b8⟩ := foldl_flow (s.sa.step { sender := snd, msg := .localPublishRequest t p }).2
    { s with sa := (s.sa.step { sender := snd, msg := .localPublishRequest t p }).1, saQ := rest,
             processed := s.processed ++ [{ sender := snd, msg := .localPublishRequest t p }] } r
  have hnil : deliveriesTo r (s.sa.step { sender := snd, msg := .localPublishRequest t p }).2 = [] := by
    show deliveriesTo r (onLocalPublishRequest s.sa snd t p).2 = []
    simp only [onLocalPublishRequest, hnone, fanout, List.map_nil, List.append_nil]
    split
    · simp [deliveriesTo, List.filterMap_map, Function.comp_def]
    · rfl
  rw [b2, b3, b8, hnil]
  refine ⟨by split <;> simp [arrived], by split <;> simp [lost], rfl⟩

/-- an effect of some turn of the machine run over `h` is an effect of the turn on some envelope after some prefix -/
theorem mem_run_effs (s0 : SubActor) (h : List Envelope) (x : Eff) (hx : x ∈ (SubActor.run s0 h).2.flatten) :
    ∃ h1 e h2, h = h1 ++ e :: h2 ∧ x ∈ ((SubActor.run s0 h1).1.step e).2 := by
  induction h using snoc_induction with
  | nil => simp [SubActor.run] at hx
  | snoc h e ih =>
    rw [run_append] at hx
    simp only [SubActor.run, List.flatten_append, List.mem_append, List.flatten_cons, List.flatten_nil, List.append_nil] at hx
    rcases hx with hx | hx
    · obtain ⟨h1, e', h2, he, hmem⟩ := ih hx
      exact ⟨h1, e', h2 ++ [e], by simp [he], hmem⟩
    · exact ⟨h, e, [], by simp, hx⟩

/-- **Nothing is ever handed to the link for the own node**: a publication reaches the local
    subscribers through the local fan-out only (before the `fix:` commit the cluster's contact
    provider made every node list itself and local subscribers got every encodable publication twice). -/
theorem C10_no_self_link {self : Nat} {s : Sys} (h : Reachable self s) : ∀ x ∈ s.link, x.1 ≠ self := by
  intro x hx hself
  rw [(flow_reachable h).linkLog] at hx
  simp only [List.mem_filterMap] at hx
  obtain ⟨eff, heff, hlink⟩ := hx
  obtain ⟨h1, e, h2, _, hmem⟩ := mem_run_effs _ _ eff heff
  cases eff with
  | tellRemote a t p pub =>
    simp only [toLink, Option.some.injEq] at hlink
    subst hlink
    simp only at hself
    subst hself
    exact C10_no_self_broadcast _ h1 e t p pub hmem
  | deliver _ _ _ => simp [toLink] at hlink
  | replySub _ _ => simp [toLink] at hlink
  | replyNil _ => simp [toLink] at hlink

/-! ## two nodes -/

/-- **Remote: exactly once, in order.** In the two-node model with links that carry the entries in
    order, each exactly once (the assumption on the gRPC stream, `Net.step .xfer…`):
    (1) what node 1's subscription actor handed to the link is exactly the `tellRemote` effects of its
    turns, in order (one per linked node per encodable publication: `C10_remote_broadcast_once`);
    (2) the broadcasts node 2's subscription actor has handled or still holds, in order, are exactly
    the carried entries of node 1 that were addressed to node 2 — none missing, none twice, none
    reordered, none from elsewhere; symmetrically for node 1;
    and every broadcast handled is fanned out exactly once to the then-current subscriptions of the
    topic with the original publisher as sender (`C10_remote_fanout_exact`). -/
theorem C10_remote_once {n : Net} (h : NReachable n) :
    n.n1.link = (allEffs 1 n.n1).filterMap toLink ∧ n.n2.link = (allEffs 2 n.n2).filterMap toLink ∧
    (n.n2.processed ++ n.n2.saQ).filter isBroadcast = ((n.n1.link.take n.sent1).filter (fun e => e.1 = 2)).map (·.2) ∧
    (n.n1.processed ++ n.n1.saQ).filter isBroadcast = ((n.n2.link.take n.sent2).filter (fun e => e.1 = 1)).map (·.2) := by
  have hi := netInv_reachable h
  exact ⟨(flow_reachable hi.r1).linkLog, (flow_reachable hi.r2).linkLog, hi.recv2, hi.recv1⟩

/-- each node of the two-node model is a reachable single system: every theorem above applies to it -/
theorem C10_remote_nodes_reachable {n : Net} (h : NReachable n) : Reachable 1 n.n1 ∧ Reachable 2 n.n2 :=
  ⟨(netInv_reachable h).r1, (netInv_reachable h).r2⟩

/-! ## non-vacuity: a concrete run (subscribe twice, publish, restart in between, terminate) -/

def rA : Ref := { node := 0, id := 10 }
def rA1 : Ref := { node := 1, id := 10 }
def rB : Ref := { node := 0, id := 11 }

def demo : List Act :=
  [.spawn rA, .spawn rB, .subscribeCall rA 1, .saStep, .subscribeCall rB 1, .saStep,
   .publish rB 1 { id := 7, enc := false }, .saStep, .handle rA, .handle rB,
   .restart rA, .publish rB 1 { id := 8, enc := false }, .saStep, .saStep, .handle rB, .handle rA,
   .terminate rB, .saStep, .publish rA 1 { id := 9, enc := false }, .saStep]

example : (((Sys.init 0).run demo).actors rA).handled = [(1, { sender := some rB, payload := 7 })] := by decide
example : (((Sys.init 0).run demo).actors rB).handled =
    [(1, { sender := some rB, payload := 7 }), (1, { sender := some rB, payload := 8 })] := by decide
example : ((Sys.init 0).run demo).dead = [] ∧ ((Sys.init 0).run demo).saQ = [] ∧ ((Sys.init 0).run demo).sa.lookup 1 = [] := by decide

theorem demo_reachable : Reachable 0 ((Sys.init 0).run demo) := by
  have step : ∀ (s : Sys) (a : Act), Reachable 0 s → Allowed s a → Reachable 0 (s.step a) :=
    fun s a h ha => Reachable.step a h ha
  simp only [demo, Sys.run, List.foldl]
  repeat (first | exact Reachable.init | (apply step; rotate_left; exact trivial))

/-- two nodes: node 1 learns of node 2, a publication on node 1 reaches the subscriber on node 2 once -/
def rC : Ref := { node := 2, id := 10 }
def demoNet : List NAct :=
  [.at2 (.spawn rC), .at2 (.subscribeCall rC 1), .at2 .saStep, .at1 (.spawn rA),
   .at1 (.inject { sender := none, msg := .statusChanged 1 false }),
   .at1 (.inject { sender := none, msg := .statusChanged 2 false }), .at1 .saStep, .at1 .saStep,
   .at1 (.publish rA 1 { id := 5, enc := true }), .at1 .saStep, .xfer12, .at2 .saStep, .at2 (.handle rC)]

example : ((Net.init.run demoNet).n2.actors rC).handled = [(1, { sender := some rA, payload := 5 })] := by decide

end MV.Props.C10
