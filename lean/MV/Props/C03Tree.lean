import MV.Props.C05Tree
/-!
# C03 — run-level lifecycle theorems (every behaviour table, strategy and schedule)

From the supervision-tree invariant `MV.Model.ActorSys.TI`, which also tracks every actor's handler record
(`Actor.log`: what `OnReceive` was shown, per incarnation — the same record the harness compares step by
step with the real system):

* `C03_terminate_before_own_terminated`: in every reachable world, in every actor's handler record, each own
  `OnTerminated` of an incarnation is preceded by an `OnTerminate` of the same incarnation;
* `C03_terminating_has_seen_terminate` / `C03_terminated_has_seen_both`: an actor whose status is
  `terminating` has handled `OnTerminate` in its current incarnation; a `terminated` one also its own
  `OnTerminated` (and nothing afterwards: `C03_nothing_handled_ever_after_termination`).

Hypotheses as for C05 (`BehOK`, `RunOK`, fewer than 500 000 actors).  The first-message clause ("the first
message handled is OnLaunch") is not a run-level theorem: it is false for restarted incarnations (known
finding `C03-queued-system-message-before-launch-after-restart`).
-/
namespace MV.Props.C03
open MV.Model.ActorSys MV.Props.C05

theorem C03_terminate_before_own_terminated (behs : List BehDef) (hb : ∀ b ∈ behs, BehOK b) (ops : List Op)
    (hok : RunOK (init behs) ops) (hn : nA (exec (init behs) ops) ≤ ghostBase)
    (a : Aid) (ha : a < nA (exec (init behs) ops)) (k i : Nat) (s : Option Aid)
    (hk : (actorAt (exec (init behs) ops) a).log[k]? = some { inc := i, obs := .terminated a, sender := s }) :
    ∃ j, j < k ∧ ∃ s', (actorAt (exec (init behs) ops) a).log[j]? = some { inc := i, obs := .terminate, sender := s' } :=
  (C05_tree_invariant behs hb ops hok hn).lgOK a ha k i s hk

theorem C03_terminating_has_seen_terminate (behs : List BehDef) (hb : ∀ b ∈ behs, BehOK b) (ops : List Op)
    (hok : RunOK (init behs) ops) (hn : nA (exec (init behs) ops) ≤ ghostBase)
    (a : Aid) (ha : a < nA (exec (init behs) ops))
    (hs : (actorAt (exec (init behs) ops) a).status = .terminating) :
    ∃ s, ({ inc := (actorAt (exec (init behs) ops) a).inc, obs := .terminate, sender := s } : LogEntry) ∈
      (actorAt (exec (init behs) ops) a).log :=
  (C05_tree_invariant behs hb ops hok hn).lgT a ha hs

theorem C03_terminated_has_seen_both (behs : List BehDef) (hb : ∀ b ∈ behs, BehOK b) (ops : List Op)
    (hok : RunOK (init behs) ops) (hn : nA (exec (init behs) ops) ≤ ghostBase)
    (a : Aid) (ha : a < nA (exec (init behs) ops))
    (hs : (actorAt (exec (init behs) ops) a).status = .terminated) :
    (∃ s, ({ inc := (actorAt (exec (init behs) ops) a).inc, obs := .terminate, sender := s } : LogEntry) ∈
      (actorAt (exec (init behs) ops) a).log) ∧
    (∃ s, ({ inc := (actorAt (exec (init behs) ops) a).inc, obs := .terminated a, sender := s } : LogEntry) ∈
      (actorAt (exec (init behs) ops) a).log) :=
  (C05_tree_invariant behs hb ops hok hn).lgD a ha hs

/-- non-vacuity: the complete shutdown of `MV.Props.C05.shutdownRun`: the subscription actor's record is
`OnLaunch, OnTerminate, OnTerminated(self)` -/
example : (actorAt (exec (init []) shutdownRun) 1).log.map (fun e => (e.inc, e.obs)) =
    [(0, .launch), (0, .terminate), (0, .terminated 1)] := by decide

/-- … and a restart: the record of incarnation 0 ends with `OnRestarting, OnTerminate, OnTerminated`, the
next incarnation starts with `OnRestarted, OnLaunch` -/
example :
    let b : BehDef := { rules := [(.user 1, [.panic])], strategy := some { limit := -1, table := [.restart] } }
    let w := exec (init [b]) [.run 0, .run 1, .spawnTop 2, .run 2, .tell 2 1, .run 2, .run 0, .fire, .run 2, .run 2, .run 2]
    (actorAt w 2).log.map (fun e => (e.inc, e.obs)) =
      [(0, .launch), (0, .user 1), (0, .restarting), (0, .terminate), (0, .terminated 2), (1, .restarted), (1, .launch)] := by
  decide

end MV.Props.C03
