import MV.Props.C16Rank
import MV.Props.C16Slices
import MV.Props.C16Maps
import MV.Props.C16Bits
import MV.Props.C16Sync
import MV.Findings.C16
/-!
# C16 — leaderboard, slices, ordered and synchronized maps behave like their models

The theorems live in the files imported above (one per container family, all in the namespace
`MV.Props.C16`):

* `C16Rank`   — `C16_rank_inv`, `C16_rank_refines`, `C16_rank_inverse`, `C16_rank_search_terminates`,
                `C16_rank_membership`, `C16_rank_update_listed`, `C16_rank_others_unchanged`
* `C16Slices` — `C16_priority_step`, `C16_priority_sorted`, `C16_priority_keeps_all`,
                `C16_priority_judge_iff`, `C16_paged_*`
* `C16Maps`   — `C16_order_refines`, `C16_order_answers`, `C16_order_range_once`,
                `C16_map_refines_syncmap`, `C16_map_refines_bucket`, `C16_absent_total_*`
* `C16Bits`   — bit-set laws
* `C16Sync`   — lock discipline of the synchronized variants (`C16_lock_discipline`)
-/
