import MV.Lemmas.BitSet
/-! # C16 (work in progress) -/
namespace MV.Props.C16
open MV.Model

theorem C16_bitset_isSet_set (b : BitSet) (p q : Nat) : (b.set p).isSet q = (decide (q = p) || b.isSet q) :=
  BitSet.isSet_set b p q

end MV.Props.C16
