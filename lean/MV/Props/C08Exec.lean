import MV.Lemmas.SchedulerExec
import MV.Spec.Scheduler
import MV.Props.C08
/-!
# C08 — the deterministic executable (what the oracle runs) against the closed-form specification

`ExecReach s`: `s` is produced from a fresh scheduler by API calls (register / replace / unregister /
clear / close, any arguments) and `wait d`, where `wait` advances the virtual clock millisecond by
millisecond and lets the wheel run every timer exactly at its expiration ("ideal timing", the
schedule the real-time suite `scheduler` arranges with its margins).  Every such state is `Reach`able,
so all theorems of `MV.Props.C08` apply; here: *how many* firings there are at each moment.
-/
namespace MV.Props.C08
open MV.Model.Scheduler

/-- **Exactly N, after enough time.** A task with `times = N > 0` that has not been cancelled (and
whose scheduler has not been closed) has fired exactly `N` times as soon as the clock has reached
its last due time `base + after + (N-1) * interval` — and (by `C08_count_N`) never more, however
long one waits. -/
theorem C08_count_N_exec (s : Sched) (h : ExecReach s) (hs : s.stopped = false) (i : Nat) (hi : i < s.nobjs)
    (hc : (s.objs i).cron = none) (hk : (s.objs i).kill = false) (N : Nat) (hN : 0 < N)
    (ht : (s.objs i).total = (N : Int))
    (hdue : (s.objs i).base + (s.objs i).after + (N - 1) * (s.objs i).interval ≤ s.now) :
    fired s i = N := by
  obtain ⟨hd, _, hr⟩ := h.spec
  rcases (C08_count_N s hr i hi hc N hN ht).2 hk with ⟨_, hf⟩ | ⟨hlt, e, hte, he⟩
  · exact hf
  · exfalso
    rcases hte with hp | hin
    · have := (hd.ahead hs i e hi hc hp).2 hi
      have hm : fired s i * (s.objs i).interval ≤ (N - 1) * (s.objs i).interval :=
        Nat.mul_le_mul_right _ (by omega)
      omega
    · exact hd.noInfl i e hi hin

/-- **One-shot, after enough time**: exactly one firing once the delay has passed. -/
theorem C08_once_exec (s : Sched) (h : ExecReach s) (hs : s.stopped = false) (i : Nat) (hi : i < s.nobjs)
    (hc : (s.objs i).cron = none) (hk : (s.objs i).kill = false) (ht : (s.objs i).total = 1)
    (hdue : (s.objs i).base + (s.objs i).after ≤ s.now) : fired s i = 1 := by
  apply C08_count_N_exec s h hs i hi hc hk 1 (by omega) (by simpa using ht)
  simpa using hdue

/-- the closed form of the specification for a registration that is still current -/
def liveCount (t : Task) (now : Nat) : Nat :=
  let k := MV.Spec.Scheduler.dueCount t.base t.after t.interval now
  if t.total > 0 then min k t.total.toNat else k

/-- **The executable agrees with the specification** for every task that has not been cancelled on a
running scheduler: the number of firings is the number of due times `base + after + k * interval`
that are `≤ now`, capped by `times`.  (For `times ≤ 0` there is no cap: forever.) -/
theorem C08_exec_matches_spec (s : Sched) (h : ExecReach s) (hs : s.stopped = false) (i : Nat) (hi : i < s.nobjs)
    (hc : (s.objs i).cron = none) (hk : (s.objs i).kill = false) :
    fired s i = liveCount (s.objs i) s.now := by
  obtain ⟨hd, hinv, hr⟩ := h.spec
  obtain ⟨hbound, _, h3⟩ := hinv.ok i hi hc
  have hcl := hinv.clamped i hi hc
  have hpos := hinv.tick_pos
  have hiv : 0 < (s.objs i).interval := by omega
  unfold liveCount MV.Spec.Scheduler.dueCount
  generalize hB : (s.objs i).base + (s.objs i).after = B at *
  rcases h3 hk with ⟨e, hte, hf, he⟩ | ⟨hidle, htot, htr, hf⟩
  · -- running: `k` firings so far, the next due time is ahead, the last one is behind
    have hp : (s.objs i).timer = .pending e := by
      rcases hte with hp | hin
      · exact hp
      · exact absurd hin (hd.noInfl i e hi)
    have hahead := (hd.ahead hs i e hi hc hp).2 hi
    have hbehind := hd.behind hs i e hi hc hp
    have hk1 : (s.objs i).trigger - 1 = fired s i := by omega
    rw [hk1] at he
    -- the number of due times ≤ now is `fired`
    have hcount : (if s.now < B then 0 else (s.now - B) / (s.objs i).interval + 1) = fired s i := by
      by_cases hz : fired s i = 0
      · rw [hz] at he ⊢; simp only [Nat.zero_mul, Nat.add_zero] at he; rw [if_pos (by omega)]
      · have hb := hbehind (by omega)
        obtain ⟨k, hk'⟩ : ∃ k, fired s i = k + 1 := ⟨fired s i - 1, by omega⟩
        rw [hk'] at he ⊢
        have hmul : (k + 1) * (s.objs i).interval = k * (s.objs i).interval + (s.objs i).interval := by
          rw [Nat.add_mul, Nat.one_mul]
        have hlo : k * (s.objs i).interval ≤ s.now - B := by omega
        have hhi : s.now - B < (k + 1) * (s.objs i).interval := by omega
        rw [if_neg (by omega), Nat.div_eq_of_lt_le hlo hhi]
    rw [hcount]
    split
    · rename_i htp
      have := hbound htp
      rw [Nat.min_eq_left]; omega
    · rfl
  · -- finished: fired = N, and the N-th due time is behind
    have hdone := hd.done i hi hc hk hidle
    rw [hB] at hdone
    have hN : (s.objs i).total.toNat = (s.objs i).trigger := by omega
    have htpos : 0 < (s.objs i).trigger := by omega
    obtain ⟨k, hk'⟩ : ∃ k, (s.objs i).trigger = k + 1 := ⟨(s.objs i).trigger - 1, by omega⟩
    rw [hk'] at hdone hN hf
    simp only [Nat.add_sub_cancel] at hdone
    have hge : k ≤ (s.now - B) / (s.objs i).interval := by
      rw [Nat.le_div_iff_mul_le hiv]; omega
    rw [if_pos htot, if_neg (by omega), hN, hf]
    rw [Nat.min_eq_right]; omega

/-! ## Non-vacuity -/

/-- `RegisterRepeatedTask("0", 12ms, 15ms, 3)` on a 10 ms tick, then 60 ms: three firings at 12, 27, 42 -/
def demoExec : Sched := execAll (init 10) [.ev (.reg 0 12 15 3), .wait 60]

example : ExecReach demoExec := ⟨10, _, by decide, by decide, rfl⟩
example : fired demoExec 0 = 3 ∧ demoExec.log.map (fun f => f.time) = [42, 27, 12] := by decide
example : liveCount (demoExec.objs 0) demoExec.now = 3 := by decide
/-- forever, every tick: 4 firings by 45 ms, and the spec says the same -/
example : fired (execAll (init 10) [.ev (.reg 0 0 0 (-1)), .wait 45]) 0 = 4 := by decide
example : liveCount ((execAll (init 10) [.ev (.reg 0 0 0 (-1)), .wait 45]).objs 0) 45 = 4 := by decide

end MV.Props.C08
