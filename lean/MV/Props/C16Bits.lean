import MV.Lemmas.BitSet
/-!
# C16 — `DynamicBitSet` laws (word-level model, shared with C14)
-/
namespace MV.Props.C16
open MV.Model

/-- `Set`: afterwards exactly `p` and the former members are set -/
theorem C16_bitset_isSet_set (b : BitSet) (p q : Nat) : (b.set p).isSet q = (decide (q = p) || b.isSet q) :=
  BitSet.isSet_set b p q

/-- `Clear` -/
theorem C16_bitset_isSet_clear (b : BitSet) (p q : Nat) : (b.clear p).isSet q = (!decide (q = p) && b.isSet q) :=
  BitSet.isSet_clear b p q

/-- a new set and the zero value are empty; `Copy` is the identity on members -/
theorem C16_bitset_empty (q : Nat) : BitSet.new.isSet q = false ∧ BitSet.zero.isSet q = false :=
  ⟨BitSet.isSet_new q, BitSet.isSet_zero q⟩

/-- `Bits()` lists exactly the members -/
theorem C16_bitset_bits (b : BitSet) (p : Nat) : p ∈ b.bitsOf ↔ b.isSet p = true := BitSet.mem_bitsOf b p

/-- `In` is the subset test — for a mask with no more words than the receiver (as coded, a longer
mask is rejected even if its extra words are zero: finding C16-bitset-in-trailing-zero-words) -/
theorem C16_bitset_in_iff_subset (db mask : BitSet) :
    db.isIn mask = true ↔ mask.bits.length ≤ db.bits.length ∧ ∀ p, mask.isSet p = true → db.isSet p = true :=
  BitSet.in_iff_subset db mask

/-- `NotIn` is the disjointness test, without caveat -/
theorem C16_bitset_notIn_iff_disjoint (db mask : BitSet) :
    db.notIn mask = true ↔ ∀ p, ¬ (mask.isSet p = true ∧ db.isSet p = true) :=
  BitSet.notIn_iff_disjoint db mask

/-- `Equal` is set equality — for operands with the same number of words (as coded it compares the
word slices: finding C16-bitset-equal-trailing-zero-words); it always implies set equality. -/
theorem C16_bitset_equal_partial (a b : BitSet) :
    (a.equal b = true → ∀ p, a.isSet p = b.isSet p) ∧
      (a.bits.length = b.bits.length → (a.equal b = true ↔ ∀ p, a.isSet p = b.isSet p)) :=
  ⟨BitSet.equal_sound a b, BitSet.equal_iff_same_members a b⟩

/-- non-vacuity -/
example : ((BitSet.new.set 3).set 130).bitsOf = [3, 130] ∧ ((BitSet.new.set 3).set 130).isIn (BitSet.new.set 3) = true ∧
    (BitSet.new.set 3).notIn (BitSet.new.set 64) = true := by decide

end MV.Props.C16
