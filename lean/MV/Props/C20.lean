import MV.Lemmas.AStarOpt
import MV.Lemmas.GoHeap
/-!
# C20 — path finding returns valid shortest paths; geometric predicates match geometry

## `astar.Find` (toolkit/navigate/astar)

All statements are about `MV.Model.AStar.find`, the transcription the oracle executes (Go's
`container/heap` included), for *every* finite graph, start, goal and heuristic.

* `C20_astar_sound` — a returned path starts at the start, ends at the goal and follows graph
  edges (`ValidPath`; the reported cost is `pathCost` of that list by definition of the output).
* `C20_astar_complete` — on a well-formed graph with `n` nodes the loop never needs more than
  `fuelBound G + 1 = 2 + Σ_v deg v` iterations, and `none` is returned exactly when the goal is
  unreachable.
* `C20_astar_optimal` — for a consistent heuristic (`h u ≤ cost u v + h v` on every edge; no
  admissibility or `h goal = 0` is needed) the returned path is a cheapest walk.
* `C20_optCost_shortest` — the reference value the judge uses (search with the zero heuristic) is
  the true minimum; `C20_judgeFind_ok` spells out what an `ok` verdict means.
-/
namespace MV.Props.C20
open MV.Model.AStar MV.Spec.AStar MV.Lemmas.AStar MV.Lemmas.GoHeap

theorem C20_validPathB_iff (G : Graph) (s g : Nat) (p : Path) :
    validPathB G s g p = true ↔ ValidPath G s g p := validPathB_iff G s g p

/-- list walks and the inductive `Reach` describe the same thing -/
theorem C20_reach_iff_validPath (G : Graph) (s g c : Nat) :
    Reach G s g c ↔ ∃ p, ValidPath G s g p ∧ pathCost G.cost p = c := by
  constructor
  · intro h
    obtain ⟨p, hh, hne, hl, hw, hc⟩ := walk_of_reach G s h
    exact ⟨p, ⟨hh, by rw [getLast?_eq_some_last p hne, hl], hw⟩, hc⟩
  · rintro ⟨p, ⟨hh, hl, hw⟩, hc⟩
    have hne : p ≠ [] := by intro h; subst h; simp at hh
    have := reach_of_walk G s p hh hw
    rw [getLast?_eq_some_last p hne] at hl
    injection hl with hl
    rwa [hl, hc] at this

theorem C20_astar_sound (G : Graph) (s g : Nat) (h : Nat → Nat) (p : Path)
    (hf : find G s g h = .found p) : ValidPath G s g p :=
  loop_found_sound goHeapLawful G s g h _ _ _ p (invB_init goHeapLawful G s g) hf

/-- the cost printed next to the path is the sum of the edge costs along it, and it is the cost of a walk -/
theorem C20_astar_cost (G : Graph) (s g : Nat) (h : Nat → Nat) (p : Path)
    (hf : find G s g h = .found p) : Reach G s g (pathCost G.cost p) :=
  (C20_reach_iff_validPath G s g _).2 ⟨p, C20_astar_sound G s g h p hf, rfl⟩

theorem C20_astar_fuel (G : Graph) (hwf : WF G) (s g : Nat) (hs : s < G.n) (h : Nat → Nat) :
    find G s g h ≠ .outOfFuel := by
  have L := goHeapLawful
  have hp := L.push_perm goHeap.empty { key := 0, path := [s] } L.inv_empty
  rw [L.elems_empty] at hp
  apply loop_fuel L G g h hwf _ _ _ (L.push_inv _ _ L.inv_empty)
  · intro e he
    rw [hp.mem_iff] at he
    have he' : e = { key := 0, path := [s] } := by simpa using he
    subst he'; exact hs
  · rw [hp.length_eq, openDeg_nil]; simp [fuelBound]

theorem C20_astar_complete (G : Graph) (hwf : WF G) (s g : Nat) (hs : s < G.n) (h : Nat → Nat) :
    (find G s g h = .notFound ↔ ¬ Reachable G s g) ∧ find G s g h ≠ .outOfFuel := by
  refine ⟨⟨?_, ?_⟩, C20_astar_fuel G hwf s g hs h⟩
  · exact loop_notFound_unreachable goHeapLawful G s g h _ _ _ (invB_init goHeapLawful G s g)
  · intro hun
    cases hr : find G s g h with
    | notFound => rfl
    | outOfFuel => exact absurd hr (C20_astar_fuel G hwf s g hs h)
    | found p => exact absurd ⟨_, C20_astar_cost G s g h p hr⟩ hun

theorem C20_astar_optimal (G : Graph) (hwf : WF G) (s g : Nat) (hs : s < G.n) (h : Nat → Nat)
    (hcons : Consistent G h) (p : Path) (hf : find G s g h = .found p) :
    Shortest G s g (pathCost G.cost p) :=
  ⟨C20_astar_cost G s g h p hf,
   loop_found_optimal goHeapLawful G s g h hwf hs hcons _ _ _ p
     (invB_init goHeapLawful G s g) (invO_init goHeapLawful G s h) hf⟩

theorem C20_consistentB_iff (G : Graph) (h : Nat → Nat) : consistentB G h = true ↔ Consistent G h := by
  simp [consistentB, Consistent]

theorem C20_wfB_iff (G : Graph) : wfB G = true ↔ WF G := by
  simp [wfB, WF]

/-- the judge's reference value: the search with the zero heuristic computes the true minimum -/
theorem C20_optCost_shortest (G : Graph) (hwf : WF G) (s g : Nat) (hs : s < G.n) :
    (∀ c, optCost G s g = some c → Shortest G s g c) ∧ (optCost G s g = none ↔ ¬ Reachable G s g) := by
  have hz : Consistent G (fun _ => 0) := by intro u _ v _; simp
  constructor
  · intro c hc
    unfold optCost at hc
    cases hr : find G s g (fun _ => 0) with
    | found p =>
      rw [hr] at hc; simp at hc; subst hc
      exact C20_astar_optimal G hwf s g hs _ hz p hr
    | notFound => rw [hr] at hc; simp at hc
    | outOfFuel => rw [hr] at hc; simp at hc
  · unfold optCost
    cases hr : find G s g (fun _ => 0) with
    | found p =>
      simp
      exact ⟨_, C20_astar_cost G s g _ p hr⟩
    | notFound =>
      simp
      exact ((C20_astar_complete G hwf s g hs _).1.1 hr)
    | outOfFuel => exact absurd hr (C20_astar_fuel G hwf s g hs _)

/-- what the verdict `ok` of the judge means for the implementation's answer -/
theorem C20_judgeFind_ok (G : Graph) (hwf : WF G) (s g : Nat) (hs : s < G.n) (h : Nat → Nat)
    (out : Option (Nat × Path)) (hok : judgeFind G s g h out = "ok") :
    match out with
    | none => ¬ Reachable G s g
    | some (c, p) => ValidPath G s g p ∧ pathCost G.cost p = c ∧ (Consistent G h → Shortest G s g c) := by
  have hopt := C20_optCost_shortest G hwf s g hs
  unfold judgeFind at hok
  cases out with
  | none =>
    cases ho : optCost G s g with
    | none => exact hopt.2.1 ho
    | some o => rw [ho] at hok; simp at hok
  | some cp =>
    obtain ⟨c, p⟩ := cp
    simp only at hok ⊢
    by_cases hv : validPathB G s g p = true
    · simp only [hv, Bool.not_true, Bool.false_eq_true, if_false] at hok
      by_cases hc : pathCost G.cost p = c
      · simp only [hc, ne_eq, not_true_eq_false, if_false] at hok
        refine ⟨(validPathB_iff G s g p).1 hv, hc, ?_⟩
        intro hcons
        cases ho : optCost G s g with
        | none => rw [ho] at hok; simp at hok
        | some o =>
          rw [ho] at hok
          simp only at hok
          have hsh := hopt.1 o ho
          have hreach : Reach G s g c := hc ▸ (C20_reach_iff_validPath G s g _).2 ⟨p, (validPathB_iff G s g p).1 hv, rfl⟩
          by_cases hlt : c < o
          · simp [hlt] at hok
          · simp only [hlt, if_false, (C20_consistentB_iff G h).2 hcons, Bool.true_and] at hok
            by_cases hne : c = o
            · subst hne; exact hsh
            · simp [hne] at hok
      · simp [hc] at hok
    · simp [hv] at hok

/-! ### non-vacuity -/

/-- a 4-node diamond: 0→1 (1), 0→2 (4), 1→2 (1), 2→3 (1); node 3 has no way back -/
def demo : Graph where
  n := 4
  nbrs v := if v = 0 then [1, 2] else if v = 1 then [2] else if v = 2 then [3] else []
  cost u v := if u = 0 ∧ v = 2 then 4 else 1

theorem demo_wf : WF demo := (C20_wfB_iff demo).1 (by decide)

theorem demo_reach : Reach demo 0 3 3 :=
  Reach.step (Reach.step (Reach.step Reach.base (x := 1) (by decide)) (x := 2) (by decide)) (x := 3) (by decide)

/-- the hypotheses of the three theorems are satisfiable and give a concrete conclusion: on the
    diamond the search finds a valid path from 0 to 3 of cost at most 3 (the detour over the
    expensive edge costs 5), and reports "no path" from 3 to 0 -/
example : ∃ p, find demo 0 3 (fun _ => 0) = .found p ∧ ValidPath demo 0 3 p ∧ pathCost demo.cost p ≤ 3 := by
  have hc := C20_astar_complete demo demo_wf 0 3 (by decide) (fun _ => 0)
  cases hr : find demo 0 3 (fun _ => 0) with
  | notFound => exact absurd ⟨3, demo_reach⟩ (hc.1.1 hr)
  | outOfFuel => exact absurd hr hc.2
  | found p =>
    refine ⟨p, rfl, C20_astar_sound demo 0 3 _ p hr, ?_⟩
    have hz : Consistent demo (fun _ => 0) := by intro u _ v _; simp
    exact (C20_astar_optimal demo demo_wf 0 3 (by decide) _ hz p hr).2 3 demo_reach

example : find demo 3 0 (fun _ => 0) = .notFound := by
  refine (C20_astar_complete demo demo_wf 3 0 (by decide) _).1.2 ?_
  rintro ⟨c, hr⟩
  -- nothing leaves node 3
  have : ∀ y c, Reach demo 3 y c → y = 3 := by
    intro y c h
    induction h with
    | base => rfl
    | step _ hx ih => subst ih; simp [demo] at hx
  exact absurd (this 0 c hr) (by decide)

end MV.Props.C20
