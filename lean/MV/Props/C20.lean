import MV.Spec.AStar
import MV.Spec.Geometry
/-! C20 — property theorems (work in progress) -/
namespace MV.Props.C20
open MV.Model.AStar

theorem C20_pathCost_single (c : Nat → Nat → Nat) (a : Nat) : pathCost c [a] = 0 := rfl

end MV.Props.C20
