import MV.Lemmas.AStarOpt
import MV.Lemmas.GoHeap
import MV.Lemmas.Geometry
import MV.Lemmas.GeometryReal
import MV.Lemmas.GeometryOverlap
import MV.Lemmas.Funnel
/-!
# C20 — path finding returns valid shortest paths; geometric predicates match geometry

## `astar.Find` (toolkit/navigate/astar)

All statements are about `MV.Model.AStar.find`, the transcription the oracle executes (Go's
`container/heap` included), for *every* finite graph, start, goal and heuristic.

* `C20_astar_sound` — a returned path starts at the start, ends at the goal and follows graph
  edges (`ValidPath`; the reported cost is `pathCost` of that list by definition of the output).
* `C20_astar_complete` — on a well-formed graph with `n` nodes the loop never needs more than
  `fuelBound G + 1 = 2 + Σ_v deg v` iterations, and `none` is returned exactly when the goal is
  unreachable.
* `C20_astar_optimal` — for a consistent heuristic (`h u ≤ cost u v + h v` on every edge; no
  admissibility or `h goal = 0` is needed) the returned path is a cheapest walk.
* `C20_optCost_shortest` — the reference value the judge uses (search with the zero heuristic) is
  the true minimum; `C20_judgeFind_ok` spells out what an `ok` verdict means.

## `toolkit/geometry` over exact rationals (`MV.Model.Geometry`, coordinates in `ℚ`)

* `C20_closest_on_segment`, `C20_closest_minimal` — `ClosestPoint` (after the two `fix:` commits)
  lies on the closed segment and no point `a + s(b − a)`, `s ∈ [0,1]`, is closer (squared distance),
  for every segment including the zero-length one.
* `C20_onSegment_iff` — `IsPointOnSegment` (distance test idealised to equality, see the model) holds
  exactly for the points `a + t(b − a)`, `t ∈ [0,1]`; `C20_sqrtSumEq_iff` justifies the idealisation:
  the rational test is `√A + √B = √C` over the reals.
* `C20_overlap_iff` — `CalcLineSegmentOverlap` (after the `fix:` commit) returns the intersection of
  the two lexicographic intervals when it has more than one point and nothing otherwise;
  `C20_overlap_param` — on a common line that is the intersection of the parameter intervals.
* `C20_centroid_symmetric` — the vertex centroids (`CalcRectangleVerticesCentroid` after the `fix:`,
  `CalcPolygonVerticesCentroid`) of a vertex list that is symmetric under the point reflection
  through `c` are `c`; `C20_rect_centroid` is the axis-aligned rectangle instance.
* `C20_circle_contains_iff` (and `C20_circle_intersect_iff`, `C20_circle_overlap_iff`) — the circle
  predicates are the real-number statements `√(dx²+dy²) ≤ r`, `≤ r₁+r₂`, `< r₁+r₂`.

Not proved (judged on the implementation instead, see `conf/C20.json`): ray-casting containment for
arbitrary polygons, and everything about IEEE-754 rounding.

## `navmesh` funnel (`MV.Model.Funnel`)

* `C20_funnel_endpoints`, `C20_funnel_vertices_are_portal_ends` — whatever the portals are, a
  produced path starts at the first portal's point, ends at the last portal's point, and every vertex is
  an end point of some portal.  "Stays inside the walkable polygons" for `FindPath` is judged.
-/
namespace MV.Props.C20
open MV.Model.AStar MV.Spec.AStar MV.Lemmas.AStar MV.Lemmas.GoHeap
open MV.Model.Geometry MV.Spec.Geometry MV.Lemmas.Geometry MV.Model.Funnel MV.Lemmas.Funnel

theorem C20_validPathB_iff (G : Graph) (s g : Nat) (p : Path) :
    validPathB G s g p = true ↔ ValidPath G s g p := validPathB_iff G s g p

/-- list walks and the inductive `Reach` describe the same thing -/
theorem C20_reach_iff_validPath (G : Graph) (s g c : Nat) :
    Reach G s g c ↔ ∃ p, ValidPath G s g p ∧ pathCost G.cost p = c := by
  constructor
  · intro h
    obtain ⟨p, hh, hne, hl, hw, hc⟩ := walk_of_reach G s h
    exact ⟨p, ⟨hh, by rw [getLast?_eq_some_last p hne, hl], hw⟩, hc⟩
  · rintro ⟨p, ⟨hh, hl, hw⟩, hc⟩
    have hne : p ≠ [] := by intro h; subst h; simp at hh
    have := reach_of_walk G s p hh hw
    rw [getLast?_eq_some_last p hne] at hl
    injection hl with hl
    rwa [hl, hc] at this

theorem C20_astar_sound (G : Graph) (s g : Nat) (h : Nat → Nat) (p : Path)
    (hf : find G s g h = .found p) : ValidPath G s g p :=
  loop_found_sound goHeapLawful G s g h _ _ _ p (invB_init goHeapLawful G s g) hf

/-- the cost printed next to the path is the sum of the edge costs along it, and it is the cost of a walk -/
theorem C20_astar_cost (G : Graph) (s g : Nat) (h : Nat → Nat) (p : Path)
    (hf : find G s g h = .found p) : Reach G s g (pathCost G.cost p) :=
  (C20_reach_iff_validPath G s g _).2 ⟨p, C20_astar_sound G s g h p hf, rfl⟩

theorem C20_astar_fuel (G : Graph) (hwf : WF G) (s g : Nat) (hs : s < G.n) (h : Nat → Nat) :
    find G s g h ≠ .outOfFuel := by
  have L := goHeapLawful
  have hp := L.push_perm goHeap.empty { key := 0, path := [s] } L.inv_empty
  rw [L.elems_empty] at hp
  apply loop_fuel L G g h hwf _ _ _ (L.push_inv _ _ L.inv_empty)
  · intro e he
    rw [hp.mem_iff] at he
    have he' : e = { key := 0, path := [s] } := by simpa using he
    subst he'; exact hs
  · rw [hp.length_eq, openDeg_nil]; simp [fuelBound]

theorem C20_astar_complete (G : Graph) (hwf : WF G) (s g : Nat) (hs : s < G.n) (h : Nat → Nat) :
    (find G s g h = .notFound ↔ ¬ Reachable G s g) ∧ find G s g h ≠ .outOfFuel := by
  refine ⟨⟨?_, ?_⟩, C20_astar_fuel G hwf s g hs h⟩
  · exact loop_notFound_unreachable goHeapLawful G s g h _ _ _ (invB_init goHeapLawful G s g)
  · intro hun
    cases hr : find G s g h with
    | notFound => rfl
    | outOfFuel => exact absurd hr (C20_astar_fuel G hwf s g hs h)
    | found p => exact absurd ⟨_, C20_astar_cost G s g h p hr⟩ hun

theorem C20_astar_optimal (G : Graph) (hwf : WF G) (s g : Nat) (hs : s < G.n) (h : Nat → Nat)
    (hcons : Consistent G h) (p : Path) (hf : find G s g h = .found p) :
    Shortest G s g (pathCost G.cost p) :=
  ⟨C20_astar_cost G s g h p hf,
   loop_found_optimal goHeapLawful G s g h hwf hs hcons _ _ _ p
     (invB_init goHeapLawful G s g) (invO_init goHeapLawful G s h) hf⟩

theorem C20_consistentB_iff (G : Graph) (h : Nat → Nat) : consistentB G h = true ↔ Consistent G h := by
  simp [consistentB, Consistent]

theorem C20_wfB_iff (G : Graph) : wfB G = true ↔ WF G := by
  simp [wfB, WF]

/-- the judge's reference value: the search with the zero heuristic computes the true minimum -/
theorem C20_optCost_shortest (G : Graph) (hwf : WF G) (s g : Nat) (hs : s < G.n) :
    (∀ c, optCost G s g = some c → Shortest G s g c) ∧ (optCost G s g = none ↔ ¬ Reachable G s g) := by
  have hz : Consistent G (fun _ => 0) := by intro u _ v _; simp
  constructor
  · intro c hc
    unfold optCost at hc
    cases hr : find G s g (fun _ => 0) with
    | found p =>
      rw [hr] at hc; simp at hc; subst hc
      exact C20_astar_optimal G hwf s g hs _ hz p hr
    | notFound => rw [hr] at hc; simp at hc
    | outOfFuel => rw [hr] at hc; simp at hc
  · unfold optCost
    cases hr : find G s g (fun _ => 0) with
    | found p =>
      simp
      exact ⟨_, C20_astar_cost G s g _ p hr⟩
    | notFound =>
      simp
      exact ((C20_astar_complete G hwf s g hs _).1.1 hr)
    | outOfFuel => exact absurd hr (C20_astar_fuel G hwf s g hs _)

/-- what the verdict `ok` of the judge means for the implementation's answer -/
theorem C20_judgeFind_ok (G : Graph) (hwf : WF G) (s g : Nat) (hs : s < G.n) (h : Nat → Nat)
    (out : Option (Nat × Path)) (hok : judgeFind G s g h out = "ok") :
    match out with
    | none => ¬ Reachable G s g
    | some (c, p) => ValidPath G s g p ∧ pathCost G.cost p = c ∧ (Consistent G h → Shortest G s g c) := by
  have hopt := C20_optCost_shortest G hwf s g hs
  unfold judgeFind at hok
  cases out with
  | none =>
    cases ho : optCost G s g with
    | none => exact hopt.2.1 ho
    | some o => rw [ho] at hok; simp at hok
  | some cp =>
    obtain ⟨c, p⟩ := cp
    simp only at hok ⊢
    by_cases hv : validPathB G s g p = true
    · simp only [hv, Bool.not_true, Bool.false_eq_true, if_false] at hok
      by_cases hc : pathCost G.cost p = c
      · simp only [hc, ne_eq, not_true_eq_false, if_false] at hok
        refine ⟨(validPathB_iff G s g p).1 hv, hc, ?_⟩
        intro hcons
        cases ho : optCost G s g with
        | none => rw [ho] at hok; simp at hok
        | some o =>
          rw [ho] at hok
          simp only at hok
          have hsh := hopt.1 o ho
          have hreach : Reach G s g c := hc ▸ (C20_reach_iff_validPath G s g _).2 ⟨p, (validPathB_iff G s g p).1 hv, rfl⟩
          by_cases hlt : c < o
          · simp [hlt] at hok
          · simp only [hlt, if_false, (C20_consistentB_iff G h).2 hcons, Bool.true_and] at hok
            by_cases hne : c = o
            · subst hne; exact hsh
            · simp [hne] at hok
      · simp [hc] at hok
    · simp [hv] at hok

/-! ### non-vacuity -/

/-- a 4-node diamond: 0→1 (1), 0→2 (4), 1→2 (1), 2→3 (1); node 3 has no way back -/
def demo : Graph where
  n := 4
  nbrs v := if v = 0 then [1, 2] else if v = 1 then [2] else if v = 2 then [3] else []
  cost u v := if u = 0 ∧ v = 2 then 4 else 1

theorem demo_wf : WF demo := (C20_wfB_iff demo).1 (by decide)

theorem demo_reach : Reach demo 0 3 3 :=
  Reach.step (Reach.step (Reach.step Reach.base (x := 1) (by decide)) (x := 2) (by decide)) (x := 3) (by decide)

/-- the hypotheses of the three theorems are satisfiable and give a concrete conclusion: on the
    diamond the search finds a valid path from 0 to 3 of cost at most 3 (the detour over the
    expensive edge costs 5), and reports "no path" from 3 to 0 -/
example : ∃ p, find demo 0 3 (fun _ => 0) = .found p ∧ ValidPath demo 0 3 p ∧ pathCost demo.cost p ≤ 3 := by
  have hc := C20_astar_complete demo demo_wf 0 3 (by decide) (fun _ => 0)
  cases hr : find demo 0 3 (fun _ => 0) with
  | notFound => exact absurd ⟨3, demo_reach⟩ (hc.1.1 hr)
  | outOfFuel => exact absurd hr hc.2
  | found p =>
    refine ⟨p, rfl, C20_astar_sound demo 0 3 _ p hr, ?_⟩
    have hz : Consistent demo (fun _ => 0) := by intro u _ v _; simp
    exact (C20_astar_optimal demo demo_wf 0 3 (by decide) _ hz p hr).2 3 demo_reach

example : find demo 3 0 (fun _ => 0) = .notFound := by
  refine (C20_astar_complete demo demo_wf 3 0 (by decide) _).1.2 ?_
  rintro ⟨c, hr⟩
  -- nothing leaves node 3
  have : ∀ y c, Reach demo 3 y c → y = 3 := by
    intro y c h
    induction h with
    | base => rfl
    | step _ hx ih => subst ih; simp [demo] at hx
  exact absurd (this 0 c hr) (by decide)


/-! ## geometry -/

theorem C20_closest_on_segment (a b p : Pt) : OnSeg a b (closestPoint a b p) := closest_on_segment a b p

theorem C20_closest_minimal (a b p : Pt) (s : ℚ) (hs0 : 0 ≤ s) (hs1 : s ≤ 1) :
    distSq p (closestPoint a b p) ≤ distSq p (lerp a b s) := closest_minimal a b p s hs0 hs1

theorem C20_onSegment_iff (a b p : Pt) : isPointOnSegment a b p = true ↔ OnSeg a b p :=
  ⟨onSeg_of_onSegment a b p, onSegment_of_onSeg a b p⟩

/-- the brute-force decision used by the oracle's spec role decides the same predicate -/
theorem C20_onSegB_iff (a b p : Pt) : onSegB a b p = isPointOnSegment a b p := by
  have h1 := C20_onSegment_iff a b p
  cases hb : onSegB a b p with
  | true =>
    symm; rw [h1]
    unfold onSegB at hb
    by_cases hds : distSq a b = 0
    · simp only [hds, if_true, decide_eq_true_eq] at hb
      subst hb; exact ⟨0, le_refl _, by norm_num, by simp [lerp]⟩
    · simp only [hds, if_false, Bool.and_eq_true, decide_eq_true_eq] at hb
      obtain ⟨⟨hc, h0⟩, h1'⟩ := hb
      have hpos : 0 < distSq a b := lt_of_le_of_ne (distSq_nonneg a b) (Ne.symm hds)
      refine ⟨dot a b p / distSq a b, div_nonneg h0 hpos.le, (div_le_one hpos).2 h1', ?_⟩
      have hdsv : distSq a b = (b.x - a.x) * (b.x - a.x) + (b.y - a.y) * (b.y - a.y) := by simp [distSq, Model.Geometry.sq]
      cases p with
      | mk px py =>
        simp only [lerp, Pt.mk.injEq, dot, areaTwice] at *
        constructor
        · field_simp; rw [hdsv]; linear_combination (b.y - a.y) * hc
        · field_simp; rw [hdsv]; linear_combination (-(b.x - a.x)) * hc
  | false =>
    symm
    cases hi : isPointOnSegment a b p with
    | false => rfl
    | true =>
      obtain ⟨t, h0, h1', rfl⟩ := h1.1 hi
      exfalso
      unfold onSegB at hb
      by_cases hds : distSq a b = 0
      · have := distSq_eq_zero a b hds; subst this
        simp [hds, lerp] at hb
      · simp only [hds, if_false] at hb
        have e1 : areaTwice a b (lerp a b t) = 0 := by simp only [areaTwice, lerp]; ring
        have e2 : dot a b (lerp a b t) = t * distSq a b := by simp only [dot, lerp, distSq, Model.Geometry.sq]; ring
        have hpos := distSq_nonneg a b
        rw [e1, e2] at hb
        have : 0 ≤ t * distSq a b := mul_nonneg h0 hpos
        have : t * distSq a b ≤ distSq a b := by nlinarith
        simp_all

theorem C20_sqrtSumEq_iff (A B C : ℚ) (hA : 0 ≤ A) (hB : 0 ≤ B) (hC : 0 ≤ C) :
    sqrtSumEq A B C = true ↔ Real.sqrt (A : ℝ) + Real.sqrt (B : ℝ) = Real.sqrt (C : ℝ) := sqrtSumEq_iff A B C hA hB hC

theorem C20_overlap_iff (a b c d : Pt) : segOverlap a b c d = overlapSpec a b c d := segOverlap_eq a b c d

theorem C20_overlap_param (o dir : Pt) (hd : lexLt ⟨0, 0⟩ dir) (s t : ℚ) :
    lexLt ⟨o.x + s * dir.x, o.y + s * dir.y⟩ ⟨o.x + t * dir.x, o.y + t * dir.y⟩ ↔ s < t := lexLt_param o dir hd s t

theorem C20_centroid_symmetric (c : Pt) (l : List Pt) (hne : l ≠ []) (hs : CentrallySymmetric c l) :
    rectCentroid l = some c ∧ verticesCentroid l = some c := by
  have hlen : l.length ≠ 0 := fun h => hne (List.length_eq_zero_iff.1 h)
  obtain ⟨hx, hy⟩ := centroid_of_symmetric c l hne hs
  simp [rectCentroid, verticesCentroid, hlen, hx, hy]

theorem C20_rect_centroid (x0 y0 x1 y1 : ℚ) :
    rectCentroid [⟨x0, y0⟩, ⟨x1, y0⟩, ⟨x1, y1⟩, ⟨x0, y1⟩] = some ⟨(x0 + x1) / 2, (y0 + y1) / 2⟩ := by
  simp only [rectCentroid, sumX, sumY, List.length_cons, List.length_nil, List.map_cons, List.map_nil, List.sum_cons,
    List.sum_nil]
  norm_num
  constructor <;> ring

theorem C20_circle_contains_iff (c : Pt) (r : ℚ) (p : Pt) :
    circleContains c r p = true ↔ Real.sqrt (((p.x - c.x) ^ 2 + (p.y - c.y) ^ 2 : ℚ) : ℝ) ≤ (r : ℝ) :=
  circleContains_iff c r p

theorem C20_circle_intersect_iff (c1 : Pt) (r1 : ℚ) (c2 : Pt) (r2 : ℚ) :
    circleIntersect c1 r1 c2 r2 = true ↔ Real.sqrt ((distSq c2 c1 : ℚ) : ℝ) ≤ ((r1 + r2 : ℚ) : ℝ) := sqrtLe_iff _ _

theorem C20_circle_overlap_iff (c1 : Pt) (r1 : ℚ) (c2 : Pt) (r2 : ℚ) :
    circleOverlap c1 r1 c2 r2 = true ↔ Real.sqrt ((distSq c2 c1 : ℚ) : ℝ) < ((r1 + r2 : ℚ) : ℝ) := sqrtLt_iff _ _

/-! non-vacuity: the witness of the repaired precedence defect, a boundary point of a circle, nested segments -/
example : closestPoint ⟨0, 0⟩ ⟨10, 0⟩ ⟨5, 5⟩ = ⟨5, 0⟩ := by
  norm_num [closestPoint, distSq, Model.Geometry.sq, clamp]
example : closestPoint ⟨1, 1⟩ ⟨1, 1⟩ ⟨5, 5⟩ = ⟨1, 1⟩ := by
  norm_num [closestPoint, distSq, Model.Geometry.sq]
example : circleContains ⟨0, 0⟩ 5 ⟨3, 4⟩ = true ∧ circleOverlap ⟨0, 0⟩ 2 ⟨5, 0⟩ 3 = false := by
  norm_num [circleContains, circleOverlap, sqrtLe, sqrtLt, distSq, Model.Geometry.sq]
example : segOverlap ⟨0, 0⟩ ⟨3, 0⟩ ⟨1, 0⟩ ⟨2, 0⟩ = some (⟨1, 0⟩, ⟨2, 0⟩) ∧ segOverlap ⟨0, 0⟩ ⟨1, 0⟩ ⟨2, 0⟩ ⟨3, 0⟩ = none := by
  rw [C20_overlap_iff, C20_overlap_iff]
  norm_num [overlapSpec, lexMin, lexMax, lexLt]
example : OnSeg ⟨0, 0⟩ ⟨10, 10⟩ ⟨5, 5⟩ ∧ isPointOnSegment ⟨0, 0⟩ ⟨10, 10⟩ ⟨5, 5⟩ = true := by
  have h : OnSeg ⟨0, 0⟩ ⟨10, 10⟩ ⟨5, 5⟩ := ⟨1 / 2, by norm_num, by norm_num, by norm_num [lerp]⟩
  exact ⟨h, (C20_onSegment_iff _ _ _).2 h⟩

/-! ## funnel -/

theorem C20_funnel_endpoints (portals : List (Pt × Pt)) (path : List Pt) (h : stringPull portals = some path) :
    (∃ p0, portals.head? = some p0 ∧ path.head? = some p0.1) ∧
    (∃ pl, portals.getLast? = some pl ∧ path.getLast? = some pl.1) :=
  ⟨(stringPull_spec portals path h).1, (stringPull_spec portals path h).2.1⟩

theorem C20_funnel_vertices_are_portal_ends (portals : List (Pt × Pt)) (path : List Pt)
    (h : stringPull portals = some path) : ∀ v ∈ path, ∃ pr ∈ portals, v = pr.1 ∨ v = pr.2 :=
  (stringPull_spec portals path h).2.2

/-- non-vacuity: a one-portal corridor yields the single point; the theorems then give its ends -/
example : stringPull [((⟨1, 1⟩ : Pt), (⟨1, 1⟩ : Pt))] = some [⟨1, 1⟩] := by
  simp [stringPull, Model.Funnel.loop]

end MV.Props.C20
