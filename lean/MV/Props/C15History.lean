import MV.Props.C15Queues
import MV.Props.C15Unbounded
import MV.Lemmas.ConcHistory
/-!
# C15 — the histories of the queue models satisfy the judge of the concurrent harness suites

The concurrent suites `lfq-conc` / `mpsc-conc` run the real queues with several goroutines and hand
the observed history (per-producer pushes, per-consumer pops incl. the final drain) to
`MV.Spec.ConcQueue.judge`.  The theorems below say that this `Bool` function is what the
interleaving models guarantee: for every program list with distinct values and every schedule,
* at every reachable state the history has no value popped twice and none invented,
* once all threads have finished every consumer saw every producer's values in program order,
* and if moreover the queue has been drained nothing is lost: `judge … = true`.
-/
namespace MV.Props.C15
open MV.Model MV.Spec.ConcQueue MV.Lemmas.ConcHistory

theorem range_map_getElem? {α β : Type} (l : List α) (f : α → List β) :
    (List.range l.length).map (fun i => ((l[i]?).map f).getD []) = l.map f := by
  apply List.ext_getElem
  · simp
  · intro i h1 h2
    simp only [List.length_map, List.length_range] at h1
    simp [h1]

theorem range_map_getD {β : Type} (l : List (List β)) :
    (List.range l.length).map (fun i => (l[i]?).getD []) = l := by
  apply List.ext_getElem
  · simp
  · intro i h1 h2
    simp only [List.length_map, List.length_range] at h1
    simp [h1]

/-! ## Michael–Scott queue -/

/-- the observable history of a state of the `LFQueue` model: what each thread's program pushes,
what each thread's `Pop`s returned (in the order of its `head` CASes = its program order). -/
def msqPushes (progs : List (List LFQueue.Op)) : List (List Int) := progs.map LFQueue.pushesOf
def msqPops (progs : List (List LFQueue.Op)) (s : LFQueue.St) : List (List Int) :=
  (List.range progs.length).map (fun c => (s.g.popped.filter (fun q => q.1 = c)).map (·.2))

theorem C15_msq_history_ok (progs : List (List LFQueue.Op)) (sched : List Nat)
    (hnd : (msqPushes progs).flatten.Nodup) :
    let s := LFQueue.run (LFQueue.init progs) sched
    (noDup (msqPops progs s) = true ∧ noneInvented (msqPushes progs) (msqPops progs s) = true) ∧
    ((∀ th ∈ s.ths, th.pc = .done) → orderKept (msqPushes progs) (msqPops progs s) = true) ∧
    ((∀ th ∈ s.ths, th.pc = .done) → LFQueue.remaining s.g = [] →
      judge (msqPushes progs) (msqPops progs s) = true) := by
  intro s
  -- the generic ingredients
  let L : List (Nat × Int) := (s.g.all.drop 1).map (fun nd => (nd.tid, nd.val))
  let P : Nat → List Int := fun i => ((progs[i]?).map LFQueue.pushesOf).getD []
  have hPeq : (List.range progs.length).map P = msqPushes progs := range_map_getElem? progs _
  have hP0 : ∀ i, progs.length ≤ i → P i = [] := by
    intro i hi; simp [P, List.getElem?_eq_none hi]
  have hLi : ∀ i, ofProd L i = LFQueue.linked s.g i := by
    intro i
    simp only [ofProd, L, LFQueue.linked, List.filter_map, List.map_map]
    rfl
  have hlin := C15_msq_linearizable progs sched
  have hI : LFQueue.SInv s := LFQueue.run_inv _ sched (LFQueue.init_inv progs)
  have hLsub : ∀ i, (ofProd L i).Sublist (P i) := fun i => by
    rw [hLi i]; exact (hlin.2.1 i).sublist
  have hnd' : (famFlat P progs.length).Nodup := by unfold famFlat; rw [hPeq]; exact hnd
  have hLv : L.map (·.2) = (s.g.all.drop 1).map (·.val) := by simp [L, List.map_map]; rfl
  have hQ : (s.g.popped.map (·.2)).Sublist (L.map (·.2)) := by
    rw [hLv, hI.1.2.2.2.1]
    exact List.Sublist.map _ (List.take_sublist _ _)
  have hsub : ∀ c ∈ msqPops progs s, c.Sublist (s.g.popped.map (·.2)) := by
    intro c hc
    obtain ⟨j, _, rfl⟩ := List.mem_map.mp hc
    exact List.Sublist.map _ List.filter_sublist
  have hpnd : (s.g.popped.map (·.2)).Nodup → (msqPops progs s).flatten.Nodup :=
    fun h => split_nodup s.g.popped h progs.length
  obtain ⟨hin, hnd2, hinv⟩ := history_safe L P progs.length (s.g.popped.map (·.2)) (msqPops progs s)
    hP0 hLsub hnd' hQ hsub hpnd
  rw [hPeq] at hin hinv
  have hord : (∀ th ∈ s.ths, th.pc = .done) → orderKept (msqPushes progs) (msqPops progs s) = true := by
    intro hq
    have hLeq : ∀ i, ofProd L i = P i := fun i => by rw [hLi i]; exact C15_msq_quiescent progs sched hq i
    have := history_order L P progs.length (s.g.popped.map (·.2)) (msqPops progs s) hP0 hLeq hnd' hQ hsub
    rwa [hPeq] at this
  refine ⟨⟨hnd2, hinv⟩, hord, fun hq hrem => ?_⟩
  have hLeq : ∀ i, ofProd L i = P i := fun i => by rw [hLi i]; exact C15_msq_quiescent progs sched hq i
  have hQeq : s.g.popped.map (·.2) = L.map (·.2) := by
    have := hlin.1
    rw [hrem, List.append_nil] at this
    rw [this, hLv]; rfl
  have htid := LFQueue.run_tid _ sched (LFQueue.init_tid progs)
  have hlen : s.ths.length = progs.length := by
    rw [htid.2]; simp [LFQueue.init]
  have hall : ∀ v ∈ s.g.popped.map (·.2), v ∈ (msqPops progs s).flatten := by
    intro v hv
    obtain ⟨q, hq', rfl⟩ := List.mem_map.mp hv
    have hlt : q.1 < progs.length := by rw [← hlen]; exact htid.1 q hq'
    refine List.mem_flatten.mpr ⟨_, List.mem_map.mpr ⟨q.1, List.mem_range.mpr hlt, rfl⟩, ?_⟩
    exact List.mem_map.mpr ⟨q, List.mem_filter.mpr ⟨hq', by simp⟩, rfl⟩
  have hcomp := history_complete L P progs.length (s.g.popped.map (·.2)) (msqPops progs s) hLeq hQeq hall
  rw [hPeq] at hcomp
  simp [judge, hin, hnd2, hinv, hcomp, hord hq]

/-! ## MPSC queue (single consumer: one pop sequence) -/

theorem C15_mpsc_history_ok (progs : List (List Int)) (sched : List MPSC.Act)
    (hnd : progs.flatten.Nodup) :
    let s := MPSC.run (MPSC.init progs) sched
    (noDup [s.g.popped] = true ∧ noneInvented progs [s.g.popped] = true) ∧
    ((∀ th ∈ s.ths, th.pc = .done) → orderKept progs [s.g.popped] = true) ∧
    ((∀ th ∈ s.ths, th.pc = .done) → MPSC.remaining s.g = [] → judge progs [s.g.popped] = true) := by
  intro s
  let L : List (Nat × Int) := (s.g.order.drop 1).map (fun nd => (nd.tid, nd.val))
  let P : Nat → List Int := fun i => (progs[i]?).getD []
  have hPeq : (List.range progs.length).map P = progs := range_map_getD progs
  have hP0 : ∀ i, progs.length ≤ i → P i = [] := by
    intro i hi; simp [P, List.getElem?_eq_none hi]
  have hPi : ∀ i, P i = (progs[i]?).getD [] := fun _ => rfl
  have hLi : ∀ i, ofProd L i = MPSC.linked s.g i := by
    intro i
    simp only [ofProd, L, MPSC.linked, List.filter_map, List.map_map]
    rfl
  have hsafe := C15_mpsc_safe progs sched
  have hI : MPSC.SInv s := MPSC.run_inv _ sched (MPSC.init_inv progs)
  have hLsub : ∀ i, (ofProd L i).Sublist (P i) := fun i => by
    rw [hLi i, hPi i]; exact (hsafe.2.1 i).sublist
  have hnd' : (famFlat P progs.length).Nodup := by unfold famFlat; rw [hPeq]; exact hnd
  have hLv : L.map (·.2) = (s.g.order.drop 1).map (·.val) := by simp [L, List.map_map]; rfl
  have hQ : s.g.popped.Sublist (L.map (·.2)) := by
    rw [hLv, hI.1.2.2.2.2.1]
    exact List.Sublist.map _ (List.take_sublist _ _)
  have hsub : ∀ c ∈ [s.g.popped], c.Sublist s.g.popped := by
    intro c hc; simp at hc; rw [hc]; exact List.Sublist.refl _
  have hpnd : s.g.popped.Nodup → [s.g.popped].flatten.Nodup := by
    intro h; simpa using h
  obtain ⟨hin, hnd2, hinv⟩ := history_safe L P progs.length s.g.popped [s.g.popped]
    hP0 hLsub hnd' hQ hsub hpnd
  rw [hPeq] at hin hinv
  have hord : (∀ th ∈ s.ths, th.pc = .done) → orderKept progs [s.g.popped] = true := by
    intro hq
    have hLeq : ∀ i, ofProd L i = P i := fun i => by
      rw [hLi i, hPi i]; exact C15_mpsc_quiescent_all_pushed progs sched hq i
    have := history_order L P progs.length s.g.popped [s.g.popped] hP0 hLeq hnd' hQ hsub
    rwa [hPeq] at this
  refine ⟨⟨hnd2, hinv⟩, hord, fun hq hrem => ?_⟩
  have hLeq : ∀ i, ofProd L i = P i := fun i => by
    rw [hLi i, hPi i]; exact C15_mpsc_quiescent_all_pushed progs sched hq i
  have hQeq : s.g.popped = L.map (·.2) := by
    have := hsafe.1
    rw [hrem, List.append_nil] at this
    rw [this, hLv]; rfl
  have hall : ∀ v ∈ s.g.popped, v ∈ [s.g.popped].flatten := by
    intro v hv; simpa using hv
  have hcomp := history_complete L P progs.length s.g.popped [s.g.popped] hLeq hQeq hall
  rw [hPeq] at hcomp
  simp [judge, hin, hnd2, hinv, hcomp, hord hq]

/-! ## `buffer.Unbounded` / `channels.UnboundedBacklog` used by concurrent goroutines

Every operation of these buffers is atomic (mutex / one channel operation), so a concurrent run is
a sequence of `(goroutine, operation)` pairs.  `tputs`: the values put, tagged with the goroutine;
`trecv`: the values received (`recv`/`take`), tagged with the receiving goroutine. -/

open MV.Model.Unbounded in
def tputs : List (Nat × Op) → List (Nat × Int)
  | [] => []
  | (t, .put v) :: r => (t, v) :: tputs r
  | _ :: r => tputs r

open MV.Model.Unbounded in
def trecv (u : MV.Model.Unbounded) : List (Nat × Op) → List (Nat × Int)
  | [] => []
  | (t, op) :: r =>
    (match (MV.Model.Unbounded.step u op).2 with
      | .val v => [(t, v)]
      | _ => []) ++ trecv (MV.Model.Unbounded.step u op).1 r

open MV.Model.Unbounded in
theorem trecv_vals (u : MV.Model.Unbounded) (s : List (Nat × Op)) :
    (trecv u s).map (·.2) = MV.Spec.ClosableQueue.received (MV.Model.Unbounded.run u (s.map (·.2))) := by
  induction s generalizing u with
  | nil => rfl
  | cons x r ih =>
    obtain ⟨t, op⟩ := x
    simp only [trecv, List.map_cons, List.map_append, MV.Model.Unbounded.run]
    rw [ih, received_cons]
    congr 1
    cases (MV.Model.Unbounded.step u op).2 <;> rfl

open MV.Model.Unbounded in
theorem tputs_accepted (u : MV.Model.Unbounded) (s : List (Nat × Op)) (ho : u.closed = false)
    (hnc : ∀ x ∈ s, x.2 ≠ Op.close) : uaccepted u (s.map (·.2)) = (tputs s).map (·.2) := by
  induction s generalizing u with
  | nil => rfl
  | cons x r ih =>
    obtain ⟨t, op⟩ := x
    have hop : op ≠ Op.close := hnc (t, op) List.mem_cons_self
    have hr : ∀ x ∈ r, x.2 ≠ Op.close := fun x hx => hnc x (List.mem_cons_of_mem _ hx)
    have hstay : (MV.Model.Unbounded.step u op).1.closed = false := by
      obtain ⟨c, closed, backlog⟩ := u
      simp only at ho; subst ho
      cases op <;> cases c <;> cases backlog <;>
        simp_all [MV.Model.Unbounded.step, put, load, recv, MV.Model.Unbounded.close]
    cases op with
    | put v => simp [uaccepted, tputs, ho, ih _ hstay hr]
    | close => exact absurd rfl hop
    | load => simpa [uaccepted, tputs] using ih _ hstay hr
    | recv => simpa [uaccepted, tputs] using ih _ hstay hr
    | take => simpa [uaccepted, tputs] using ih _ hstay hr
    | isClosed => simpa [uaccepted, tputs] using ih _ hstay hr

/-- **the judged history of a concurrent run of the backlog buffers**: `n` goroutines, any
interleaving `sched` of their `Put`/`Load`/receive operations (no `Close`), distinct values:
producer `p` pushed `ofProd (tputs sched) p` (its puts in its program order), goroutine `c` received
`ofProd (trecv … sched) c`.  No value is received twice, none is invented, every consumer sees every
producer's values in program order, and once the buffer is empty nothing is lost. -/
theorem C15_unbounded_history_ok (n : Nat) (sched : List (Nat × MV.Model.Unbounded.Op))
    (htid : ∀ x ∈ sched, x.1 < n) (hnc : ∀ x ∈ sched, x.2 ≠ MV.Model.Unbounded.Op.close)
    (hnd : ((tputs sched).map (·.2)).Nodup) :
    let pushes := (List.range n).map (ofProd (tputs sched))
    let pops := (List.range n).map (ofProd (trecv MV.Model.Unbounded.new sched))
    noDup pops = true ∧ noneInvented pushes pops = true ∧ orderKept pushes pops = true ∧
    (ucontent (MV.Model.Unbounded.exec MV.Model.Unbounded.new (sched.map (·.2))) = [] → judge pushes pops = true) := by
  intro pushes pops
  let L := tputs sched
  let Q := trecv MV.Model.Unbounded.new sched
  have hfifo := C15_unbounded_fifo_any_use (sched.map (·.2))
  rw [tputs_accepted _ sched rfl hnc, ← trecv_vals] at hfifo
  have htL : ∀ x ∈ L, x.1 < n := by
    intro x hx
    have : ∀ (s : List (Nat × MV.Model.Unbounded.Op)), (∀ y ∈ s, y.1 < n) → ∀ x ∈ tputs s, x.1 < n := by
      intro s
      induction s with
      | nil => intro _ x hx; cases hx
      | cons y r ih =>
        intro hy x hx
        obtain ⟨t, op⟩ := y
        have hr := fun z hz => hy z (List.mem_cons_of_mem _ hz)
        cases op <;> simp only [tputs] at hx
        case put v =>
          rcases List.mem_cons.mp hx with rfl | hx'
          · exact hy (t, .put v) List.mem_cons_self
          · exact ih hr x hx'
        all_goals exact ih hr x hx
    exact this sched htid x hx
  have hP0 : ∀ i, n ≤ i → ofProd L i = [] := by
    intro i hi
    simp only [ofProd, List.map_eq_nil_iff, List.filter_eq_nil_iff]
    intro x hx
    have := htL x hx
    simp; omega
  have hQsub : (Q.map (·.2)).Sublist (L.map (·.2)) := by
    rw [← hfifo]; exact List.sublist_append_left _ _
  have hsub : ∀ c ∈ pops, c.Sublist (Q.map (·.2)) := by
    intro c hc
    obtain ⟨j, _, rfl⟩ := List.mem_map.mp hc
    exact List.Sublist.map _ List.filter_sublist
  have hpnd : (Q.map (·.2)).Nodup → pops.flatten.Nodup := fun h => split_nodup Q h n
  -- distinct values overall ⇒ the per-producer family is duplicate-free
  have hfam : (famFlat (ofProd L) n).Nodup := by
    have : ∀ m, (famFlat (ofProd L) m).Nodup := by
      intro m
      induction m with
      | zero => simp [famFlat]
      | succ m ih =>
        have e : famFlat (ofProd L) (m + 1) = famFlat (ofProd L) m ++ ofProd L m := by
          simp [famFlat, List.range_succ, List.flatten_append]
        rw [e, List.nodup_append]
        refine ⟨ih, (List.Sublist.map _ List.filter_sublist).nodup hnd, ?_⟩
        intro a ha b hb hab
        obtain ⟨i, hi, hai⟩ := mem_famFlat.mp ha
        obtain ⟨x, hx, rfl⟩ := List.mem_map.mp hai
        obtain ⟨y, hy, rfl⟩ := List.mem_map.mp hb
        have hx' := List.mem_filter.mp hx
        have hy' := List.mem_filter.mp hy
        have := eq_of_nodup_map_snd L hnd x hx'.1 y hy'.1 hab
        have e1 : x.1 = i := by simpa using hx'.2
        have e2 : y.1 = m := by simpa using hy'.2
        rw [this] at e1; omega
    exact this n
  obtain ⟨_, h2, h3⟩ := history_safe L (ofProd L) n (Q.map (·.2)) pops hP0 (fun i => List.Sublist.refl _) hfam hQsub hsub hpnd
  have h4 := history_order L (ofProd L) n (Q.map (·.2)) pops hP0 (fun i => rfl) hfam hQsub hsub
  have h1 : inputOk pushes = true := by simpa [inputOk, famFlat] using hfam
  refine ⟨h2, h3, h4, fun hempty => ?_⟩
  rw [hempty, List.append_nil] at hfifo
  have hall : ∀ v ∈ Q.map (·.2), v ∈ pops.flatten := by
    intro v hv
    obtain ⟨q, hq, rfl⟩ := List.mem_map.mp hv
    have hlt : q.1 < n := by
      have : ∀ (u : MV.Model.Unbounded) (s : List (Nat × MV.Model.Unbounded.Op)), (∀ y ∈ s, y.1 < n) →
          ∀ x ∈ trecv u s, x.1 < n := by
        intro u s
        induction s generalizing u with
        | nil => intro _ x hx; cases hx
        | cons y r ih =>
          intro hy x hx
          obtain ⟨t, op⟩ := y
          simp only [trecv] at hx
          rcases List.mem_append.mp hx with hx' | hx'
          · have ht := hy (t, op) List.mem_cons_self
            cases ho : (MV.Model.Unbounded.step u op).2 <;> rw [ho] at hx' <;> simp at hx'
            rw [hx']; exact ht
          · exact ih _ (fun z hz => hy z (List.mem_cons_of_mem _ hz)) x hx'
      exact this _ sched htid q hq
    refine List.mem_flatten.mpr ⟨_, List.mem_map.mpr ⟨q.1, List.mem_range.mpr hlt, rfl⟩, ?_⟩
    exact List.mem_map.mpr ⟨q, List.mem_filter.mpr ⟨hq, by simp⟩, rfl⟩
  have h5 := history_complete L (ofProd L) n (Q.map (·.2)) pops (fun i => rfl) hfifo hall
  simp only [judge, Bool.and_eq_true]
  exact ⟨⟨⟨⟨h1, h2⟩, h3⟩, h5⟩, h4⟩

/-- non-vacuity: the judge rejects a reordered, a duplicated, an invented and a lost value -/
example : judge [[1, 2], [11]] [[1, 11], [2]] = true ∧ judge [[1, 2], [11]] [[2, 11, 1]] = false ∧
    judge [[1, 2]] [[1, 2], [1]] = false ∧ judge [[1, 2]] [[1, 2, 3]] = false ∧ judge [[1, 2]] [[1]] = false := by
  decide

end MV.Props.C15
