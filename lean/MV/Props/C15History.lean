import MV.Props.C15Queues
import MV.Lemmas.ConcHistory
/-!
# C15 — the histories of the queue models satisfy the judge of the concurrent harness suites

The concurrent suites `lfq-conc` / `mpsc-conc` run the real queues with several goroutines and hand
the observed history (per-producer pushes, per-consumer pops incl. the final drain) to
`MV.Spec.ConcQueue.judge`.  The theorems below say that this `Bool` function is what the
interleaving models guarantee: for every program list with distinct values and every schedule,
* at every reachable state the history has no value popped twice and none invented,
* once all threads have finished every consumer saw every producer's values in program order,
* and if moreover the queue has been drained nothing is lost: `judge … = true`.
-/
namespace MV.Props.C15
open MV.Model MV.Spec.ConcQueue MV.Lemmas.ConcHistory

theorem range_map_getElem? {α β : Type} (l : List α) (f : α → List β) :
    (List.range l.length).map (fun i => ((l[i]?).map f).getD []) = l.map f := by
  apply List.ext_getElem
  · simp
  · intro i h1 h2
    simp only [List.length_map, List.length_range] at h1
    simp [h1]

theorem range_map_getD {β : Type} (l : List (List β)) :
    (List.range l.length).map (fun i => (l[i]?).getD []) = l := by
  apply List.ext_getElem
  · simp
  · intro i h1 h2
    simp only [List.length_map, List.length_range] at h1
    simp [h1]

/-! ## Michael–Scott queue -/

/-- the observable history of a state of the `LFQueue` model: what each thread's program pushes,
what each thread's `Pop`s returned (in the order of its `head` CASes = its program order). -/
def msqPushes (progs : List (List LFQueue.Op)) : List (List Int) := progs.map LFQueue.pushesOf
def msqPops (progs : List (List LFQueue.Op)) (s : LFQueue.St) : List (List Int) :=
  (List.range progs.length).map (fun c => (s.g.popped.filter (fun q => q.1 = c)).map (·.2))

theorem C15_msq_history_ok (progs : List (List LFQueue.Op)) (sched : List Nat)
    (hnd : (msqPushes progs).flatten.Nodup) :
    let s := LFQueue.run (LFQueue.init progs) sched
    (noDup (msqPops progs s) = true ∧ noneInvented (msqPushes progs) (msqPops progs s) = true) ∧
    ((∀ th ∈ s.ths, th.pc = .done) → orderKept (msqPushes progs) (msqPops progs s) = true) ∧
    ((∀ th ∈ s.ths, th.pc = .done) → LFQueue.remaining s.g = [] →
      judge (msqPushes progs) (msqPops progs s) = true) := by
  intro s
  -- the generic ingredients
  let L : List (Nat × Int) := (s.g.all.drop 1).map (fun nd => (nd.tid, nd.val))
  let P : Nat → List Int := fun i => ((progs[i]?).map LFQueue.pushesOf).getD []
  have hPeq : (List.range progs.length).map P = msqPushes progs := range_map_getElem? progs _
  have hP0 : ∀ i, progs.length ≤ i → P i = [] := by
    intro i hi; simp [P, List.getElem?_eq_none hi]
  have hLi : ∀ i, ofProd L i = LFQueue.linked s.g i := by
    intro i
    simp only [ofProd, L, LFQueue.linked, List.filter_map, List.map_map]
    rfl
  have hlin := C15_msq_linearizable progs sched
  have hI : LFQueue.SInv s := LFQueue.run_inv _ sched (LFQueue.init_inv progs)
  have hLsub : ∀ i, (ofProd L i).Sublist (P i) := fun i => by
    rw [hLi i]; exact (hlin.2.1 i).sublist
  have hnd' : (famFlat P progs.length).Nodup := by unfold famFlat; rw [hPeq]; exact hnd
  have hLv : L.map (·.2) = (s.g.all.drop 1).map (·.val) := by simp [L, List.map_map]; rfl
  have hQ : (s.g.popped.map (·.2)).Sublist (L.map (·.2)) := by
    rw [hLv, hI.1.2.2.2.1]
    exact List.Sublist.map _ (List.take_sublist _ _)
  have hsub : ∀ c ∈ msqPops progs s, c.Sublist (s.g.popped.map (·.2)) := by
    intro c hc
    obtain ⟨j, _, rfl⟩ := List.mem_map.mp hc
    exact List.Sublist.map _ List.filter_sublist
  have hpnd : (s.g.popped.map (·.2)).Nodup → (msqPops progs s).flatten.Nodup :=
    fun h => split_nodup s.g.popped h progs.length
  obtain ⟨hin, hnd2, hinv⟩ := history_safe L P progs.length (s.g.popped.map (·.2)) (msqPops progs s)
    hP0 hLsub hnd' hQ hsub hpnd
  rw [hPeq] at hin hinv
  have hord : (∀ th ∈ s.ths, th.pc = .done) → orderKept (msqPushes progs) (msqPops progs s) = true := by
    intro hq
    have hLeq : ∀ i, ofProd L i = P i := fun i => by rw [hLi i]; exact C15_msq_quiescent progs sched hq i
    have := history_order L P progs.length (s.g.popped.map (·.2)) (msqPops progs s) hP0 hLeq hnd' hQ hsub
    rwa [hPeq] at this
  refine ⟨⟨hnd2, hinv⟩, hord, fun hq hrem => ?_⟩
  have hLeq : ∀ i, ofProd L i = P i := fun i => by rw [hLi i]; exact C15_msq_quiescent progs sched hq i
  have hQeq : s.g.popped.map (·.2) = L.map (·.2) := by
    have := hlin.1
    rw [hrem, List.append_nil] at this
    rw [this, hLv]; rfl
  have htid := LFQueue.run_tid _ sched (LFQueue.init_tid progs)
  have hlen : s.ths.length = progs.length := by
    rw [htid.2]; simp [LFQueue.init]
  have hall : ∀ v ∈ s.g.popped.map (·.2), v ∈ (msqPops progs s).flatten := by
    intro v hv
    obtain ⟨q, hq', rfl⟩ := List.mem_map.mp hv
    have hlt : q.1 < progs.length := by rw [← hlen]; exact htid.1 q hq'
    refine List.mem_flatten.mpr ⟨_, List.mem_map.mpr ⟨q.1, List.mem_range.mpr hlt, rfl⟩, ?_⟩
    exact List.mem_map.mpr ⟨q, List.mem_filter.mpr ⟨hq', by simp⟩, rfl⟩
  have hcomp := history_complete L P progs.length (s.g.popped.map (·.2)) (msqPops progs s) hLeq hQeq hall
  rw [hPeq] at hcomp
  simp [judge, hin, hnd2, hinv, hcomp, hord hq]

/-! ## MPSC queue (single consumer: one pop sequence) -/

theorem C15_mpsc_history_ok (progs : List (List Int)) (sched : List MPSC.Act)
    (hnd : progs.flatten.Nodup) :
    let s := MPSC.run (MPSC.init progs) sched
    (noDup [s.g.popped] = true ∧ noneInvented progs [s.g.popped] = true) ∧
    ((∀ th ∈ s.ths, th.pc = .done) → orderKept progs [s.g.popped] = true) ∧
    ((∀ th ∈ s.ths, th.pc = .done) → MPSC.remaining s.g = [] → judge progs [s.g.popped] = true) := by
  intro s
  let L : List (Nat × Int) := (s.g.order.drop 1).map (fun nd => (nd.tid, nd.val))
  let P : Nat → List Int := fun i => (progs[i]?).getD []
  have hPeq : (List.range progs.length).map P = progs := range_map_getD progs
  have hP0 : ∀ i, progs.length ≤ i → P i = [] := by
    intro i hi; simp [P, List.getElem?_eq_none hi]
  have hPi : ∀ i, P i = (progs[i]?).getD [] := fun _ => rfl
  have hLi : ∀ i, ofProd L i = MPSC.linked s.g i := by
    intro i
    simp only [ofProd, L, MPSC.linked, List.filter_map, List.map_map]
    rfl
  have hsafe := C15_mpsc_safe progs sched
  have hI : MPSC.SInv s := MPSC.run_inv _ sched (MPSC.init_inv progs)
  have hLsub : ∀ i, (ofProd L i).Sublist (P i) := fun i => by
    rw [hLi i, hPi i]; exact (hsafe.2.1 i).sublist
  have hnd' : (famFlat P progs.length).Nodup := by unfold famFlat; rw [hPeq]; exact hnd
  have hLv : L.map (·.2) = (s.g.order.drop 1).map (·.val) := by simp [L, List.map_map]; rfl
  have hQ : s.g.popped.Sublist (L.map (·.2)) := by
    rw [hLv, hI.1.2.2.2.2.1]
    exact List.Sublist.map _ (List.take_sublist _ _)
  have hsub : ∀ c ∈ [s.g.popped], c.Sublist s.g.popped := by
    intro c hc; simp at hc; rw [hc]; exact List.Sublist.refl _
  have hpnd : s.g.popped.Nodup → [s.g.popped].flatten.Nodup := by
    intro h; simpa using h
  obtain ⟨hin, hnd2, hinv⟩ := history_safe L P progs.length s.g.popped [s.g.popped]
    hP0 hLsub hnd' hQ hsub hpnd
  rw [hPeq] at hin hinv
  have hord : (∀ th ∈ s.ths, th.pc = .done) → orderKept progs [s.g.popped] = true := by
    intro hq
    have hLeq : ∀ i, ofProd L i = P i := fun i => by
      rw [hLi i, hPi i]; exact C15_mpsc_quiescent_all_pushed progs sched hq i
    have := history_order L P progs.length s.g.popped [s.g.popped] hP0 hLeq hnd' hQ hsub
    rwa [hPeq] at this
  refine ⟨⟨hnd2, hinv⟩, hord, fun hq hrem => ?_⟩
  have hLeq : ∀ i, ofProd L i = P i := fun i => by
    rw [hLi i, hPi i]; exact C15_mpsc_quiescent_all_pushed progs sched hq i
  have hQeq : s.g.popped = L.map (·.2) := by
    have := hsafe.1
    rw [hrem, List.append_nil] at this
    rw [this, hLv]; rfl
  have hall : ∀ v ∈ s.g.popped, v ∈ [s.g.popped].flatten := by
    intro v hv; simpa using hv
  have hcomp := history_complete L P progs.length s.g.popped [s.g.popped] hLeq hQeq hall
  rw [hPeq] at hcomp
  simp [judge, hin, hnd2, hinv, hcomp, hord hq]

/-- non-vacuity: the judge rejects a reordered, a duplicated, an invented and a lost value -/
example : judge [[1, 2], [11]] [[1, 11], [2]] = true ∧ judge [[1, 2], [11]] [[2, 11, 1]] = false ∧
    judge [[1, 2]] [[1, 2], [1]] = false ∧ judge [[1, 2]] [[1, 2, 3]] = false ∧ judge [[1, 2]] [[1]] = false := by
  decide

end MV.Props.C15
