import MV.Lemmas.PubSub
/-!
# C10 — a publication reaches every current subscriber of the topic exactly once

Part 1: the subscription actor as a sequential machine (`MV.Model.PubSub.SubActor`) against the set of
current subscriptions (`MV.Spec.PubSub.Abs`), for **every** sequence of envelopes.
The system-level statements (mailboxes, release on restart / termination, two nodes) are in
`MV.Props.C10Sys`.
-/
namespace MV.Props.C10
open MV.Model.PubSub MV.Spec.PubSub MV.Lemmas.PubSub

-- the physical address of the node the subscription actor lives on: every statement holds for any
variable (self : Nat)

/-- the state of the machine after any history refines the set of current subscriptions -/
theorem C10_refines (h : List Envelope) :
    (Abs.after h).count = (SubActor.run (SubActor.init self) h).1.guid ∧
    ∀ t, (SubActor.run (SubActor.init self) h).1.lookup t = (Abs.after h).on t :=
  refines_run self h

theorem deliveries_fanout (l : List Subscription) (s : Option Ref) (p : Nat) :
    deliveries (fanout l s p) = fanout l s p := by
  induction l with
  | nil => rfl
  | cons x xs ih => simp_all [deliveries, fanout]

theorem deliveries_append (a b : List Eff) : deliveries (a ++ b) = deliveries a ++ deliveries b := by
  simp [deliveries]

theorem deliveries_remote (sas : List Nat) (t : Topic) (p : Payload) (s : Option Ref) :
    deliveries (sas.map (fun a => Eff.tellRemote a t p s)) = [] := by
  simp [deliveries, List.filter_map, Function.comp_def]

/-- **Exact fan-out.** After any history `h` of envelopes, a local publish request for payload `p` on
    topic `t` with sender `snd` produces exactly one delivery per subscription that is current after
    `h` (established by a request in `h`, not cancelled by a later one — `C10_live_iff`), addressed
    to its subscriber, with the publisher as sender, and nothing for anybody else; the state of the
    subscription actor does not change. -/
theorem C10_fanout_exact (h : List Envelope) (snd : Option Ref) (t : Topic) (p : Payload) :
    let s := (SubActor.run (SubActor.init self) h).1
    let r := s.step { sender := snd, msg := .localPublishRequest t p }
    deliveries r.2 = (Abs.after h).expected t snd p.id ∧ r.1 = s := by
  intro s r
  have hr := (refines_run self h).2 t
  refine ⟨?_, rfl⟩
  show deliveries (onLocalPublishRequest s snd t p).2 = _
  unfold onLocalPublishRequest
  simp only [deliveries_append, deliveries_fanout]
  have h2 : deliveries (if 0 < s.sas.length ∧ p.enc = true then s.sas.map (fun a => Eff.tellRemote a t p snd) else []) = [] := by
    split
    · exact deliveries_remote _ _ _ _
    · rfl
  rw [h2, List.nil_append]
  show fanout (s.lookup t) snd p.id = _
  rw [hr]; rfl

/-- the same for a publication that arrives from another node: one delivery per current
    subscription, with the *original publisher* as sender; nothing if the payload cannot be decoded -/
theorem C10_remote_fanout_exact (h : List Envelope) (snd pub : Option Ref) (t : Topic) (p : Payload) (d : Bool) :
    let s := (SubActor.run (SubActor.init self) h).1
    let r := s.step { sender := snd, msg := .publishRequestBroadcast t p pub d }
    r.2 = (if d then (Abs.after h).expected t pub p.id else []) ∧ r.1 = s := by
  intro s r
  have hr := (refines_run self h).2 t
  show (onPublishRequestBroadcast s t p pub d).2 = _ ∧ (onPublishRequestBroadcast s t p pub d).1 = s
  unfold onPublishRequestBroadcast
  cases d
  · exact ⟨rfl, rfl⟩
  · refine ⟨?_, rfl⟩
    show fanout (s.lookup t) pub p.id = _
    rw [hr]; rfl

/-- the abstract set of current subscriptions, in first-order terms over the history -/
theorem C10_live_iff (h : List Envelope) (sub : Subscription) :
    sub ∈ (Abs.after h).live ↔ Current h sub := by
  induction h using snoc_induction with
  | nil =>
    constructor
    · intro hm; simp [Abs.after, Abs.init] at hm
    · rintro ⟨h1, snd, h2, he, _⟩
      have := congrArg List.length he
      simp at this
  | snoc h e ih =>
    rw [after_append]
    have split : ∀ (h1 : List Envelope) (x : Envelope) (h2 : List Envelope), h ++ [e] = h1 ++ x :: h2 →
        (h2 = [] ∧ h1 = h ∧ x = e) ∨ ∃ h2', h2 = h2' ++ [e] ∧ h = h1 ++ x :: h2' := by
      intro h1 x h2 he
      induction h2 using snoc_induction with
      | nil =>
        left
        have he' : h ++ [e] = h1 ++ [x] := he
        have := List.append_inj' he' rfl
        simp at this
        exact ⟨rfl, this.1.symm, this.2.symm⟩
      | snoc h2' y _ =>
        right
        have he' : h ++ [e] = (h1 ++ x :: h2') ++ [y] := by simpa using he
        have := List.append_inj' he' rfl
        simp at this
        exact ⟨h2', by rw [this.2], this.1⟩
    constructor
    · intro hm
      -- membership after applying e
      have key : (sub ∈ (Abs.after h).live ∧ e.msg ≠ .unsubscribeRequest sub.topic sub.id) ∨
          (e.msg = .subscribeRequest sub.topic sub.subscriber ∧ sub.id = (Abs.after h).count + 1) := by
        cases hm' : e.msg with
        | subscribeRequest t r =>
          rw [hm'] at hm
          simp only [Abs.apply, List.mem_append, List.mem_singleton] at hm
          rcases hm with hm | hm
          · left; exact ⟨hm, by simp⟩
          · right; subst hm; simp
        | unsubscribeRequest t i =>
          rw [hm'] at hm
          simp only [Abs.apply, List.mem_filter] at hm
          left
          refine ⟨hm.1, ?_⟩
          intro hc
          injection hc with h1 h2
          have := hm.2
          simp [h1, h2] at this
        | publishRequestBroadcast _ _ _ _ => rw [hm'] at hm; left; exact ⟨hm, by simp⟩
        | localPublishRequest _ _ => rw [hm'] at hm; left; exact ⟨hm, by simp⟩
        | statusChanged _ _ => rw [hm'] at hm; left; exact ⟨hm, by simp⟩
        | other => rw [hm'] at hm; left; exact ⟨hm, by simp⟩
      rcases key with ⟨hin, hne⟩ | ⟨hsub, hid⟩
      · obtain ⟨h1, snd, h2, he, hid, hno⟩ := ih.mp hin
        refine ⟨h1, snd, h2 ++ [e], by simp [he], hid, ?_⟩
        intro y hy
        simp only [List.mem_append, List.mem_singleton] at hy
        rcases hy with hy | hy
        · exact hno y hy
        · subst hy; exact hne
      · refine ⟨h, e.sender, [], ?_, ?_, by simp⟩
        · cases e with | mk s m => simp at hsub; subst hsub; rfl
        · rw [hid, count_after]
    · rintro ⟨h1, snd, h2, he, hid, hno⟩
      rcases split h1 _ h2 he with ⟨h2nil, h1eq, xeq⟩ | ⟨h2', h2eq, heq⟩
      · subst h1eq
        rw [← xeq]
        simp only [Abs.apply, List.mem_append, List.mem_singleton]
        right
        rw [count_after]
        cases sub with | mk t i r => simp at hid ⊢; exact hid
      · have hcur : Current h sub := by
          refine ⟨h1, snd, h2', heq, hid, ?_⟩
          intro y hy; apply hno; rw [h2eq]; simp [hy]
        have hin := ih.mpr hcur
        have hne : e.msg ≠ .unsubscribeRequest sub.topic sub.id := by
          apply hno; rw [h2eq]; simp
        cases hm' : e.msg with
        | subscribeRequest t r => simp [Abs.apply, hin]
        | unsubscribeRequest t i =>
          simp only [Abs.apply, List.mem_filter]
          refine ⟨hin, ?_⟩
          rw [hm'] at hne
          have : ¬ (sub.topic = t ∧ sub.id = i) := by
            rintro ⟨a, b⟩; apply hne; rw [a, b]
          simp only [Bool.not_eq_true', Bool.and_eq_false_iff, beq_eq_false_iff_ne, ne_eq]
          by_cases ht : sub.topic = t
          · right; exact fun hi => this ⟨ht, hi⟩
          · left; exact ht
        | publishRequestBroadcast _ _ _ _ => exact hin
        | localPublishRequest _ _ => exact hin
        | statusChanged _ _ => exact hin
        | other => exact hin

/-- **Cancellation.** Once the subscription actor has handled an unsubscribe request for a
    subscription whose handle had been issued (its id is at most the number of subscribe requests
    handled before), that subscription is never current again, whatever follows: no later
    publication is delivered for it (`C10_fanout_exact` delivers to the current ones only). -/
theorem C10_cancel (h1 h2 : List Envelope) (snd : Option Ref) (t : Topic) (i : Nat)
    (hissued : i ≤ (h1.filter isSubscribe).length) :
    ∀ sub ∈ (Abs.after (h1 ++ { sender := snd, msg := .unsubscribeRequest t i } :: h2)).live,
      ¬ (sub.topic = t ∧ sub.id = i) := by
  intro sub hin ⟨ht, hi⟩
  obtain ⟨g1, s', g2, he, hid, hno⟩ := (C10_live_iff _ sub).mp hin
  -- the establishing request has rank i ≤ #subscribes in h1, so it lies inside h1
  have hlen : g1.length < h1.length := by
    apply Classical.byContradiction
    intro hge
    have hge : h1.length ≤ g1.length := Nat.le_of_not_lt hge
    -- then h1 is a prefix of g1 and g1 contains all subscribes of h1 plus it is followed by the request
    have hpre : h1 = g1.take h1.length := by
      have := congrArg (List.take h1.length) he
      simp only [List.take_left'] at this
      rw [List.take_append_of_le_length hge] at this
      exact this
    have : (h1.filter isSubscribe).length ≤ (g1.filter isSubscribe).length := by
      rw [hpre]
      have := List.Sublist.filter isSubscribe (List.take_sublist h1.length g1)
      simpa using this.length_le
    omega
  -- so the unsubscribe request (at position h1.length) lies in g2
  have hmem : ({ sender := snd, msg := .unsubscribeRequest t i } : Envelope) ∈ g2 := by
    have hget : (h1 ++ { sender := snd, msg := .unsubscribeRequest t i } :: h2)[h1.length]? =
        some { sender := snd, msg := .unsubscribeRequest t i } := by simp
    rw [he] at hget
    rw [List.getElem?_append_right (Nat.le_of_lt hlen)] at hget
    have hpos : 0 < h1.length - g1.length := by omega
    obtain ⟨k, hk⟩ : ∃ k, h1.length - g1.length = k + 1 := ⟨h1.length - g1.length - 1, by omega⟩
    rw [hk, List.getElem?_cons_succ] at hget
    exact List.mem_of_getElem? hget
  have := hno _ hmem
  apply this
  simp [ht, hi]

/-- the same on the machine: after the unsubscribe request the inner map of the topic never again
    contains that id -/
theorem C10_cancel_machine (h1 h2 : List Envelope) (snd : Option Ref) (t : Topic) (i : Nat)
    (hissued : i ≤ (h1.filter isSubscribe).length) :
    ∀ sub ∈ (SubActor.run (SubActor.init self) (h1 ++ { sender := snd, msg := .unsubscribeRequest t i } :: h2)).1.lookup t,
      sub.id ≠ i := by
  intro sub hin hi
  rw [(refines_run self _).2 t] at hin
  simp only [Abs.on, List.mem_filter, beq_iff_eq] at hin
  exact C10_cancel h1 h2 snd t i hissued sub hin.1 ⟨hin.2, hi⟩

/-- **Publishing to a topic nobody listens to is harmless**: no delivery, no state change (only the
    broadcast to the linked nodes, which fan out to *their* subscribers). -/
theorem C10_empty_topic_harmless (h : List Envelope) (snd : Option Ref) (t : Topic) (p : Payload)
    (hnone : (Abs.after h).on t = []) :
    let s := (SubActor.run (SubActor.init self) h).1
    let r := s.step { sender := snd, msg := .localPublishRequest t p }
    deliveries r.2 = [] ∧ r.1 = s := by
  have := C10_fanout_exact self h snd t p
  simp only [Abs.expected, hnone, List.map_nil] at this
  exact this

theorem deliveriesTo_fanout (r : Ref) (l : List Subscription) (s : Option Ref) (p : Nat) :
    deliveriesTo r (fanout l s p) =
      List.replicate (l.countP (fun x => x.subscriber = r)) { sender := s, payload := p } := by
  induction l with
  | nil => rfl
  | cons x xs ih =>
    simp only [fanout, List.map_cons, deliveriesTo, List.filterMap_cons] at ih ⊢
    by_cases hx : x.subscriber = r
    · simp only [hx, if_true, List.countP_cons_of_pos, decide_true, List.replicate_succ]
      congr 1
    · simp only [hx, if_false]
      rw [List.countP_cons_of_neg (by simpa using hx)]
      exact ih

/-- **The iteration order of the inner map is unobservable**: Go iterates `subscribes[topic]` in random
    order, the model in ascending id; whatever the order, every subscriber is handed the same
    sequence of deliveries (as many copies as it has subscriptions of the topic). -/
theorem C10_iteration_order_irrelevant (l l' : List Subscription) (hp : l.Perm l') (r : Ref)
    (s : Option Ref) (p : Nat) :
    deliveriesTo r (fanout l s p) = deliveriesTo r (fanout l' s p) := by
  rw [deliveriesTo_fanout, deliveriesTo_fanout, hp.countP_eq]

/-- a subscriber gets exactly as many copies of a publication as it has current subscriptions of
    the topic, each with the publisher as sender — in particular exactly one for one subscription -/
theorem C10_copies (h : List Envelope) (snd : Option Ref) (t : Topic) (p : Payload) (r : Ref) :
    deliveriesTo r ((SubActor.run (SubActor.init self) h).1.step { sender := snd, msg := .localPublishRequest t p }).2 =
      List.replicate (((Abs.after h).on t).countP (fun x => x.subscriber = r)) { sender := snd, payload := p.id } := by
  have hr := (refines_run self h).2 t
  show deliveriesTo r (onLocalPublishRequest _ snd t p).2 = _
  simp only [onLocalPublishRequest]
  have happ : ∀ (a b : List Eff), deliveriesTo r (a ++ b) = deliveriesTo r a ++ deliveriesTo r b := by
    intro a b; simp [deliveriesTo, List.filterMap_append]
  rw [happ, deliveriesTo_fanout, hr]
  have : deliveriesTo r (if 0 < (SubActor.run (SubActor.init self) h).1.sas.length ∧ p.enc = true then
      (SubActor.run (SubActor.init self) h).1.sas.map (fun a => Eff.tellRemote a t p snd) else []) = [] := by
    split
    · simp [deliveriesTo, List.filterMap_map, Function.comp_def]
    · rfl
  rw [this, List.nil_append]

/-! ## broadcast to the linked nodes -/

theorem sas_nodup (h : List Envelope) : (SubActor.run (SubActor.init self) h).1.sas.Nodup := by
  induction h using snoc_induction with
  | nil => simp [SubActor.run, SubActor.init]
  | snoc h e ih =>
    rw [run_append]
    simp only [SubActor.run]
    generalize (SubActor.run (SubActor.init self) h).1 = s at ih ⊢
    cases hm : e.msg with
    | subscribeRequest t r => simpa [SubActor.step, hm, onSubscribeRequest] using ih
    | unsubscribeRequest t i =>
      simp only [SubActor.step, hm, onUnsubscribeRequest]
      split <;> exact ih
    | publishRequestBroadcast t p pub d =>
      simp only [SubActor.step, hm, onPublishRequestBroadcast]
      split <;> exact ih
    | localPublishRequest t p => simpa [SubActor.step, hm, onLocalPublishRequest] using ih
    | statusChanged a c =>
      simp only [SubActor.step, hm, onStatusChanged]
      split
      · exact ih
      · split
        · exact ih.filter _
        · simp only
          split
          · exact ih
          · rename_i hn
            exact List.nodup_append.mpr ⟨ih, by simp, by
            intro x hx y hy; simp at hy; subst hy; intro hxy; subst hxy; exact hn hx⟩
    | other => simpa [SubActor.step, hm] using ih

theorem self_const (h : List Envelope) : (SubActor.run (SubActor.init self) h).1.self = self := by
  induction h using snoc_induction with
  | nil => rfl
  | snoc h e ih =>
    rw [run_append]
    simp only [SubActor.run]
    generalize (SubActor.run (SubActor.init self) h).1 = s at ih ⊢
    cases hm : e.msg with
    | subscribeRequest t r => simpa [SubActor.step, hm, onSubscribeRequest] using ih
    | unsubscribeRequest t i =>
      simp only [SubActor.step, hm, onUnsubscribeRequest]
      split <;> exact ih
    | publishRequestBroadcast t p pub d =>
      simp only [SubActor.step, hm, onPublishRequestBroadcast]
      split <;> exact ih
    | localPublishRequest t p => simpa [SubActor.step, hm, onLocalPublishRequest] using ih
    | statusChanged a c =>
      simp only [SubActor.step, hm, onStatusChanged]
      split
      · exact ih
      · split <;> exact ih
    | other => simpa [SubActor.step, hm] using ih

/-- **The subscription actor never lists its own node** (cluster contact providers announce the local
    node too; before the `fix:` commit it was listed and every encodable publication reached the
    local subscribers twice: once by the local fan-out, once by the broadcast to itself). -/
theorem C10_no_self_in_sas (h : List Envelope) : self ∉ (SubActor.run (SubActor.init self) h).1.sas := by
  induction h using snoc_induction with
  | nil => simp [SubActor.run, SubActor.init]
  | snoc h e ih =>
    have hself := self_const self h
    rw [run_append]
    simp only [SubActor.run]
    generalize (SubActor.run (SubActor.init self) h).1 = s at ih hself ⊢
    cases hm : e.msg with
    | subscribeRequest t r => simpa [SubActor.step, hm, onSubscribeRequest] using ih
    | unsubscribeRequest t i =>
      simp only [SubActor.step, hm, onUnsubscribeRequest]
      split <;> exact ih
    | publishRequestBroadcast t p pub d =>
      simp only [SubActor.step, hm, onPublishRequestBroadcast]
      split <;> exact ih
    | localPublishRequest t p => simpa [SubActor.step, hm, onLocalPublishRequest] using ih
    | statusChanged a c =>
      simp only [SubActor.step, hm, onStatusChanged]
      split
      · exact ih
      · rename_i hne
        split
        · intro hmem; exact ih (List.mem_filter.mp hmem).1
        · simp only
          split
          · exact ih
          · intro hmem
            simp only [List.mem_append, List.mem_singleton] at hmem
            rcases hmem with hmem | hmem
            · exact ih hmem
            · exact hne (by rw [hself]; exact hmem.symm)
    | other => simpa [SubActor.step, hm] using ih

/-- hence no turn ever tells a broadcast to the own node: the local subscribers are reached by the
    local fan-out only -/
theorem C10_no_self_broadcast (h : List Envelope) (e : Envelope) (t : Topic) (p : Payload) (pub : Option Ref) :
    Eff.tellRemote self t p pub ∉ ((SubActor.run (SubActor.init self) h).1.step e).2 := by
  have hno := C10_no_self_in_sas self h
  generalize (SubActor.run (SubActor.init self) h).1 = s at hno ⊢
  intro hmem
  cases hm : e.msg with
  | subscribeRequest t' r => simp [SubActor.step, hm, onSubscribeRequest] at hmem
  | unsubscribeRequest t' i =>
    simp only [SubActor.step, hm, onUnsubscribeRequest] at hmem
    split at hmem <;> simp at hmem
  | publishRequestBroadcast t' p' pub' d =>
    simp only [SubActor.step, hm, onPublishRequestBroadcast] at hmem
    split at hmem
    · simp [fanout] at hmem
    · simp at hmem
  | localPublishRequest t' p' =>
    simp only [SubActor.step, hm, onLocalPublishRequest, List.mem_append] at hmem
    rcases hmem with hmem | hmem
    · split at hmem
      · simp only [List.mem_map] at hmem
        obtain ⟨a, ha, hEq⟩ := hmem
        injection hEq with h1
        exact hno (h1 ▸ ha)
      · simp at hmem
    · simp [fanout] at hmem
  | statusChanged a c =>
    simp only [SubActor.step, hm, onStatusChanged] at hmem
    split at hmem
    · simp at hmem
    · split at hmem <;> simp at hmem
  | other => simp [SubActor.step, hm] at hmem

/-- **One broadcast per linked node.** A local publication of an encodable payload is told exactly
    once to the subscription actor of every linked node (and to nobody else), carrying topic, payload
    and the publisher; a payload the codec rejects stays local. -/
theorem C10_remote_broadcast_once (h : List Envelope) (snd : Option Ref) (t : Topic) (p : Payload) (a : Nat) :
    let s := (SubActor.run (SubActor.init self) h).1
    ((s.step { sender := snd, msg := .localPublishRequest t p }).2.count (Eff.tellRemote a t p snd)) =
      if a ∈ s.sas ∧ p.enc = true then 1 else 0 := by
  intro s
  have hnd : s.sas.Nodup := sas_nodup self h
  show (onLocalPublishRequest s snd t p).2.count _ = _
  simp only [onLocalPublishRequest, List.count_append]
  have hf : (fanout (s.lookup t) snd p.id).count (Eff.tellRemote a t p snd) = 0 := by
    apply List.count_eq_zero.mpr
    simp [fanout]
  rw [hf, Nat.add_zero]
  by_cases henc : p.enc = true
  · by_cases hmem : a ∈ s.sas
    · have hpos : 0 < s.sas.length := List.length_pos_of_mem hmem
      simp only [hpos, henc, and_self, if_true, hmem]
      rw [List.count_eq_countP, List.countP_map]
      have : s.sas.countP ((fun x => x == Eff.tellRemote a t p snd) ∘ fun a => Eff.tellRemote a t p snd) = s.sas.count a := by
        rw [List.count_eq_countP]
        apply List.countP_congr
        intro x _
        simp only [Function.comp, beq_iff_eq]
        constructor
        · intro hxe; injection hxe
        · intro hxe; rw [hxe]
      rw [this]
      rw [List.Nodup.count hnd]; simp [hmem]
    · simp only [hmem, false_and, if_false]
      split
      · apply List.count_eq_zero.mpr
        simp only [List.mem_map, not_exists, not_and]
        intro x hx hxe; injection hxe with h1; subst h1; exact hmem hx
      · rfl
  · simp [henc]

/-! ## non-vacuity -/

def ref (n : Nat) : Ref := { node := 0, id := n }
def subReq (t : Topic) (n : Nat) : Envelope := { sender := some (ref (100 + n)), msg := .subscribeRequest t (ref n) }
def unsubReq (t : Topic) (i : Nat) : Envelope := { sender := none, msg := .unsubscribeRequest t i }
def pubReq (n : Nat) (t : Topic) (p : Nat) : Envelope := { sender := some (ref n), msg := .localPublishRequest t { id := p, enc := false } }

/-- two subscribers of topic 1 (one of them twice), one of topic 2, one cancelled: the publication on
    topic 1 goes to subscriber 1 twice and subscriber 2 once with the publisher as sender -/
example :
    ((SubActor.run (SubActor.init 0) [subReq 1 1, subReq 1 2, subReq 2 3, subReq 1 1, subReq 1 4, unsubReq 1 5]).1.step
      (pubReq 9 1 7)).2 =
    [.deliver (ref 1) (some (ref 9)) 7, .deliver (ref 2) (some (ref 9)) 7, .deliver (ref 1) (some (ref 9)) 7] := by
  decide

example : (Abs.after [subReq 1 1, subReq 1 2, unsubReq 1 1]).live = [{ topic := 1, id := 2, subscriber := ref 2 }] := by
  decide

example : Current [subReq 1 1, subReq 1 2, unsubReq 1 1] { topic := 1, id := 2, subscriber := ref 2 } :=
  ⟨[subReq 1 1], some (ref 102), [unsubReq 1 1], rfl, rfl, by decide⟩

end MV.Props.C10
