import MV.Model.ActorSys
namespace MV.Props.C03
theorem C03_placeholder : True := trivial
end MV.Props.C03
