import MV.Lemmas.ActorSysTurns
import MV.Spec.ActorSys
/-!
# C03 — every actor incarnation sees a well-formed lifecycle

Model: `MV.Model.ActorSys` (Layer 2; tied to the real actor system by the `actorsys` correspondence
suite: the same scenarios run on the real `vivid.ActorSystem` under the serialising scheduler, one
message per step, compared line by line). User code (`BehDef` rule tables), supervision strategies,
actor trees and operation sequences are arbitrary: the theorems quantify over every `World` and every
operation.

Proved here (kernel-checked, via `Std.Do` Hoare triples for every function of the model):

* handler invocations are only ever recorded by the mailbox step of the actor itself
  (`C03_handled_only_in_own_turn`);
* **an actor whose status is `terminated` handles nothing at all** — whatever is still queued or sent
  to it, whoever runs (`C03_terminated_handles_nothing`);
* a system-message step shows the handler lifecycle observations only, never a user message; user
  messages are handed to the handler only while the actor is alive or restarting, not suspended, and
  its system queue is empty (`C03_user_message_only_when_alive_and_idle_system_queue`);
* the Bool specification `Spec.ActorSys.c03` (which judges the event record of the REAL system on
  every run) means what the property says (`C03_spec_*`).

Not proved as a theorem (full statement "the first message handled is OnLaunch, preceded only by
OnRestarted"): it is FALSE of the code for restarted incarnations — see `MV.Findings.C03` for the
witness; the judge reports it as the known finding C03-queued-system-message-before-launch-after-restart.
-/
namespace MV.Props.C03
open MV.Model.ActorSys MV.Spec.ActorSys

/-- the events one operation adds -/
theorem C03_events_extend (w : World) (op : Op) : ∃ es, (step w op).events = w.events ++ es := by
  obtain ⟨es, h, _⟩ := step_evok w op
  exact ⟨es, h⟩

/-- a handler invocation is recorded only by the mailbox step of that very actor -/
theorem C03_handled_only_in_own_turn (w : World) (op : Op) (es : List Event)
    (h : (step w op).events = w.events ++ es) (a : Aid) (i : Nat) (o : Obs) (s : Option Aid)
    (he : Event.handled a i o s ∈ es) : op = .run a := by
  obtain ⟨es', h', hall⟩ := step_evok w op
  have : es = es' := List.append_cancel_left (h.symm.trans h')
  subst this
  have hr := hall _ he
  cases op with
  | run b => simp [stepR, Rh] at hr; rw [hr.1]
  | _ => simp [stepR, Rh] at hr

/-- **nothing at all is handled by an actor after its own termination**: in a world where `a` is
terminated, no operation records a handler invocation of `a` -/
theorem C03_terminated_handles_nothing (w : World) (a : Aid) (hterm : (actorOf w a).status = .terminated)
    (op : Op) (es : List Event) (h : (step w op).events = w.events ++ es)
    (i : Nat) (o : Obs) (s : Option Aid) : Event.handled a i o s ∉ es := by
  intro he
  obtain ⟨es', h', hall⟩ := step_evok w op
  have : es = es' := List.append_cancel_left (h.symm.trans h')
  subst this
  have hr := hall _ he
  cases op with
  | run b =>
    simp [stepR, Rh] at hr
    obtain ⟨hab, hobs⟩ := hr
    subst hab
    exact hobs.1 hterm
  | _ => simp [stepR, Rh] at hr

/-- a user message (or a dead-letter event) reaches the handler only in a step of an actor that is
alive or restarting, whose mailbox is not suspended and whose system queue is empty: system messages
go first, and no user message is handled once termination has begun -/
theorem C03_user_message_only_when_alive_and_idle_system_queue (w : World) (op : Op) (es : List Event)
    (h : (step w op).events = w.events ++ es) (a : Aid) (i tag : Nat) (s : Option Aid)
    (he : Event.handled a i (.user tag) s ∈ es) :
    (actorOf w a).sysQ = [] ∧ (actorOf w a).suspended = false ∧
      (actorOf w a).status.rank < Status.terminating.rank := by
  obtain ⟨es', h', hall⟩ := step_evok w op
  have : es = es' := List.append_cancel_left (h.symm.trans h')
  subst this
  have hr := hall _ he
  cases op with
  | run b =>
    simp [stepR, Rh] at hr
    obtain ⟨hab, hobs⟩ := hr
    subst hab
    rcases hobs.2 with hs | hs
    · exact absurd hs (by simp [sysObs])
    · exact hs
  | _ => simp [stepR, Rh] at hr

/-- **`terminated` is absorbing**: whatever operations follow (restart requests, late timers,
messages, watchers, spawns elsewhere), a terminated actor stays terminated -/
theorem C03_terminated_is_absorbing (w : World) (a : Aid) (h : (actorOf w a).status = .terminated)
    (ops : List Op) : (actorOf (exec w ops) a).status = .terminated :=
  exec_dead a w ops h

/-- **run-level form of "nothing at all is handled after its own OnTerminated"**: once an actor is
terminated, no continuation of the run — any operations, any schedule of the other actors — ever
records another handler invocation of it -/
theorem C03_nothing_handled_ever_after_termination (w : World) (a : Aid)
    (h : (actorOf w a).status = .terminated) (ops : List Op) :
    ∃ es, (exec w ops).events = w.events ++ es ∧ ∀ i o s, Event.handled a i o s ∉ es := by
  induction ops generalizing w with
  | nil => exact ⟨[], by simp [exec], by simp⟩
  | cons op ops ih =>
    obtain ⟨es1, h1⟩ := C03_events_extend w op
    have hno := fun i o s => C03_terminated_handles_nothing w a h op es1 h1 i o s
    have hdead : (actorOf (step w op) a).status = .terminated := step_dead a w op h
    obtain ⟨es2, h2, hno2⟩ := ih (step w op) hdead
    refine ⟨es1 ++ es2, ?_, ?_⟩
    · show (exec (step w op) ops).events = _
      rw [h2, h1, List.append_assoc]
    · intro i o s hmem
      rcases List.mem_append.mp hmem with hm | hm
      · exact hno i o s hm
      · exact hno2 i o s hm

/-! ## the specification checker means what the property says -/

/-- if the lifecycle automaton accepts an observation sequence, nothing follows the incarnation's own
`OnTerminated` (phase 5 is final: every continuation is rejected) -/
theorem C03_spec_nothing_after_own_terminated (self : Aid) (inc : Nat) (o : Obs) :
    ∃ e, lcStep self inc 5 o = .error e := by
  cases o <;> simp [lcStep]

/-- the automaton only accepts `OnLaunch` (after `OnRestarted` for a restarted incarnation) as the
first observation -/
theorem C03_spec_first_is_launch (self : Aid) (inc : Nat) (o : Obs) (p : Nat)
    (h : lcStep self inc 0 o = .ok p) :
    (inc = 0 ∧ o = .launch ∧ p = 2) ∨ (inc ≠ 0 ∧ o = .restarted ∧ p = 1) := by
  cases o <;> simp [lcStep] at h <;> (try split at h) <;> simp_all

/-- … and after `OnRestarted` only `OnLaunch` -/
theorem C03_spec_restarted_then_launch (self : Aid) (inc : Nat) (o : Obs) (p : Nat)
    (h : lcStep self inc 1 o = .ok p) : o = .launch ∧ p = 2 := by
  cases o <;> simp [lcStep] at h <;> simp_all

/-- the own `OnTerminated` is accepted only after `OnTerminate` (phase 4) -/
theorem C03_spec_terminate_before_terminated (self : Aid) (inc : Nat) (p q : Nat)
    (h : lcStep self inc p (.terminated self) = .ok q) : p = 4 ∧ q = 5 := by
  unfold lcStep at h
  split at h <;> simp_all

/-- no user message is accepted between `OnRestarting` and the end of the old instance, nor after
`OnTerminate` -/
theorem C03_spec_no_user_message_during_restart_or_termination (self : Aid) (inc tag : Nat) (p : Nat)
    (hp : p = 3 ∨ p = 4 ∨ p = 5) : ∃ e, lcStep self inc p (.user tag) = .error e := by
  rcases hp with h | h | h <;> subst h <;> simp [lcStep]

/-- non-vacuity: a complete restart as the property describes it is accepted for both instances -/
example : lcRun 7 0 0 [.launch, .user 1, .restarting, .terminate, .terminated 7] = .ok 5 ∧
          lcRun 7 1 0 [.restarted, .launch, .user 2] = .ok 2 := by
  constructor <;> rfl

end MV.Props.C03
