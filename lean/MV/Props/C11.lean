import MV.Lemmas.StreamGate
import MV.Lemmas.Link
/-!
# C11 — cross-node messages arrive intact, once, in order; replies find their way back

**Part 1, the sender gate** (`MV.Model.StreamGate`, the program of
`engine/prc/shared_stream_process.go`, one shared-memory operation / critical section per step).
Quantifier: **every schedule** `sched : List (Ev PC)` — any interleaving of any number of appenders
(`packMessage` callers, arriving at any moment) with the sender goroutines the activation CAS starts,
and with the stream starting / stopping to refuse `Send` at any moment; every batch limit
(`limit`; the shipped constant is 1024).

**Part 2, the link** (`MV.Model.Link`, `MV.Model.LinkSys`): envelope + codec law, routing of
replies, the channel machine under arbitrary break / re-open events, references after an outage.

Outside the theorems (named assumptions, see conf/C11.json): gRPC ("a stream delivers a prefix of what
it accepted, in order; the receiver loop of a closed stream has ended before a successor stream
delivers"), the protobuf round trip (`Codec.Lawful`, exercised by the `codec` suite), sequential
consistency of `sync/atomic` and mutual exclusion of `sync.RWMutex`.
-/
namespace MV.Props.C11
open MV.Model.Conc MV.Model.StreamGate MV.Spec.StreamGate

/-! ## Part 1: the sender gate, all interleavings -/

/-- the gate: exactly one sender goroutine between the activation CAS and `Store(idle)` while the
state is `active`, none while it is `idle` -/
theorem C11_gate_one_sender (limit : Nat) (sched : List (Ev PC)) :
    (exec (sys limit) init sched).ths.countP owns =
      if (exec (sys limit) init sched).g.active then 1 else 0 :=
  (all_reachable limit sched).1

/-- **concatenation of the cut batches = the appended sequence**: in every reachable state the
messages appended under the lock are, in lock order, exactly the batches that left the queue (in
the order they were cut), then the batch the sender holds, then the queue — nothing invented,
duplicated, reordered; and every batch handed to the stream has between 1 and `limit` messages -/
theorem C11_concat_batches (limit : Nat) (sched : List (Ev PC)) :
    let s := exec (sys limit) init sched
    s.g.appended = (s.g.hist.flatMap (·.2)) ++ heldList s.g ++ s.g.q ∧
    (∀ e ∈ s.g.hist, e.1 = true → 0 < e.2.length ∧ e.2.length ≤ limit) ∧
    (∀ b ∈ sentBatches s.g, 0 < b.length ∧ b.length ≤ limit) := by
  obtain ⟨-, ⟨hA, -, -, hL, -⟩, -⟩ := all_reachable limit sched
  refine ⟨hA, hL, ?_⟩
  intro b hb
  simp only [sentBatches, List.mem_map, List.mem_filter] at hb
  obtain ⟨e, ⟨he, het⟩, rfl⟩ := hb
  exact hL e he het

/-- the shipped constant: no batch exceeds 1024 messages -/
theorem C11_batch_limit_1024 (sched : List (Ev PC)) :
    ∀ b ∈ sentBatches (exec (sys goLimit) init sched).g, 0 < b.length ∧ b.length ≤ 1024 :=
  (C11_concat_batches goLimit sched).2.2

theorem sent_flatten_sublist_removed (g : G) : (sentBatches g).flatten.Sublist (removed g) := by
  unfold sentBatches removed
  rw [List.flatMap_def]
  exact MV.Model.Link.flatten_sublist (List.Sublist.map _ List.filter_sublist)

/-- what the stream accepted is, in order and without repetition, a selection of what was appended
— also when `Send` fails at arbitrary moments -/
theorem C11_sent_in_order_once (limit : Nat) (sched : List (Ev PC)) :
    let s := exec (sys limit) init sched
    (sentBatches s.g).flatten.Sublist s.g.appended ∧
    (s.g.appended.Nodup → (sentBatches s.g).flatten.Nodup) := by
  obtain ⟨hA, -, -⟩ := C11_concat_batches limit sched
  generalize exec (sys limit) init sched = s at *
  have h : (sentBatches s.g).flatten.Sublist s.g.appended := by
    rw [hA, List.append_assoc]
    exact (sent_flatten_sublist_removed s.g).trans (List.sublist_append_left _ _)
  exact ⟨h, fun hn => h.nodup hn⟩

/-- **nothing is lost while the stream works**: as long as no `Send` was refused, the accepted batches
concatenate to exactly the appended messages that have left the queue -/
theorem C11_concat_batches_working (limit : Nat) (sched : List (Ev PC)) :
    let s := exec (sys limit) init sched
    s.g.hist.all (·.1) = true →
      s.g.appended = (sentBatches s.g).flatten ++ heldList s.g ++ s.g.q := by
  obtain ⟨hA, -, -⟩ := C11_concat_batches limit sched
  generalize exec (sys limit) init sched = s at *
  intro _ hall
  have hf : s.g.hist.filter (·.1) = s.g.hist :=
    List.filter_eq_self.mpr (fun a ha => List.all_eq_true.mp hall a ha)
  rw [hA, sentBatches, hf, List.flatMap_def]

/-- **no stranded message**: queued messages imply a live sender goroutine, or a thread that is about
to start one (an appender before its CAS, a sender between `Store(idle)` and its re-CAS) -/
theorem C11_gate_no_strand (limit : Nat) (sched : List (Ev PC)) :
    let s := exec (sys limit) init sched
    s.g.q ≠ [] → s.ths.countP waker + actFlag s.g > 0 :=
  (all_reachable limit sched).2.2

/-- in a quiescent state (every thread has finished) the gate is idle, the queue is empty, no batch
is held, and the appended messages are exactly the batches that left the queue -/
theorem C11_quiescent_drained (limit : Nat) (sched : List (Ev PC))
    (hq : ∀ pc ∈ (exec (sys limit) init sched).ths, pc = .done) :
    let s := exec (sys limit) init sched
    s.g.active = false ∧ s.g.q = [] ∧ s.g.held = none ∧ s.g.appended = s.g.hist.flatMap (·.2) := by
  obtain ⟨hg, ⟨hA, hH, -, -, -⟩, hw⟩ := all_reachable limit sched
  generalize exec (sys limit) init sched = s at *
  have z : ∀ p : PC → Bool, p .done = false → s.ths.countP p = 0 := by
    intro p hp; rw [List.countP_eq_zero]; intro pc hpc; rw [hq pc hpc, hp]; simp
  have zo := z owns rfl
  have zw := z waker rfl
  have zh := z holder rfl
  unfold GateInv actFlag at hg
  have hact : s.g.active = false := by
    cases ha : s.g.active with
    | false => rfl
    | true => rw [ha] at hg; simp at hg; omega
  have hqe : s.g.q = [] := by
    by_cases h : s.g.q = []
    · exact h
    · have h1 := hw h
      simp only [actFlag, hact, Bool.false_eq_true, if_false] at h1
      omega
  have hheld : s.g.held = none := by
    cases hh : s.g.held with
    | none => rfl
    | some v => rw [hh] at hH; simp at hH; omega
  refine ⟨hact, hqe, hheld, ?_⟩
  rw [hA, hqe]; simp [heldList, hheld, removed]

/-- the judge of the `streamgate` suite accepts every quiescent state of the model: the Bool
specification that judges the batches recorded from the real code is a theorem of the model -/
theorem C11_quiescent_judged (limit : Nat) (sched : List (Ev PC))
    (hq : ∀ pc ∈ (exec (sys limit) init sched).ths, pc = .done) :
    let s := exec (sys limit) init sched
    checkFinal limit s.g.active s.g.q.length s.g.appended (sentBatches s.g)
      (s.g.hist.any (fun e => !e.1)) = none := by
  obtain ⟨hact, hqe, hheld, hA⟩ := C11_quiescent_drained limit sched hq
  obtain ⟨hsub, -⟩ := C11_sent_in_order_once limit sched
  have hb := (C11_concat_batches limit sched).2.2
  have hw := C11_concat_batches_working limit sched
  generalize exec (sys limit) init sched = s at *
  have hbo : batchesOk limit (sentBatches s.g) = true := by
    simp only [batchesOk, List.all_eq_true, Bool.and_eq_true, decide_eq_true_eq]
    exact hb
  have hsl : (sentBatches s.g).flatten.isSublist s.g.appended = true :=
    List.isSublist_iff_sublist.mpr hsub
  simp only [checkFinal, hact, hqe, hbo, hsl, Bool.false_eq_true, if_false, List.length_nil, ne_eq,
    not_true_eq_false, Bool.not_true]
  by_cases hr : (s.g.hist.any fun e => !e.1) = true
  · simp [hr]
  · have hall : s.g.hist.all (·.1) = true := by
      rw [List.all_eq_true]; intro e he
      cases h1 : e.1 with
      | true => rfl
      | false => exact absurd (List.any_eq_true.mpr ⟨e, he, by simp [h1]⟩) hr
    have := hw hall
    simp only [heldList, hheld, hqe, Option.getD_none, List.append_nil] at this
    simp [hr, this]

/-- appending never blocks, and with a positive limit a cut of a non-empty queue makes progress -/
theorem C11_append_never_blocks (limit : Nat) (g : G) (m : Msg) :
    (trans limit g (.app m)).isSome ∧ (trans limit g .cas).isSome ∧
    (0 < limit → g.q ≠ [] → (cutBatch limit g.q).1 ≠ []) := by
  refine ⟨rfl, ?_, fun hl hq => cutBatch_progress limit hl g.q hq⟩
  simp only [MV.Model.StreamGate.trans]; split <;> rfl

/-- non-vacuity (limit 2): three appenders, the stream fails after the first batch; the batch [1,2]
was accepted, message 3 was refused, the gate is idle and nothing is queued -/
example :
    let s := exec (sys 2) init [.spawn (.app 1), .spawn (.app 2), .spawn (.app 3), .run 0, .run 1, .run 2,
      .run 0, .run 1, .run 2, .run 3, .run 3, .spawn (.brk true), .run 4, .run 3, .run 3, .run 3, .run 3,
      .run 3, .run 3]
    (∀ pc ∈ s.ths, pc = .done) ∧ sentBatches s.g = [[1, 2]] ∧ s.g.appended = [1, 2, 3] ∧
      s.g.hist = [(true, [1, 2]), (false, [3]), (false, [])] ∧ s.g.active = false ∧ s.g.terminated = true := by
  decide

/-- non-vacuity: the re-check window — an appender that arrives between `Store(idle)` and the
re-check loses its CAS race to nobody: the sender's re-CAS picks the message up -/
example :
    let s := exec (sys 2) init [.spawn (.app 1), .run 0, .run 0, .run 1, .run 1, .run 1, .run 1,
      .spawn (.app 2), .run 2, .run 1, .run 1, .run 2, .run 1, .run 1, .run 1, .run 1, .run 1, .run 1]
    (∀ pc ∈ s.ths, pc = .done) ∧ sentBatches s.g = [[1], [2]] := by
  decide

/-! ## Part 2: the link -/
open MV.Model.Link

/-- **no duplicate, no reorder, under arbitrary break and re-open events**: whatever the sequence of
sends, cuts, receives, stream deaths (keeping any prefix of what is in flight) and re-opens, what was
delivered — followed by what is in flight and what is queued — is an in-order selection of what was
sent -/
theorem C11_no_dup_no_reorder {α : Type} (limit : Nat) (ops : List (Op α)) :
    let c := Chan.run limit ({} : Chan α) ops
    (c.delivered ++ c.wire.flatten ++ c.q).Sublist c.sent ∧ c.delivered.Sublist c.sent := by
  have h : ChanInv (Chan.run limit ({} : Chan α) ops) :=
    chan_run limit {} ops (by simp [ChanInv, Chan.pending])
  refine ⟨h, ?_⟩
  unfold ChanInv Chan.pending at h
  rw [List.append_assoc] at h
  exact (List.sublist_append_left _ _).trans h

/-- per (sender, receiver) pair — or any other way of selecting messages — the delivered sequence is
an ordered selection of the sent one, and has no duplicates when the sent messages are distinct -/
theorem C11_no_dup_no_reorder_per_pair {α : Type} (limit : Nat) (ops : List (Op α)) (pair : α → Bool) :
    let c := Chan.run limit ({} : Chan α) ops
    (c.delivered.filter pair).Sublist (c.sent.filter pair) ∧
    (c.sent.Nodup → (c.delivered.filter pair).Nodup) := by
  have h := (C11_no_dup_no_reorder limit ops).2
  exact ⟨h.filter pair, fun hn => (List.filter_sublist.trans h).nodup hn⟩

/-- **exactly once while the link never broke**: without break events nothing is lost, so once the
queue and the stream are empty everything sent has been delivered, in order -/
theorem C11_delivered_eq_sent_when_never_broken {α : Type} (limit : Nat) (ops : List (Op α))
    (hops : ∀ op ∈ ops, op.isBrk = false) :
    let c := Chan.run limit ({} : Chan α) ops
    c.delivered ++ c.wire.flatten ++ c.q = c.sent ∧ (c.q = [] → c.wire = [] → c.delivered = c.sent) := by
  have h := chan_run_exact limit ({} : Chan α) ops hops ⟨rfl, by simp [Chan.pending]⟩
  obtain ⟨-, h⟩ := h
  unfold Chan.pending at h
  refine ⟨h, ?_⟩
  intro hq hw
  rw [hq, hw] at h
  simpa using h

/-- **envelope round trip**, given the codec law: what `onDeliveryMessage` reconstructs is the
payload, the system flag, and the sender and receiver `packMessage` put into the envelope — the
arguments for a bare message, the wrapper's own fields for a wrapped one; a Go error travels as
`SharedErrorMessage` and comes out as an error with the same text, bare or wrapped -/
theorem C11_envelope_roundtrip {P D : Type} (c : Codec P D) (hc : c.Lawful)
    (receiver sender : Option Pid) (m : Msg P) (system : Bool) (e : Env D)
    (h : pack c receiver sender m system = some e) :
    unpack c e = some (match m with
      | .bare b => ⟨system, sender, receiver, b⟩
      | .wrapped s r b => ⟨system, s, r, b⟩) := by
  cases m with
  | bare b =>
    simp only [pack, Option.map_eq_some_iff] at h
    obtain ⟨⟨n, d⟩, he, rfl⟩ := h
    simp [unpack, hc b n d he]
  | wrapped s r b =>
    simp only [pack, Option.map_eq_some_iff] at h
    obtain ⟨⟨n, d⟩, he, rfl⟩ := h
    simp [unpack, hc b n d he]

/-- packing fails only if the codec refuses the payload (since the repair a Go error inside a wrapper
is no exception) -/
theorem C11_pack_total {P D : Type} (c : Codec P D) (receiver sender : Option Pid) (m : Msg P) (system : Bool)
    (henc : ∀ b, (c.encode b).isSome) : (pack c receiver sender m system).isSome := by
  cases m with
  | bare b => simp [pack, henc b]
  | wrapped s r b => simp [pack, henc b]

/-- **a reply finds its way back**: let `asker` live on node `a` (registered there), and let the
request have carried `asker` as its sender to node `b`.  Then (1) on `b` the reply — addressed to the
carried sender — is routed to the stream of `a`'s physical address, (2) its envelope names `asker`
as receiver and the replier as sender, and (3) on `a` the envelope is delivered to the process
registered under the asker's logical address (no redirect, no dead letter). -/
theorem C11_reply_routes {P D : Type} (c : Codec P D) (hc : c.Lawful) (a b : NodeCfg) (asker replier : Pid)
    (body : Body P) (redirect : Option Pid) (e : Env D)
    (hab : a.phys ≠ b.phys) (hreach : b.peers.contains a.phys = true)
    (hhome : asker.phys = a.phys) (hreg : a.reg.contains asker.logical = true)
    (hpack : pack c (some asker) (some replier) (.wrapped (some replier) (some asker) body) false = some e) :
    route b (some asker) = .remote a.phys ∧
    unpack c e = some ⟨false, some replier, some asker, body⟩ ∧
    deliverRoute a redirect (some asker) = (some asker, .proc asker.logical) := by
  refine ⟨?_, C11_envelope_roundtrip c hc _ _ _ _ e hpack, ?_⟩
  · have hreach' : a.phys ∈ b.peers := by simpa using hreach
    simp only [route, hhome]
    simp [hab, hreach']
  · have hreg' : asker.logical ∈ a.reg := by simpa using hreg
    have hr : route a (some asker) = .proc asker.logical := by
      simp [route, hhome, hreg']
    simp [deliverRoute, hr]

/-! ### references after an outage (two-node system) -/
open MV.Model.LinkSys

/-- **a reference obtained before an outage delivers again afterwards**: a reference to the peer
whose cached stream is not the open one behaves exactly like a fresh reference — same system
state, same deliveries (it resolves again: the open stream, or a new one when the network is up) -/
theorem C11_old_reference_resolves_again (s : Sys) (i : Nat) (pid : Pid) (e : Nat) (system : Bool)
    (sender : Option Pid) (m : MV.Model.Link.Msg Pay) (hstale : s.cur ≠ some e) :
    (tellVia s i ⟨pid, some e⟩ system sender m).1 = (tellVia s i ⟨pid, none⟩ system sender m).1 ∧
    (tellVia s i ⟨pid, some e⟩ system sender m).2.2 = (tellVia s i ⟨pid, none⟩ system sender m).2.2 := by
  have hc : (s.cur == some e) = false := by simpa using hstale
  unfold tellVia
  simp only [hc, Bool.false_eq_true, if_false]
  split
  · exact ⟨rfl, rfl⟩
  · split
    · exact ⟨rfl, rfl⟩
    · cases resolve s with
      | mk s1 eo =>
        cases eo with
        | none => exact ⟨rfl, rfl⟩
        | some e' => exact ⟨rfl, rfl⟩

/-- **a message to a live remote actor is delivered exactly once, intact**: node `i` tells through a
fresh reference (or, by `C11_old_reference_resolves_again`, one whose cached stream is gone) to a
process registered on the peer, the network being up or a stream open; then exactly one delivery
happens, on the peer, to that process, with the system flag, sender, receiver and payload sent -/
theorem C11_tell_delivers_once (s : Sys) (i : Nat) (hi : i = 0 ∨ i = 1) (pid : Pid) (system : Bool)
    (sender : Option Pid) (b : Body Pay)
    (hphys : s.a.phys ≠ s.b.phys)
    (hpeer : pid.phys = (s.node (other i)).phys)
    (hreg : (s.node (other i)).reg.contains pid.logical = true)
    (hup : s.up = true ∨ s.cur.isSome = true) :
    (tellVia s i ⟨pid, none⟩ system sender (.wrapped sender (some pid) b)).2.2 =
      .seen [(other i, ⟨pid.logical, system, sender, some pid, .wrapped sender (some pid) b⟩)] := by
  have hreg' : pid.logical ∈ (s.node (other i)).reg := by simpa using hreg
  obtain ⟨e, he2, hecur, hea, heb⟩ := resolve_spec s hup
  have hnode : ∀ j, (resolve s).1.node j = s.node j := by
    intro j; simp only [Sys.node, hea, heb]
  have hne : (pid.phys == (s.node i).phys) = false := by
    rw [hpeer]
    rcases hi with rfl | rfl
    · simpa [Sys.node, other] using fun h => hphys h.symm
    · simpa [Sys.node, other] using hphys
  have hpe : (pid.phys != (s.node (other i)).phys) = false := by simp [hpeer]
  have ht := transmit_delivers 3 (resolve s).1 i e pid system sender b hecur
    (by rw [hnode]; exact hpeer) (by rw [hnode]; exact hreg')
  unfold tellVia
  simp only [hne, hpe, Bool.false_eq_true, if_false, he2]
  exact ht

end MV.Props.C11
