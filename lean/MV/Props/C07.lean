import MV.Lemmas.FutureSpec
/-!
# C07 — an ask resolves exactly once: with its own reply or with a timeout

Model: `MV.Model.Future` with `Cfg.shipped` (the code in /repo after the `fix:` commits of C07): any
number of futures in one registry, one atomic shared-memory operation of `engine/future/future.go`
per step.  Quantifier: **every schedule** `sched : List (Ev PC)` — any interleaving of any number of
asks (`alloc` → `New` → `Initialize` → timer), replies (to any request, also error replies and several
replies to one request), `Close` calls, `Forward` calls, `Result` readers and timer expiries, arriving
at any moment.

Two systems: `sysRaw` additionally lets the environment call `future.New` with any (also a taken)
address; `sys` creates futures only through the id counter, as `FutureAsk` does.  What holds for
`sysRaw` does not depend on address uniqueness.

Outside the theorems: "no later than its timeout" in wall-clock terms (the timer is a thread that may
fire at any time; `C07_no_hang` says it stays alive until the future is closed); the Go memory model
(sequentially consistent interleaving of the operations at the hook sites); the two mutex-protected
sections are atomic steps.
-/
namespace MV.Props.C07
open MV.Model.Conc MV.Model.Future MV.Spec.Future

/-- state after a schedule, futures only through asks -/
abbrev run (sched : List (Ev PC)) : State := exec (sys Cfg.shipped) init sched
/-- state after a schedule, `future.New` also with arbitrary addresses -/
abbrev runRaw (sched : List (Ev PC)) : State := exec (sysRaw Cfg.shipped) init sched

/-! ## exactly once -/

/-- **`done` is closed at most once**, for every schedule and every future — and only after the flag
was set; while a thread that won the CAS has not yet closed `done` nobody else can -/
theorem C07_complete_once (sched : List (Ev PC)) (k : Nat) :
    ((runRaw sched).g.futs k).dones ≤ 1 ∧
    (((runRaw sched).g.futs k).closed = false → ((runRaw sched).g.futs k).dones = 0) ∧
    (runRaw sched).ths.countP (pending k) + ((runRaw sched).g.futs k).dones =
      if ((runRaw sched).g.futs k).closed then 1 else 0 := by
  have h := (raw_reachable sched).once k
  unfold flag at h
  simp only [runRaw]
  refine ⟨?_, ?_, h⟩
  · split at h <;> omega
  · intro hc
    rw [hc] at h
    simp at h
    exact h.2

/-- the judge's clause `onceOK` holds of every future in every reachable state -/
theorem C07_onceOK (sched : List (Ev PC)) (k : Nat) : onceOK (observe (runRaw sched).g k) = true := by
  have h := (raw_reachable sched).once k
  have h2 := (raw_reachable sched).sect.2 k
  unfold flag at h
  simp only [runRaw, onceOK, observe, Bool.and_eq_true, Bool.or_eq_true, beq_iff_eq, List.isEmpty_iff]
  split at h
  · rename_i hc
    refine ⟨⟨decide_eq_true (by omega), Or.inl hc⟩, ?_⟩
    by_cases hd : ((exec (sysRaw Cfg.shipped) init sched).g.futs k).dones = 0
    · exact Or.inl (h2 hd)
    · exact Or.inr (by omega)
  · refine ⟨⟨decide_eq_true (by omega), Or.inr (by omega)⟩, Or.inl (h2 (by omega))⟩

/-! ## the result never changes -/

/-- **every `Result()` call of a future returns the same pair** -/
theorem C07_result_stable (sched : List (Ev PC)) (k : Nat) (x y : Res)
    (hx : x ∈ ((runRaw sched).g.futs k).results) (hy : y ∈ ((runRaw sched).g.futs k).results) : x = y := by
  have h := (raw_reachable sched).stable k
  rw [h x hx, h y hy]

theorem C07_stableOK (sched : List (Ev PC)) (k : Nat) : stableOK (observe (runRaw sched).g k) = true := by
  have h := (raw_reachable sched).stable k
  simp only [stableOK, observe]
  split
  · rfl
  · rename_i x xs hr
    simp only [List.all_eq_true, beq_iff_eq]
    intro y hy
    rw [h y (by rw [hr]; simp [hy]), h x (by rw [hr]; simp)]

/-! ## own reply, or an error -/

/-- **a value is a reply that was sent to this future's address**, it comes without error and is not
a Go `error`; an error reply surfaces as the error, without a value, and was sent to this address
too.  No assumption on addresses: routing by address cannot cross. -/
theorem C07_own_reply_address (sched : List (Ev PC)) (k : Nat) (hk : k < (runRaw sched).g.nfut)
    (m : Option Reply) (e : Option Err) (hres : (m, e) ∈ ((runRaw sched).g.futs k).results) :
    (∀ r, m = some r → e = none ∧ r.isErr = false ∧ r.tag < (runRaw sched).g.nfut ∧
        ((runRaw sched).g.futs r.tag).addr = ((runRaw sched).g.futs k).addr) ∧
    (∀ t v, e = some (.reply t v) → m = none ∧ t < (runRaw sched).g.nfut ∧
        ((runRaw sched).g.futs t).addr = ((runRaw sched).g.futs k).addr) := by
  have hst := (raw_reachable sched).stable k _ hres
  have hro := (raw_reachable sched).route.2 k hk
  have hsh := (raw_reachable sched).shape.2 k
  simp only [Prod.mk.injEq] at hst
  obtain ⟨hm, he⟩ := hst
  subst hm; subst he
  constructor
  · intro r hr
    obtain ⟨h1, h2⟩ := hsh r hr
    obtain ⟨h3, h4⟩ := hro.1 r hr
    exact ⟨h1, h2, h3, h4⟩
  · intro t v he
    obtain ⟨h3, h4⟩ := hro.2 t v he
    refine ⟨?_, h3, h4⟩
    cases hmm : ((runRaw sched).g.futs k).msg with
    | none => rfl
    | some r => have := (hsh r hmm).1; rw [this] at he; cases he

/-- **an error reply fails the ask** (never completes it with the error as a value) -/
theorem C07_error_reply_fails (sched : List (Ev PC)) (k : Nat) (hk : k < (runRaw sched).g.nfut)
    (m : Option Reply) (e : Option Err) (hres : (m, e) ∈ ((runRaw sched).g.futs k).results) :
    (∀ r, m = some r → r.isErr = false) ∧ (∀ t v, e = some (.reply t v) → m = none) := by
  obtain ⟨h1, h2⟩ := C07_own_reply_address sched k hk m e hres
  exact ⟨fun r hr => (h1 r hr).2.1, fun t v he => (h2 t v he).1⟩

/-- addresses drawn from the atomic id counter are pairwise distinct -/
theorem C07_addresses_unique (sched : List (Ev PC)) (j k : Nat) (hj : j < (run sched).g.nfut)
    (hk : k < (run sched).g.nfut) (h : ((run sched).g.futs j).addr = ((run sched).g.futs k).addr) : j = k :=
  (ask_reachable sched).uniq.inj j k hj hk h

/-- **own reply**: with addresses from the id counter, the value an ask resolves to answers this very
request, an error reply that fails it was a reply to this very request -/
theorem C07_own_reply (sched : List (Ev PC)) (k : Nat) (hk : k < (run sched).g.nfut)
    (m : Option Reply) (e : Option Err) (hres : (m, e) ∈ ((run sched).g.futs k).results) :
    (∀ r, m = some r → r.tag = k ∧ e = none ∧ r.isErr = false) ∧
    (∀ t v, e = some (.reply t v) → t = k ∧ m = none) := by
  have inv := ask_reachable sched
  have hst := inv.raw.stable k _ hres
  have hro := inv.raw.route.2 k hk
  have hsh := inv.raw.shape.2 k
  simp only [Prod.mk.injEq] at hst
  obtain ⟨hm, he⟩ := hst
  subst hm; subst he
  constructor
  · intro r hr
    obtain ⟨h1, h2⟩ := hsh r hr
    obtain ⟨h3, h4⟩ := hro.1 r hr
    exact ⟨inv.uniq.inj _ _ h3 hk h4, h1, h2⟩
  · intro t v he
    obtain ⟨h3, h4⟩ := hro.2 t v he
    refine ⟨inv.uniq.inj _ _ h3 hk h4, ?_⟩
    cases hmm : ((run sched).g.futs k).msg with
    | none => rfl
    | some r => have := (hsh r hmm).1; rw [this] at he; cases he

/-- the same as a statement about the judge's classification: whatever `Result()` of ask `k` returns
is its own reply, the timeout, an error replied to it — or what a caller passed to `Close` -/
theorem C07_outcome (sched : List (Ev PC)) (k : Nat) (hk : k < (run sched).g.nfut) (x : Res)
    (hres : x ∈ ((run sched).g.futs k).results) :
    classify k x = .own ∨ classify k x = .timeout ∨ classify k x = .errreply ∨ classify k x = .closed ∨
      classify k x = .nilok := by
  obtain ⟨m, e⟩ := x
  obtain ⟨h1, h2⟩ := C07_own_reply sched k hk m e hres
  cases m with
  | some r =>
    obtain ⟨ht, he, hi⟩ := h1 r rfl
    subst he
    simp [classify, hi, ht]
  | none =>
    cases e with
    | none => simp [classify]
    | some e =>
      cases e with
      | timeout => simp [classify]
      | reason n => simp [classify]
      | reply t v => simp [classify, (h2 t v rfl).1]

/-! ## nothing crashes, nothing is left behind -/

/-- with asks only, the nil-rc panic (a future used before `Initialize` ran) cannot happen -/
theorem C07_no_crash (sched : List (Ev PC)) : (run sched).g.crashes = 0 :=
  (ask_reachable sched).live.crash

/-- **released**: once the thread that completed the ask is past `Unregister`, the temporary reply
address no longer leads to this future; once it is past `timer.Stop`, the timer is not pending; once it
is past `execForward`, no forward target is waiting -/
theorem C07_released (sched : List (Ev PC)) (k : Nat) (hk : k < (run sched).g.nfut)
    (hc : ((run sched).g.futs k).closed = true) :
    ((run sched).ths.countP (preUnreg k) = 0 → (run sched).g.reg ((run sched).g.futs k).addr ≠ some k) ∧
    ((run sched).ths.countP (preStop k) = 0 → ((run sched).g.futs k).timerActive = false) ∧
    ((run sched).ths.countP (preLock k) = 0 → ((run sched).g.futs k).forwards = []) := by
  have inv := (ask_reachable sched).rel
  refine ⟨fun h => ?_, fun h => ?_, fun h => ?_⟩
  · rcases inv.reg k hk hc with q | q
    · rw [h] at q; exact absurd q (by decide)
    · exact q
  · rcases inv.timer k hk hc with q | q
    · rw [h] at q; exact absurd q (by decide)
    · exact q
  · rcases inv.fwd k hk hc with q | q
    · rw [h] at q; exact absurd q (by decide)
    · exact q

/-- **never by hanging**: in every quiescent state every future with a timeout whose `New` has
returned is complete — `done` closed exactly once — and released -/
theorem C07_no_hang (sched : List (Ev PC)) (hq : Quiescent (run sched)) (k : Nat) (hk : k < (run sched).g.nfut)
    (hr : ((run sched).g.futs k).ready = true) (ht : ((run sched).g.futs k).tmo = true) :
    ((run sched).g.futs k).closed = true ∧ ((run sched).g.futs k).dones = 1 ∧
    (run sched).g.reg ((run sched).g.futs k).addr ≠ some k ∧ ((run sched).g.futs k).timerActive = false := by
  have inv := ask_reachable sched
  have z1 := quiescent_none _ hq (isTimer k) (fun x hx => always_enabled _ x k (by simp [hx]))
  have z2 := quiescent_none _ hq (isCas k) (fun x hx => always_enabled _ x k (by simp [hx]))
  have z3 := quiescent_none _ hq (pending k) (fun x hx => always_enabled _ x k (by simp [hx]))
  have z4 := quiescent_none _ hq (preUnreg k) (fun x hx => always_enabled _ x k (by simp [hx]))
  have z5 := quiescent_none _ hq (preStop k) (fun x hx => always_enabled _ x k (by simp [hx]))
  have hc : ((run sched).g.futs k).closed = true := by
    rcases inv.hang k hk hr ht with q | q | q
    · exact q
    · have q2 := q.2; rw [z1] at q2; exact absurd q2 (by decide)
    · rw [z2] at q; exact absurd q (by decide)
  have ho := inv.raw.once k
  unfold flag at ho
  rw [z3, hc] at ho
  obtain ⟨r1, r2, -⟩ := C07_released sched k hk hc
  exact ⟨hc, by simpa using ho, r1 z4, r2 z5⟩

/-- in a quiescent state every completed ask has released its address and its timer, and its forward
targets have been told exactly once, in the order of the `Forward` calls -/
theorem C07_quiescent_released (sched : List (Ev PC)) (hq : Quiescent (run sched)) (k : Nat)
    (hk : k < (run sched).g.nfut) (hc : ((run sched).g.futs k).closed = true) :
    (run sched).g.reg ((run sched).g.futs k).addr ≠ some k ∧ ((run sched).g.futs k).timerActive = false ∧
    ((run sched).g.futs k).forwards = [] ∧
    ((run sched).g.futs k).fwdLog.map (·.1) = ((run sched).g.futs k).fwdReq := by
  have z4 := quiescent_none _ hq (preUnreg k) (fun x hx => always_enabled _ x k (by simp [hx]))
  have z5 := quiescent_none _ hq (preStop k) (fun x hx => always_enabled _ x k (by simp [hx]))
  have z6 := quiescent_none _ hq (preLock k) (fun x hx => always_enabled _ x k (by simp [hx]))
  obtain ⟨r1, r2, r3⟩ := C07_released sched k hk hc
  have hreq := (ask_reachable sched).rel.req k hk
  rw [r3 z6] at hreq
  exact ⟨r1 z4, r2 z5, r3 z6, by simpa using hreq.symm⟩

/-! ## the judge's clauses (evaluated on the real code's observations) hold of the model -/

theorem C07_releasedOK (sched : List (Ev PC)) (hq : Quiescent (run sched)) (k : Nat)
    (hk : k < (run sched).g.nfut) : releasedOK (observe (run sched).g k) = true := by
  simp only [releasedOK, observe, Bool.or_eq_true, Bool.not_eq_true', beq_eq_false_iff_ne, Bool.and_eq_true]
  by_cases hd : ((run sched).g.futs k).dones = 1
  · right
    have ho := (ask_reachable sched).raw.once k
    unfold flag at ho
    have hc : ((run sched).g.futs k).closed = true := by
      simp only [run] at hd ⊢
      split at ho
      · assumption
      · omega
    obtain ⟨r1, r2, -, -⟩ := C07_quiescent_released sched hq k hk hc
    exact ⟨r1, r2⟩
  · left; exact hd

theorem C07_noHangOK (sched : List (Ev PC)) (hq : Quiescent (run sched)) (k : Nat)
    (hk : k < (run sched).g.nfut) (hr : ((run sched).g.futs k).ready = true) :
    noHangOK (observe (run sched).g k) = true := by
  simp only [noHangOK, observe, Bool.or_eq_true, Bool.not_eq_true', Bool.and_eq_false_iff, Bool.and_eq_true,
    beq_iff_eq]
  by_cases ht : ((run sched).g.futs k).tmo = true
  · right
    obtain ⟨h1, h2, -, -⟩ := C07_no_hang sched hq k hk hr ht
    exact ⟨h1, h2⟩
  · left; left; simpa using ht

theorem C07_ownOK (sched : List (Ev PC)) (k : Nat) (hk : k < (run sched).g.nfut) :
    ownOK (observe (run sched).g k) = true := by
  simp only [ownOK, observe, List.all_eq_true, Bool.and_eq_true]
  intro x hx
  obtain ⟨m, e⟩ := x
  obtain ⟨h1, h2⟩ := C07_own_reply sched k hk m e hx
  constructor
  · cases m with
    | none => rfl
    | some r => simpa using (h1 r rfl).1
  · cases e with
    | none => rfl
    | some e =>
      cases e with
      | reply t v => simpa using (h2 t v rfl).1
      | _ => rfl

theorem C07_resOK (sched : List (Ev PC)) (k : Nat) (hk : k < (runRaw sched).g.nfut) :
    resOK (addrOf (observeAll (runRaw sched).g)) (observe (runRaw sched).g k) = true := by
  simp only [resOK, List.all_eq_true, Bool.and_eq_true]
  intro x hx
  obtain ⟨m, e⟩ := x
  obtain ⟨h1, h2⟩ := C07_own_reply_address sched k hk m e hx
  constructor
  · cases m with
    | none => rfl
    | some r =>
      obtain ⟨a1, a2, a3, a4⟩ := h1 r rfl
      simp [a1, a2, addrOf_observeAll, a3, a4, observe]
  · cases e with
    | none => rfl
    | some e =>
      cases e with
      | reply t v =>
        obtain ⟨a1, a3, a4⟩ := h2 t v rfl
        simp [a1, addrOf_observeAll, a3, a4, observe]
      | _ => rfl

theorem C07_fwdOK (sched : List (Ev PC)) (hq : Quiescent (run sched)) (k : Nat)
    (hk : k < (run sched).g.nfut) : fwdOK (observe (run sched).g k) = true := by
  simp only [fwdOK, observe, Bool.or_eq_true, Bool.not_eq_true', beq_eq_false_iff_ne, Bool.and_eq_true,
    beq_iff_eq]
  by_cases hd : ((run sched).g.futs k).dones = 1
  · right
    have ho := (ask_reachable sched).raw.once k
    unfold flag at ho
    have hc : ((run sched).g.futs k).closed = true := by
      simp only [run] at hd ⊢
      split at ho
      · assumption
      · omega
    obtain ⟨-, -, r3, r4⟩ := C07_quiescent_released sched hq k hk hc
    refine ⟨by simp [r3], ?_⟩
    rw [r4]; exact List.isPerm_iff.mpr (List.Perm.refl _)
  · left; exact hd

/-! ## non-vacuity -/

/-- an ask, its reply and a reader: the ask resolves to its own reply, the address is released -/
example :
    let s := run [.spawn (.alloc true), .run 0, .run 0, .run 0, .run 0, .spawn (.reply ⟨0, 5, false⟩),
      .spawn (.result 0), .run 2, .run 2, .run 2, .run 2, .run 2, .run 2, .run 2, .run 2, .run 3, .run 3, .run 3]
    (s.g.futs 0).results = [(some ⟨0, 5, false⟩, none)] ∧ s.g.reg 1 = none ∧ (s.g.futs 0).timerActive = false := by
  decide

/-- reply and timer race; the timer wins the CAS: timeout, the late reply changes nothing -/
example :
    let s := run [.spawn (.alloc true), .run 0, .run 0, .run 0, .run 0, .spawn (.reply ⟨0, 5, false⟩),
      .spawn (.result 0), .run 2, .run 2, .run 1, .run 1, .run 2, .run 1, .run 1, .run 3, .run 3, .run 3]
    (s.g.futs 0).results = [(none, some .timeout)] ∧ (s.g.futs 0).msg = none ∧ (s.g.futs 0).dones = 1 := by
  decide

/-- an error reply fails the ask with that error -/
example :
    let s := run [.spawn (.alloc false), .run 0, .run 0, .run 0, .spawn (.reply ⟨0, 7, true⟩),
      .spawn (.result 0), .run 1, .run 1, .run 1, .run 1, .run 1, .run 2, .run 2, .run 2]
    (s.g.futs 0).results = [(none, some (.reply 0 7))] := by
  decide

end MV.Props.C07
