import MV.Model.Unbounded
import MV.Spec.ClosableQueue
/-!
# C15 — `buffer.Unbounded` / `channels.UnboundedBacklog` (backlog + channel of capacity 1)

* `C15_unbounded_refines`: used the documented way (`Put`, receive-then-`Load`, `Load`, `Close`,
  `IsClosed` in any order and number) the buffer answers exactly like the abstract closable FIFO
  list, for every operation sequence.
* `C15_unbounded_fifo_any_use`: for *every* sequence of the atomic operations — also the bare receive
  without `Load`, hence for every interleaving of concurrent producers, loaders, closers and the
  consumer (each operation is atomic in the real object: mutex / one channel operation) — the values
  handed out so far followed by what the object still holds are exactly the values accepted so far,
  in acceptance order: nothing invented, duplicated, reordered, and nothing lost while open.
-/
namespace MV.Props.C15
open MV.Model MV.Model.Unbounded MV.Spec

/-- representation invariant under documented use: while open, an empty channel means an empty
backlog (every successful receive is followed by `Load`). -/
def USync (u : Unbounded) : Prop := u.closed = false → u.c = none → u.backlog = []

/-- abstraction to the closable list queue -/
def uabs (u : Unbounded) : ClosableQueue.St :=
  { l := if u.closed then u.c.toList else u.c.toList ++ u.backlog, closed := u.closed }

theorem C15_unbounded_step_refines (u : Unbounded) (h : USync u) (op : Op)
    (hp : ClosableQueue.isProto op = true) :
    USync (Unbounded.step u op).1 ∧ uabs (Unbounded.step u op).1 = (ClosableQueue.step (uabs u) op).1 ∧
      (Unbounded.step u op).2 = (ClosableQueue.step (uabs u) op).2 := by
  obtain ⟨c, closed, backlog⟩ := u
  unfold USync at h
  cases op with
  | recv => simp [ClosableQueue.isProto] at hp
  | put v =>
    cases closed <;> cases c <;> cases backlog <;>
      simp_all [USync, uabs, Unbounded.step, Unbounded.put, ClosableQueue.step]
  | load =>
    cases closed <;> cases c <;> cases backlog <;>
      simp_all [USync, uabs, Unbounded.step, Unbounded.load, ClosableQueue.step]
  | take =>
    cases closed <;> cases c <;> cases backlog <;>
      simp_all [USync, uabs, Unbounded.step, Unbounded.load, Unbounded.recv, Unbounded.outOfRecv,
        ClosableQueue.step]
  | close =>
    cases closed <;> cases c <;> cases backlog <;>
      simp_all [USync, uabs, Unbounded.step, Unbounded.close, ClosableQueue.step]
  | isClosed =>
    cases closed <;> cases c <;> cases backlog <;>
      simp_all [USync, uabs, Unbounded.step, Unbounded.isClosed, ClosableQueue.step]

theorem C15_unbounded_refines_from (u : Unbounded) (h : USync u) (ops : List Op)
    (hp : ops.all ClosableQueue.isProto = true) :
    Unbounded.run u ops = ClosableQueue.run (uabs u) ops := by
  induction ops generalizing u with
  | nil => rfl
  | cons op ops ih =>
    simp only [List.all_cons, Bool.and_eq_true] at hp
    obtain ⟨hw, ha, ho⟩ := C15_unbounded_step_refines u h op hp.1
    unfold Unbounded.run ClosableQueue.run
    simp only
    rw [ih _ hw hp.2, ha, ho]

/-- **Refinement, all documented-use operation sequences** on a fresh buffer. -/
theorem C15_unbounded_refines (ops : List Op) (hp : ops.all ClosableQueue.isProto = true) :
    Unbounded.run Unbounded.new ops = ClosableQueue.run ClosableQueue.init ops :=
  C15_unbounded_refines_from Unbounded.new (by simp [USync, Unbounded.new]) ops hp

/-! ## Any use, any interleaving -/

/-- what the object holds -/
def ucontent (u : Unbounded) : List Int := u.c.toList ++ u.backlog

/-- the values of the `put`s accepted (buffer open) during `ops` started in `u` -/
def uaccepted (u : Unbounded) : List Op → List Int
  | [] => []
  | .put v :: ops => (if u.closed then [] else [v]) ++ uaccepted (Unbounded.step u (.put v)).1 ops
  | op :: ops => uaccepted (Unbounded.step u op).1 ops

theorem ustep_content (u : Unbounded) (op : Op) :
    ClosableQueue.received [(Unbounded.step u op).2] ++ ucontent (Unbounded.step u op).1
      = ucontent u ++ uaccepted u [op] := by
  obtain ⟨c, closed, backlog⟩ := u
  cases op <;> cases closed <;> cases c <;> cases backlog <;>
    simp [ucontent, uaccepted, Unbounded.step, Unbounded.put, Unbounded.load, Unbounded.recv,
      Unbounded.close, Unbounded.outOfRecv, ClosableQueue.received]

theorem received_cons (o : Out) (os : List Out) :
    ClosableQueue.received (o :: os) = ClosableQueue.received [o] ++ ClosableQueue.received os := by
  cases o <;> simp [ClosableQueue.received]

theorem uaccepted_cons (u : Unbounded) (op : Op) (ops : List Op) :
    uaccepted u (op :: ops) = uaccepted u [op] ++ uaccepted (Unbounded.step u op).1 ops := by
  cases op <;> simp [uaccepted]

theorem C15_unbounded_fifo_from (u : Unbounded) (ops : List Op) :
    ClosableQueue.received (Unbounded.run u ops) ++ ucontent (Unbounded.exec u ops)
      = ucontent u ++ uaccepted u ops := by
  induction ops generalizing u with
  | nil => simp [Unbounded.run, Unbounded.exec, uaccepted, ClosableQueue.received]
  | cons op ops ih =>
    have h1 := ustep_content u op
    have h2 := ih (Unbounded.step u op).1
    unfold Unbounded.run Unbounded.exec
    simp only
    rw [received_cons, uaccepted_cons, List.append_assoc, h2, ← List.append_assoc, h1,
      List.append_assoc]

/-- **FIFO for every use and every interleaving**: handed out ++ still held = accepted. -/
theorem C15_unbounded_fifo_any_use (ops : List Op) :
    ClosableQueue.received (Unbounded.run Unbounded.new ops)
        ++ ucontent (Unbounded.exec Unbounded.new ops)
      = uaccepted Unbounded.new ops := by
  have := C15_unbounded_fifo_from Unbounded.new ops
  simpa [ucontent, Unbounded.new] using this

/-- in particular the values handed out are a prefix of the values accepted -/
theorem C15_unbounded_received_prefix (ops : List Op) :
    ClosableQueue.received (Unbounded.run Unbounded.new ops) <+: uaccepted Unbounded.new ops :=
  ⟨_, C15_unbounded_fifo_any_use ops⟩

/-- while the buffer is open under documented use nothing is parked where `take` cannot reach it:
`take` answers `empty` only if everything accepted was handed out. -/
theorem C15_unbounded_open_empty_iff (u : Unbounded) (h : USync u) (ho : u.closed = false) :
    (Unbounded.step u .take).2 = .empty ↔ ucontent u = [] := by
  obtain ⟨c, closed, backlog⟩ := u
  cases c <;> cases backlog <;>
    simp_all [USync, ucontent, Unbounded.step, Unbounded.recv, Unbounded.outOfRecv]

/-- non-vacuity: backlog use, the protocol hypothesis is satisfiable, close drops the backlog -/
example : Unbounded.run Unbounded.new
      [.put 1, .put 2, .put 3, .take, .take, .isClosed, .close, .put 4, .take, .take, .isClosed]
    = [.unit, .unit, .unit, .val 1, .val 2, .bool false, .unit, .unit, .val 3, .closed, .bool true] := by
  decide
example : ([Op.put 1, .take, .load, .close, .isClosed] : List Op).all ClosableQueue.isProto = true := by
  decide
/-- off-protocol use (bare `recv`, no `Load`) really leaves the element parked: the hypothesis of
`C15_unbounded_refines` is needed. -/
example : Unbounded.run Unbounded.new [.put 1, .put 2, .recv, .recv, .load, .recv]
    = [.unit, .unit, .val 1, .empty, .unit, .val 2] := by decide

end MV.Props.C15
