import MV.Lemmas.ClusterManager
import MV.Lemmas.ClusterRegistry
import MV.Lemmas.ClusterJudge
/-!
# C13 — a cluster identity maps to one actor per ability

Statements about `MV.Model.ClusterManager` (the manager actor of
`engine/vivid/cluster/drillmaster_actor.go` as a sequential machine — legitimate because an actor
handles one message at a time, C01; *every* interleaving of any number of callers is therefore one
list of requests) for **arbitrary** operation lists: lookups of arbitrary (identity, ability) pairs,
terminations of created actors, restarts of the manager.  A reference is an address together with
the ghost launch number of the actor behind it, so "the same reference" means the same actor.

* `C13_total` — no request makes the manager fail (the handler never panics; no `panic` output).
* `C13_unknown_ability` — an ability the node does not offer is answered with an error, nothing changes.
* `C13_idempotent` — once a lookup has returned a reference, every later lookup of that pair returns
  the same reference (same address, same launch) for as long as that pair is not killed and the
  manager is not restarted — whatever else is looked up or killed in between.
* `C13_at_most_once` — over the same stretch nothing is launched at that address; and globally
  (`C13_launch_accounting`) launches = terminations + (1 if alive) for every address at every time.
* `C13_distinct` — two live pairs never share an address.  The name `identity-ability` is **not**
  injective (`MV.Findings.C13`): what the manager does about it is refuse the second pair
  (`err:create`); `C13_name_injective` is the guard under which this cannot happen and
  `C13_no_refusal` shows that with dash-free, legal identities no request is ever refused.
* `C13_refines_registry` — on every operation list the manager answers exactly like the abstract
  registry `MV.Spec.ClusterRegistry`.
* `C13_judge_accepts_model` — concurrency: whatever the order `ks` in which the manager takes the
  requests of any number of simultaneous callers out of its mailbox, its answers — listed in any
  order, e.g. per caller — satisfy the `Bool` judge `MV.Spec.ClusterJudge.accepts` that the harness
  applies to the answers of the real manager (same pair ⇒ same reference for every caller, one launch
  per new live pair, references of live pairs kept, distinct pairs ⇒ distinct actors, refusals only
  with a reason), and the judge's next state describes the manager's next state.
-/
namespace MV.Props.C13
open MV.Model.ClusterManager MV.Spec

/-- reachable states: any operation list from a freshly started manager -/
def reach (abilities : List Name) (ops : List Op) : Mgr := (run (init abilities) ops).1

theorem C13_wf (abilities : List Name) (ops : List Op) : WF (reach abilities ops) :=
  wf_run (wf_init abilities) ops

/-- the request handler never panics, in any state (reachable or not) -/
theorem C13_handler_total (s : Mgr) (i a : Name) : ∃ x, onActorOf s i a = .ok x :=
  ⟨_, onActorOf_eq s i a⟩

/-- no operation list makes the manager fail -/
theorem C13_total (s : Mgr) (ops : List Op) : Out.panic ∉ (run s ops).2 := by
  induction ops generalizing s with
  | nil => simp [run_nil]
  | cons op ops ih =>
    rw [run_cons]
    intro h
    rcases List.mem_cons.mp h with h | h
    · cases op with
      | lookup i a => rw [step_lookup] at h; cases h
      | kill i a =>
        cases hf : find s.members (a, i) with
        | some r => rw [step_kill_some hf] at h; cases h
        | none => rw [step_kill_none hf] at h; cases h
      | restart => rw [step_restart] at h; cases h
    · exact ih _ h

/-- an ability the node does not offer: error reply, state untouched -/
theorem C13_unknown_ability (s : Mgr) (i a : Name) (h : a ∉ s.abilities) :
    step s (.lookup i a) = (s, .reply .errAbility) := by
  rw [step_lookup]; simp [lookupPure, h]

/-- a reply carrying a reference means the pair is remembered with exactly that reference -/
theorem lookup_ref_remembered {s : Mgr} {i a : Name} {r : Ref}
    (h : (step s (.lookup i a)).2 = .reply (.ref r)) :
    find (step s (.lookup i a)).1.members (a, i) = some r := by
  rw [step_lookup] at h ⊢
  simp only [Out.reply.injEq] at h
  unfold lookupPure at h ⊢
  by_cases ha : a ∈ s.abilities
  · cases hf : find s.members (a, i) with
    | some r' =>
      simp only [ha, not_true_eq_false, if_false, hf] at h ⊢
      cases h; rfl
    | none =>
      by_cases hc : creatable s i a = true
      · simp only [ha, not_true_eq_false, if_false, hf, hc, if_true] at h ⊢
        cases h; simp [spawned, find]
      · simp [ha, hf, hc] at h
  · simp [ha] at h

/-- **idempotence**: after a lookup of (i, a) answered with reference `r`, and any further operations
    that neither kill (i, a) nor restart the manager, a lookup of (i, a) is answered with `r` again
    and changes nothing. -/
theorem C13_idempotent {s : Mgr} (h : WF s) {i a : Name} {r : Ref}
    (h1 : (step s (.lookup i a)).2 = .reply (.ref r))
    (ops : List Op) (hq : ∀ op ∈ ops, quiet i a op) :
    let s2 := (run (step s (.lookup i a)).1 ops).1
    step s2 (.lookup i a) = (s2, .reply (.ref r)) := by
  intro s2
  have hw := wf_step h (.lookup i a)
  have hf : find s2.members (a, i) = some r := find_run_quiet hw (lookup_ref_remembered h1) ops hq
  have ha : a ∈ s2.abilities := ((wf_run hw ops).entry _ (find_mem hf)).2.1
  rw [step_lookup]; simp [lookupPure, ha, hf]

/-- **at most once**: over such a stretch nothing is launched at the address of the pair -/
theorem C13_at_most_once {s : Mgr} (h : WF s) {i a : Name} {r : Ref}
    (h1 : (step s (.lookup i a)).2 = .reply (.ref r))
    (ops : List Op) (hq : ∀ op ∈ ops, quiet i a op) :
    let s1 := (step s (.lookup i a)).1
    (run s1 ops).1.launched.count r.name = s1.launched.count r.name := by
  intro s1
  have hw := wf_step h (.lookup i a)
  have hf1 := lookup_ref_remembered h1
  have hf2 := find_run_quiet hw hf1 ops hq
  have e1 := (hw.entry _ (find_mem hf1)).2.2.2.2
  have e2 := ((wf_run hw ops).entry _ (find_mem hf2)).2.2.2.2
  exact e2.symm.trans e1

/-- at every time, for every address: launches = terminations + (1 if an actor lives there) -/
theorem C13_launch_accounting (abilities : List Name) (ops : List Op) (n : Name) :
    let s := reach abilities ops
    s.launched.count n = s.terminated.count n + (if n ∈ s.children then 1 else 0) :=
  (C13_wf abilities ops).account n

/-- the children of the manager are exactly the remembered actors, pairwise different -/
theorem C13_children_are_members (abilities : List Name) (ops : List Op) :
    let s := reach abilities ops
    s.children = s.members.map (fun e => e.2.name) ∧ s.children.Nodup :=
  ⟨(C13_wf abilities ops).children_eq, (C13_wf abilities ops).nodup⟩

/-- **distinct**: two different live pairs never share an address -/
theorem C13_distinct (abilities : List Name) (ops : List Op) {k k' : Key} {r r' : Ref}
    (hk : find (reach abilities ops).members k = some r)
    (hk' : find (reach abilities ops).members k' = some r') (hne : k ≠ k') :
    r.name ≠ r'.name :=
  distinct_names (C13_wf abilities ops) hk hk' hne

/-- the address of a live pair is `identity-ability` -/
theorem C13_address (abilities : List Name) (ops : List Op) {i a : Name} {r : Ref}
    (hk : find (reach abilities ops).members (a, i) = some r) : r.name = nameOf i a :=
  ((C13_wf abilities ops).entry _ (find_mem hk)).1

/-- the guard under which the name is injective: no dash in the identities -/
theorem C13_name_injective {i₁ i₂ a₁ a₂ : Name} (h₁ : '-' ∉ i₁) (h₂ : '-' ∉ i₂)
    (h : nameOf i₁ a₁ = nameOf i₂ a₂) : i₁ = i₂ ∧ a₁ = a₂ :=
  append_dash_inj h₁ h₂ h

/-- all identities used by the lookups are legal actor names without a dash, all abilities legal -/
def tame (ops : List Op) : Prop :=
  ∀ i a, Op.lookup i a ∈ ops → '-' ∉ i ∧ legalName i = true ∧ legalName a = true

theorem dashfree_step {s : Mgr} (hd : ∀ e ∈ s.members, '-' ∉ e.1.2) {op : Op}
    (ht : ∀ i a, op = .lookup i a → '-' ∉ i) : ∀ e ∈ (step s op).1.members, '-' ∉ e.1.2 := by
  cases op with
  | lookup i a =>
    rw [step_lookup]; unfold lookupPure
    by_cases ha : a ∈ s.abilities
    · cases hf : find s.members (a, i) with
      | some r => simpa [ha] using hd
      | none =>
        by_cases hc : creatable s i a = true
        · intro e he
          simp only [ha, not_true_eq_false, if_false, hc, if_true, spawned, List.mem_cons] at he
          rcases he with he | he
          · subst he; exact ht i a rfl
          · exact hd e he
        · simpa [ha, hc] using hd
    · simpa [ha] using hd
  | kill i a =>
    cases hf : find s.members (a, i) with
    | some r =>
      rw [step_kill_some hf]
      intro e he
      simp only [onTerminated, List.mem_filter] at he
      exact hd e he.1
    | none => rw [step_kill_none hf]; exact hd
  | restart => rw [step_restart]; intro e he; simp [restart] at he

/-- **no refusal under the guard**: with dash-free legal identities and legal abilities no lookup is
    ever answered `err:create` — every offered ability gets its actor. -/
theorem C13_no_refusal {s : Mgr} (h : WF s) (hd : ∀ e ∈ s.members, '-' ∉ e.1.2)
    (ops : List Op) (ht : tame ops) : Out.reply .errCreate ∉ (run s ops).2 := by
  induction ops generalizing s with
  | nil => simp [run_nil]
  | cons op ops ih =>
    rw [run_cons]
    intro hm
    rcases List.mem_cons.mp hm with hm | hm
    · cases op with
      | lookup i a =>
        obtain ⟨hdi, hli, hla⟩ := ht i a (by simp)
        rw [step_lookup] at hm
        simp only [Out.reply.injEq] at hm
        unfold lookupPure at hm
        by_cases ha : a ∈ s.abilities
        · cases hf : find s.members (a, i) with
          | some r => simp [ha, hf] at hm
          | none =>
            have hc : creatable s i a = true := by
              simp only [creatable, hli, hla, Bool.and_self, Bool.true_and, Bool.not_eq_true',
                decide_eq_false_iff_not]
              intro hin
              rw [h.children_eq] at hin
              obtain ⟨e, he, hn⟩ := List.mem_map.mp hin
              rw [(h.entry e he).1] at hn
              obtain ⟨e1, e2⟩ := append_dash_inj (hd e he) hdi hn
              have hkey : e.1 = (a, i) := Prod.ext e2 e1
              obtain ⟨r', hr'⟩ := find_isSome_of_mem (k := e.1) (r := e.2) he
              rw [hkey, hf] at hr'; cases hr'
            simp [ha, hf, hc] at hm
        · simp [ha] at hm
      | kill i a =>
        cases hf : find s.members (a, i) with
        | some r => rw [step_kill_some hf] at hm; cases hm
        | none => rw [step_kill_none hf] at hm; cases hm
      | restart => rw [step_restart] at hm; cases hm
    · exact ih (wf_step h op)
        (dashfree_step hd (fun i a hop => (ht i a (by simp [hop])).1))
        (fun i a hin => ht i a (List.mem_cons_of_mem _ hin)) hm

/-- **refinement**: on every operation list the manager gives the answers of the abstract registry -/
theorem C13_refines_registry (abilities : List Name) (ops : List Op) :
    (run (init abilities) ops).2 = (ClusterRegistry.run (ClusterRegistry.init abilities) ops).2 :=
  (sim_run (wf_init abilities) (sim_init abilities) ops).2

/-- **concurrent callers**: `s` any well-formed (e.g. reachable, `C13_wf`) state, `t` a judge state
    describing it, `ks` the requests of a phase in the (unobservable) order in which the manager
    handles them, `obs` the same (pair, answer) observations in any order and multiplicity,
    `reported` the true launch counters: the judge accepts, and its advanced state describes the
    manager's state after the phase. -/
theorem C13_judge_accepts_model {s : Mgr} (h : WF s) (t : ClusterRegistry.Reg)
    (ht : Equiv s t) (ks : List Key) (obs : List ClusterJudge.Obs)
    (hobs : ∀ o, o ∈ obs ↔ o ∈ ks.zip (((run s (lookups ks)).2).filterMap
      (fun | .reply r => some r | _ => none)))
    (reported : List (Name × Nat))
    (hrep : ∀ n, ClusterJudge.reportedCount reported n = (run s (lookups ks)).1.launched.count n) :
    ClusterJudge.accepts t obs reported = true ∧
      Equiv (run s (lookups ks)).1 (ClusterJudge.advance t obs) ∧ WF (run s (lookups ks)).1 := by
  have hfm : ∀ l : List Reply, (l.map Out.reply).filterMap (fun | .reply r => some r | _ => none) = l := by
    intro l; induction l with
    | nil => rfl
    | cons x xs ih => simp [ih]
  have hw := wf_run h (lookups ks)
  rw [run_lookups] at hobs hrep hw ⊢
  simp only [hfm] at hobs
  exact ⟨accepts_model h ht ks hobs hrep, equiv_advance h ht ks hobs, hw⟩

/-- **between phases**: for a kill or a restart the judge applies the abstract registry's step to its
    state and compares the answer; on the model the answers agree and the judge keeps describing the
    manager's state. Together with `C13_judge_init` and `C13_judge_accepts_model` (induction over the
    script): every script of phases, kills and restarts run on the model is accepted by the judge. -/
theorem C13_judge_tracks_step {s : Mgr} (h : WF s) (t : ClusterRegistry.Reg) (ht : Equiv s t)
    (op : Op) (hop : ∀ i a, op ≠ .lookup i a) :
    (step s op).2 = (ClusterRegistry.step t op).2 ∧
      Equiv (step s op).1 (ClusterRegistry.step t op).1 ∧ WF (step s op).1 :=
  ⟨(equiv_step_quiescent h ht op hop).2, (equiv_step_quiescent h ht op hop).1, wf_step h op⟩

/-- the judge's initial state describes the freshly started manager -/
theorem C13_judge_init (abilities : List Name) :
    Equiv (init abilities) (ClusterRegistry.init abilities) ∧ WF (init abilities) :=
  ⟨equiv_of_sim (wf_init abilities) (sim_init abilities), wf_init abilities⟩

/-! ## non-vacuity -/

private def p : Name := ['p']
private def q : Name := ['q']
private def x : Name := ['x']
private def y : Name := ['y']

/-- a repeated lookup returns the same reference, another identity another one, an unknown ability an
    error; after a kill the pair is launched a second time at the same address -/
example : (run (init [p]) [.lookup x p, .lookup x p, .lookup y p, .lookup x q, .kill x p, .lookup x p]).2 =
    [.reply (.ref ⟨['x', '-', 'p'], 1⟩), .reply (.ref ⟨['x', '-', 'p'], 1⟩),
     .reply (.ref ⟨['y', '-', 'p'], 1⟩), .reply .errAbility, .killed ['x', '-', 'p'],
     .reply (.ref ⟨['x', '-', 'p'], 2⟩)] := by decide

/-- the hypotheses of `C13_idempotent` are satisfiable with interfering operations in between -/
example : (∀ op ∈ [Op.lookup y p, .kill y p, .lookup x q], quiet x p op) := by
  intro op h; simp at h; rcases h with h | h | h <;> subst h <;> simp [quiet, x, y]

/-- `tame` lists exist and still create actors -/
example : tame [.lookup x p, .lookup y p] ∧ (reach [p] [.lookup x p, .lookup y p]).children.length = 2 := by
  refine ⟨?_, by decide⟩
  intro i a h
  simp at h
  rcases h with ⟨h1, h2⟩ | ⟨h1, h2⟩ <;> subst h1 <;> subst h2 <;> decide

/-- a restart forgets everything: the next lookup launches the actor again -/
example : (run (init [p]) [.lookup x p, .restart, .lookup x p]).2 =
    [.reply (.ref ⟨['x', '-', 'p'], 1⟩), .restarted, .reply (.ref ⟨['x', '-', 'p'], 2⟩)] := by decide

/-- the judge rejects what the property forbids: a second launch for a live pair -/
example : ClusterJudge.accepts (ClusterRegistry.init [p])
    [((p, x), .ref ⟨['x', '-', 'p'], 1⟩), ((p, x), .ref ⟨['x', '-', 'p'], 2⟩)]
    [(['x', '-', 'p'], 2)] = false := by decide

/-- … and accepts the answers of the model to four interleaved requests of two callers -/
example : ClusterJudge.accepts (ClusterRegistry.init [p])
    [((p, x), .ref ⟨['x', '-', 'p'], 1⟩), ((p, y), .ref ⟨['y', '-', 'p'], 1⟩),
     ((p, y), .ref ⟨['y', '-', 'p'], 1⟩), ((p, x), .ref ⟨['x', '-', 'p'], 1⟩)]
    [(['x', '-', 'p'], 1), (['y', '-', 'p'], 1)] = true := by decide

end MV.Props.C13
