import MV.Lemmas.Mailbox
/-!
# C02 — each message is handled exactly once in sender order, or becomes a dead letter
## Part 1: the mailbox (no duplication, no loss, order, no stranded message)

Same model and quantifier as C01: every schedule of any number of senders, suspenders, resumers
and dispatcher-started runners.  The dead-letter routing of terminated / unknown receivers is the
Layer-2 part (see `MV.Props.C02Sys`).
-/
namespace MV.Props.C02
open MV.Model.Conc MV.Model.Mailbox MV.Spec.Mailbox

/-- every pushed message is — in push order — handed to the handler, or held by the unique runner,
or still queued: nothing is invented, duplicated, reordered or dropped -/
theorem C02_conservation (sched : List (Ev PC)) :
    let s := exec sys init sched
    s.g.pushedSys = entered true s.g.trace ++ heldList true s.g.held ++ s.g.sysQ ∧
    s.g.pushedUsr = entered false s.g.trace ++ heldList false s.g.held ++ s.g.userQ :=
  ⟨(all_reachable sched).2.2.2.2.1, (all_reachable sched).2.2.2.2.2.1⟩

/-- what the handler has seen is a prefix of what was pushed, per queue (exactly-once + FIFO;
one sender's messages are pushed in its program order, so per-sender order follows) -/
theorem C02_fifo_prefix (sched : List (Ev PC)) :
    let s := exec sys init sched
    fifoPrefix s.g.pushedSys s.g.pushedUsr s.g.trace = true := by
  obtain ⟨h1, h2⟩ := C02_conservation sched
  generalize exec sys init sched = s at *
  simp only [fifoPrefix, Bool.and_eq_true, List.isPrefixOf_iff_prefix]
  rw [List.append_assoc] at h1 h2
  exact ⟨⟨_, h1.symm⟩, ⟨_, h2.symm⟩⟩

/-- no message is handled twice when the pushed messages are distinct -/
theorem C02_no_duplicate (sched : List (Ev PC)) :
    let s := exec sys init sched
    s.g.pushedSys.Nodup → s.g.pushedUsr.Nodup →
      (entered true s.g.trace).Nodup ∧ (entered false s.g.trace).Nodup := by
  obtain ⟨h1, h2⟩ := C02_conservation sched
  generalize exec sys init sched = s at *
  intro _ hs hu
  rw [h1, List.append_assoc] at hs; rw [h2, List.append_assoc] at hu
  exact ⟨(List.nodup_append.mp hs).1, (List.nodup_append.mp hu).1⟩

/-- **no lost wake-up / no stranded message**: pending work implies a live runner or a thread that is
about to start one (in every reachable state) -/
theorem C02_pending_has_waker (sched : List (Ev PC)) :
    let s := exec sys init sched
    (s.g.sysQ ≠ [] → s.ths.countP sysWaker + runFlag s.g > 0) ∧
    (s.g.userQ ≠ [] → s.g.susp = false → s.ths.countP usrWaker + runFlag s.g > 0) :=
  (all_reachable sched).2.2.1

/-- in a quiescent state (every thread has finished) every system message has been handled, and so
has every user message unless the mailbox is suspended -/
theorem C02_quiescent_drained (sched : List (Ev PC))
    (hq : ∀ pc ∈ (exec sys init sched).ths, pc = .done) :
    let s := exec sys init sched
    drained s.g.susp s.g.pushedSys s.g.pushedUsr s.g.trace = true := by
  obtain ⟨hg, _, ⟨hw1, hw2⟩, _, hS, hU, hH, _⟩ := all_reachable sched
  generalize exec sys init sched = s at *
  have z : ∀ p : PC → Bool, p .done = false → s.ths.countP p = 0 := by
    intro p hp; rw [List.countP_eq_zero]; intro pc hpc; rw [hq pc hpc, hp]; simp
  have zo := z owns rfl
  have zs := z sysWaker rfl
  have zu := z usrWaker rfl
  have zh := z holder rfl
  unfold GateInv at hg
  have hr : runFlag s.g = 0 := by omega
  have hheld : s.g.held = none := by
    cases hh : s.g.held with
    | none => rfl
    | some v => rw [hh] at hH; simp at hH; omega
  have hsq : s.g.sysQ = [] := by
    by_cases h : s.g.sysQ = []
    · exact h
    · have := hw1 h; omega
  have huq : s.g.susp = false → s.g.userQ = [] := by
    intro hs
    by_cases h : s.g.userQ = []
    · exact h
    · have := hw2 h hs; omega
  simp only [drained, Bool.and_eq_true, Bool.or_eq_true, beq_iff_eq]
  rw [hheld, hsq] at hS; rw [hheld] at hU
  refine ⟨by simpa [heldList] using hS.symm, ?_⟩
  cases hsu : s.g.susp with
  | true => left; rfl
  | false => right; rw [huq hsu] at hU; simpa [heldList] using hU.symm

/-- sending never blocks: every step of a sender (push, counter increment, the CAS) is enabled in
every state, and so are `Suspend` and `Resume` -/
theorem C02_send_never_blocks (g : G) (m : Msg) :
    (trans g (.uPush m)).isSome ∧ (trans g .uInc).isSome ∧ (trans g (.sPush m)).isSome ∧
    (trans g .sInc).isSome ∧ (trans g .cas).isSome ∧ (trans g .susp).isSome ∧ (trans g .res).isSome := by
  refine ⟨rfl, rfl, rfl, rfl, ?_, rfl, rfl⟩
  simp only [MV.Model.Mailbox.trans]; split <;> rfl

/-- non-vacuity of the quiescence theorem: a complete run with a suspended mailbox leaves exactly the
user message queued, and the system message handled -/
example :
    let s := exec sys init [.spawn .susp, .run 0, .spawn (.uPush ⟨1, false⟩), .spawn (.sPush ⟨2, false⟩),
      .run 1, .run 1, .run 1, .run 2, .run 2, .run 2, .run 3, .run 3, .run 3, .run 3, .run 3, .run 3,
      .run 3, .run 3, .run 3, .run 3]
    (∀ pc ∈ s.ths, pc = .done) ∧ s.g.susp = true ∧ s.g.userQ = [⟨1, false⟩] ∧
      entered true s.g.trace = [⟨2, false⟩] := by
  decide

end MV.Props.C02
