import MV.Spec.ECS
namespace MV.Props.C14
open MV.Model.ECS
/-- placeholder while the machinery is being built (replaced by the real theorems) -/
theorem C14_placeholder : (run St.new []) = [] := rfl
end MV.Props.C14
