import MV.Lemmas.ECSStep
import MV.Lemmas.ECSHist
import MV.Lemmas.ECSSpec
import MV.Lemmas.ECSWords
/-!
# C14 — ECS entities are generation-safe; queries return exactly the living matches

Model: `MV.Model.ECS` (slot table with intrusive free list and generations, archetype table with the
`mutation` walk, edges and cache, per-archetype member lists, column storage rows, filters, `world.Get`,
`Result.Get`), executed by the oracle against the real `ecs.World` on every run.
Spec: `MV.Spec.ECS` (per entity *name*: living flag, component ids, component values).

All theorems quantify over **every history** `ops : List Op` (component registration, single and bulk
spawn, annihilation — also of stale, dead and duplicated handles —, re-spawn, reads and writes through
`world.Get` and `Result.Get`, queries with arbitrary `And/Or/In/NotIn/Equal` filters, iteration),
starting from `NewWorld()`.  Generations are unbounded naturals (no `uint32` wrap).
-/
namespace MV.Props.C14
open MV.Model.ECS MV.Lemmas.ECS MV.Lemmas.ECSList MV.Lemmas.ECSSlots

/-- the representation invariant holds after every history -/
theorem C14_represents (ops : List Op) :
    R (exec St.new ops) (MV.Spec.ECS.exec MV.Spec.ECS.St.new ops) := by
  suffices ∀ (s : St) (t : MV.Spec.ECS.St), R s t → R (exec s ops) (MV.Spec.ECS.exec t ops) from
    this _ _ new_R
  induction ops with
  | nil => intro s t r; exact r
  | cons op ops ih => intro s t r; exact ih _ _ (step_refines s t r op).1

/-- **Refinement, all histories**: every answer of the ECS model is the answer of the abstract
entity/component specification (numeric handles and the reserved zero entity erased). -/
theorem C14_refines (ops : List Op) :
    MV.Spec.ECS.eraseAll ops (run St.new ops) = MV.Spec.ECS.run MV.Spec.ECS.St.new ops := by
  suffices ∀ (s : St) (t : MV.Spec.ECS.St), R s t →
      MV.Spec.ECS.eraseAll ops (run s ops) = MV.Spec.ECS.run t ops from this _ _ new_R
  induction ops with
  | nil => intro s t _; rfl
  | cons op ops ih =>
    intro s t r
    obtain ⟨r1, o1⟩ := step_refines s t r op
    simp only [run, MV.Spec.ECS.run, MV.Spec.ECS.eraseAll]
    rw [o1, ih _ _ r1]

/-- **Handles are never reused**: all handles ever returned by `Spawn`/`Spawns` in a history are
pairwise distinct — in particular the handles of simultaneously living entities, and a re-used slot
never reproduces the handle of the dead entity that owned it before. -/
theorem C14_handles_distinct (ops : List Op) : (exec St.new ops).hs.Nodup :=
  (C14_represents ops).slots.nodup

theorem C14_handles_distinct' (ops : List Op) (i j : Nat) (hi : i < (exec St.new ops).hs.length)
    (hj : j < (exec St.new ops).hs.length) (hij : i ≠ j) :
    (exec St.new ops).h i ≠ (exec St.new ops).h j := by
  intro e
  exact hij (nth_inj z _ (C14_handles_distinct ops) i j hi hj e)

/-- **`Alive` is the spec's living flag**: an entity is reported alive exactly while the
specification says it lives … -/
theorem C14_alive_iff (ops : List Op) (i : Nat) (hi : i < (exec St.new ops).hs.length) :
    (exec St.new ops).w.alive ((exec St.new ops).h i) =
      (MV.Spec.ECS.exec MV.Spec.ECS.St.new ops).isLiving i :=
  alive_eq _ _ _ (C14_represents ops).slots i hi

/-- … which is: living right after its spawn … -/
theorem C14_spawn_living (t : MV.Spec.ECS.St) (ids : List Nat) (h : validIds t.ncomp ids = true) :
    (MV.Spec.ECS.step t (.spawn ids)).1.n = t.n + 1 ∧
      (MV.Spec.ECS.step t (.spawn ids)).1.isLiving t.n = true :=
  MV.Lemmas.ECSSpec.spawn_living t ids h

/-- … and afterwards living iff it was living and the operation did not annihilate it. -/
theorem C14_living_step (t : MV.Spec.ECS.St) (op : Op) (i : Nat) (hi : i < t.n) :
    (MV.Spec.ECS.step t op).1.isLiving i =
      (t.isLiving i && !(MV.Lemmas.ECSSpec.kills op i && (MV.Spec.ECS.step t op).2 != .badOp)) :=
  MV.Lemmas.ECSSpec.step_living t op i hi

/-- **Never alive again**: once a handle is reported dead it is reported dead after every
continuation of the history — also after its slot has been reused by new entities. -/
theorem C14_never_alive_again (ops ops' : List Op) (i : Nat) (hi : i < (exec St.new ops).hs.length)
    (hd : (exec St.new ops).w.alive ((exec St.new ops).h i) = false) :
    (exec St.new (ops ++ ops')).w.alive ((exec St.new ops).h i) = false := by
  rw [C14_alive_iff ops i hi] at hd
  have hn := (C14_represents ops).n_eq
  obtain ⟨hi2, hd2⟩ := MV.Lemmas.ECSSpec.exec_dead ops' _ i (by rw [hn]; exact hi) hd
  rw [← spec_exec_append] at hi2 hd2
  have hn' := (C14_represents (ops ++ ops')).n_eq
  rw [hn'] at hi2
  have := C14_alive_iff (ops ++ ops') i hi2
  rw [hd2] at this
  -- the handle of name `i` is the same in the longer history
  have hsame : (exec St.new (ops ++ ops')).h i = (exec St.new ops).h i := by
    obtain ⟨l, hl⟩ := exec_hs_prefix ops' (exec St.new ops)
    rw [exec_append]
    show nth z (exec (exec St.new ops) ops').hs i = nth z (exec St.new ops).hs i
    rw [hl, nth_append_left z _ _ i hi]
  rw [← hsame]; exact this

/-- **The handle judge accepts the model**: in every history, the handles an operation hands out are
`fresh` — pairwise distinct and different from every handle handed out before (this is the `Bool`
predicate the suite `ecs-judge` evaluates on the handles the *implementation* returns). -/
theorem C14_spawn_fresh (ops : List Op) (op : Op) :
    ∃ l, (step (exec St.new ops) op).1.hs = (exec St.new ops).hs ++ l ∧
      MV.Spec.ECS.fresh (exec St.new ops).hs l = true := by
  obtain ⟨l, hl⟩ := step_hs_prefix (exec St.new ops) op
  refine ⟨l, hl, fresh_of_nodup _ l ?_⟩
  rw [← hl]
  have := C14_handles_distinct (ops ++ [op])
  rw [exec_append] at this
  exact this

/-- **Queries are exact** (every filter built from `And/Or/In/NotIn/Equal`): a handed-out handle is
returned once if its entity is living and its component set satisfies the filter, and not at all
otherwise … -/
theorem C14_query_exact (ops : List Op) (f : Filter) (i : Nat) (hi : i < (exec St.new ops).hs.length) :
    ((exec St.new ops).w.query f).count ((exec St.new ops).h i) =
      if (MV.Spec.ECS.exec MV.Spec.ECS.St.new ops).isLiving i &&
          MV.Spec.ECS.sat ((MV.Spec.ECS.exec MV.Spec.ECS.St.new ops).compsOf i) f then 1 else 0 := by
  have r := C14_represents ops
  rw [h_eq, query_count _ _ r f]
  have hmatches : (MV.Spec.ECS.exec MV.Spec.ECS.St.new ops).matches f =
      (List.range (exec St.new ops).hs.length).filter (fun i =>
        (MV.Spec.ECS.exec MV.Spec.ECS.St.new ops).isLiving i &&
          MV.Spec.ECS.sat ((MV.Spec.ECS.exec MV.Spec.ECS.St.new ops).compsOf i) f) := by
    unfold MV.Spec.ECS.St.matches; rw [r.n_eq]
  rw [hmatches, count_map_filter_range _ r.slots.nodup _ i hi]

/-- … and nothing else is ever returned: every entity in a query result is a handed-out handle. -/
theorem C14_query_sound (ops : List Op) (f : Filter) (e : Entity)
    (he : e ∈ (exec St.new ops).w.query f) : e ∈ (exec St.new ops).hs := by
  have r := C14_represents ops
  have := (query_perm _ _ r f).mem_iff.mp he
  obtain ⟨i, hi, hie⟩ := List.mem_map.mp this
  unfold MV.Spec.ECS.St.matches at hi
  rw [List.mem_filter, List.mem_range, r.n_eq] at hi
  rw [← hie]; exact nth_mem z _ i hi.1

/-- `Result.Count()` is the number of living matches -/
theorem C14_query_count (ops : List Op) (f : Filter) :
    (exec St.new ops).w.queryCount f = ((MV.Spec.ECS.exec MV.Spec.ECS.St.new ops).matches f).length :=
  queryCount_eq _ _ (C14_represents ops) f

/-- **Write/read**: a value written through the pointer `world.Get` returned is what the next read of
that entity's component returns … -/
theorem C14_write_read (ops : List Op) (h c : Nat) (v : Int)
    (hok : (step (exec St.new ops) (.write h c v)).2 = .ok) :
    (step (step (exec St.new ops) (.write h c v)).1 (.read h c)).2 = .val v := by
  have r := C14_represents ops
  obtain ⟨r1, o1⟩ := step_refines _ _ r (.write h c v)
  obtain ⟨_, o2⟩ := step_refines _ _ r1 (.read h c)
  simp only [MV.Spec.ECS.erase] at o1 o2
  rw [o2]; rw [hok] at o1
  generalize MV.Spec.ECS.exec MV.Spec.ECS.St.new ops = t at *
  simp only [MV.Spec.ECS.step] at o1 ⊢
  by_cases hh : h < t.n
  · simp only [hh, if_true] at o1 ⊢
    by_cases hc : (t.isLiving h && MV.Spec.ECS.has (t.compsOf h) c) = true
    · simp only [hc, if_true]
      have h1 : (t.setData h c v).n = t.n := rfl
      have h2 : (t.setData h c v).isLiving h = t.isLiving h := rfl
      have h3 : (t.setData h c v).compsOf h = t.compsOf h := rfl
      simp only [h1, hh, if_true, h2, h3, hc]
      simp [MV.Spec.ECS.St.setData]
    · simp [hc] at o1
  · simp [hh] at o1

/-- … and **data is isolated**: the write changes no other `(entity, component)` cell. -/
theorem C14_data_isolated (ops : List Op) (h c h' c' : Nat) (v : Int) (hne : ¬ (h' = h ∧ c' = c)) :
    (step (step (exec St.new ops) (.write h c v)).1 (.read h' c')).2 =
      (step (exec St.new ops) (.read h' c')).2 := by
  have r := C14_represents ops
  obtain ⟨r1, _⟩ := step_refines _ _ r (.write h c v)
  obtain ⟨_, o2⟩ := step_refines _ _ r1 (.read h' c')
  obtain ⟨_, o3⟩ := step_refines _ _ r (.read h' c')
  simp only [MV.Spec.ECS.erase] at o2 o3
  rw [o2, o3]
  generalize MV.Spec.ECS.exec MV.Spec.ECS.St.new ops = t at *
  simp only [MV.Spec.ECS.step]
  by_cases hh : h < t.n
  · simp only [hh, if_true]
    by_cases hc : (t.isLiving h && MV.Spec.ECS.has (t.compsOf h) c) = true
    · simp only [hc, if_true]
      have h1 : (t.setData h c v).n = t.n := rfl
      have h2 : (t.setData h c v).isLiving h' = t.isLiving h' := rfl
      have h3 : (t.setData h c v).compsOf h' = t.compsOf h' := rfl
      have h4 : (t.setData h c v).data h' c' = t.data h' c' := by
        simp [MV.Spec.ECS.St.setData, hne]
      simp only [h1, h2, h3, h4]
      by_cases hh' : h' < t.n
      · simp only [hh', if_true]
      · simp only [hh', if_false]
    · simp only [hc, Bool.false_eq_true, if_false]
  · simp only [hh, if_false]

/-- … and **keeps what was written**: the answer to `read h c` is not changed by any operation that
neither writes `(h, c)` nor annihilates `h` — spawns and annihilations of other entities (also ones
that reuse storage rows or slots), writes to other cells, queries, registrations. -/
theorem C14_data_kept (ops : List Op) (op : Op) (h c : Nat) (hh : h < (exec St.new ops).hs.length)
    (hw : MV.Lemmas.ECSSpec.writes op h c = false) (hk : MV.Lemmas.ECSSpec.kills op h = false) :
    (step (step (exec St.new ops) op).1 (.read h c)).2 = (step (exec St.new ops) (.read h c)).2 := by
  have r := C14_represents ops
  obtain ⟨r1, _⟩ := step_refines _ _ r op
  obtain ⟨_, o2⟩ := step_refines _ _ r1 (.read h c)
  obtain ⟨_, o3⟩ := step_refines _ _ r (.read h c)
  simp only [MV.Spec.ECS.erase] at o2 o3
  rw [o2, o3]
  exact MV.Lemmas.ECSSpec.step_read _ op h c (by rw [r.clen, r.slots.len_eq]) (by rw [r.n_eq]; exact hh) hw hk

/-! ## the set-level masks are what the word-level `DynamicBitSet` code computes -/

/-- **Masks, word level**: every archetype mask of every reachable world is the image of a
`DynamicBitSet` built by `Set` from `NewDynamicBitSet()` (no trailing zero words), and `query.go`'s
`Evaluate`, transcribed on the `[]uint64` words of `MV.Model.BitSet` (`In`/`NotIn` masks started from
the zero value, `Equal` masks from `NewDynamicBitSet()`), gives on it exactly the answer of the
set-level `Filter.eval` the oracle executes — for every filter. -/
theorem C14_eval_words (ops : List Op) (j : Nat) (hj : j < (exec St.new ops).w.arts.length) :
    ∃ ids : List Nat,
      MV.Lemmas.ECSWords.Rep 1 (ids.foldl MV.Model.BitSet.set MV.Model.BitSet.new) ((exec St.new ops).w.art j).mask ∧
      ∀ f : Filter, MV.Lemmas.ECSWords.evalW (ids.foldl MV.Model.BitSet.set MV.Model.BitSet.new) f =
        f.eval ((exec St.new ops).w.art j).mask := by
  obtain ⟨ids, hids⟩ := (C14_represents ops).arch.built j hj
  have hrep := MV.Lemmas.ECSWords.rep_setAll 1 ids _ _ MV.Lemmas.ECSWords.rep_new
  rw [← hids] at hrep
  exact ⟨ids, hrep, MV.Lemmas.ECSWords.evalW_eq _ _ hrep⟩

/-- two archetype masks have the same word slice (hence the same `Key()` in the `masks` index) iff
they are the same component set -/
theorem C14_mask_key_faithful (ids ids' : List Nat) :
    (ids.foldl MV.Model.BitSet.set MV.Model.BitSet.new).bits = (ids'.foldl MV.Model.BitSet.set MV.Model.BitSet.new).bits ↔
      MV.Model.ECSMask.setAll [] ids = MV.Model.ECSMask.setAll [] ids' :=
  MV.Lemmas.ECSWords.bits_eq_rep 1 _ _ _ _
    (MV.Lemmas.ECSWords.rep_setAll 1 ids _ _ MV.Lemmas.ECSWords.rep_new)
    (MV.Lemmas.ECSWords.rep_setAll 1 ids' _ _ MV.Lemmas.ECSWords.rep_new)

/-- set-level filter evaluation on a canonical mask is satisfaction by the component set -/
theorem C14_filter_semantics (m : MV.Model.ECSMask.Mask) (comps : List Nat) (hm : MV.Lemmas.ECSMask.Sorted m)
    (hc : ∀ x, x ∈ m ↔ x ∈ comps) (f : Filter) : f.eval m = MV.Spec.ECS.sat comps f :=
  MV.Lemmas.ECSMask.eval_sat m comps hm hc f

/-! ## non-vacuity: concrete histories through every mechanism

slot reuse with a bumped generation, stale and double annihilation, multi-component archetypes reached
in different id orders, the component-less archetype, row reuse with cleared cells, filters of all
five shapes. -/

example : run St.new [.reg, .reg, .spawn [1, 2], .spawn [2, 1], .write 0 2 7, .kill 0, .kill 0, .spawn [1],
      .alive 0, .alive 2, .read 1 2, .read 0 2, .spawn [], .query (.eq []), .query (.isIn [1]),
      .query (.or [.eq [], .and [.isIn [2], .notIn [7]]]), .qiter 2 (.isIn [2])]
    = [.nat 1, .nat 2, .ent ⟨1, 0⟩, .ent ⟨2, 0⟩, .ok, .ok, .ok, .ent ⟨1, 1⟩,
       .bool false, .bool true, .val 0, .nil, .ent ⟨3, 0⟩, .qres 1 [3], .qres 2 [1, 2],
       .qres 2 [1, 3], .iter [(1, some 0)]] := by decide

example : MV.Spec.ECS.run MV.Spec.ECS.St.new [.reg, .spawn [1], .write 0 1 5, .kill 0, .spawn [1], .read 1 1,
      .read 0 1, .query (.isIn [1])]
    = [.nat 1, .any, .ok, .ok, .any, .val 0, .nil, .qres 1 [1]] := by decide

end MV.Props.C14
