import MV.Lemmas.RingUnbounded
/-!
# C15 — `buffer.RingUnbounded` (toolkit/buffer/ring_unbounded.go): the pump is lossless

Interleaving model `MV.Model.RingUnbounded` at the level of the mutex / reader-writer lock / condition
variable / channel operations, for **every** number of client threads, **every** finite program of
`Write`/`Close` calls per thread, **every** channel capacity and **every** schedule.
-/
namespace MV.Props.C15
open MV.Model.RingUnbounded

/-- **The pump is lossless**, for every schedule:
1. what the reader received, followed by what sits in the output channel, by what the pump has read
   from the ring and not sent yet, and by the ring content is exactly the sequence of values written
   into the ring, in that order — nothing lost, duplicated, reordered or invented;
2. the output channel is closed only after `Close`, with the ring empty and nothing in the pump's
   hands: everything accepted has then been received or is still readable from the closed channel,
   and the pump has left its loop (it never sends on the closed channel). -/
theorem C15_pump_lossless (cap : Nat) (progs : List (List Op)) (sched : List Act) :
    let s := run (init cap progs) sched
    s.g.out ++ s.g.chan ++ vsOf s.pump ++ s.g.ring = s.g.accepted ∧
    (s.g.chanClosed = true →
      s.g.closed = true ∧ s.g.out ++ s.g.chan = s.g.accepted ∧ (s.pump = .pRUnlockX ∨ s.pump = .pDone)) := by
  intro s
  have hI : PInv s := run_inv _ sched (init_inv cap progs)
  refine ⟨hI.a6, fun hc => ?_⟩
  obtain ⟨h1, h2, h3⟩ := hI.a7 hc
  refine ⟨h1, ?_, h3⟩
  have h6 := hI.a6
  rw [h2] at h6
  rcases h3 with h3 | h3 <;> rw [h3] at h6 <;> simpa [vsOf] using h6

/-- the locks exclude: at most one holder of `rrm` (so the ring operations, which the model makes
atomic, never overlap in the real code), and a holder of the write side of `closedMutex` excludes
all readers. -/
theorem C15_pump_mutex (cap : Nat) (progs : List (List Op)) (sched : List Act) :
    let s := run (init cap progs) sched
    s.ths.countP holdsM + mP s.pump ≤ 1 ∧ s.ths.countP holdsW ≤ 1 ∧
      (s.ths.countP holdsW = 1 → s.ths.countP holdsR + rP s.pump = 0) := by
  intro s
  have hI : PInv s := run_inv _ sched (init_inv cap progs)
  have h1 := toNat_le_one s.g.rrm
  have h2 := toNat_le_one s.g.writer
  refine ⟨by rw [← hI.a3]; exact h1, by rw [← hI.a2]; exact h2, fun hw => ?_⟩
  have : s.g.writer = true := by
    cases hwr : s.g.writer with
    | true => rfl
    | false => have := hI.a2; simp [hwr] at this; omega
  rw [← hI.a1]; exact hI.a4 this

/-- after `Close` took effect nothing is accepted any more: no step changes `accepted` once `closed`
is set (a `Write` that passed its `closed` check holds the read lock, which `Close` waits for). -/
theorem C15_pump_closed_accepts_nothing (cap : Nat) (progs : List (List Op)) (sched : List Act) (a : Act)
    (s' : St) :
    let s := run (init cap progs) sched
    s.g.closed = true → step s a = some s' → s'.g.accepted = s.g.accepted ∧ s'.g.closed = true := by
  intro s hc hs
  have hI : PInv s := run_inv _ sched (init_inv cap progs)
  cases a with
  | recv =>
    simp only [step, Option.map_eq_some_iff] at hs
    obtain ⟨g', hg, rfl⟩ := hs
    unfold recv at hg
    split at hg
    · cases hg
    · cases hg; exact ⟨rfl, hc⟩
  | pump =>
    simp only [step, Option.map_eq_some_iff] at hs
    obtain ⟨⟨g', p'⟩, hg, rfl⟩ := hs
    cases hp : s.pump <;> rw [hp] at hg <;> simp only [ptrans] at hg
    case pSend vs =>
      cases vs with
      | nil => simp only at hg; cases hg; exact ⟨rfl, hc⟩
      | cons v rest =>
        simp only at hg
        split at hg
        · cases hg; exact ⟨rfl, hc⟩
        · cases hg
    all_goals
      (try split at hg)
      all_goals (first | (cases hg; exact ⟨rfl, hc⟩) | cases hg)
  | client i =>
    simp only [step] at hs
    cases hth : s.ths[i]? with
    | none => simp [hth] at hs
    | some th =>
      simp only [hth] at hs
      cases htr : trans s.g th with
      | none => simp [htr] at hs
      | some r =>
        obtain ⟨g', th'⟩ := r
        simp only [htr, Option.some.injEq] at hs
        subst hs
        obtain ⟨pc, todo⟩ := th
        cases pc <;> simp only [MV.Model.RingUnbounded.trans] at htr
        case wWrite v =>
          exfalso
          have h0 := hI.a5 hc
          have h1 := countP_pos_of s.ths i _ pastCheck hth (by simp [pastCheck])
          omega
        case cCheck =>
          split at htr <;> cases htr <;> first | exact ⟨rfl, hc⟩ | exact ⟨rfl, rfl⟩
        all_goals
          (try split at htr)
          all_goals (first | (cases htr; exact ⟨rfl, hc⟩) | cases htr)

/- non-vacuity: the interleaving that lost the element before the `fix:` commit — the pump goes to
sleep on the empty ring, one client writes 1 and closes, the pump wakes up — now delivers it and
then closes the output. -/
set_option maxRecDepth 16384 in
example :
    let s := run (init 0 [[.write 1, .close]])
      ([.pump, .pump, .pump, .pump, .pump] ++ List.replicate 12 (.client 0) ++ List.replicate 16 .pump ++ [.recv]
        ++ List.replicate 12 .pump)
    s.g.out = [1] ∧ s.g.accepted = [1] ∧ s.g.chanClosed = true ∧ s.pump = .pDone := by
  decide

end MV.Props.C15
