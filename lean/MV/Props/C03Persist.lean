import MV.Props.C09
/-!
# C03 for persistent actors: OnLaunch is handled before the stored history is replayed

`recoveryPersistence` replays the stored snapshot and events through the actor's handler.  Those turns
belong to the incarnation's lifecycle too, so "the first message handled is OnLaunch" requires the replay
to come after the `OnLaunch` turn.  The persistence model (`MV.Model.Persistence`, tied to the code by suite
`persist`) transcribes exactly that order; the canonical actor of C09 resets its state in `OnLaunch`, so
the order is observable: with the replay first, every launch would end in the initial state.
-/
namespace MV.Props.C03
open MV.Model.Persistence

variable {σ ε : Type} [DecidableEq σ] [DecidableEq ε]

/-- the `OnLaunch` system message is one handler turn with `Message() = OnLaunch` (sender: the parent),
followed by the replay; nothing is replayed before it -/
theorem C03_launch_before_replay (v : Variant) (F : Fold σ ε) (s : Sys σ ε) :
    launch v F s = recovery v F (processUser v F s .parent .launch) ∧
    (processUser v F s .parent .launch).ctx.actor.st = F.init ∧
    (processUser v F s .parent .launch).launches = s.launches + 1 ∧
    (processUser v F s .parent .launch).store = s.store := by
  refine ⟨rfl, ?_, ?_, ?_⟩ <;> simp [processUser, setSt, setMsg]

/-- non-vacuity: a launch of a re-created actor over a stored record of two events -/
example : (launch Variant.code (listFold Nat)
      (Sys.init (listFold Nat) 0 3 (fun _ => some ⟨none, [1, 2]⟩))).ctx.actor.st = [1, 2] := by decide

end MV.Props.C03
