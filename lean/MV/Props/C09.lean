import MV.Lemmas.Persistence
/-!
# C09 — a persistent actor recovers exactly the state it had when it last persisted

Statements about `MV.Model.Persistence` with `Variant.code` (the transcription of
`engine/vivid/persistence/{state,memory_storage}.go` and of the persistence protocol of
`engine/vivid/actor_context.go` as they are, i.e. after the three `fix:` commits of this property),
for the canonical event-sourced actor over an **arbitrary** fold `F` (state type, event type, `init`,
`apply`), **every** snapshot threshold (0 included), **every** persistence name and **arbitrary**
histories of `ev | evq | fail (supervised restart) | recreate (stop, then create again under the same
persistence name) | persist | snap (explicit SaveSnapshot) | clear | observations`.

* `C09_message_unchanged` — `StateChanged` leaves `ctx.message` and `ctx.sender` as they were (in any
  state: below / at the threshold, replaying or not); `C09_reply_reaches_asker`: the harness actor's
  `Message()`/`Sender()` comparison after `StateChanged` is positive and its `Reply` uses the asker.
* `C09_replay_silent` — a recovery changes neither the storage nor the list of `Save` calls, and the
  journal afterwards is exactly the loaded record (nothing is recorded again);
  `C09_replay_records_nothing`: while replaying, `StateChanged` leaves the journal alone, in both variants.
* `C09_invariant_boot`, `C09_invariant_step`, `C09_invariant_run` — the invariant `Inv`
  (`replay journal = current state`, `replay stored = state at the last persist`, an empty journal only
  over a storage that replays to the initial state) holds after the first launch over any storage
  content and is preserved by every step.
* `C09_recover_eq` — after a restart or a stop / re-create the rebuilt state **equals** the state the
  actor had when it last persisted, which is the state it had immediately before; the storage then
  replays to that state. `C09_recover_eq_run`: the failure or stop placed after any prefix of any
  history. `C09_stored_is_last_persist`: at every reachable state.
* `C09_refines_spec` — on every history the model answers exactly like `MV.Spec.Persistence`
  (state = fold of all events ever recorded; `replay` = state at the last persist; message and
  sender unchanged), modulo the observations the specification leaves open (`mask`).
* `C09_history_fold` / `C09_no_loss_dup_reorder` — the state after any history is the fold of the
  history's events, in order; for the free fold (state = list of events) it *is* that list: nothing
  lost, duplicated or re-ordered across generations.
* `C09_persist_stores_journal` — a persist hands exactly the journal to the storage (one `Save`), or
  nothing when the journal is empty.
* `C09_names_isolated` — no step touches the record of another persistence name.

The transcription of the code before the repairs (`Variant.original`) violates `C09_recover_eq` and
`C09_message_unchanged`; witnesses in `MV.Findings.C09`.
-/
namespace MV.Props.C09
open MV.Model.Persistence MV.Lemmas.Persistence
open MV.Spec.Persistence (S mask eventsOf)

variable {σ ε : Type}

/-- `StateChanged` leaves the current message and sender alone — any state, any threshold -/
theorem C09_message_unchanged (s : Sys σ ε) (e : ε) :
    (stateChanged Variant.code s e).1.ctx.message = s.ctx.message ∧
    (stateChanged Variant.code s e).1.ctx.sender = s.ctx.sender :=
  stateChanged_message s e

/-- while replaying, `StateChanged` records nothing and returns the journal's length (both variants) -/
theorem C09_replay_records_nothing (v : Variant) (s : Sys σ ε) (e : ε) (h : s.ctx.recovering = true) :
    (stateChanged v s e).1.ctx.ps = s.ctx.ps ∧ (stateChanged v s e).1.store = s.store ∧
    (stateChanged v s e).1.saveLog = s.saveLog ∧ (stateChanged v s e).2 = s.ctx.ps.events.length := by
  rw [stateChanged_recovering v s e h]
  exact ⟨by simp [initP, setP, Ctx.ps], rfl, rfl, rfl⟩

section
variable [DecidableEq σ] [DecidableEq ε]

/-- the `ev` command of the harness actor: `Message()`/`Sender()` compared equal right after
    `StateChanged`, and `Reply` went to the asker -/
theorem C09_reply_reaches_asker (F : Fold σ ε) (s : Sys σ ε) (e : ε) :
    (step Variant.code F s (.ev e)).2 = .evOut (step Variant.code F s (.ev e)).1.ctx.actor.st true true := by
  obtain ⟨h1, h2⟩ := ev_flags F s .asker e
  simp only [MV.Model.Persistence.step, h1, h2]

/-- a recovery is silent: storage and `Save` log untouched, the journal is exactly what was loaded
    (the old journal when nothing is stored) -/
theorem C09_replay_silent (F : Fold σ ε) (s : Sys σ ε) :
    (recovery Variant.code F s).store = s.store ∧ (recovery Variant.code F s).saveLog = s.saveLog ∧
    (recovery Variant.code F s).lastPersist = s.lastPersist ∧
    (recovery Variant.code F s).ctx.pstate = some ((s.store s.ctx.name).getD s.ctx.ps) ∧
    (recovery Variant.code F s).ctx.recovering = false := by
  have h := core_recovery F s
  have e1 := congrArg Core.store h
  have e2 := congrArg Core.saveLog h
  have e3 := congrArg Core.lastPersist h
  have e4 := congrArg Core.pstate h
  have e5 := congrArg Core.recovering h
  simp only [Core.recover] at e1 e2 e3 e4 e5
  cases hr : (core s).store (core s).name with
  | none =>
    have hr' : s.store s.ctx.name = none := hr
    simp only [hr] at e1 e2 e3 e4 e5
    exact ⟨e1, e2, e3, by rw [hr']; exact e4, e5⟩
  | some r =>
    have hr' : s.store s.ctx.name = some r := hr
    simp only [hr] at e1 e2 e3 e4 e5
    exact ⟨e1, e2, e3, by rw [hr']; exact e4, e5⟩

/-- the invariant on system states -/
def Good (F : Fold σ ε) (s : Sys σ ε) : Prop := Inv F (core s)

/-- the specification's view of a system state -/
def abs (F : Fold σ ε) (s : Sys σ ε) : S σ :=
  ⟨s.ctx.actor.st, replayOpt F (s.store s.ctx.name), s.launches⟩

/-- after the first launch, over any storage content -/
theorem C09_invariant_boot (F : Fold σ ε) (name : Name) (thr : Nat) (st : Store σ ε) :
    Good F (boot Variant.code F name thr st) ∧
    (boot Variant.code F name thr st).ctx.actor.st = replayOpt F (st name) ∧
    (boot Variant.code F name thr st).launches = 1 ∧ (boot Variant.code F name thr st).store = st ∧
    (boot Variant.code F name thr st).ctx.name = name := by
  unfold Good boot
  have h := inv_launch F (core (Sys.init F name thr st)) (replayOpt F (st name)) rfl
    (by show ((st name).map (Rec.replay F)).getD F.init = replayOpt F (st name)
        cases st name <;> rfl)
    (fun _ => rfl)
  rw [← core_launch] at h
  exact ⟨h.1, h.2.1, h.2.2.1, h.2.2.2.1, h.2.2.2.2.1⟩

/-- one step: the invariant is kept and the specification answers the same -/
theorem C09_step (F : Fold σ ε) (s : Sys σ ε) (op : Op ε) (h : Good F s) :
    Good F (step Variant.code F s op).1 ∧
    MV.Spec.Persistence.step F (abs F s) op =
      (abs F (step Variant.code F s op).1, mask op (step Variant.code F s op).2) ∧
    (step Variant.code F s op).1.ctx.name = s.ctx.name ∧
    (∀ m, m ≠ s.ctx.name → (step Variant.code F s op).1.store m = s.store m) := by
  have hlive : s.ctx.recovering = false := h.live
  -- an observation: a `get` round trip, nothing changes
  have obs : ∀ s' : Sys σ ε, s' = processUser Variant.code F s .asker (.cmd .get) →
      Good F s' ∧ abs F s' = abs F s ∧ s'.ctx.name = s.ctx.name ∧ s'.store = s.store := by
    intro s' hs'
    have hc : core s' = core s := by rw [hs']; exact core_cmd_get _ _ _ _
    refine ⟨by unfold Good; rw [hc]; exact h, ?_, congrArg Core.name hc, congrArg Core.store hc⟩
    have h1 := congrArg Core.st hc
    have h2 := congrArg Core.store hc
    have h3 := congrArg Core.name hc
    have h4 := congrArg Core.launches hc
    simp only [core] at h1 h2 h3 h4
    simp only [abs, h1, h2, h3, h4]
  cases op with
  | ev e =>
    have hc := core_cmd_ev F s .asker e hlive
    have hg : Good F (step Variant.code F s (.ev e)).1 := by
      show Inv F (core (processUser Variant.code F s .asker (.cmd (.ev e))))
      rw [hc]; exact inv_ev F (core s) e h
    refine ⟨hg, ?_, congrArg Core.name hc, fun m _ => congrFun (congrArg Core.store hc) m⟩
    rw [C09_reply_reaches_asker]
    have h1 := congrArg Core.st hc
    have h2 := congrArg Core.store hc
    have h3 := congrArg Core.name hc
    have h4 := congrArg Core.launches hc
    simp only [core] at h1 h2 h3 h4
    have hs1 : (step Variant.code F s (.ev e)).1 = processUser Variant.code F s .asker (.cmd (.ev e)) := rfl
    simp only [MV.Spec.Persistence.step, mask, abs, hs1, h1, h2, h3, h4]
  | evq e =>
    have hc := core_cmd_evq F s .nobody e hlive
    have hg : Good F (step Variant.code F s (.evq e)).1 := by
      show Inv F (core (processUser Variant.code F s .nobody (.cmd (.evq e))))
      rw [hc]; exact inv_ev F (core s) e h
    refine ⟨hg, ?_, congrArg Core.name hc, fun m _ => congrFun (congrArg Core.store hc) m⟩
    have h1 := congrArg Core.st hc
    have h2 := congrArg Core.store hc
    have h3 := congrArg Core.name hc
    have h4 := congrArg Core.launches hc
    simp only [core] at h1 h2 h3 h4
    have hs1 : (step Variant.code F s (.evq e)).1 = processUser Variant.code F s .nobody (.cmd (.evq e)) := rfl
    simp only [MV.Spec.Persistence.step, mask, abs, hs1, h1, h2, h3, h4]
    rfl
  | fail =>
    have hs1 : (step Variant.code F s .fail).1 =
        restart Variant.code F (processUser Variant.code F s .nobody (.cmd .fail)) := rfl
    have hc : core (step Variant.code F s .fail).1 =
        ({ (core s).persist with st := F.init } : Core σ ε).launch F := by
      rw [hs1, core_restart, core_cmd_fail]
    obtain ⟨hpi, hpr, hpl, _, hpn, hpname, hpp, _⟩ := inv_persist F (core s) h
    have hl := inv_launch F ({ (core s).persist with st := F.init } : Core σ ε) (core s).st
      (by show replayOpt F ((core s).persist.store (core s).persist.name) = (core s).st
          rw [hpname]; exact hpr)
      (by show (core s).persist.lastPersist.getD F.init = (core s).st; rw [hpl]; rfl)
      (by intro hn
          show (Core.ps ({ (core s).persist with st := F.init } : Core σ ε)).replay F = F.init
          have hn' : (core s).persist.store (core s).name = none := by rw [← hpname]; exact hn
          have : (core s).st = F.init := by rw [← hpr, hn']; rfl
          have hj := h.journal
          simp only [Core.ps, hpp] at hj ⊢
          rw [hj, this])
    rw [← hc] at hl
    obtain ⟨hi, hst, hln, hsto, hname, _, _, _⟩ := hl
    refine ⟨hi, ?_, ?_, ?_⟩
    · have h1 : (step Variant.code F s .fail).1.ctx.actor.st = s.ctx.actor.st := hst
      have h2 : (step Variant.code F s .fail).1.launches = s.launches + 1 := by
        have : (step Variant.code F s .fail).1.launches = (core s).persist.launches + 1 := hln
        rw [this, hpn]; rfl
      have h3 : (step Variant.code F s .fail).1.store = (core s).persist.store := hsto
      have h4 : (step Variant.code F s .fail).1.ctx.name = s.ctx.name := by
        have : (step Variant.code F s .fail).1.ctx.name = (core s).persist.name := hname
        rw [this, hpname]; rfl
      have h5 : replayOpt F ((step Variant.code F s .fail).1.store (step Variant.code F s .fail).1.ctx.name) =
          s.ctx.actor.st := by rw [h3, h4]; exact hpr
      have hout : (step Variant.code F s .fail).2 =
          .stateL (step Variant.code F s .fail).1.ctx.actor.st (step Variant.code F s .fail).1.launches := rfl
      simp only [MV.Spec.Persistence.step, mask, abs, hout, h1, h2, h5]
    · have : (step Variant.code F s .fail).1.ctx.name = (core s).persist.name := hname
      rw [this, hpname]; rfl
    · intro m hm
      have h3 : (step Variant.code F s .fail).1.store = (core s).persist.store := hsto
      rw [h3]; exact persist_store_other (core s) m hm
  | recreate =>
    have hs1 : (step Variant.code F s .recreate).1 = recreate Variant.code F s := rfl
    have hc : core (step Variant.code F s .recreate).1 =
        ({ (core s).persist with pstate := none, recovering := false, st := F.init } : Core σ ε).launch F := by
      rw [hs1, core_recreate]
    obtain ⟨hpi, hpr, hpl, _, hpn, hpname, hpp, _⟩ := inv_persist F (core s) h
    have hl := inv_launch F
      ({ (core s).persist with pstate := none, recovering := false, st := F.init } : Core σ ε) (core s).st
      (by show replayOpt F ((core s).persist.store (core s).persist.name) = (core s).st
          rw [hpname]; exact hpr)
      (by show (core s).persist.lastPersist.getD F.init = (core s).st; rw [hpl]; rfl)
      (by intro _; rfl)
    rw [← hc] at hl
    obtain ⟨hi, hst, hln, hsto, hname, _, _, _⟩ := hl
    refine ⟨hi, ?_, ?_, ?_⟩
    · have h1 : (step Variant.code F s .recreate).1.ctx.actor.st = s.ctx.actor.st := hst
      have h2 : (step Variant.code F s .recreate).1.launches = s.launches + 1 := by
        have : (step Variant.code F s .recreate).1.launches = (core s).persist.launches + 1 := hln
        rw [this, hpn]; rfl
      have h3 : (step Variant.code F s .recreate).1.store = (core s).persist.store := hsto
      have h4 : (step Variant.code F s .recreate).1.ctx.name = s.ctx.name := by
        have : (step Variant.code F s .recreate).1.ctx.name = (core s).persist.name := hname
        rw [this, hpname]; rfl
      have h5 : replayOpt F ((step Variant.code F s .recreate).1.store
          (step Variant.code F s .recreate).1.ctx.name) = s.ctx.actor.st := by rw [h3, h4]; exact hpr
      have hout : (step Variant.code F s .recreate).2 =
          .stateL (step Variant.code F s .recreate).1.ctx.actor.st (step Variant.code F s .recreate).1.launches := rfl
      simp only [MV.Spec.Persistence.step, mask, abs, hout, h1, h2, h5]
    · have : (step Variant.code F s .recreate).1.ctx.name = (core s).persist.name := hname
      rw [this, hpname]; rfl
    · intro m hm
      have h3 : (step Variant.code F s .recreate).1.store = (core s).persist.store := hsto
      rw [h3]; exact persist_store_other (core s) m hm
  | persist =>
    have hc : core (step Variant.code F s .persist).1 = (core s).persist :=
      core_cmd_persist Variant.code F s .asker
    obtain ⟨hpi, hpr, _, hpst, hpn, hpname, _, _⟩ := inv_persist F (core s) h
    refine ⟨by unfold Good; rw [hc]; exact hpi, ?_, by
      have := congrArg Core.name hc; simp only [core] at this; rw [this]; exact hpname, by
      intro m hm
      have := congrArg Core.store hc; simp only [core] at this; rw [this]
      exact persist_store_other (core s) m hm⟩
    have h1 : (step Variant.code F s .persist).1.ctx.actor.st = s.ctx.actor.st := by
      have := congrArg Core.st hc; simp only [core] at this; rw [this]; exact hpst
    have h2 : (step Variant.code F s .persist).1.launches = s.launches := by
      have := congrArg Core.launches hc; simp only [core] at this; rw [this]; exact hpn
    have h4 : (step Variant.code F s .persist).1.ctx.name = s.ctx.name := by
      have := congrArg Core.name hc; simp only [core] at this; rw [this]; exact hpname
    have h5 : replayOpt F ((step Variant.code F s .persist).1.store (step Variant.code F s .persist).1.ctx.name) =
        s.ctx.actor.st := by
      have := congrArg Core.store hc; simp only [core] at this; rw [this, h4]; exact hpr
    have hout : (step Variant.code F s .persist).2 = .ok := rfl
    simp only [MV.Spec.Persistence.step, mask, abs, hout, h1, h2, h5]
  | snap =>
    have hc := core_cmd_snap Variant.code F s .asker hlive
    have hg : Good F (step Variant.code F s .snap).1 := by
      show Inv F (core (processUser Variant.code F s .asker (.cmd .snap)))
      rw [hc]; exact inv_snap F (core s) h
    refine ⟨hg, ?_, congrArg Core.name hc, fun m _ => congrFun (congrArg Core.store hc) m⟩
    have h1 := congrArg Core.st hc
    have h2 := congrArg Core.store hc
    have h3 := congrArg Core.name hc
    have h4 := congrArg Core.launches hc
    simp only [core] at h1 h2 h3 h4
    have hs1 : (step Variant.code F s .snap).1 = processUser Variant.code F s .asker (.cmd .snap) := rfl
    have hout : (step Variant.code F s .snap).2 = .ok := rfl
    simp only [MV.Spec.Persistence.step, mask, abs, hout, hs1, h1, h2, h3, h4]
  | clear =>
    have hc : core (step Variant.code F s .clear).1 = (core s).clear :=
      core_cmd_clear Variant.code F s .asker
    obtain ⟨hci, hcr, hcst, hcl, hcname⟩ := inv_clear F (core s) h
    refine ⟨by unfold Good; rw [hc]; exact hci, ?_, by
      have := congrArg Core.name hc; simp only [core] at this; rw [this]; exact hcname, by
      intro m hm
      have := congrArg Core.store hc; simp only [core] at this; rw [this]
      exact clear_store_other (core s) m hm⟩
    have h1 : (step Variant.code F s .clear).1.ctx.actor.st = s.ctx.actor.st := by
      have := congrArg Core.st hc; simp only [core] at this; rw [this]; exact hcst
    have h2 : (step Variant.code F s .clear).1.launches = s.launches := by
      have := congrArg Core.launches hc; simp only [core] at this; rw [this]; exact hcl
    have h4 : (step Variant.code F s .clear).1.ctx.name = s.ctx.name := by
      have := congrArg Core.name hc; simp only [core] at this; rw [this]; exact hcname
    have h5 : replayOpt F ((step Variant.code F s .clear).1.store (step Variant.code F s .clear).1.ctx.name) =
        F.init := by
      have := congrArg Core.store hc; simp only [core] at this; rw [this, h4]; exact hcr
    have hout : (step Variant.code F s .clear).2 = .ok := rfl
    simp only [MV.Spec.Persistence.step, mask, abs, hout, h1, h2, h5]
  | get =>
    obtain ⟨hg, ha, hn, hst⟩ := obs (step Variant.code F s .get).1 rfl
    refine ⟨hg, ?_, hn, fun m _ => congrFun hst m⟩
    have hout : (step Variant.code F s .get).2 = .state (step Variant.code F s .get).1.ctx.actor.st := rfl
    rw [hout, ha]
    have : (abs F (step Variant.code F s .get).1).cur = (abs F s).cur := by rw [ha]
    simp only [MV.Spec.Persistence.step, mask]
    rw [← this]; rfl
  | count =>
    obtain ⟨hg, ha, hn, hst⟩ := obs (step Variant.code F s .count).1 rfl
    exact ⟨hg, by rw [ha]; rfl, hn, fun m _ => congrFun hst m⟩
  | rlog =>
    obtain ⟨hg, ha, hn, hst⟩ := obs (step Variant.code F s .rlog).1 rfl
    exact ⟨hg, by rw [ha]; rfl, hn, fun m _ => congrFun hst m⟩
  | stored =>
    obtain ⟨hg, ha, hn, hst⟩ := obs (step Variant.code F s .stored).1 rfl
    exact ⟨hg, by rw [ha]; rfl, hn, fun m _ => congrFun hst m⟩
  | replay =>
    obtain ⟨hg, ha, hn, hst⟩ := obs (step Variant.code F s .replay).1 rfl
    refine ⟨hg, ?_, hn, fun m _ => congrFun hst m⟩
    have hout : (step Variant.code F s .replay).2 =
        .state (abs F (step Variant.code F s .replay).1).persisted := rfl
    rw [hout, ha]
    simp only [MV.Spec.Persistence.step, mask]


/-- every step keeps the invariant -/
theorem C09_invariant_step (F : Fold σ ε) (s : Sys σ ε) (op : Op ε) (h : Good F s) :
    Good F (step Variant.code F s op).1 := (C09_step F s op h).1

/-- … hence every state reachable by any history satisfies it -/
theorem C09_invariant_run (F : Fold σ ε) (s : Sys σ ε) (h : List (Op ε)) (hg : Good F s) :
    Good F (run Variant.code F s h) := by
  induction h generalizing s with
  | nil => exact hg
  | cons o h ih => exact ih _ (C09_invariant_step F s o hg)

/-- **recovery**: after a supervised restart, or after a stop and a re-creation under the same
    persistence name, the rebuilt state equals the state the actor had when it last persisted — the
    state it had immediately before —, the storage replays to exactly that state, and a launch was
    counted. Any reachable state, any threshold, any fold. -/
theorem C09_recover_eq (F : Fold σ ε) (s : Sys σ ε) (op : Op ε) (hop : op = .fail ∨ op = .recreate)
    (hg : Good F s) :
    (step Variant.code F s op).1.ctx.actor.st = s.ctx.actor.st ∧
    (step Variant.code F s op).1.lastPersist.getD F.init = s.ctx.actor.st ∧
    replayOpt F ((step Variant.code F s op).1.store (step Variant.code F s op).1.ctx.name) = s.ctx.actor.st ∧
    (step Variant.code F s op).1.launches = s.launches + 1 ∧
    (step Variant.code F s op).2 = .stateL s.ctx.actor.st (s.launches + 1) := by
  obtain ⟨hg', hsp, _, _⟩ := C09_step F s op hg
  have hst := hg'.stored
  rcases hop with rfl | rfl
  all_goals
    simp only [MV.Spec.Persistence.step, abs, mask, Prod.mk.injEq, S.mk.injEq] at hsp
    obtain ⟨⟨h1, h2, h3⟩, h4⟩ := hsp
    refine ⟨h1.symm, ?_, h2.symm, h3.symm, h4.symm⟩
    have : (core (step Variant.code F s _).1).lastPersist.getD F.init = _ := hst
    simp only [core] at this
    rw [this]; exact h2.symm

/-- the same along histories: a failure or a stop / re-create placed after **any** prefix `h` of
    any history, over any storage content, for any threshold, gives back the state reached by `h` -/
theorem C09_recover_eq_run (F : Fold σ ε) (name : Name) (thr : Nat) (st : Store σ ε) (h : List (Op ε))
    (op : Op ε) (hop : op = .fail ∨ op = .recreate) :
    (run Variant.code F (boot Variant.code F name thr st) (h ++ [op])).ctx.actor.st =
      (run Variant.code F (boot Variant.code F name thr st) h).ctx.actor.st := by
  rw [run_append]
  have hg := C09_invariant_run F _ h (C09_invariant_boot F name thr st).1
  exact (C09_recover_eq F _ op hop hg).1

/-- at every reachable state the stored record replays to the state at the last persist -/
theorem C09_stored_is_last_persist (F : Fold σ ε) (name : Name) (thr : Nat) (st : Store σ ε) (h : List (Op ε)) :
    let s := run Variant.code F (boot Variant.code F name thr st) h
    replayOpt F (s.store s.ctx.name) = s.lastPersist.getD F.init ∧ s.ctx.ps.replay F = s.ctx.actor.st := by
  have hg := C09_invariant_run F _ h (C09_invariant_boot F name thr st).1
  exact ⟨hg.stored.symm, hg.journal⟩

/-- **refinement**: along any history the model's state is abstracted to the specification's state,
    and its answers are the specification's answers (open observations masked) -/
theorem C09_refines_spec (F : Fold σ ε) (s : Sys σ ε) (h : List (Op ε)) (hg : Good F s) :
    abs F (run Variant.code F s h) = MV.Spec.Persistence.run F (abs F s) h ∧
    MV.Spec.Persistence.maskTrace h (trace Variant.code F s h) = MV.Spec.Persistence.trace F (abs F s) h := by
  induction h generalizing s with
  | nil => exact ⟨rfl, rfl⟩
  | cons o h ih =>
    obtain ⟨hg', hsp, _, _⟩ := C09_step F s o hg
    obtain ⟨i1, i2⟩ := ih _ hg'
    have e1 : (MV.Spec.Persistence.step F (abs F s) o).1 = abs F (step Variant.code F s o).1 := by rw [hsp]
    have e2 : (MV.Spec.Persistence.step F (abs F s) o).2 = mask o (step Variant.code F s o).2 := by rw [hsp]
    constructor
    · show abs F (run Variant.code F (step Variant.code F s o).1 h) =
        MV.Spec.Persistence.run F (MV.Spec.Persistence.step F (abs F s) o).1 h
      rw [e1]; exact i1
    · show mask o (step Variant.code F s o).2 ::
          MV.Spec.Persistence.maskTrace h (trace Variant.code F (step Variant.code F s o).1 h) =
        (MV.Spec.Persistence.step F (abs F s) o).2 ::
          MV.Spec.Persistence.trace F (MV.Spec.Persistence.step F (abs F s) o).1 h
      rw [e1, e2, i2]

/-- **the state after any history is the fold of all its events, in order** — whatever restarts,
    stop / re-create cycles, explicit persists, explicit snapshots and clears lie in between, for
    every threshold, starting from any storage content -/
theorem C09_history_fold (F : Fold σ ε) (name : Name) (thr : Nat) (st : Store σ ε) (h : List (Op ε)) :
    (run Variant.code F (boot Variant.code F name thr st) h).ctx.actor.st =
      (eventsOf h).foldl F.apply (replayOpt F (st name)) := by
  obtain ⟨hg, hst, _, _, _⟩ := C09_invariant_boot F name thr st
  have h1 := (C09_refines_spec F _ h hg).1
  have h2 := congrArg S.cur h1
  rw [spec_run_cur] at h2
  simp only [abs] at h2
  rw [h2, hst]

end

/-- **nothing lost, duplicated or re-ordered**: for the free fold (the state is the list of the
    events applied) the state after any history over an empty storage *is* the list of the
    history's events -/
theorem C09_no_loss_dup_reorder [DecidableEq ε] (name : Name) (thr : Nat) (h : List (Op ε)) :
    (run Variant.code (listFold ε) (boot Variant.code (listFold ε) name thr (fun _ => none)) h).ctx.actor.st =
      eventsOf h := by
  rw [C09_history_fold]
  show (eventsOf h).foldl (fun l e => l ++ [e]) [] = eventsOf h
  rw [foldl_snoc]; rfl

/-- an explicit persist writes exactly the journal (one `Save` call with it), unless the journal is
    empty, in which case nothing is written: no recorded event is dropped on the way to the storage -/
theorem C09_persist_stores_journal [DecidableEq σ] [DecidableEq ε] (F : Fold σ ε) (s : Sys σ ε) (hg : Good F s) :
    let s' := (step Variant.code F s .persist).1
    (s.ctx.ps ≠ Rec.empty → s'.store s.ctx.name = some s.ctx.ps ∧ s'.saveLog = s.saveLog ++ [s.ctx.ps]) ∧
    (s.ctx.ps = Rec.empty → s'.store = s.store ∧ s'.saveLog = s.saveLog) ∧
    s'.ctx.ps = s.ctx.ps := by
  have hc : core (step Variant.code F s .persist).1 = (core s).persist :=
    core_cmd_persist Variant.code F s .asker
  obtain ⟨p, hp⟩ := Option.isSome_iff_exists.mp hg.inited
  have hp' : s.ctx.pstate = some p := hp
  have hps : s.ctx.ps = p := by simp [Ctx.ps, hp']
  have e1 : (step Variant.code F s .persist).1.store = (core s).persist.store := congrArg Core.store hc
  have e2 : (step Variant.code F s .persist).1.saveLog = (core s).persist.saveLog := congrArg Core.saveLog hc
  have e3 : (step Variant.code F s .persist).1.ctx.pstate = (core s).persist.pstate := congrArg Core.pstate hc
  have hpst : ((core s).persist).pstate = s.ctx.pstate := (inv_persist F (core s) hg).2.2.2.2.2.2.1
  refine ⟨?_, ?_, ?_⟩
  · intro hne
    have hc' : ¬ (p.snapshot.isNone && p.events.isEmpty) = true := by
      intro hh
      apply hne
      rw [hps]
      cases p with
      | mk sn ev =>
        simp only [Bool.and_eq_true, Option.isNone_iff_eq_none, List.isEmpty_iff] at hh
        simp [Rec.empty, hh.1, hh.2]
    have : (core s).persist =
        { core s with lastPersist := some (core s).st, store := (core s).store.save (core s).name p,
                      saveLog := (core s).saveLog ++ [p] } := by
      simp [Core.persist, hp, hc']
    rw [this] at e1 e2
    rw [e1, e2, hps]
    exact ⟨save_same _ _ _, rfl⟩
  · intro he
    have hc' : (p.snapshot.isNone && p.events.isEmpty) = true := by
      rw [hps] at he; rw [he]; rfl
    have : (core s).persist = { core s with lastPersist := some (core s).st } := by
      simp [Core.persist, hp, hc']
    rw [this] at e1 e2
    exact ⟨e1, e2⟩
  · show ((step Variant.code F s .persist).1.ctx.pstate).getD Rec.empty = s.ctx.pstate.getD Rec.empty
    rw [e3, hpst]

/-- no step touches what is stored under another persistence name -/
theorem C09_names_isolated [DecidableEq σ] [DecidableEq ε] (F : Fold σ ε) (s : Sys σ ε) (op : Op ε)
    (hg : Good F s) (m : Name) (hm : m ≠ s.ctx.name) :
    (step Variant.code F s op).1.store m = s.store m := (C09_step F s op hg).2.2.2 m hm

/-! ### non-vacuity: concrete runs of the definitions the oracle executes -/

/-- threshold 2; two generations after a stop, one after a failure: the state is the whole history -/
example :
    (run Variant.code (listFold Nat) (boot Variant.code (listFold Nat) 0 2 (fun _ => none))
      [.ev 1, .ev 2, .ev 3, .recreate, .ev 4, .fail, .ev 5, .recreate]).ctx.actor.st = [1, 2, 3, 4, 5] := by
  decide

/-- the same history leaves snapshot `[1,2,3,4]` and event `[5]` in the storage -/
example :
    let s := run Variant.code (listFold Nat) (boot Variant.code (listFold Nat) 0 2 (fun _ => none))
      [.ev 1, .ev 2, .ev 3, .recreate, .ev 4, .fail, .ev 5, .recreate]
    s.store 0 = some ⟨some [1, 2, 3, 4], [5]⟩ ∧ s.launches = 4 := by
  decide

/-- the answers of a short history: message and sender unchanged at the threshold (second event) -/
example :
    trace Variant.code (listFold Nat) (boot Variant.code (listFold Nat) 0 2 (fun _ => none))
      [.ev 7, .ev 8, .fail, .replay] =
    [.evOut [7] true true, .evOut [7, 8] true true, .stateL [7, 8] 2, .state [7, 8]] := by
  decide

/-- the invariant is not vacuous: it holds of the booted system, and the hypothesis of
    `C09_recover_eq` is met by every reachable state -/
example : Good (listFold Nat) (boot Variant.code (listFold Nat) 0 3 (fun _ => none)) :=
  (C09_invariant_boot _ _ _ _).1

end MV.Props.C09
