import MV.Model.Scheduler
/-! # C08 (work in progress) -/
namespace MV.Props.C08
open MV.Model.Scheduler

/-- `UnregisterTask`, `Clear` never panic; `Close` panics exactly when the wheel was already stopped. -/
theorem C08_close_total (s : Sched) :
    (∀ n, (step s (.unreg n)).2 = .ok) ∧ (step s .clear).2 = .ok ∧
    ((step s .close).2 = .ok ↔ s.stopped = false) := by
  refine ⟨fun _ => rfl, rfl, ?_⟩
  simp only [step, close]
  cases s.stopped <;> simp

end MV.Props.C08
