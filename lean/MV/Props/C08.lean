import MV.Lemmas.SchedulerExt
/-!
# C08 — actor timers fire as often as configured, not early, and die with their registration

All statements are about `MV.Model.Scheduler`, the transcription of `toolkit/chrono/scheduler.go` and
`scheduler_task.go` over the abstract timing wheel (the model's only assumption about the library:
a timer with expiration `e` leaves the wheel at a time `t ≥ e - e % tick`, and only while the wheel
runs).  `Reach s` quantifies over EVERY sequence of API calls (register / replace / unregister /
clear / close with arbitrary arguments), clock advances and wheel events (`expire i`: timer `i`
leaves the wheel; `run i`: its goroutine executes) — i.e. every interleaving of the scheduler's
callers with the wheel at the granularity of whole API calls (each of them holds `s.lock`), with
cancellation allowed at every phase of a task's life, including between `expire` and `run`.
`fired s i` counts the executions of `function.Call` of task object `i`, which in the actor runtime
is the *posting* of the callback to the owner's mailbox (`MV.Model.TimerFacts`, suite `timer-facts`).
-/
namespace MV.Props.C08
open MV.Model.Scheduler

/-- **Counting.** A task registered with `times = N > 0` (non-cron) never fires more than `N` times —
whatever happens.  While it has not been cancelled it is in exactly one of two states: its timer is
idle and it has fired exactly `N` times; or its timer is pending / in flight, it has fired `k < N`
times and the pending expiration is `base + after + k * interval` (so each further `expire`/`run`
pair — which the wheel owes once the expiration has passed — adds exactly one firing until `N`). -/
theorem C08_count_N (s : Sched) (hr : Reach s) (i : Nat) (hi : i < s.nobjs)
    (hc : (s.objs i).cron = none) (N : Nat) (hN : 0 < N) (ht : (s.objs i).total = (N : Int)) :
    fired s i ≤ N ∧
    ((s.objs i).kill = false →
      ((s.objs i).timer = .idle ∧ fired s i = N) ∨
      (fired s i < N ∧ ∃ e, ((s.objs i).timer = .pending e ∨ (s.objs i).timer = .inflight e) ∧
        e = (s.objs i).base + (s.objs i).after + fired s i * (s.objs i).interval)) := by
  obtain ⟨h1, h2, h3⟩ := hr.inv.ok i hi hc
  have hb := h1 (by omega)
  refine ⟨?_, fun hk => ?_⟩
  · cases hk : (s.objs i).kill
    · rcases h3 hk with ⟨e, _, hf, _⟩ | ⟨_, _, _, hf⟩ <;> omega
    · have := h2 hk; omega
  · rcases h3 hk with ⟨e, hte, hf, he⟩ | ⟨hidle, _, htr, hf⟩
    · right
      refine ⟨by omega, e, hte, ?_⟩
      have : (s.objs i).trigger - 1 = fired s i := by omega
      rw [he, this]
    · left; exact ⟨hidle, by omega⟩

/-- **Forever.** A task with `times ≤ 0` that has not been cancelled always has its next run
scheduled: after `k` firings the pending expiration is `base + after + k * interval`. -/
theorem C08_forever (s : Sched) (hr : Reach s) (i : Nat) (hi : i < s.nobjs)
    (hc : (s.objs i).cron = none) (ht : (s.objs i).total ≤ 0) (hk : (s.objs i).kill = false) :
    ∃ e, ((s.objs i).timer = .pending e ∨ (s.objs i).timer = .inflight e) ∧
      e = (s.objs i).base + (s.objs i).after + fired s i * (s.objs i).interval := by
  obtain ⟨_, _, h3⟩ := hr.inv.ok i hi hc
  rcases h3 hk with ⟨e, hte, hf, he⟩ | ⟨_, hpos, _, _⟩
  · refine ⟨e, hte, ?_⟩
    have : (s.objs i).trigger - 1 = fired s i := by omega
    rw [he, this]
  · omega

/-- **One-shot** (`RegisterAfterTask`, `times = 1`): at most one firing ever; exactly one once the
timer has come to rest without a cancellation. -/
theorem C08_once (s : Sched) (hr : Reach s) (i : Nat) (hi : i < s.nobjs)
    (hc : (s.objs i).cron = none) (ht : (s.objs i).total = 1) :
    fired s i ≤ 1 ∧ ((s.objs i).kill = false → (s.objs i).timer = .idle → fired s i = 1) := by
  obtain ⟨h1, h2⟩ := C08_count_N s hr i hi hc 1 (by omega) (by simpa using ht)
  refine ⟨h1, fun hk hidle => ?_⟩
  rcases h2 hk with ⟨_, hf⟩ | ⟨_, e, hte, _⟩
  · exact hf
  · rcases hte with h | h <;> rw [hidle] at h <;> cases h

/-- `RegisterAfterTask(name, d, …)` on a scheduler that has not been closed creates such a one-shot
    task (object index `s.nobjs`); on a closed scheduler it does nothing. -/
theorem C08_once_registers (s : Sched) (n : Nat) (d : Int) (hlive : s.stopped = false) :
    let s' := (step s (.reg n d s.tick 1)).1
    s'.nobjs = s.nobjs + 1 ∧ s'.table n = some s.nobjs ∧ (s'.objs s.nobjs).total = 1 ∧
    (s'.objs s.nobjs).cron = none ∧ (s'.objs s.nobjs).kill = false := by
  obtain ⟨_, hn, htab, hobj⟩ := register_frame s n d s.tick none 1 hlive
  have hs := Task.schedule_fields (Task.fresh n (durMs s.tick none d) (durMs s.tick none s.tick) 1 none s.now) s.now
  simp only [step]
  rw [hobj]
  exact ⟨hn, htab, hs.2.2.2.1, hs.2.2.2.2.1, hs.2.2.2.2.2.2⟩

/-- **A cancelled task never fires again**, whatever happens afterwards (`kill` is never cleared and
`caller()` honours it; nobody sets `separate`). -/
theorem C08_killed_never_fires (s : Sched) (i : Nat) (hi : i < s.nobjs) (hk : (s.objs i).kill = true)
    (evs : List Ev) : fired (runEvents s evs) i = fired s i :=
  (Ext_runEvents s evs).frozen i hi hk

/-- **Replacement.** Re-registering a name kills the task that held it: from the moment `task()`
returns the old task object never fires again, and the name designates the new object. -/
theorem C08_replace (s : Sched) (hr : Reach s) (n i : Nat) (h : s.table n = some i)
    (a iv times : Int) (evs : List Ev) :
    let s' := (step s (.reg n a iv times)).1
    s'.table n = some s.nobjs ∧ fired s' i = fired s i ∧ fired (runEvents s' evs) i = fired s i := by
  have hi := (hr.inv.tbl n i h).1
  obtain ⟨hkill, htab⟩ := register_kills s n i a iv none times hr.inv h
  have hlog : fired (register s n a iv none times) i = fired s i := by
    unfold fired; rw [register_log s n a iv none times]
  have hi' : i < (register s n a iv none times).nobjs := Nat.lt_of_lt_of_le hi (Ext_register s n a iv none times).nobjs
  exact ⟨htab, hlog, (C08_killed_never_fires _ i hi' hkill evs).trans hlog⟩

/-- **Cancellation.** If the registration of task `i` is ended (`UnregisterTask`, a new registration of
the name, `Clear`, `Close`) while the clock is still before its first due time (by however little),
the task never fires: not before (`C08_not_early`), not after. -/
theorem C08_cancel (s : Sched) (hr : Reach s) (i : Nat) (hi : i < s.nobjs)
    (hc : (s.objs i).cron = none) (hearly : s.now < (s.objs i).base + (s.objs i).after)
    (ev : Ev) (hcan : Cancels s i ev) (evs : List Ev) :
    fired (runEvents (step s ev).1 evs) i = 0 := by
  have hinv := hr.inv
  have h0 : fired s i = 0 := by
    unfold fired
    rw [List.countP_eq_zero]
    intro f hf hid
    simp only [decide_eq_true_eq] at hid
    obtain ⟨a, b, c⟩ := hinv.logt f hf
    rw [hid] at c
    obtain ⟨k, hk⟩ := c hc
    have hk' : (s.objs i).base + (s.objs i).after ≤ f.exp := by rw [hk]; omega
    omega
  have hk := cancel_kills s i ev hinv hi hcan
  have hext := Ext_step s ev
  have hi' : i < (step s ev).1.nobjs := Nat.lt_of_lt_of_le hi hext.nobjs
  rw [C08_killed_never_fires _ i hi' hk evs]
  have hm : fired (step s ev).1 i = fired s i := by
    cases hkk : (s.objs i).kill
    · -- the cancelling events themselves never call the task's function
      cases ev with
      | unreg n => simp only [step, fired, (unregister_frame s n).2.2.2.1]
      | reg n a iv times => simp only [step, fired, register_log s n a iv none times]
      | regCron n p => simp only [step, fired, register_log s n 0 0 (some p) 0]
      | clear => rfl
      | close => simp only [step, close]; split <;> rfl
      | advance dt => cases hcan
      | expire j => cases hcan
      | run j => cases hcan
    · exact hext.frozen i hi hkk
  rw [hm, h0]

/-- **Totality.** `UnregisterTask`, `Clear`, `Close` and the registrations never panic or block in
any state of the model: after `71713ac` `close()` never dereferences a nil timer, after `1e829e9`
`Close` is idempotent and does not wait for the timing wheel (whose `Stop` can block for ever —
outside the model, found by the suite as a hang: `MV.Findings.C08`). -/
theorem C08_close_total (s : Sched) :
    (∀ n, (step s (.unreg n)).2 = .ok) ∧ (step s .clear).2 = .ok ∧
    (∀ n a iv k, (step s (.reg n a iv k)).2 = .ok) ∧ (step s .close).2 = .ok := by
  refine ⟨fun _ => rfl, rfl, fun _ _ _ _ => rfl, ?_⟩
  simp only [step, close]
  cases s.stopped <;> simp

/-- A closed scheduler is inert: registrations are ignored (`if s.closed { return }`). -/
theorem C08_closed_ignores (s : Sched) (hs : s.stopped = true) (n : Nat) (a iv k : Int) :
    (step s (.reg n a iv k)).1 = s := by
  simp [step, register, hs]

/-- After `Close`/`Clear` nothing is left registered, and every task object is cancelled. -/
theorem C08_clear_kills_all (s : Sched) (hr : Reach s) (i : Nat) (hi : i < s.nobjs) :
    ((step s .clear).1.objs i).kill = true ∧ ((step s .close).1.objs i).kill = true ∧
    (∀ n, (step s .clear).1.table n = none) ∧ (∀ n, (step s .close).1.table n = none) := by
  have h := clear_all_killed s hr.inv i hi
  refine ⟨h, ?_, fun _ => rfl, fun _ => ?_⟩
  · simp only [step, close]; split <;> exact h
  · simp only [step, close]; split <;> rfl

/-- **Not early.** Every firing happens at a time `t ≥ exp`, where `exp` is the expiration of the timer
run that produced it, and `exp = base + after + k * interval` for some `k`: no firing of a task comes
before its `k`-th due time — *whenever* the timing wheel hands the timer out (`expire` is
unconstrained: the library can hand a timer out a whole lap early, `MV.Findings.C08.wheel_early_handout`).
What makes it true is the wait in `schedulerTask.Next` (the `fix:` commit "a task is not run before its
due time"), modelled as the guard `e ≤ now` of the `run` step. -/
theorem C08_not_early (s : Sched) (hr : Reach s) (f : Firing) (hf : f ∈ s.log) :
    f.exp ≤ f.time ∧ f.time ≤ s.now ∧
    ((s.objs f.id).cron = none →
      ∃ k, f.exp = (s.objs f.id).base + (s.objs f.id).after + k * (s.objs f.id).interval ∧
        (s.objs f.id).base + (s.objs f.id).after + k * (s.objs f.id).interval ≤ f.time) := by
  obtain ⟨a, b, c⟩ := hr.inv.logt f hf
  refine ⟨a, b, fun hc => ?_⟩
  obtain ⟨k, hk⟩ := c hc
  exact ⟨k, hk, by omega⟩

/-- **Nothing is posted after `Close`.** Once the wheel has been stopped no task function is called
any more, whatever happens: the log of `function.Call`s — the posts to the owner's mailbox — never
grows.  (The *turn* of a callback that was posted before `Close` is the actor's business:
`MV.Props.C08.C08_not_after_terminated` in `Props/C08Actor.lean`.) -/
theorem C08_no_post_after_close (s : Sched) (hr : Reach s) (hs : s.stopped = true) (evs : List Ev) :
    (runEvents s evs).log = s.log ∧ (runEvents s evs).stopped = true := by
  induction evs generalizing s with
  | nil => exact ⟨rfl, hs⟩
  | cons ev evs ih =>
    have hl := log_stopped_step s ev hr.inv hs
    have hs' := (Ext_step s ev).stopped hs
    obtain ⟨a, b⟩ := ih _ (hr.step ev) hs'
    exact ⟨a.trans hl, b⟩

/-- `Close` stops the wheel (when it was running), so the previous theorem applies from there on. -/
theorem C08_close_stops (s : Sched) : (step s .close).1.stopped = true ∨ s.stopped = true := by
  simp only [step, close]
  cases h : s.stopped <;> simp

/-! ## Non-vacuity -/

/-- a scheduler with tick 10: `RegisterRepeatedTask("0", 35ms, 20ms, 3)` registered at time 0 has the
due times 35, 55, 75; the wheel may hand the timers out at any time (here: at 30, 55 and 70, the first
and the last one early) but they run at 35, 55 and 75 at the earliest. -/
def demo : Sched :=
  runEvents (init 10) [.reg 0 35 20 3, .advance 30, .expire 0, .run 0, .advance 5, .run 0, .advance 20, .expire 0, .run 0,
    .advance 15, .expire 0, .run 0, .advance 5, .run 0, .advance 100, .expire 0, .run 0]

example : Reach demo := ⟨10, _, by decide, rfl⟩
example : fired demo 0 = 3 ∧ (demo.objs 0).timer = .idle ∧ (demo.objs 0).kill = false := by decide
example : demo.log.map (fun f => (f.exp, f.time)) = [(75, 75), (55, 55), (35, 35)] := by decide
/-- early is impossible: the wheel may hand the timer with expiration 35 out at time 0, it does not run
before 35 -/
example : fired (runEvents (init 10) [.reg 0 35 20 3, .expire 0, .run 0, .advance 34, .run 0]) 0 = 0 ∧
    fired (runEvents (init 10) [.reg 0 35 20 3, .expire 0, .run 0, .advance 35, .run 0]) 0 = 1 := by decide
/-- cancel between `expire` and `run`: the goroutine was started, the callback is suppressed -/
example : fired (runEvents (init 10) [.reg 0 30 20 3, .advance 30, .expire 0, .unreg 0, .run 0, .advance 100]) 0 = 0 := by
  decide
/-- replace: the old object stops, the new one fires -/
example : (fun s => (fired s 0, fired s 1)) (runEvents (init 10)
    [.reg 0 30 20 (-1), .advance 30, .expire 0, .run 0, .reg 0 30 20 1, .advance 40, .expire 0, .run 0, .expire 1, .run 1])
    = (1, 1) := by decide
/-- `Close` twice: both fine; a registration afterwards is ignored -/
example : (step (init 10) .close).2 = .ok ∧ (step (step (init 10) .close).1 .close).2 = .ok ∧
    (runEvents (init 10) [.close, .reg 0 30 20 3]).nobjs = 0 := by decide

end MV.Props.C08
