import MV.Lemmas.ActorSysTurns
import MV.Spec.ActorSys
/-!
# C05 — termination is hierarchical and complete; shutdown waits for everyone

Model, tie and quantifiers as for C03.  Proved here (local theorems about the functions every
termination goes through; the global statements are checked on the real system by the `c05*` judges of
`MV.Spec.ActorSys` over the recorded event order and the final registry/status dump):

* `tryTerminated` — the only place where an actor becomes `terminated`, handles its own `OnTerminated`,
  unregisters and notifies parent and watchers — does nothing while the children map is non-empty
  (`C05_no_termination_while_children_remain`) and nothing unless the status is `terminating`
  (`C05_termination_needs_terminating`);
* a terminate request acts only on an alive actor (`C05_terminate_request_only_when_alive`) — this
  includes the reading that a request reaching an actor while it is *restarting* is dropped, which the
  judge reports when it leaves the actor alive at quiescence;
* a user message handled means the actor had not begun to terminate
  (`C05_no_user_message_once_terminating`): user messages that reach a terminating/terminated actor
  become dead letters, which is what makes a graceful terminate "handle everything queued before the
  request and nothing after".

Known findings (see `findings.d/C05.json`): a child spawned from the OnTerminated handler outlives its
parent; a handler failure during termination blocks it.  The global children-first theorem
(`C05_children_first`) needs the invariant "a non-terminated child is listed in its parent's children
map"; the attempt to prove it exposed a real defect (a `Watch` answered by a *terminating* child let the
parent drop it from the map; fixed in /repo) and is left as future work — the statement is in DESIGN.md.
-/
namespace MV.Props.C05
open MV.Model.ActorSys MV.Spec.ActorSys

theorem C05_no_termination_while_children_remain (w : World) (a : Aid)
    (h : (actorAt w a).children ≠ []) : (((tryTerminated a).run).run w).2 = w := by
  have := run_of_triple (tryTerminated a) (fun x => x = w) _ _ (tryTerminated_waits_for_children a w h) w rfl
  revert this
  generalize ((tryTerminated a).run).run w = r
  obtain ⟨e, w'⟩ := r
  cases e <;> simp

theorem C05_termination_needs_terminating (w : World) (a : Aid)
    (h : (actorAt w a).status ≠ .terminating) : (((tryTerminated a).run).run w).2 = w := by
  have := run_of_triple (tryTerminated a) (fun x => x = w) _ _ (tryTerminated_needs_terminating a w h) w rfl
  revert this
  generalize ((tryTerminated a).run).run w = r
  obtain ⟨e, w'⟩ := r
  cases e <;> simp

theorem C05_terminate_request_only_when_alive (w : World) (a : Aid) (g : Bool)
    (h : (actorAt w a).status ≠ .alive) : (((onTerminate a g).run).run w).2 = w := by
  have := run_of_triple (onTerminate a g) (fun x => x = w) _ _ (onTerminate_only_when_alive a g w h) w rfl
  revert this
  generalize ((onTerminate a g).run).run w = r
  obtain ⟨e, w'⟩ := r
  cases e <;> simp

/-- once an actor is terminating (or terminated) no user message reaches its handler any more -/
theorem C05_no_user_message_once_terminating (w : World) (a : Aid)
    (ht : (actorOf w a).status.rank ≥ Status.terminating.rank) (op : Op) (es : List Event)
    (h : (step w op).events = w.events ++ es) (i tag : Nat) (s : Option Aid) :
    Event.handled a i (.user tag) s ∉ es := by
  intro he
  obtain ⟨es', h', hall⟩ := step_evok w op
  have : es = es' := List.append_cancel_left (h.symm.trans h')
  subst this
  have hr := hall _ he
  cases op with
  | run b =>
    simp [stepR, Rh] at hr
    obtain ⟨hab, hobs⟩ := hr
    subst hab
    rcases hobs.2 with hs' | hs'
    · exact absurd hs' (by simp [sysObs])
    · omega
  | _ => simp [stepR, Rh] at hr

end MV.Props.C05
