import MV.Model.ActorSys
namespace MV.Props.C05
theorem C05_placeholder : True := trivial
end MV.Props.C05
