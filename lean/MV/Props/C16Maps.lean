import MV.Lemmas.OrderMap
import MV.Lemmas.Bucket
/-!
# C16 — ordered map, synchronized map, bucket maps
-/
namespace MV.Props.C16
open MV.Model MV.Spec

/-! ## `Order` / `OrderSync` -/
section order
open MV.Model.OrderMap MV.Spec.OrderedMap

/-- refinement relation: consistent index, same entries as the spec, same order while nothing was deleted -/
def OrderRel (o : OrderMap) (s : St) : Prop :=
  WF o ∧ o.value.Perm s.l ∧ (s.clean = true → o.value = s.l)

theorem idx_isSome_iff {o : OrderMap} (h : WF o) (k : Int) :
    (o.idx.get k).isSome = (FMap.get o.value k).isSome := by
  cases hk : o.idx.get k with
  | none => rw [h.absent k hk]
  | some i =>
    obtain ⟨j, e, _, h2, h3⟩ := h.d2 k i hk
    have := FMap.get_eq_some_of_mem o.value h.nodupKeys e (List.mem_of_getElem? h2)
    rw [h3] at this
    rw [this]; rfl

theorem set_eq_map {o : OrderMap} (h : WF o) (j : Nat) (e : Int × Int) (he : o.value[j]? = some e) (v : Int) :
    o.value.set j (e.1, v) = o.value.map (fun x => if x.1 == e.1 then (e.1, v) else x) := by
  apply List.ext_getElem?
  intro x
  simp only [List.getElem?_set, List.getElem?_map]
  obtain ⟨hlt, hje⟩ := List.getElem?_eq_some_iff.mp he
  by_cases hjx : j = x
  · subst hjx
    simp [hlt, hje]
  · simp only [hjx, if_false]
    cases hx : o.value[x]? with
    | none => rfl
    | some ex =>
      have hne : ¬ ex.1 = e.1 := by
        intro q
        have a := h.d1 x ex hx
        have b := h.d1 j e he
        rw [q, b] at a
        simp at a; omega
      simp [hne]

/-- what the abstract level does not determine: the visiting order after a deletion -/
def eraseOrder (clean : Bool) : OrderMap.Op → Out → Out
  | .range, o => if clean then o else .undet
  | .rangeSorted, o => if clean then o else .undet
  | .rangeN _, o => if clean then o else .undet
  | _, o => o

/-- **one step** of `Order`/`OrderSync` against the ordered-map specification -/
theorem C16_order_step (o : OrderMap) (s : St) (h : OrderRel o s) (op : OrderMap.Op) :
    OrderRel (OrderMap.step o op).1 (OrderedMap.step s op).1 ∧
      eraseOrder s.clean op (OrderMap.step o op).2 = eraseOrder s.clean op (OrderedMap.step s op).2 := by
  obtain ⟨hw, hp, hc⟩ := h
  have hget : ∀ k, List.lookup k s.l = FMap.get o.value k := fun k => (get_perm hw.nodupKeys hp k).symm
  have hsome : ∀ k, (List.lookup k s.l).isSome = (o.idx.get k).isSome := by
    intro k; rw [hget, idx_isSome_iff hw]
  cases op with
  | get k =>
    simp only [OrderMap.step, OrderedMap.step, eraseOrder, get_eq hw, hget]
    cases FMap.get o.value k <;> exact ⟨⟨hw, hp, hc⟩, rfl⟩
  | add k v =>
    simp only [OrderMap.step, OrderedMap.step, eraseOrder, and_true]
    rw [hsome]
    have hwa := wf_add o hw k v
    unfold OrderMap.add at hwa ⊢
    cases hk : (o.idx.get k).isSome with
    | true => simp only [if_true]; exact ⟨hw, hp, hc⟩
    | false =>
      simp only [hk, Bool.false_eq_true, if_false] at hwa ⊢
      exact ⟨hwa, List.Perm.append_right _ hp, fun hcl => by rw [hc hcl]⟩
  | set k v =>
    simp only [OrderMap.step, OrderedMap.step, eraseOrder]
    cases hk : o.idx.get k with
    | none =>
      have hs : (List.lookup k s.l).isSome = false := by rw [hsome, hk]; rfl
      have hadd : o.set k v = some (o.add k v) := by unfold OrderMap.set; rw [hk]
      rw [hadd]
      simp only [OrderedMap.put, hs, and_true]
      have hw' := wf_add o hw k v
      unfold OrderMap.add at hw' ⊢
      simp only [hk, Option.isSome_none, Bool.false_eq_true, if_false] at hw' ⊢
      exact ⟨hw', List.Perm.append_right _ hp, fun hcl => by rw [hc hcl]⟩
    | some i =>
      obtain ⟨j, e, h1, h2, h3⟩ := hw.d2 k i hk
      subst h1
      rw [set_present hw k v j e hk h2]
      have hs : (List.lookup k s.l).isSome = true := by rw [hsome, hk]; rfl
      simp only [OrderedMap.put, hs, if_true, and_true]
      refine ⟨wf_set_present hw v j e h2, ?_, ?_⟩
      · show (o.value.set j (e.1, v)).Perm _
        rw [set_eq_map hw j e h2 v, h3]
        exact hp.map _
      · intro hcl
        show o.value.set j (e.1, v) = _
        rw [set_eq_map hw j e h2 v, h3, hc hcl]
  | len =>
    refine ⟨⟨hw, hp, hc⟩, ?_⟩
    simp only [OrderMap.step, OrderedMap.step, eraseOrder, hp.length_eq]
  | del k =>
    simp only [OrderMap.step, OrderedMap.step, eraseOrder]
    rw [hsome]
    cases hk : o.idx.get k with
    | none =>
      have : o.del k = some o := by unfold OrderMap.del; rw [hk]
      rw [this]
      simp only [Option.isSome_none, Bool.false_eq_true, if_false, and_true]
      exact ⟨hw, hp, hc⟩
    | some i =>
      obtain ⟨j, e, h1, h2, h3⟩ := hw.d2 k i hk
      subst h1
      obtain ⟨hj, hje⟩ := List.getElem?_eq_some_iff.mp h2
      have hkey : o.value[j].1 = k := by rw [hje, h3]
      rw [del_present k j hk hj]
      simp only [Option.isSome_some, if_true, and_true]
      have hperm : (swapDel o k j).value.Perm (s.l.filter (fun e => e.1 != k)) :=
        (perm_swapDel hw k j hk hj hkey).trans (hp.filter _)
      refine ⟨wf_swapDel hw k j hk hj hkey, hperm, ?_⟩
      intro hcl
      have : s.l.filter (fun e => e.1 != k) = [] := by simpa using hcl
      rw [this] at hperm ⊢
      exact List.Perm.eq_nil hperm
  | range =>
    refine ⟨⟨hw, hp, hc⟩, ?_⟩
    simp only [OrderMap.step, OrderedMap.step, eraseOrder]
    cases hcl : s.clean with
    | false => rfl
    | true => simp [hc hcl]
  | rangeSorted =>
    refine ⟨⟨hw, hp, hc⟩, ?_⟩
    simp only [OrderMap.step, OrderedMap.step, eraseOrder]
    cases hcl : s.clean with
    | false => rfl
    | true => simp [hc hcl]
  | rangeN n =>
    refine ⟨⟨hw, hp, hc⟩, ?_⟩
    simp only [OrderMap.step, OrderedMap.step, eraseOrder]
    cases hcl : s.clean with
    | false => rfl
    | true => simp [hc hcl]

/-- **`C16_order_refines`** — for every operation sequence on a new `Order`/`OrderSync`: the index stays
consistent with the entry slice (`WF`), the entries are a permutation of the specification's
association list (each live key exactly once — `Range` visits every live entry once), and they are
*in insertion order* as long as nothing was deleted since the map was last empty. -/
theorem C16_order_refines (ops : List OrderMap.Op) :
    OrderRel (OrderMap.exec OrderMap.new ops) (ops.foldl (fun s op => (OrderedMap.step s op).1) OrderedMap.init) := by
  suffices ∀ o s, OrderRel o s →
      OrderRel (OrderMap.exec o ops) (ops.foldl (fun s op => (OrderedMap.step s op).1) s) from
    this _ _ ⟨wf_new, List.Perm.refl _, fun _ => rfl⟩
  induction ops with
  | nil => intro o s h; exact h
  | cons op ops ih => intro o s h; exact ih _ _ (C16_order_step o s h op).1

/-- "every answer of the run agrees with the specification's" (visiting order only while determined) -/
def OrderAgree : OrderMap → St → List OrderMap.Op → Prop
  | _, _, [] => True
  | o, s, op :: ops =>
    eraseOrder s.clean op (OrderMap.step o op).2 = eraseOrder s.clean op (OrderedMap.step s op).2 ∧
      OrderAgree (OrderMap.step o op).1 (OrderedMap.step s op).1 ops

theorem C16_order_answers (ops : List OrderMap.Op) : OrderAgree OrderMap.new OrderedMap.init ops := by
  suffices ∀ o s, OrderRel o s → OrderAgree o s ops from this _ _ ⟨wf_new, List.Perm.refl _, fun _ => rfl⟩
  induction ops with
  | nil => intro o s _; trivial
  | cons op ops ih =>
    intro o s h
    obtain ⟨hr, ho⟩ := C16_order_step o s h op
    exact ⟨ho, ih _ _ hr⟩

/-- `Range` visits each live key exactly once, `Get` agrees with it, in every reachable state -/
theorem C16_order_range_once (ops : List OrderMap.Op) :
    let o := OrderMap.exec OrderMap.new ops
    (o.value.map (·.1)).Nodup ∧ (∀ k, o.get k = some (List.lookup k o.value)) ∧
      (∀ k v, (k, v) ∈ o.value ↔ o.get k = some (some v)) := by
  intro o
  have hw : WF o := (C16_order_refines ops).1
  refine ⟨hw.nodupKeys, fun k => get_eq hw k, ?_⟩
  intro k v
  rw [get_eq hw k]
  constructor
  · intro hm
    have := FMap.get_eq_some_of_mem o.value hw.nodupKeys (k, v) hm
    simp only at this
    rw [this]
  · intro hg
    simp only [Option.some.injEq] at hg
    exact FMap.mem_of_get_eq_some _ _ _ hg

end order

/-! ## `SyncMap`, `Bucket`, `MutexBucket` -/
section maps
open MV.Spec.FinMap

/-- **`C16_map_refines` (SyncMap)** — every operation sequence on a `SyncMap` answers exactly like the
finite map (each method taken as one atomic step). -/
theorem C16_map_refines_syncmap (m : FMap) (ops : List SyncMap.Op) : SyncMap.run m ops = FinMap.runSync m ops :=
  SyncMap.run_eq_spec m ops

/-- **`C16_map_refines` (Bucket / MutexBucket)** — for every bucket count `n ≥ 1`, *every* hash function
into `0..n-1` and every operation sequence, the bucket map answers exactly like the finite map. -/
theorem C16_map_refines_bucket (h : Nat → Int → Nat) (n : Nat) (hr : ∀ k, h n k < n) (ops : List Bucket.Op) :
    Bucket.run h (Bucket.new n) ops = FinMap.runBucket [] ops := by
  suffices ∀ b m, Bucket.Rel h b m → Bucket.run h b ops = FinMap.runBucket m ops from
    this _ _ (Bucket.rel_new h n hr)
  induction ops with
  | nil => intro b m _; rfl
  | cons op ops ih =>
    intro b m r
    obtain ⟨h1, h2⟩ := Bucket.step_refines h b m r op
    unfold Bucket.run FinMap.runBucket
    simp only []
    rw [ih _ _ h1, h2]

/-- the harness' hash function maps into the bucket range -/
theorem bucket_hash_range (n : Nat) (hn : 0 < n) (k : Int) : Bucket.hash n k < n := by
  unfold Bucket.hash
  have h1 : (0 : Int) ≤ k % (n : Int) := Int.emod_nonneg _ (by omega)
  have h2 : k % (n : Int) < (n : Int) := Int.emod_lt_of_pos _ (by omega)
  omega

/-- the finite-map laws the specification state obeys (it is observed through `lookup` only) -/
theorem C16_finmap_laws (m : FinMap.M) (k v k' : Int) :
    FinMap.lookup (FinMap.put m k v) k' = (if k' = k then some v else FinMap.lookup m k') ∧
    FinMap.lookup (FinMap.remove m k) k' = (if k' = k then none else FinMap.lookup m k') ∧
    FinMap.lookup [] k = none :=
  ⟨lookup_put m k v k', lookup_remove m k k', rfl⟩

/-- **`C16_absent_total` (maps)** — key-based operations on an absent key are total no-ops: the state
is unchanged and the answer is the zero value / `false` (in particular `DeleteExist`, which used to
unlock twice). -/
theorem C16_absent_total_syncmap (m : FMap) (k : Int) (h : m.get k = none) :
    SyncMap.step m (.get k) = (m, .int 0) ∧ SyncMap.step m (.exist k) = (m, .bool false) ∧
    SyncMap.step m (.getExist k) = (m, .intBool 0 false) ∧ SyncMap.step m (.delete k) = (m, .unit) ∧
    SyncMap.step m (.deleteGet k) = (m, .int 0) ∧ SyncMap.step m (.deleteGetExist k) = (m, .intBool 0 false) ∧
    SyncMap.step m (.deleteExist k) = (m, .bool false) := by
  have hd : m.del k = m := remove_absent m k h
  simp [SyncMap.step, h, hd]

theorem C16_absent_total_order (o : OrderMap) (k : Int) (h : o.idx.get k = none) :
    OrderMap.step o (.del k) = (o, .unit) ∧ OrderMap.step o (.get k) = (o, .intBool 0 false) := by
  simp [OrderMap.step, OrderMap.del, OrderMap.get, h]

/-! ## non-vacuity -/

example : OrderMap.run OrderMap.new [.add 1 10, .add 2 20, .add 3 30, .range, .del 1, .range, .get 3, .get 1, .del 7, .len] =
    [.unit, .unit, .unit, .rows [[1, 10], [2, 20], [3, 30]], .unit, .rows [[3, 30], [2, 20]],
     .intBool 30 true, .intBool 0 false, .unit, .int 2] := by decide

example : SyncMap.run [] [.set 1 5, .deleteExist 2, .deleteExist 1, .deleteExist 1, .size, .getExist 1] =
    [.unit, .bool false, .bool true, .bool false, .int 0, .intBool 0 false] := by decide

example : Bucket.run Bucket.hash (Bucket.new 2) [.set 0 1, .set 2 3, .set (-1) 4, .len, .del 2, .get 2, .get (-1), .len] =
    [.unit, .unit, .unit, .int 3, .unit, .intBool 0 false, .intBool 4 true, .int 2] := by decide

end maps
end MV.Props.C16
