/-!
# Shared pieces of the C16 container models

* `Out`: the canonical answers of one operation (what the harness prints for the real code);
* `FMap`: a Go `map[int]int` — an association list with at most one entry per key.  Iteration
  order of a Go map is not observable here: every answer that lists keys/values is sorted before
  printing (on both sides);
* `isort`: insertion sort used for those canonical listings (and as the instance of `sort.Slice`
  in the priority-slice model).

Core Lean only (linked into the oracle executables).
-/
namespace MV.Model

/-- canonical operation results -/
inductive Out where
  | unit                                  -- `ok`
  | int (v : Int)
  | bool (b : Bool)
  | ints (l : List Int)                   -- `[1 2 3]`
  | rows (l : List (List Int))            -- `[1:2 3:4]`
  | intBool (v : Int) (b : Bool)          -- `7 true`
  | absent                                -- `none`
  | err (code : Nat)                      -- `err:<code>` (meaning fixed per container)
  | panic | hang | fatal
  | undet                                 -- `-` : not determined at this level
  deriving DecidableEq, Repr

/-! ## insertion sort -/

def insertBy {α : Type} (le : α → α → Bool) (x : α) : List α → List α
  | [] => [x]
  | y :: ys => if le x y then x :: y :: ys else y :: insertBy le x ys

/-- stable insertion sort: an element is placed *after* the already-placed elements it ties with -/
def isortBy {α : Type} (le : α → α → Bool) : List α → List α
  | [] => []
  | x :: xs => insertBy le x (isortBy le xs)

def sortInts (l : List Int) : List Int := isortBy (fun a b => decide (a ≤ b)) l

/-- lexicographic order on rows -/
def rowLe : List Int → List Int → Bool
  | [], _ => true
  | _ :: _, [] => false
  | a :: as, b :: bs => if a < b then true else if b < a then false else rowLe as bs

def sortRows (l : List (List Int)) : List (List Int) := isortBy rowLe l

/-! ## Go map -/

abbrev FMap := List (Int × Int)

namespace FMap

/-- `v, ok := m[k]` -/
def get (m : FMap) (k : Int) : Option Int := m.lookup k

/-- `delete(m, k)` -/
def del (m : FMap) (k : Int) : FMap := m.filter (fun e => e.1 != k)

/-- `m[k] = v` -/
def set (m : FMap) (k v : Int) : FMap := (k, v) :: del m k

/-- `len(m)` -/
def size (m : FMap) : Nat := m.length

/-- keys, sorted (canonical listing) -/
def keys (m : FMap) : List Int := sortInts (m.map (·.1))

/-- values, sorted (canonical listing) -/
def vals (m : FMap) : List Int := sortInts (m.map (·.2))

/-- entries `k:v`, sorted (canonical listing) -/
def entries (m : FMap) : List (List Int) := sortRows (m.map (fun e => [e.1, e.2]))

end FMap
end MV.Model
