/-!
# Component masks of the ECS model (C14) — set level

`engine/ecs` keys archetypes by a `toolkit.DynamicBitSet`.  The ECS only ever *sets* bits of a mask
(`mutation` is always called with `del = nil`), starting from the one-word root mask, so a mask's
word slice is a canonical function of the set of its bits (`len = max 1 (maxBit/64+1)`), and
`Key()`, `Equal`, `In`, `NotIn` depend on the set alone.  This file models a mask as that set,
represented canonically as a strictly increasing list of component ids; `Key()` is the list itself.

The word-level model of `DynamicBitSet` (`[]uint64`, `pos/64`, `pos%64`, trailing words) and the
proof that it refines this set-level view belong to property C16 (`MV/Model/BitSet.lean`); the
differential runs of C14 execute the real word-level code with masks of up to three words.

Core Lean only.
-/
namespace MV.Model.ECSMask

/-- a mask: strictly increasing list of component ids -/
abbrev Mask := List Nat

/-- `Set(pos)` -/
def setBit : Mask → Nat → Mask
  | [], x => [x]
  | y :: ys, x => if x < y then x :: y :: ys else if x = y then y :: ys else y :: setBit ys x

/-- the mask built by `Set`ting the ids one after the other, starting from `m` -/
def setAll (m : Mask) (ids : List Nat) : Mask := ids.foldl setBit m

/-- `IsSet(pos)` -/
def isSet (m : Mask) (x : Nat) : Bool := m.contains x

/-- `m.In(q)`: every bit of `q` is set in `m` -/
def isIn (m q : Mask) : Bool := q.all (fun x => m.contains x)

/-- `m.NotIn(q)`: no bit of `q` is set in `m` -/
def notIn (m q : Mask) : Bool := q.all (fun x => !m.contains x)

/-- `q.Equal(m)` (word-wise comparison of canonical word slices = comparison of the keys) -/
def equal (q m : Mask) : Bool := q == m

end MV.Model.ECSMask
