import MV.Model.C16Common
/-!
# Model of `toolkit/ranking/binary_search.go` (`ranking.BinarySearch[int,int]`)

Transcription of the Go code as it is:

* `scores` is the rank-ordered slice of `(competitorId, score)`, `comp` the `competitors` map
  (`SyncMap`, used sequentially here), `cap` is `rankCount`, `asc` the direction flag;
* the two binary searches (`GetRank`, `competitor`) are transcribed loop by loop.  Go's inclusive
  window `low..high` is kept as the half-open `lo..hi` with `hi = high+1` (so `high = mid-1` is
  `hi := mid`, and the empty window `high = low-1`, which `Competitor` really passes as `rank-1`
  for `rank = 0`, needs no negative number); `mid = (low+high)/2 = (lo+hi-1)/2`;
* the outer `for low <= high` loops run on fuel.  `competitor`'s loop always terminates; the tie
  branch of `GetRank` changes neither `low` nor `high` when both scans fail, i.e. the Go code would
  spin forever — the model answers `hang` when the fuel is gone.  `MV.Lemmas.Ranking` proves that
  under the representation invariant the fuel `len+1` is never exhausted;
* every slice access is guarded: an out-of-range index is the Go panic (`Res.panic`).

Core Lean only.
-/
namespace MV.Model

/-- `Cmp(s1, s2)` -/
def rcmp (asc : Bool) (s1 s2 : Int) : Int :=
  let result : Int := if s1 > s2 then 1 else if s1 < s2 then -1 else 0
  if asc then -result else result

structure Ranking where
  asc : Bool
  cap : Int
  comp : FMap
  scores : List (Int × Int)
  deriving Repr

namespace Ranking

/-- `NewBinarySearch(WithBinarySearchCount(k))`, `k ≤ 0` becomes 1; `none` = no option (100) -/
def new (asc : Bool) (count : Option Int) : Ranking :=
  let c : Int := match count with
    | none => 100
    | some k => if k ≤ 0 then 1 else k
  { asc := asc, cap := c, comp := [], scores := [] }

inductive Res where
  | ok (n : Nat) | errNotExist | errIndex | panic | hang
  deriving DecidableEq, Repr

inductive Scan where
  | found (i : Nat) | notFound | panic
  deriving DecidableEq, Repr

/-- `for i := mid + 1; i <= high; i++ { if scores[i].id == id { return i } }`  (`n = hi - i`) -/
def scanUp (l : List (Int × Int)) (id : Int) : Nat → Nat → Scan
  | _, 0 => .notFound
  | i, n + 1 =>
    match l[i]? with
    | none => .panic
    | some d => if d.1 = id then .found i else scanUp l id (i + 1) n

/-- `for i := mid - 1; i >= low; i-- { … }`: `k = mid - low` candidates `low+k-1, …, low` -/
def scanDown (l : List (Int × Int)) (id : Int) (lo : Nat) : Nat → Scan
  | 0 => .notFound
  | k + 1 =>
    match l[lo + k]? with
    | none => .panic
    | some d => if d.1 = id then .found (lo + k) else scanDown l id lo k

/-- the `for low <= high` loop of `GetRank` -/
def rankLoop (asc : Bool) (l : List (Int × Int)) (id cs : Int) : Nat → Nat → Nat → Res
  | 0, _, _ => .hang
  | f + 1, lo, hi =>
    if lo < hi then
      let mid := (lo + hi - 1) / 2
      match l[mid]? with
      | none => .panic
      | some d =>
        if d.1 = id then .ok mid
        else if rcmp asc d.2 cs = 0 then
          match scanUp l id (mid + 1) (hi - (mid + 1)) with
          | .found i => .ok i
          | .panic => .panic
          | .notFound =>
            match scanDown l id lo (mid - lo) with
            | .found i => .ok i
            | .panic => .panic
            | .notFound => rankLoop asc l id cs f lo hi      -- nothing changed: Go spins
        else if rcmp asc d.2 cs < 0 then rankLoop asc l id cs f lo mid
        else rankLoop asc l id cs f (mid + 1) hi
    else .errIndex

/-- `GetRank(id)` -/
def getRank (r : Ranking) (id : Int) : Res :=
  match r.comp.get id with
  | none => .errNotExist
  | some cs => rankLoop r.asc r.scores id cs (r.scores.length + 1) 0 r.scores.length

/-- `for low = mid + 1; low <= high; low++ { if Cmp(scores[low].Score, score) != 0 { break } }`;
answers the final `low` (`n = hi - i`), `none` = index panic -/
def tieScan (asc : Bool) (l : List (Int × Int)) (s : Int) : Nat → Nat → Option Nat
  | i, 0 => some i
  | i, n + 1 =>
    match l[i]? with
    | none => none
    | some d => if rcmp asc d.2 s ≠ 0 then some i else tieScan asc l s (i + 1) n

/-- the `for low <= high` loop of `competitor`; answers the final `low` -/
def insLoop (asc : Bool) (l : List (Int × Int)) (s : Int) : Nat → Nat → Nat → Res
  | 0, _, _ => .hang
  | f + 1, lo, hi =>
    if lo < hi then
      let mid := (lo + hi - 1) / 2
      match l[mid]? with
      | none => .panic
      | some d =>
        if rcmp asc d.2 s = 0 then
          match tieScan asc l s (mid + 1) (hi - (mid + 1)) with
          | none => .panic
          | some lo' => insLoop asc l s f lo' hi
        else if rcmp asc d.2 s < 0 then insLoop asc l s f lo mid
        else insLoop asc l s f (mid + 1) hi
    else .ok lo

/-- a rank-change event `(id, oldRank, newRank, oldScore, newScore)` as a row -/
def ev (id oldRank newRank oldScore newScore : Int) : List Int := [id, oldRank, newRank, oldScore, newScore]

/-- what is left of `competitor` after the search delivered `low` -/
def place (r : Ranking) (id oldScore oldRank score : Int) (low : Nat) : Ranking × List (List Int) :=
  let count := r.scores.length
  if low = count then
    if r.cap > 0 ∧ (count : Int) ≥ r.cap then (r, [])
    else
      ({ r with scores := r.scores ++ [(id, score)], comp := r.comp.set id score },
        [ev id oldRank count oldScore score])
  else
    -- `low == 0` and `low > 0` build the same slice: scores[:low] ++ [si] ++ scores[low:]
    let scores1 := r.scores.take low ++ (id, score) :: r.scores.drop low
    let comp1 := r.comp.set id score
    let e1 := ev id oldRank low oldScore score
    if r.cap ≤ 0 ∨ (scores1.length : Int) ≤ r.cap then
      ({ r with scores := scores1, comp := comp1 }, [e1])
    else
      let cnt := scores1.length - 1
      match scores1[cnt]? with
      | none => (r, [])   -- unreachable: `scores1` is non-empty
      | some si =>
        ({ r with scores := scores1.take cnt, comp := comp1.del si.1 },
          [e1, ev si.1 cnt (-1) si.2 si.2])

inductive Step where
  | done (r : Ranking) (events : List (List Int))
  | panic | hang
  deriving Repr

/-- `competitor(id, oldScore, oldRank, score, low, high)` with the window `lo..hi` (half-open) -/
def competitorIn (r : Ranking) (id oldScore oldRank score : Int) (lo hi : Nat) : Step :=
  match insLoop r.asc r.scores score (r.scores.length + 1) lo hi with
  | .ok low => let (r', es) := place r id oldScore oldRank score low; .done r' es
  | .hang => .hang
  | _ => .panic

/-- the cap test in front of a newcomer's search:
`rankCount > 0 && len(scores) >= rankCount && Cmp(score, scores[len-1].Score) <= 0` -/
def blocked (r : Ranking) (score : Int) : Bool :=
  if r.cap > 0 ∧ (r.scores.length : Int) ≥ r.cap then
    match r.scores[r.scores.length - 1]? with
    | some last => decide (rcmp r.asc score last.2 ≤ 0)
    | none => false      -- unreachable for cap ≥ 1; Go would panic
  else false

/-- `Competitor(id, score)` -/
def competitor (r : Ranking) (id score : Int) : Step :=
  match r.comp.get id with
  | some v =>
    if rcmp r.asc v score = 0 then .done r []
    else
      match r.getRank id with
      | .ok rank =>
        let r1 := { r with scores := r.scores.eraseIdx rank, comp := r.comp.del id }
        if rcmp r.asc score v > 0 then competitorIn r1 id v rank score 0 rank
        else competitorIn r1 id v rank score rank r1.scores.length
      | .hang => .hang
      | .panic => .panic
      | _ => .done r []
  | none =>
    if r.blocked score then .done r []
    else competitorIn r id 0 (-1) score 0 r.scores.length

/-- `RemoveCompetitor(id)` -/
def remove (r : Ranking) (id : Int) : Step :=
  if (r.comp.get id).isNone then .done r []
  else
    match r.getRank id with
    | .ok rank =>
      match r.scores[rank]? with
      | none => .panic
      | some d =>
        .done { r with scores := r.scores.eraseIdx rank, comp := r.comp.del id } [ev id rank (-1) d.2 d.2]
    | .hang => .hang
    | .panic => .panic
    | _ => .done { r with comp := r.comp.del id } []

/-- `GetCompetitor(rank)` -/
def getCompetitor (r : Ranking) (rank : Int) : Option Int :=
  if rank < 0 ∨ rank ≥ r.scores.length then none else (r.scores[rank.toNat]?).map (·.1)

/-- `GetCompetitorWithRange(start, end)` (1-based, inclusive) -/
def getRange (r : Ranking) (s e : Int) : Option (List Int) :=
  if s < 1 ∨ e < s then none
  else
    let total : Int := r.scores.length
    if s > total then none
    else
      let e' := if e > total then total else e
      some (((r.scores.drop (s - 1).toNat).take (e' - (s - 1)).toNat).map (·.1))

/-- `GetScore(id)` -/
def getScore (r : Ranking) (id : Int) : Option Int := r.comp.get id

/-- `GetAllCompetitor()` -/
def all (r : Ranking) : List Int := r.scores.map (·.1)

/-- `Size()` -/
def size (r : Ranking) : Nat := r.comp.size

/-- `Clear()` -/
def clear (r : Ranking) : Ranking := { r with comp := [], scores := [] }

/-! ## operation language -/

inductive Op where
  | competitor (id s : Int) | remove (id : Int) | rank (id : Int) | at (r : Int) | range (s e : Int)
  | score (id : Int) | all | size | clear | dump
  deriving DecidableEq, Repr

/-- error codes: 1 = ErrNotExistCompetitor, 2 = ErrIndexErr, 3 = ErrNonexistentRanking -/
def step (r : Ranking) : Op → Ranking × Out
  | .competitor id s => match r.competitor id s with
      | .done r' es => (r', .rows es)
      | .panic => (r, .panic)
      | .hang => (r, .hang)
  | .remove id => match r.remove id with
      | .done r' es => (r', .rows es)
      | .panic => (r, .panic)
      | .hang => (r, .hang)
  | .rank id => match r.getRank id with
      | .ok n => (r, .int n)
      | .errNotExist => (r, .err 1)
      | .errIndex => (r, .err 2)
      | .panic => (r, .panic)
      | .hang => (r, .hang)
  | .at k => match r.getCompetitor k with
      | some id => (r, .int id)
      | none => (r, .err 3)
  | .range s e => match r.getRange s e with
      | some l => (r, .ints l)
      | none => (r, .err 3)
  | .score id => match r.getScore id with
      | some s => (r, .int s)
      | none => (r, .err 1)
  | .all => (r, .ints r.all)
  | .size => (r, .int r.size)
  | .clear => (r.clear, .unit)
  | .dump => (r, .rows (r.scores.map (fun d => [d.1, (r.getScore d.1).getD (-999)])))

def run (r : Ranking) : List Op → List Out
  | [] => []
  | op :: ops => let (r', o) := step r op; o :: run r' ops

/-- final state after a list of operations -/
def exec (r : Ranking) (ops : List Op) : Ranking := ops.foldl (fun r op => (step r op).1) r

end Ranking
end MV.Model
