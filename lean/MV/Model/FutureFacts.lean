/-!
# T-facts table for the ask machinery: the skeleton of shared-memory operations (hook lines, atomics,
registry calls, the timer, the mutex, every assignment) of each function `MV.Model.Future.trans` was
transcribed from.  The harness regenerates these skeletons from /repo's source with go/ast on every run
(`future-facts` suite) and compares them with this table, so a re-ordered, removed or added operation
breaks the tie even if the hook lines stay where they were.

Correspondence to `trans` (reviewed by hand, exercised by the T-sched suite `future`):
`New` = new (reference stored first, then `rc.Register` = LoadOrStore + `Initialize`) — `Initialize` =
init; arm (the timer callback is `Close(ErrorFutureTimeout)` = timer → cas) — `DeliveryUserMessage` =
dLoad, then `Close(err)` for an error found inside the wrapper, `complete(message, nil)` otherwise —
`Close`/`complete` = cas; setRes (message and err, both before close(done)); closeDone; stopT; unreg;
cLock — `Forward` = fLock — `execForward` = execFwd — `Result` = rWait; rRead — `nextChildGuid` = alloc
(one atomic add) — the three `FutureAsk` entry points: allocate, `future.New` under the derived
address, `deliveryUserMessage(target, target, f.Ref(), nil, message)` (request wrapped, the future's
reference as sender).
-/
namespace MV.Model.FutureFacts

def future_New : String :=
  "fp := &futureProcess[M]{ done: make(chan struct{}), timeout: timeout, } ; fp.ref = id ; verifhook.At(\"fut.reg\") ; rc.Register(id, fp) ; return"

def future_Initialize : String :=
  "verifhook.At(\"fut.init\") ; f.rc = rc ; if f.timeout > 0 { ; verifhook.At(\"fut.arm\") ; f.timer = time.AfterFunc(…, func() { ; f.Close(ErrorFutureTimeout) ; }) ; }"

def future_DeliveryUserMessage : String :=
  "verifhook.At(\"fut.dload\") ; if f.closed.Load() { ; return ; } ; reply := message ; wrapper, ok := message.(*prc.MessageWrapper) ; if ok { ; reply = wrapper.Message ; } ; typeswitch m := reply.(type) { ; case error: ; f.Close(m) ; default: ; f.complete(message, nil) ; }"

def future_DeliverySystemMessage : String :=
  "f.DeliveryUserMessage(receiver, sender, forward, message)"

def future_Close : String :=
  "f.complete(nil, reason)"

def future_complete : String :=
  "verifhook.At(\"fut.cas\") ; if !f.closed.CompareAndSwap(false, true) { ; return ; } ; verifhook.At(\"fut.err\") ; f.message = message ; f.err = reason ; verifhook.At(\"fut.done\") ; close(f.done) ; verifhook.At(\"fut.stop\") ; if f.timer != nil { ; f.timer.Stop() ; } ; verifhook.At(\"fut.unreg\") ; f.rc.Unregister(f.ref, f.ref) ; verifhook.At(\"fut.lock\") ; f.forwardsMutex.Lock() ; defer f.forwardsMutex.Unlock() ; f.execForward()"

def future_Forward : String :=
  "verifhook.At(\"fut.flock\") ; f.forwardsMutex.Lock() ; defer f.forwardsMutex.Unlock() ; f.forwards = append(f.forwards, refs...) ; if f.closed.Load() { ; f.execForward() ; }"

def future_execForward : String :=
  "if len(f.forwards) == 0 { ; return ; } ; if f.err != nil { ; m = f.err ; } ; range f.forwards { ; f.rc.GetProcess(ref).DeliveryUserMessage(ref, f.ref, ref, m) ; } ; f.forwards = nil"

def future_Result : String :=
  "verifhook.At(\"fut.wait\") ; recv <-f.done ; verifhook.At(\"fut.read\") ; typeswitch msg := f.message.(type) { ; case nil: ; case *prc.MessageWrapper: ; if msg.Message != nil { ; m = msg.Message.(M) ; } ; default: ; m = f.message.(M) ; } ; return"

def future_IsTerminated : String :=
  "return f.closed.Load()"

def context_nextChildGuid : String :=
  "return ctx.childGuid.Add(1)"

def context_FutureAsk : String :=
  "if len(timeout) > 0 { ; t = timeout[0] ; } ; f := future.New[Message](ctx.system.rc, ctx.ref.Derivation(convert.FastUint64ToString(ctx.nextChildGuid())), t) ; ctx.deliveryUserMessage(target, target, f.Ref(), nil, message) ; return"

def context_deliveryUserMessage : String :=
  "message = prc.WrapMessage(sender, receiver, message) ; process := ctx.findProcess(receiverProcess) ; process.DeliveryUserMessage(receiver, sender, forward, message)"

def system_FutureAsk : String :=
  "return sys.guard.FutureAsk(target, message, timeout...)"

def typed_FutureAsk : String :=
  "if len(timeout) > 0 { ; t = timeout[0] ; } ; typeswitch v := ctx.(type) { ; case *ActorSystem: ; c = v.guard ; system = v ; case *actorContext: ; c = v ; system = c.system ; default: ; range futureAskTypes { ; system = futureAskType(ctx) ; if system != nil { ; c = system.guard ; break ; } ; } ; } ; f := future.New[M](c.system.rc, c.ref.Derivation(convert.FastUint64ToString(c.nextChildGuid())), t) ; c.deliveryUserMessage(target, target, f.Ref(), nil, message) ; return"

def table : List ((String × String) × String) := [
  (("future", "New"), future_New),
  (("future", "Initialize"), future_Initialize),
  (("future", "DeliveryUserMessage"), future_DeliveryUserMessage),
  (("future", "DeliverySystemMessage"), future_DeliverySystemMessage),
  (("future", "Close"), future_Close),
  (("future", "complete"), future_complete),
  (("future", "Forward"), future_Forward),
  (("future", "execForward"), future_execForward),
  (("future", "Result"), future_Result),
  (("future", "IsTerminated"), future_IsTerminated),
  (("context", "nextChildGuid"), context_nextChildGuid),
  (("context", "FutureAsk"), context_FutureAsk),
  (("context", "deliveryUserMessage"), context_deliveryUserMessage),
  (("system", "FutureAsk"), system_FutureAsk),
  (("typed", "FutureAsk"), typed_FutureAsk)
]

end MV.Model.FutureFacts
