import MV.Model.Conc
/-!
# Instruction-level model of the per-peer sender of the remoting layer
(`engine/prc/shared_stream_process.go`: `packMessage`, `activation`, `send`)

One `trans` step = one shared-memory operation of the Go code: the operation (or critical section)
that follows a `verifhook.At("ssp.…")` line.  A critical section `lock; …; unlock` is one step: every
access to `batches` is under `c.lock`, so critical sections are atomic with respect to each other.

PC ↔ Go (hook site in brackets):

* appender (`packMessage` after the encoding, which touches nothing shared):
  `app m` [ssp.app] `lock; batches = append(batches, dm); unlock` → `cas` [ssp.cas] the activation CAS
  idle→active; on success `go func(){…}` = a new thread at `cut`
* sender goroutine, `send()`: `cut` [ssp.cut] `lock; n := len(batches); if n < limit {take all} else
  {take [:limit], keep [limit:]}; unlock`; an empty batch leaves the loop (→ `idle`), otherwise
  `send b` [ssp.send] `stream.Send(b)`: accepted → back to `cut`; refused → `shared.detachStreamOf(address, stream)`
  (same quantum: the stream leaves the table, and unless it was closed before it is marked
  terminated, gets a Farewell and is closed) → `drop` [ssp.drop] `lock; batches = nil; unlock` → `idle`
* sender goroutine, the loop of `activation`: `idle` [ssp.idle] `state.Store(idle)` → `recheck`
  [ssp.recheck] `rlock; empty := len(batches) == 0; runlock` → `recas empty` [ssp.recas]: `empty` ends the
  goroutine, otherwise CAS idle→active: success → `cut`, failure → the goroutine ends
* environment: `brk b` — the stream starts (`true`) / stops (`false`) refusing `Send`
  (a gRPC stream never recovers; the model allows it, which only makes the theorems stronger)

`limit` is `sharedStreamBatchLimit` (1024); it is a parameter so that the theorems are about every
positive limit and the non-vacuity examples can use a small one.

Ghost fields (not in the Go code): `appended` = append order under the lock, `hist` = every batch
that left the queue, in order, with the stream's verdict (`true` accepted; `false` refused or
dropped), `held` = the batch the sender holds between the cut and the `Send`.
-/
namespace MV.Model.StreamGate
open MV.Model.Conc

abbrev Msg := Nat

structure G where
  active : Bool := false           -- state == sharedStreamProcessStateActive
  q : List Msg := []               -- c.batches
  broken : Bool := false           -- the stream refuses Send
  attached : Bool := true          -- shared.streams still holds the stream of this peer
  terminated : Bool := false       -- the stream process reports IsTerminated (its stream was detached)
  farewells : Nat := 0             -- Farewell messages handed to the stream by detachStream
  closes : Nat := 0                -- stream.Close() calls by detachStream
  -- ghost
  appended : List Msg := []
  hist : List (Bool × List Msg) := []
  held : Option (List Msg) := none
  deriving Repr, DecidableEq

inductive PC where
  | app (m : Msg) | cas | done
  | cut | send (b : List Msg) | drop | idle | recheck | recas (empty : Bool)
  | brk (b : Bool)
  deriving DecidableEq, Repr

/-- the cut of `send()`: everything when fewer than `limit` are queued, else the first `limit` -/
def cutBatch (limit : Nat) (q : List Msg) : List Msg × List Msg :=
  if q.length < limit then (q, []) else (q.take limit, q.drop limit)

def trans (limit : Nat) (g : G) : PC → Option (G × PC × List PC)
  | .app m => some ({ g with q := g.q ++ [m], appended := g.appended ++ [m] }, .cas, [])
  | .cas => if g.active then some (g, .done, []) else some ({ g with active := true }, .done, [.cut])
  | .done => none
  | .cut =>
      match cutBatch limit g.q with
      | ([], rest) => some ({ g with q := rest }, .idle, [])
      | (m :: b, rest) => some ({ g with q := rest, held := some (m :: b) }, .send (m :: b), [])
  | .send b =>
      if g.broken then
        some ({ g with attached := false, terminated := true,
                       farewells := g.farewells + (!g.terminated).toNat,
                       closes := g.closes + (!g.terminated).toNat,
                       hist := g.hist ++ [(false, b)], held := none }, .drop, [])
      else some ({ g with hist := g.hist ++ [(true, b)], held := none }, .cut, [])
  | .drop => some ({ g with q := [], hist := g.hist ++ [(false, g.q)] }, .idle, [])
  | .idle => some ({ g with active := false }, .recheck, [])
  | .recheck => some (g, .recas g.q.isEmpty, [])
  | .recas e =>
      if e then some (g, .done, [])
      else if g.active then some (g, .done, []) else some ({ g with active := true }, .cut, [])
  | .brk b => some ({ g with broken := b }, .done, [])

/-- threads the environment may start at any time: appenders and stream failures/recoveries -/
def allowed : PC → Bool
  | .app _ | .brk _ => true
  | _ => false

def sys (limit : Nat) : Sys G PC := { trans := trans limit, allowed := allowed }

abbrev State := St G PC

def init : State := { g := {}, ths := [] }

/-- the batches the stream accepted, in order (what the fake stream of the harness records, what a
real stream carries to the peer) -/
def sentBatches (g : G) : List (List Msg) := (g.hist.filter (·.1)).map (·.2)

/-- every message that left the queue, in order -/
def removed (g : G) : List Msg := g.hist.flatMap (·.2)

def heldList (g : G) : List Msg := g.held.getD []

def siteName : PC → String
  | .app _ => "ssp.app" | .cas => "ssp.cas" | .done => "done" | .cut => "ssp.cut"
  | .send _ => "ssp.send" | .drop => "ssp.drop" | .idle => "ssp.idle" | .recheck => "ssp.recheck"
  | .recas _ => "ssp.recas" | .brk _ => "fs.fail"

/-- the batch limit of the shipped code -/
def goLimit : Nat := 1024

end MV.Model.StreamGate
