import MV.Model.Conc
/-!
# Instruction-level model of the lock-free mailboxes
(`engine/vivid/mailbox/lock_free.go`, `global_ordered_lock_free.go` — the two files are the same
program over differently named types.)

One `trans` step = one shared-memory operation of the Go code (the operation that follows a
`verifhook.At("mb.…")` line), or one handler boundary of the recipient.  The two `LFQueue`s are
atomic FIFO lists at this layer (justified by C15's queue theorems).  `Dispatch(f)` = a new thread
that will run `f` exactly once, at any later time.

PC ↔ Go (names of hook sites in brackets):

* senders: `uPush m` [mb.upush] → `uInc` [mb.uinc] → `cas` [mb.cas];  `sPush m` [mb.spush] → `sInc` [mb.sinc] → `cas`
* `susp` [mb.susp] (Suspend);  `res` [mb.res] (Resume's store) → `cas`
* `cas`: `dispatch()`: CAS idle→running, on success `Dispatch(process)` (spawns a runner at `spop`)
* runner, `processHandle`: `spop` [mb.spop] → `sdec m` [mb.sdec] → handler;  `chksusp` [mb.chksusp];
  `upop` [mb.upop] → `udec m` [mb.udec] → handler
* handler (the recipient, opaque user code): `hEnter sys m` [h.enter] → `hIn sys m` [h.in] → back to `spop`,
  or, if the handler panics, → `acc` [h.acc] (`ProcessAccident` inside the runner's recover) → `idle`
* runner, `process`: `idle` [mb.idle] (store idle) → `ldSys` [mb.recheck] → `ldSusp` → `ldUsr` → `recas`
  (the three loads and the CAS of the re-check are separate steps here; in the Go code they follow one
  hook line, see `isSite`)
-/
namespace MV.Model.Mailbox
open MV.Model.Conc

structure Msg where
  id : Nat
  panics : Bool
  deriving DecidableEq, Repr

inductive Event where
  | pop (sys : Bool) (m : Msg)     -- ghost: message taken from a queue
  | enter (sys : Bool) (m : Msg)   -- recipient.Process{System,User}Message begins
  | exit (sys : Bool) (m : Msg)    -- … returns (or panics)
  | accident                      -- recipient.ProcessAccident ran
  deriving DecidableEq, Repr

structure G where
  running : Bool := false          -- status == mailboxStatusRunning
  susp : Bool := false             -- suspended == 1
  sysNum : Int := 0
  userNum : Int := 0
  sysQ : List Msg := []
  userQ : List Msg := []
  -- ghost
  pushedSys : List Msg := []       -- linearisation order of pushes
  pushedUsr : List Msg := []
  held : Option (Bool × Msg) := none   -- message popped and not yet handed to the handler
  trace : List Event := []
  deriving Repr

inductive PC where
  | uPush (m : Msg) | uInc | sPush (m : Msg) | sInc | susp | res | cas | done
  | spop | sdec (m : Msg) | chksusp | upop | udec (m : Msg)
  | hEnter (sys : Bool) (m : Msg) | hIn (sys : Bool) (m : Msg) | acc
  | idle | ldSys | ldSusp | ldUsr | recas
  deriving DecidableEq, Repr

def trans (g : G) : PC → Option (G × PC × List PC)
  | .uPush m => some ({ g with userQ := g.userQ ++ [m], pushedUsr := g.pushedUsr ++ [m] }, .uInc, [])
  | .uInc => some ({ g with userNum := g.userNum + 1 }, .cas, [])
  | .sPush m => some ({ g with sysQ := g.sysQ ++ [m], pushedSys := g.pushedSys ++ [m] }, .sInc, [])
  | .sInc => some ({ g with sysNum := g.sysNum + 1 }, .cas, [])
  | .susp => some ({ g with susp := true }, .done, [])
  | .res => some ({ g with susp := false }, .cas, [])
  | .cas => if g.running then some (g, .done, []) else some ({ g with running := true }, .done, [.spop])
  | .done => none
  | .spop => match g.sysQ with
      | [] => some (g, .chksusp, [])
      | m :: rest => some ({ g with sysQ := rest, held := some (true, m), trace := g.trace ++ [.pop true m] }, .sdec m, [])
  | .sdec m => some ({ g with sysNum := g.sysNum - 1 }, .hEnter true m, [])
  | .chksusp => if g.susp then some (g, .idle, []) else some (g, .upop, [])
  | .upop => match g.userQ with
      | [] => some (g, .idle, [])
      | m :: rest => some ({ g with userQ := rest, held := some (false, m), trace := g.trace ++ [.pop false m] }, .udec m, [])
  | .udec m => some ({ g with userNum := g.userNum - 1 }, .hEnter false m, [])
  | .hEnter sys m => some ({ g with held := none, trace := g.trace ++ [.enter sys m] }, .hIn sys m, [])
  | .hIn sys m => some ({ g with trace := g.trace ++ [.exit sys m] }, if m.panics then .acc else .spop, [])
  | .acc => some ({ g with trace := g.trace ++ [.accident] }, .idle, [])
  | .idle => some ({ g with running := false }, .ldSys, [])
  | .ldSys => if g.sysNum > 0 then some (g, .recas, []) else some (g, .ldSusp, [])
  | .ldSusp => if g.susp then some (g, .done, []) else some (g, .ldUsr, [])
  | .ldUsr => if g.userNum > 0 then some (g, .recas, []) else some (g, .done, [])
  | .recas => if g.running then some (g, .done, []) else some ({ g with running := true }, .spop, [])

/-- threads the environment may start at any time: senders of user and system messages,
suspenders, resumers -/
def allowed : PC → Bool
  | .uPush _ | .sPush _ | .susp | .res => true
  | _ => false

def sys : Sys G PC := { trans := trans, allowed := allowed }

abbrev State := St G PC

def init : State := { g := {}, ths := [] }

/-- program counters at which the Go code has a hook line (the scheduling quanta of T-sched):
everything except the inner steps of the re-check expression -/
def isSite : PC → Bool
  | .ldSusp | .ldUsr | .recas | .done => false
  | _ => true

def siteName : PC → String
  | .uPush _ => "mb.upush" | .uInc => "mb.uinc" | .sPush _ => "mb.spush" | .sInc => "mb.sinc"
  | .susp => "mb.susp" | .res => "mb.res" | .cas => "mb.cas" | .done => "done"
  | .spop => "mb.spop" | .sdec _ => "mb.sdec" | .chksusp => "mb.chksusp" | .upop => "mb.upop"
  | .udec _ => "mb.udec" | .hEnter _ _ => "h.enter" | .hIn _ _ => "h.in" | .acc => "h.acc"
  | .idle => "mb.idle" | .ldSys => "mb.recheck" | .ldSusp => "~ldsusp" | .ldUsr => "~ldusr" | .recas => "~recas"

/-- one scheduling quantum of the instrumented code: thread `i` executes the operation it is parked
at and continues until it parks at the next hook site (or finishes). Fuel 4 suffices (the longest
chain of internal steps is ldSys → ldSusp → ldUsr → recas). -/
def quantum (s : State) (i : Nat) : Option State :=
  match step sys s i with
  | none => none
  | some s1 =>
    let rec go (fuel : Nat) (s : State) : State :=
      match fuel with
      | 0 => s
      | fuel + 1 =>
        match s.ths[i]? with
        | some pc => if isSite pc || pc == .done then s else
            match step sys s i with
            | some s' => go fuel s'
            | none => s
        | none => s
    some (go 4 s1)

end MV.Model.Mailbox
