/-!
# T-facts table for the remoting sender and receiver: the skeleton of shared-memory operations
(locks, queue appends, atomics, stream operations, registry lookups, hook lines) of each function of
`engine/prc/shared_stream_process.go` and `engine/prc/shared.go` that the models
`MV.Model.StreamGate.trans`, `MV.Model.Link.pack/unpack/deliverRoute/Chan.step` and
`MV.Model.LinkSys` were transcribed from.  The harness regenerates these skeletons from /repo's
source with go/ast on every run (`streamgate-facts` suite) and compares them with this table, so a
re-ordered, removed or added operation breaks the tie even if the hook lines stay put.

Correspondence to the models (reviewed by hand, exercised by the T-sched / T-diff suites):
`packMessage` = error → SharedErrorMessage (bare and inside a wrapper), encode, then `app` (lock;
append; unlock) and `activation` — `activation` = `cas` (spawns the goroutine: `cut` …), then
`idle`; `recheck` (rlock; len; runlock); `recas` — `send` = `cut` (lock; len; take; unlock), `send b`
(stream.Send; on error `detachStreamOf`), `drop` (lock; nil; unlock) — `IsTerminated`/`Terminate` =
the `terminated` flag — `detachStreamOf`/`closeStream` = the failure branch of `send b` (table entry
removed only if it is this stream; terminate, Farewell, Close once) — `onDeliveryMessage` =
`unpack`, `deliverRoute` (lookup, redirect only on nil), wrap, deliver by the system flag —
`onBatchDeliveryMessage` = in order — `streaming` = attach, loop Recv → deliver, detach itself at the end — `attachStream` = table entry + live
set — `Close` = detach every table entry, close the displaced (orphan) streams, GracefulStop —
`clientStream.Send` / `serverStream.Send` / `serverStream.Close` = one sender at a time per gRPC stream.
-/
namespace MV.Model.StreamGateFacts

def packMessageSk : String :=
  "if ok { ; } ; typeswitch { ; case *MessageWrapper: ; if ok { ; } ; name, data, err := c.shared.config.codec.Encode(inner) ; if err != nil { ; panic(err) ; } ; default: ; name, data, err := c.shared.config.codec.Encode(message) ; if err != nil { ; panic(err) ; } ; } ; verifhook.At(\"ssp.app\") ; c.lock.Lock() ; c.batches = append(c.batches, dm) ; c.lock.Unlock() ; c.activation()"

def activationSk : String :=
  "verifhook.At(\"ssp.cas\") ; if c.state.CompareAndSwap(sharedStreamProcessStateIdle, sharedStreamProcessStateActive) { ; verifhook.At(\"ssp.go\") ; go { ; verifhook.At(\"ssp.run\") ; for { ; c.send() ; verifhook.At(\"ssp.idle\") ; c.state.Store(sharedStreamProcessStateIdle) ; verifhook.At(\"ssp.recheck\") ; c.lock.RLock() ; empty := len(c.batches) == 0 ; c.lock.RUnlock() ; verifhook.At(\"ssp.recas\") ; if empty { ; break ; } else { ; if !c.state.CompareAndSwap(sharedStreamProcessStateIdle, sharedStreamProcessStateActive) { ; break ; } ; } ; } ; verifhook.At(\"ssp.end\") ; } ; }"

def sendSk : String :=
  "for { ; verifhook.At(\"ssp.cut\") ; c.lock.Lock() ; n := len(c.batches) ; if n < sharedStreamBatchLimit { ; } else { ; } ; c.lock.Unlock() ; if len(messages) == 0 { ; break ; } ; if len(messages) == 1 { ; } else { ; } ; verifhook.At(\"ssp.send\") ; err := c.stream.Send(sm) ; if err != nil { ; c.shared.detachStreamOf(c.address, c.stream) ; verifhook.At(\"ssp.drop\") ; c.lock.Lock() ; c.lock.Unlock() ; break ; } ; }"

def isTerminatedSk : String :=
  "c.closed.Load() ; return"

def terminateSk : String :=
  "c.closed.Store(true)"

def deliveryUserMessageSk : String :=
  "c.packMessage(receiver, sender, forward, message, false)"

def deliverySystemMessageSk : String :=
  "c.packMessage(receiver, sender, forward, message, true)"

def detachStreamSk : String :=
  "stream, loaded := s.streams.LoadAndDelete(address) ; if loaded { ; s.closeStream(stream) ; }"

def detachStreamOfSk : String :=
  "current, exist := s.streams.Load(address) ; if exist && current == stream { ; s.streams.Delete(address) ; } ; s.closeStream(stream)"

def closeStreamSk : String :=
  "s.liveLock.Lock() ; s.liveLock.Unlock() ; if stream.IsTerminated() { ; return ; } ; stream.Terminate(nil) ; _ = stream.Send(&SharedMessage{ MessageType: &SharedMessage_Farewell{&Farewell{Address: s.rc.GetPhysicalAddress()}}, }) ; stream.Close()"

def onDeliveryMessageSk : String :=
  "message, err := s.config.codec.Decode(m.MessageType, m.MessageData) ; if err != nil { ; panic(err) ; } ; typeswitch { ; case *SharedErrorMessage: ; message = errors.New(v.Message) ; } ; receiverProcess := s.rc.GetProcess(receiver) ; if receiverProcess == nil && s.config.unknownReceiverRedirect != nil { ; receiver = s.config.unknownReceiverRedirect(message) ; if receiver != nil { ; receiverProcess = s.rc.GetProcess(receiver) ; } ; } ; message = WrapMessage(sender, receiver, message) ; if m.System { ; receiverProcess.DeliverySystemMessage(receiver, sender, nil, message) ; } else { ; receiverProcess.DeliveryUserMessage(receiver, sender, nil, message) ; }"

def onBatchDeliveryMessageSk : String :=
  "range message.Messages { ; s.onDeliveryMessage(stream, address, deliveryMessage) ; }"

def streamingSk : String :=
  "s.attachStream(address, stream) ; range s.config.shareOpenedHooks { ; } ; defer { ; s.detachStreamOf(address, stream) ; range s.config.shareClosedHooks { ; } ; } ; for { ; message, err = stream.Recv() ; if err != nil { ; if errors.Is(err, io.EOF) { ; return ; } ; _, exist := s.streams.Load(address) ; if !exist { ; return ; } ; return ; } ; typeswitch { ; case *SharedMessage_DeliveryMessage: ; s.onDeliveryMessage(stream, address, m.DeliveryMessage) ; case *SharedMessage_BatchDeliveryMessage: ; s.onBatchDeliveryMessage(stream, address, m.BatchDeliveryMessage) ; case *SharedMessage_Farewell: ; return ; } ; }"

def attachStreamSk : String :=
  "s.streams.Store(address, stream) ; s.liveLock.Lock() ; if s.live == nil { ; } ; s.liveLock.Unlock()"

def closeSk : String :=
  "if s.state.Load() == sharedStateShared { ; if len(err) > 0 { ; range err { ; if e != nil { ; return ; } ; } ; } ; } ; if !s.state.CompareAndSwap(sharedStateShared, sharedStateClosing) { ; return ; } ; s.streams.Range(func(key PhysicalAddress, value sharedStream) bool { s.detachStream(key) return true }) ; s.liveLock.Lock() ; orphans := make([]sharedStream, 0, len(s.live)) ; range s.live { ; orphans = append(orphans, stream) ; } ; s.liveLock.Unlock() ; range orphans { ; s.closeStream(stream) ; } ; s.grpc.GracefulStop() ; s.state.Store(sharedStateClosed)"

def clientStream_SendSk : String :=
  "c.sendLock.Lock() ; defer c.sendLock.Unlock() ; c.stream.Send(message) ; return"

def serverStream_SendSk : String :=
  "s.sendLock.Lock() ; defer s.sendLock.Unlock() ; s.stream.Send(message) ; return"

def serverStream_CloseSk : String :=
  "s.sendLock.Lock() ; _ = s.stream.CloseSend() ; s.sendLock.Unlock() ; _ = s.cc.Close()"

def table : List (String × String) := [
  ("packMessage", packMessageSk),
  ("activation", activationSk),
  ("send", sendSk),
  ("IsTerminated", isTerminatedSk),
  ("Terminate", terminateSk),
  ("DeliveryUserMessage", deliveryUserMessageSk),
  ("DeliverySystemMessage", deliverySystemMessageSk),
  ("detachStream", detachStreamSk),
  ("detachStreamOf", detachStreamOfSk),
  ("closeStream", closeStreamSk),
  ("onDeliveryMessage", onDeliveryMessageSk),
  ("onBatchDeliveryMessage", onBatchDeliveryMessageSk),
  ("streaming", streamingSk),
  ("attachStream", attachStreamSk),
  ("Close", closeSk),
  ("clientStream.Send", clientStream_SendSk),
  ("serverStream.Send", serverStream_SendSk),
  ("serverStream.Close", serverStream_CloseSk)
]

end MV.Model.StreamGateFacts
