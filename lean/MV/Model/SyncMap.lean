import MV.Model.C16Common
/-!
# Models of `mappings/sync_map.go` (`SyncMap[int,int]`), `mappings/bucket.go` + `mutex_bucket.go`
# (`Bucket`, `MutexBucket`, `MutexBucketItem`) and `listings/sync_slice.go` (`SyncSlice[int]`)

Sequential semantics: each method is one atomic step on the protected Go map / slice (that every
method really holds the lock for its whole body is the business of the lock-discipline facts,
`MV.Model.LockFacts`).  Listings are canonical (sorted).

Core Lean only.
-/
namespace MV.Model

namespace SyncMap

inductive Op where
  | set (k v : Int) | get (k : Int) | exist (k : Int) | getExist (k : Int)
  | delete (k : Int) | deleteGet (k : Int) | deleteGetExist (k : Int) | deleteExist (k : Int)
  | clear | clearHandle | range | rangeStop (n : Int) | keys | slice | map | size
  | atom (k v d : Int)           -- `Atom(func(m){ m[k] = v; delete(m, d) })`
  deriving DecidableEq, Repr

/-- one method call on the protected map (zero value 0 for absent keys) -/
def step (m : FMap) : Op → FMap × Out
  | .set k v => (m.set k v, .unit)
  | .get k => (m, .int ((m.get k).getD 0))
  | .exist k => (m, .bool (m.get k).isSome)
  | .getExist k => (m, .intBool ((m.get k).getD 0) (m.get k).isSome)
  | .delete k => (m.del k, .unit)
  | .deleteGet k => (m.del k, .int ((m.get k).getD 0))
  | .deleteGetExist k => (m.del k, .intBool ((m.get k).getD 0) (m.get k).isSome)
  | .deleteExist k =>
      -- `if _, exist := data[key]; !exist { return exist }; delete(data, key); return true`
      if (m.get k).isSome then (m.del k, .bool true) else (m, .bool false)
  | .clear => ([], .unit)
  | .clearHandle => ([], .rows m.entries)
  | .range => (m, .rows m.entries)
  | .rangeStop n => (m, .int (if n ≤ 0 then (if m.size = 0 then 0 else 1) else min n.toNat m.size))
  | .keys => (m, .ints m.keys)
  | .slice => (m, .ints m.vals)
  | .map => (m, .rows m.entries)
  | .size => (m, .int m.size)
  | .atom k v d => ((m.set k v).del d, .unit)

def run (m : FMap) : List Op → List Out
  | [] => []
  | op :: ops => let (m', r) := step m op; r :: run m' ops

def exec (m : FMap) (ops : List Op) : FMap := ops.foldl (fun m op => (step m op).1) m

end SyncMap

/-! ## hash buckets -/

structure Bucket where
  buckets : List FMap
  deriving Repr

namespace Bucket

/-- the harness' hash function: `((key % size) + size) % size` -/
def hash (size : Nat) (k : Int) : Nat := (k % (size : Int)).toNat

def new (n : Nat) : Bucket := ⟨List.replicate n []⟩

def bucketOf (b : Bucket) (h : Nat → Int → Nat) (k : Int) : Nat := h b.buckets.length k

/-- `Len()`: sum of the bucket sizes -/
def len (b : Bucket) : Nat := b.buckets.foldl (fun n m => n + m.size) 0

inductive Op where
  | get (k : Int) | set (k v : Int) | del (k : Int) | len | clear
  | getOrSet (k v : Int) | getAndDel (k : Int)        -- `MutexBucketItem` methods through `GetBucket(k)`
  deriving DecidableEq, Repr

/-- one method call; `h` is the user-supplied hash function -/
def step (h : Nat → Int → Nat) (b : Bucket) : Op → Bucket × Out
  | .get k => match b.buckets[b.bucketOf h k]? with
      | none => (b, .panic)
      | some m => (b, .intBool ((m.get k).getD 0) (m.get k).isSome)
  | .set k v => match b.buckets[b.bucketOf h k]? with
      | none => (b, .panic)
      | some m => (⟨b.buckets.set (b.bucketOf h k) (m.set k v)⟩, .unit)
  | .del k => match b.buckets[b.bucketOf h k]? with
      | none => (b, .panic)
      | some m => (⟨b.buckets.set (b.bucketOf h k) (m.del k)⟩, .unit)
  | .len => (b, .int b.len)
  | .clear => (⟨b.buckets.map (fun _ => [])⟩, .unit)
  | .getOrSet k v => match b.buckets[b.bucketOf h k]? with
      | none => (b, .panic)
      | some m => match m.get k with
          | some x => (b, .intBool x true)
          | none => (⟨b.buckets.set (b.bucketOf h k) (m.set k v)⟩, .intBool v false)
  | .getAndDel k => match b.buckets[b.bucketOf h k]? with
      | none => (b, .panic)
      | some m => match m.get k with
          | some x => (⟨b.buckets.set (b.bucketOf h k) (m.del k)⟩, .intBool x true)
          | none => (b, .intBool 0 false)

def run (h : Nat → Int → Nat) (b : Bucket) : List Op → List Out
  | [] => []
  | op :: ops => let (b', r) := step h b op; r :: run h b' ops

def exec (h : Nat → Int → Nat) (b : Bucket) (ops : List Op) : Bucket := ops.foldl (fun b op => (step h b op).1) b

end Bucket

/-! ## SyncSlice -/

namespace SyncSlice

inductive Op where
  | get (i : Int) | getRange (s e : Int) | set (i v : Int) | append (vs : List Int)
  | release | clear | data
  deriving DecidableEq, Repr

/-- one method call.  `GetWithRange(s, e)` re-slices: for `e` beyond `len` the answer depends on
the capacity the runtime chose and is not determined here. -/
def step (l : List Int) : Op → List Int × Out
  | .get i => if i < 0 ∨ i ≥ l.length then (l, .panic) else (l, .int (l.getD i.toNat 0))
  | .getRange s e =>
      if s < 0 ∨ e < s then (l, .panic)
      else if e > l.length then (l, .undet)
      else (l, .ints ((l.drop s.toNat).take (e - s).toNat))
  | .set i v => if i < 0 ∨ i ≥ l.length then (l, .panic) else (l.set i.toNat v, .unit)
  | .append vs => (l ++ vs, .unit)
  | .release => ([], .unit)
  | .clear => ([], .unit)
  | .data => (l, .ints l)

def run (l : List Int) : List Op → List Out
  | [] => []
  | op :: ops => let (l', r) := step l op; r :: run l' ops

end SyncSlice
end MV.Model
