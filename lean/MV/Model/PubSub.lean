/-!
# Model of publish / subscribe (`engine/vivid/subscription_actor.go`, `actor_context.go`)

Two layers, both transcribed from the code as it is.

## 1. The subscription actor as a sequential machine (`SubActor`, `SubActor.step`)

`subscriptionActor` is an actor: it handles one message at a time (C01) and its mailbox is a FIFO
queue (C02), so it is a deterministic machine over the sequence of envelopes it receives:

* `subscribes map[Topic]map[uint64]*Subscription` is `topics` (the keys for which an inner map exists —
  `onUnsubscribeRequest` branches on that) and `subs : Topic → List Subscription` (the inner maps; the
  list order is the *iteration order parameter*: Go iterates maps in random order, the model iterates
  in ascending id; `MV.Props.C10.C10_iteration_order_irrelevant` shows that no subscriber can tell),
* `guid`, `sas` (the keys of the map; the value is determined by the key:
  `NewActorRef(address, "/user/sub")`),
* `self`, the node's own physical address (`onSharedSubscriptionStatusChangedMessage` compares with it),
* `onSubscribeRequest`, `onUnsubscribeRequest`, `onLocalPublishRequest` (broadcast to every entry of
  `sas` iff `len(sas) > 0` and the codec encodes the payload; then the local fan-out with
  `ctx.Sender()` as sender), `onPublishRequestBroadcast` (decode, fan out with `m.Publisher` as
  sender), `onSharedSubscriptionStatusChangedMessage`.

The outputs of a turn are *effects*: `deliver` (= `deliveryUserMessage(subscriber, subscriber,
sender, nil, message)`), `replySub` / `replyNil` (= `ctx.Reply`), `tellRemote` (= `ctx.Tell(ref,
broadcast)`).

## 2. The actors around it (`Sys`, `Sys.step`)

An interleaving model: the subscription actor's user mailbox `saQ` and every actor's mailbox `mbox`
are FIFO lists (that is what C02 proves of the real mailboxes); one `Act` is one atomic step:

* `subscribeCall r t` — the first half of `ctx.Subscribe(t)`: enqueue a `SubscribeRequest` and block
  (`waiting`); the second half — the future completes, `ctx.subscriptions[id] = sub` — is part of
  the subscription actor's turn that replies (`applyEff … replySub`): the caller does nothing in
  between and the assignment touches only the caller's own state. The 1 s timeout of that ask is
  not modelled (assumption of the property). `Subscribe("")` panics before anything is sent,
* `unsubscribe r sub` — `ctx.UnSubscribe`: tell + `delete(ctx.subscriptions, id)`,
* `publish r t p` — `ctx.Publish`: an ask with `r` as sender (`system.Publish` is the guard's),
* `saStep` — one turn of the subscription actor, effects applied at once (`deliveryUserMessage`
  pushes into the subscriber's mailbox inside the turn; an unregistered subscriber ⇒ dead letter; a
  `Tell` to another node's subscription actor goes into `link` — the own address is never among them,
  `MV.Props.C10.C10_no_self_broadcast`),
* `handle r` — `r` takes the next publication from its mailbox (a terminated actor's leftovers
  become dead letters: `ProcessUserMessage` with `status >= terminating`),
* `restart r` / `terminate r` — `tryRestarted` / `tryTerminated`: `UnSubscribe` for everything in
  `ctx.subscriptions`, new incarnation / unregistered,
* `spawn r` — `ActorOf`: a fresh context (an absent actor's record is `Actor.none` in every reachable
  state, so only status and incarnation are written),
* `inject e` — an envelope arriving from another node's link.

Ghost fields (`handled`, `dead`, `processed`, `published`, `inc`) record what happened; they influence nothing.

Topics are natural numbers, `0` encodes the empty string. Core Lean only (linked into `oracle-c10`).
-/
namespace MV.Model.PubSub

abbrev Topic := Nat

/-- the topic `""` -/
def emptyTopic : Topic := 0

/-- an actor reference: physical address (node) and logical address -/
structure Ref where
  node : Nat
  id : Nat
deriving DecidableEq, Repr, Inhabited

/-- `messages.Subscription` -/
structure Subscription where
  topic : Topic
  id : Nat
  subscriber : Ref
deriving DecidableEq, Repr

/-- a published message: its identity and whether `shared.GetCodec().Encode` accepts it -/
structure Payload where
  id : Nat
  enc : Bool
deriving DecidableEq, Repr

/-- the message types `subscriptionActor.OnReceive` switches on (`other`: anything else) -/
inductive Msg where
  | subscribeRequest (topic : Topic) (subscriber : Ref)
  | unsubscribeRequest (topic : Topic) (id : Nat)
  | publishRequestBroadcast (topic : Topic) (payload : Payload) (publisher : Option Ref) (decodable : Bool)
  | localPublishRequest (topic : Topic) (payload : Payload)
  | statusChanged (address : Nat) (closed : Bool)
  | other
deriving DecidableEq, Repr

structure Envelope where
  sender : Option Ref
  msg : Msg
deriving DecidableEq, Repr

inductive Eff where
  /-- `deliveryUserMessage(to, to, sender, nil, payload)` -/
  | deliver (to : Ref) (sender : Option Ref) (payload : Nat)
  /-- `ctx.Reply(sub)` -/
  | replySub (to : Option Ref) (sub : Subscription)
  /-- `ctx.Reply(nil)` -/
  | replyNil (to : Option Ref)
  /-- `ctx.Tell(NewActorRef(address, "/user/sub"), &PublishRequestBroadcast{…, Publisher: publisher})` -/
  | tellRemote (address : Nat) (topic : Topic) (payload : Payload) (publisher : Option Ref)
deriving DecidableEq, Repr

/-! ## the subscription actor -/

structure SubActor where
  /-- `ctx.System().PhysicalAddress()`: the address of the node this subscription actor lives on -/
  self : Nat
  /-- keys of `subscribes` -/
  topics : List Topic
  /-- `subscribes[t]`, ascending id -/
  subs : Topic → List Subscription
  guid : Nat
  /-- keys of `sas`, in insertion order -/
  sas : List Nat

/-- state after `OnLaunch` on the node with physical address `self` -/
def SubActor.init (self : Nat) : SubActor := { self := self, topics := [], subs := fun _ => [], guid := 0, sas := [] }

/-- reading `s.subscribes[t]`: the nil map when the key is absent -/
def SubActor.lookup (s : SubActor) (t : Topic) : List Subscription :=
  if t ∈ s.topics then s.subs t else []

/-- `for _, subscription := range subs { deliveryUserMessage(subscriber, subscriber, sender, nil, message) }` -/
def fanout (l : List Subscription) (sender : Option Ref) (payload : Nat) : List Eff :=
  l.map (fun sub => Eff.deliver sub.subscriber sender payload)

def onSubscribeRequest (s : SubActor) (sender : Option Ref) (t : Topic) (r : Ref) : SubActor × List Eff :=
  let inner := s.lookup t
  let g := s.guid + 1
  let sub : Subscription := { topic := t, id := g, subscriber := r }
  ({ self := s.self,
     topics := if t ∈ s.topics then s.topics else s.topics ++ [t],
     subs := fun t' => if t' = t then inner.filter (fun x => x.id != g) ++ [sub] else s.subs t',
     guid := g,
     sas := s.sas },
   [Eff.replySub sender sub])

def onUnsubscribeRequest (s : SubActor) (t : Topic) (i : Nat) : SubActor × List Eff :=
  if t ∈ s.topics then
    ({ s with subs := fun t' => if t' = t then (s.subs t).filter (fun x => x.id != i) else s.subs t' }, [])
  else (s, [])

def onPublishRequestBroadcast (s : SubActor) (t : Topic) (p : Payload) (publisher : Option Ref)
    (decodable : Bool) : SubActor × List Eff :=
  if decodable then (s, fanout (s.lookup t) publisher p.id) else (s, [])

def onLocalPublishRequest (s : SubActor) (sender : Option Ref) (t : Topic) (p : Payload) : SubActor × List Eff :=
  let remote := if 0 < s.sas.length ∧ p.enc = true then s.sas.map (fun a => Eff.tellRemote a t p sender) else []
  (s, remote ++ fanout (s.lookup t) sender p.id)

/-- `onSharedSubscriptionStatusChangedMessage`; the local node is never listed (cluster contact
    providers announce it too — memberlist calls `NotifyJoin` for the local node): its subscribers are
    reached by the local fan-out -/
def onStatusChanged (s : SubActor) (sender : Option Ref) (a : Nat) (closed : Bool) : SubActor × List Eff :=
  if a = s.self then (s, [Eff.replyNil sender])
  else if closed then ({ s with sas := s.sas.filter (fun x => x != a) }, [Eff.replyNil sender])
  else ({ s with sas := if a ∈ s.sas then s.sas else s.sas ++ [a] }, [Eff.replyNil sender])

/-- one turn of `subscriptionActor.OnReceive` -/
def SubActor.step (s : SubActor) (e : Envelope) : SubActor × List Eff :=
  match e.msg with
  | .subscribeRequest t r => onSubscribeRequest s e.sender t r
  | .unsubscribeRequest t i => onUnsubscribeRequest s t i
  | .publishRequestBroadcast t p pub d => onPublishRequestBroadcast s t p pub d
  | .localPublishRequest t p => onLocalPublishRequest s e.sender t p
  | .statusChanged a c => onStatusChanged s e.sender a c
  | .other => (s, [])

/-- the machine over a whole sequence of envelopes: final state and the effects of every turn -/
def SubActor.run (s : SubActor) : List Envelope → SubActor × List (List Eff)
  | [] => (s, [])
  | e :: es =>
    let r := s.step e
    let rest := SubActor.run r.1 es
    (rest.1, r.2 :: rest.2)

/-! ## the actors around it -/

inductive Status where
  | absent
  | alive
  | terminated
deriving DecidableEq, Repr

/-- a publication as a subscriber sees it -/
structure Delivery where
  sender : Option Ref
  payload : Nat
deriving DecidableEq, Repr

structure Actor where
  status : Status
  /-- ghost: incarnation = number of `provider.Provide()` calls -/
  inc : Nat
  /-- `ctx.subscriptions` -/
  held : List Subscription
  /-- blocked in `Subscribe` (`FutureAsk(...).Result()`) -/
  waiting : Bool
  /-- publications in the user mailbox, oldest first -/
  mbox : List Delivery
  /-- ghost: (incarnation, publication) in the order the handler saw them -/
  handled : List (Nat × Delivery)

def Actor.none : Actor := { status := .absent, inc := 0, held := [], waiting := false, mbox := [], handled := [] }

structure Sys where
  sa : SubActor
  /-- user mailbox of the subscription actor, oldest first -/
  saQ : List Envelope
  actors : Ref → Actor
  /-- ghost: dead letters that carry a publication (addressee, publication) -/
  dead : List (Ref × Delivery)
  /-- what the subscription actor handed to the stream processes of other nodes: (address, envelope) -/
  link : List (Nat × Envelope)
  /-- ghost: the envelopes the subscription actor has handled, oldest first -/
  processed : List Envelope
  /-- ghost: every `Publish` call (publisher, topic, payload) in call order -/
  published : List (Ref × Topic × Payload)

def Sys.init (self : Nat) : Sys :=
  { sa := SubActor.init self, saQ := [], actors := fun _ => Actor.none, dead := [], link := [], processed := [], published := [] }

def Sys.setActor (s : Sys) (r : Ref) (a : Actor) : Sys :=
  { s with actors := fun r' => if r' = r then a else s.actors r' }

/-- an actor that can take a step: registered, running, not blocked in `Subscribe` -/
def Sys.canAct (s : Sys) (r : Ref) : Bool :=
  (s.actors r).status == .alive && !(s.actors r).waiting

def unsubEnvelope (sub : Subscription) : Envelope :=
  { sender := none, msg := .unsubscribeRequest sub.topic sub.id }

def applyEff (s : Sys) : Eff → Sys
  | .deliver to sender p =>
    let a := s.actors to
    if a.status = .alive then s.setActor to { a with mbox := a.mbox ++ [{ sender := sender, payload := p }] }
    else { s with dead := s.dead ++ [(to, { sender := sender, payload := p })] }
  | .replySub _ sub =>
    let a := s.actors sub.subscriber
    if a.waiting then
      s.setActor sub.subscriber { a with held := a.held.filter (fun x => x.id != sub.id) ++ [sub], waiting := false }
    else s
  | .replyNil _ => s
  | .tellRemote addr t p pub =>
    { s with link := s.link ++ [(addr, { sender := none, msg := .publishRequestBroadcast t p pub true })] }

inductive Act where
  | spawn (r : Ref)
  | subscribeCall (r : Ref) (t : Topic)
  | unsubscribe (r : Ref) (sub : Subscription)
  | publish (r : Ref) (t : Topic) (p : Payload)
  | saStep
  | handle (r : Ref)
  | restart (r : Ref)
  | terminate (r : Ref)
  | inject (e : Envelope)
deriving DecidableEq, Repr

/-- `tryRestarted` / `tryTerminated`: `for _, subscription := range ctx.subscriptions { ctx.UnSubscribe(subscription) }` -/
def release (s : Sys) (r : Ref) (a : Actor) : Sys :=
  Sys.setActor { s with saQ := s.saQ ++ a.held.map unsubEnvelope } r { a with held := [] }

def Sys.step (s : Sys) : Act → Sys
  | .spawn r =>
    if (s.actors r).status = .absent then s.setActor r { s.actors r with status := .alive, inc := 1 }
    else s
  | .subscribeCall r t =>
    if s.canAct r && t != emptyTopic then
      Sys.setActor { s with saQ := s.saQ ++ [{ sender := some r, msg := .subscribeRequest t r }] } r
        { s.actors r with waiting := true }
    else s
  | .unsubscribe r sub =>
    if s.canAct r then
      Sys.setActor { s with saQ := s.saQ ++ [unsubEnvelope sub] } r
        { s.actors r with held := (s.actors r).held.filter (fun x => x.id != sub.id) }
    else s
  | .publish r t p =>
    if s.canAct r then
      { s with saQ := s.saQ ++ [{ sender := some r, msg := .localPublishRequest t p }],
               published := s.published ++ [(r, t, p)] }
    else s
  | .saStep =>
    match s.saQ with
    | [] => s
    | e :: rest =>
      let r := s.sa.step e
      r.2.foldl applyEff { s with sa := r.1, saQ := rest, processed := s.processed ++ [e] }
  | .handle r =>
    let a := s.actors r
    match a.mbox with
    | [] => s
    | d :: rest =>
      if a.waiting then s
      else if a.status = .alive then s.setActor r { a with mbox := rest, handled := a.handled ++ [(a.inc, d)] }
      else Sys.setActor { s with dead := s.dead ++ [(r, d)] } r { a with mbox := rest }
  | .restart r =>
    if s.canAct r then
      let a := s.actors r
      release s r { a with inc := a.inc + 1 }
    else s
  | .terminate r =>
    if s.canAct r then
      let a := s.actors r
      release s r { a with status := .terminated }
    else s
  | .inject e => { s with saQ := s.saQ ++ [e] }

def Sys.run (s : Sys) (acts : List Act) : Sys := acts.foldl Sys.step s

/-- run `saStep` until the subscription actor's mailbox is empty (`fuel` ≥ its length suffices when
    no turn enqueues to it, which is the case: see `MV.Props.C10`) -/
def Sys.drainSA (s : Sys) : Nat → Sys
  | 0 => s
  | fuel + 1 => match s.saQ with
    | [] => s
    | _ :: _ => (s.step .saStep).drainSA fuel

/-- `r` handles everything in its mailbox -/
def Sys.drainActor (s : Sys) (r : Ref) : Nat → Sys
  | 0 => s
  | fuel + 1 => match (s.actors r).mbox with
    | [] => s
    | _ :: _ => (s.step (.handle r)).drainActor r fuel

/-! ## two nodes joined by links

`Net` is two systems (physical addresses 1 and 2). What a subscription actor tells the other node's
subscription actor goes into its `link` output; the link model carries the entries **in order, each
exactly once, none lost** (`xfer12` / `xfer21` move the next entry into the other subscription actor's
mailbox): that is the assumption on the gRPC stream + the stream process (C11's subject), stated
here once. Entries for an unknown address are dropped. -/

structure Net where
  n1 : Sys
  n2 : Sys
  /-- how many entries of `n1.link` the link has carried so far -/
  sent1 : Nat
  /-- how many entries of `n2.link` the link has carried so far -/
  sent2 : Nat

def Net.init : Net := { n1 := Sys.init 1, n2 := Sys.init 2, sent1 := 0, sent2 := 0 }

inductive NAct where
  | at1 (a : Act)
  | at2 (a : Act)
  | xfer12
  | xfer21
deriving DecidableEq, Repr

def Net.step (n : Net) : NAct → Net
  | .at1 a => { n with n1 := n.n1.step a }
  | .at2 a => { n with n2 := n.n2.step a }
  | .xfer12 =>
    match n.n1.link[n.sent1]? with
    | none => n
    | some e => { n with sent1 := n.sent1 + 1, n2 := if e.1 = 2 then n.n2.step (.inject e.2) else n.n2 }
  | .xfer21 =>
    match n.n2.link[n.sent2]? with
    | none => n
    | some e => { n with sent2 := n.sent2 + 1, n1 := if e.1 = 1 then n.n1.step (.inject e.2) else n.n1 }

def Net.run (n : Net) (acts : List NAct) : Net := acts.foldl Net.step n

end MV.Model.PubSub
