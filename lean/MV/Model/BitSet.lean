/-!
# Model of `toolkit/dynamic_bit_set.go` (`toolkit.DynamicBitSet`) — shared by C14 and C16

Word-level transcription: `bits []uint64` is a `List (BitVec 64)`; positions (`uint32`) are `Nat`.
`NewDynamicBitSet()` starts with ONE zero word, the Go zero value `new(DynamicBitSet)` (used by the
ECS query constructors) with NO word; `Equal` and `In` see the difference (see `MV.Lemmas.BitSet`).

The `key` cache field of the Go struct is not modelled: no exported function ever assigns it a
non-empty value (`Key()` computes the string without storing it; the only writer,
`parseDynamicBitSetKey`, is unexported and only referenced from commented-out code), so the
`key`-equality shortcuts of `Equal`/`In` are dead code for every reachable value.

Core Lean only (linked into the oracle executables).
-/
namespace MV.Model

structure BitSet where
  bits : List (BitVec 64)
  deriving DecidableEq, Repr

namespace BitSet

/-- `NewDynamicBitSet()`: `make([]uint64, 1)` -/
def new : BitSet := ⟨[0]⟩

/-- the Go zero value (`new(toolkit.DynamicBitSet)`): `bits == nil` -/
def zero : BitSet := ⟨[]⟩

/-- `db.bits[i]`, 0 outside (the code guards every read with a length test) -/
def word (b : BitSet) (i : Nat) : BitVec 64 := b.bits.getD i 0

/-- `1 << offset` (offset = pos % 64 < 64) -/
def bit (o : Nat) : BitVec 64 := 1#64 <<< o

/-- `for len(db.bits) <= index { db.bits = append(db.bits, 0) }` -/
def extend (l : List (BitVec 64)) (index : Nat) : List (BitVec 64) :=
  l ++ List.replicate (index + 1 - l.length) 0

/-- `Set(pos)` -/
def set (b : BitSet) (pos : Nat) : BitSet :=
  let index := pos / 64
  let offset := pos % 64
  let bits := extend b.bits index
  ⟨bits.set index (bits.getD index 0 ||| bit offset)⟩

/-- `Clear(pos)`: `if len(db.bits) > index { db.bits[index] &^= 1 << offset }` -/
def clear (b : BitSet) (pos : Nat) : BitSet :=
  let index := pos / 64
  let offset := pos % 64
  if b.bits.length > index then ⟨b.bits.set index (b.bits.getD index 0 &&& ~~~ bit offset)⟩ else b

/-- `IsSet(pos)` -/
def isSet (b : BitSet) (pos : Nat) : Bool :=
  let index := pos / 64
  let offset := pos % 64
  if b.bits.length ≤ index then false else (b.bits.getD index 0 &&& bit offset) != 0

/-- `Copy()` -/
def copy (b : BitSet) : BitSet := ⟨b.bits⟩

/-- `Equal(other)`: lengths first, then word by word -/
def equal (a b : BitSet) : Bool :=
  if a.bits.length != b.bits.length then false
  else (List.range a.bits.length).all (fun i => a.word i == b.word i)

/-- `db.In(mask)`: for every word index of the mask: `false` if `db` is shorter, `false` if some
mask bit is missing. -/
def isIn (db mask : BitSet) : Bool :=
  (List.range mask.bits.length).all (fun i =>
    if i ≥ db.bits.length then false else (db.word i &&& mask.word i) == mask.word i)

/-- `db.NotIn(mask)`: word indexes beyond `db` are skipped -/
def notIn (db mask : BitSet) : Bool :=
  (List.range mask.bits.length).all (fun i =>
    if i ≥ db.bits.length then true else (db.word i &&& mask.word i) == 0)

/-- `Bits()`: positions of the set bits, ascending -/
def bitsOf (b : BitSet) : List Nat :=
  (List.range b.bits.length).flatMap (fun i =>
    (List.range 64).filterMap (fun j => if (b.word i &&& bit j) != 0 then some (i * 64 + j) else none))

/-- `Key()`: the words as little-endian bytes -/
def key (b : BitSet) : List Nat :=
  b.bits.flatMap (fun (w : BitVec 64) => (List.range 8).map (fun k => (w >>> (8 * k)).toNat % 256))

/-- number of words (`len(db.bits)`) -/
def words (b : BitSet) : Nat := b.bits.length

end BitSet
end MV.Model
