import MV.Model.C16Common
/-!
# Model of `toolkit/collection/listings/priority_slice.go` (and the `Sync` twin, method = one step)

An item is `(priority, value)`.  `sort.Slice` is *not* stable, so the model is parametric in the
sorting function `srt`; the theorems hold for every `srt` that returns a permutation ordered by
priority (`MV.Spec.PrioritySlice.SortSpec`), the oracle instantiates it with insertion sort.
The `prev/next` links the Go `sort()` maintains are not modelled (not part of the property).

Core Lean only.
-/
namespace MV.Model.PrioritySlice

abbrev Item := Int × Int     -- (priority, value)

def prioLe (a b : Item) : Bool := decide (a.1 ≤ b.1)

/-- stable insertion sort by priority — the oracle's instance of `sort.Slice` -/
def isortP (l : List Item) : List Item := MV.Model.isortBy prioLe l

/-- `sort()`: `if len(items) <= 1 { return }; sort.Slice(items, less by priority)` -/
def sortM (srt : List Item → List Item) (l : List Item) : List Item :=
  if l.length ≤ 1 then l else srt l

/-- `Append(v, p)` -/
def append (srt : List Item → List Item) (l : List Item) (v p : Int) : List Item :=
  sortM srt (l ++ [(p, v)])

/-- `Appends(p, vs...)`: `Append` each, then `sort()` once more -/
def appends (srt : List Item → List Item) (l : List Item) (p : Int) (vs : List Int) : List Item :=
  sortM srt (vs.foldl (fun l v => append srt l v p) l)

inductive Op where
  | append (v p : Int) | appends (p : Int) (vs : List Int)
  | get (i : Int) | set (i v p : Int) | setValue (i v : Int) | setPriority (i p : Int)
  | clear | len | slice | prios | rangeN (k : Int)
  deriving DecidableEq, Repr

/-- the state change an operation asks for, *before* any re-sorting (`none` = index panic) -/
def effect (l : List Item) : Op → Option (List Item)
  | .append v p => some (l ++ [(p, v)])
  | .appends p vs => some (l ++ vs.map (fun v => (p, v)))
  | .set i v p => if i < 0 ∨ i ≥ l.length then none else some (l.set i.toNat (p, v))
  | .setValue i v => if i < 0 ∨ i ≥ l.length then none else
      some (l.set i.toNat ((l.getD i.toNat (0, 0)).1, v))
  | .setPriority i p => if i < 0 ∨ i ≥ l.length then none else
      some (l.set i.toNat (p, (l.getD i.toNat (0, 0)).2))
  | .clear => some []
  | .get i => if i < 0 ∨ i ≥ l.length then none else some l
  | _ => some l

open MV.Model (Out) in
/-- one method call (answers are in *raw* slice order) -/
def step (srt : List Item → List Item) (l : List Item) : Op → List Item × Out
  | .append v p => (append srt l v p, .unit)
  | .appends p vs => (appends srt l p vs, .unit)
  | .get i => if i < 0 ∨ i ≥ l.length then (l, .panic) else
      let it := l.getD i.toNat (0, 0); (l, .ints [it.2, it.1])
  | .set i v p => if i < 0 ∨ i ≥ l.length then (l, .panic) else
      let before := l.getD i.toNat (0, 0)
      let l1 := l.set i.toNat (p, v)
      (if before.1 ≠ p then sortM srt l1 else l1, .unit)
  | .setValue i v => if i < 0 ∨ i ≥ l.length then (l, .panic) else
      (l.set i.toNat ((l.getD i.toNat (0, 0)).1, v), .unit)
  | .setPriority i p => if i < 0 ∨ i ≥ l.length then (l, .panic) else
      (sortM srt (l.set i.toNat (p, (l.getD i.toNat (0, 0)).2)), .unit)
  | .clear => ([], .unit)
  | .len => (l, .int l.length)
  | .slice => (l, .ints (l.map (·.2)))
  | .prios => (l, .ints (l.map (·.1)))
  | .rangeN k => (l, .ints ((l.take k.toNat).map (·.2)))

def exec (srt : List Item → List Item) (l : List Item) (ops : List Op) : List Item :=
  ops.foldl (fun l op => (step srt l op).1) l

end MV.Model.PrioritySlice
