import MV.Model.Civil
/-!
# `toolkit/chrono` — `moment.go` and `period.go` transcribed over the civil-calendar model

A Go `time.Time` is an instant (`ns`, nanoseconds since the Unix epoch) **plus** its `*Location`;
for fixed-offset zones the location is its offset `off` (seconds east of UTC).  Every function
below is a line-by-line transcription of the Go function of the same name: `time.Date(...)`
becomes `Civil.date`, `t.AddDate` becomes `Civil.addDate`, `t.Add` is `+`, `Before/After/Equal`
compare the instants.  `loc` is the process-wide `time.Local` (used by `GetNextMoment`,
`IsMomentPassed`); `time.Weekday`, hours, minutes, seconds, day and week counts are arbitrary
`Int`s as in Go (no range check there either).
-/
namespace MV.Model.Chrono
open MV.Model.Civil

structure Time where
  ns : Int
  off : Int
deriving Repr, DecidableEq, Inhabited

namespace Time
def year (t : Time) : Int := Civil.year t.off t.ns
def month (t : Time) : Int := Civil.month t.off t.ns
def day (t : Time) : Int := Civil.day t.off t.ns
def hour (t : Time) : Int := Civil.hour t.off t.ns
def minute (t : Time) : Int := Civil.minute t.off t.ns
def second (t : Time) : Int := Civil.second t.off t.ns
def nanosecond (t : Time) : Int := Civil.nanosecond t.off t.ns
def weekday (t : Time) : Int := Civil.weekday t.off t.ns
def unix (t : Time) : Int := Civil.unix t.ns
def after (t u : Time) : Bool := decide (t.ns > u.ns)
def before (t u : Time) : Bool := decide (t.ns < u.ns)
def equal (t u : Time) : Bool := decide (t.ns = u.ns)
/-- `t.Add(d)` keeps the location -/
def add (t : Time) (d : Int) : Time := ⟨t.ns + d, t.off⟩
/-- `t.Sub(u)`: a `Duration` is an `int64`; Go saturates instead of wrapping -/
def sub (t u : Time) : Int :=
  let d := t.ns - u.ns
  if d > 9223372036854775807 then 9223372036854775807
  else if d < -9223372036854775808 then -9223372036854775808 else d
/-- `t.AddDate(y, m, d)` -/
def addDate (t : Time) (y m d : Int) : Time := ⟨Civil.addDate t.off t.ns y m d, t.off⟩
/-- `t.Truncate(d)` -/
def truncate (t : Time) (d : Int) : Time := ⟨Civil.truncate t.ns d, t.off⟩
/-- `time.Time{}` is 0001-01-01T00:00:00Z -/
def isZero (t : Time) : Bool := decide (t.ns = -Civil.unixToInternalNs)
end Time

/-- `time.Date(y, mo, d, h, mi, s, ns, loc)` -/
def mkDate (y mo d h mi s ns loc : Int) : Time := ⟨Civil.date loc y mo d h mi s ns, loc⟩

def week : Int := nsPerWeek
def dayDur : Int := nsPerDay

/-! ## moment.go -/

def getNextMoment (loc : Int) (now : Time) (hour min sec : Int) : Time :=
  let moment := mkDate now.year now.month now.day hour min sec 0 loc
  if now.after moment || now.equal moment then
    mkDate now.year now.month (now.day + 1) hour min sec 0 loc
  else moment

def isMomentPassed (loc : Int) (now : Time) (hour min sec : Int) : Bool :=
  let moment := mkDate now.year now.month now.day hour min sec 0 loc
  now.after moment

def isMomentFuture (loc : Int) (now : Time) (hour min sec : Int) : Bool :=
  !isMomentPassed loc now hour min sec

def getStartOfDay (t : Time) : Time := mkDate t.year t.month t.day 0 0 0 0 t.off

def getEndOfDay (t : Time) : Time := mkDate t.year t.month t.day 23 59 59 0 t.off

def getRelativeStartOfDay (t : Time) (offsetDays : Int) : Time :=
  getStartOfDay (getStartOfDay (t.addDate 0 0 offsetDays))

def getRelativeEndOfDay (t : Time) (offsetDays : Int) : Time :=
  getEndOfDay (getEndOfDay (t.addDate 0 0 offsetDays))

def getStartOfWeek (t : Time) (weekday : Int) : Time :=
  let t := getStartOfDay t
  let tw := t.weekday
  let tw := if tw = 0 then 7 else tw
  let d := 1 - tw
  let d := if weekday = 0 then d + 6 else d + (weekday - 1)
  t.addDate 0 0 d

def getEndOfWeek (t : Time) (weekday : Int) : Time := getEndOfDay (getStartOfWeek t weekday)

def getRelativeStartOfWeek (now : Time) (wk : Int) (offsetWeeks : Int) : Time :=
  let nowWeekday := now.weekday
  let weekday := wk
  let nowWeekday := if nowWeekday = 0 then 7 else nowWeekday
  let weekday := if weekday = 0 then 7 else weekday
  let now := if nowWeekday < weekday then now.addDate 0 0 (-7) else now
  let moment := getStartOfWeek now wk
  moment.addDate 0 0 (7 * offsetWeeks)

def getRelativeEndOfWeek (now : Time) (wk : Int) (offsetWeeks : Int) : Time :=
  getEndOfDay (getRelativeStartOfWeek now wk offsetWeeks)

def getRelativeTimeOfWeek (now : Time) (wk : Int) (offsetWeeks : Int) : Time :=
  let moment := getRelativeStartOfWeek now wk offsetWeeks
  mkDate moment.year moment.month moment.day now.hour now.minute now.second now.nanosecond now.off

def max (t1 t2 : Time) : Time := if t1.after t2 then t1 else t2
def min (t1 t2 : Time) : Time := if t1.before t2 then t1 else t2
def smallerFirst (t1 t2 : Time) : Time × Time := if t1.before t2 then (t1, t2) else (t2, t1)
def smallerLast (t1 t2 : Time) : Time × Time := if t1.before t2 then (t2, t1) else (t1, t2)
def delta (t1 t2 : Time) : Int := if t1.before t2 then t2.sub t1 else t1.sub t2

/-- `int(GetStartOfDay(t2).Sub(GetStartOfDay(t1)) / Day)` after `SmallerFirst`; the operands are
    ordered so Go's truncating division of the non-negative difference is the floor -/
def floorDeltaDays (t1 t2 : Time) : Int :=
  let p := smallerFirst t1 t2
  Int.tdiv ((getStartOfDay p.2).sub (getStartOfDay p.1)) dayDur

def isSameSecond (t1 t2 : Time) : Bool := t1.unix == t2.unix
def isSameDay (t1 t2 : Time) : Bool := (getStartOfDay t1).equal (getStartOfDay t2)
def isSameHour (t1 t2 : Time) : Bool := t1.hour == t2.hour && isSameDay t1 t2
def isSameMinute (t1 t2 : Time) : Bool := t1.minute == t2.minute && isSameHour t1 t2
def isSameWeek (t1 t2 : Time) : Bool := (getStartOfWeek t1 1).equal (getStartOfWeek t2 1)
def isSameMonth (t1 t2 : Time) : Bool := t1.month == t2.month && t1.year == t2.year
def isSameYear (t1 t2 : Time) : Bool := t1.year == t2.year

def getMonthDays (t : Time) : Int :=
  let year := t.year
  let month := t.month
  if month ≠ 2 then
    (if month = 4 ∨ month = 6 ∨ month = 9 ∨ month = 11 then 30 else 31)
  else if (Int.tmod year 4 = 0 ∧ Int.tmod year 100 ≠ 0) ∨ Int.tmod year 400 = 0 then 29
  else 28

/-! ## period.go -/

abbrev Period := Time × Time

def newPeriod (s e : Time) : Period := if s.after e then (e, s) else (s, e)

def newPeriodWindow (t : Time) (size : Int) : Period :=
  let start := t.truncate size
  let stop := start.add size
  newPeriod start stop

def newPeriodWindowWeek (t : Time) : Period :=
  let start := getStartOfWeek t 1
  let stop := start.addDate 0 0 7
  (start, stop)

def newPeriodWithDayZero (t : Time) (day : Int) : Period := newPeriod t (getStartOfDay (t.addDate 0 0 day))
def newPeriodWithDay (t : Time) (day : Int) : Period := newPeriod t (t.addDate 0 0 day)
/-- `NewPeriodWith{Hour,Minute,Second,Millisecond,Microsecond,Nanosecond}`: `unit` is the unit in ns -/
def newPeriodWithUnit (unit : Int) (t : Time) (n : Int) : Period := newPeriod t (t.add (n * unit))

namespace Period
def start (p : Period) : Time := p.1
def stop (p : Period) : Time := p.2
def duration (p : Period) : Int := p.2.sub p.1
def nanoseconds (p : Period) : Int := duration p
def microseconds (p : Period) : Int := Int.tdiv (duration p) 1000
def milliseconds (p : Period) : Int := Int.tdiv (duration p) 1000000
def isZero (p : Period) : Bool := p.1.isZero && p.2.isZero
def isInvalid (p : Period) : Bool := p.1.isZero || p.2.isZero
def isBefore (p : Period) (t : Time) : Bool := p.2.before t
def isAfter (p : Period) (t : Time) : Bool := p.1.after t
def isBetween (p : Period) (t : Time) : Bool := p.1.before t && p.2.after t
def isOngoing (p : Period) (t : Time) : Bool := (p.1.before t || p.1.equal t) && p.2.after t
def isBetweenOrEqual (p : Period) (t : Time) : Bool := isBetween p t || p.1.equal t || p.2.equal t
def isBetweenOrEqualPeriod (p t : Period) : Bool :=
  isBetween p t.1 || isBetween p t.2 || p.1.equal t.1 || p.2.equal t.2
def isOverlap (p t : Period) : Bool := isBetweenOrEqualPeriod p t || isBetweenOrEqualPeriod t p
end Period

end MV.Model.Chrono
