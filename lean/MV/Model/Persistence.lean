/-!
# Persistence of an actor (property C09) — transcription of

* `engine/vivid/persistence/state.go` (`State{snapshot, events}`: `StateChanged`, `SaveSnapshot`,
  `EventCount`, `Persist`, `Load`, `Clear`),
* `engine/vivid/persistence/memory_storage.go` (`name ↦ (snapshot, events)`: `Save`, `Load`, `Clear`),
* the persistence protocol of `engine/vivid/actor_context.go` (`initPersistenceState`, `StateChanged`,
  `StateChangeEventApply`, `SaveSnapshot`, `ClearPersistence`, `Persistence`/`internalPersistence`,
  `recoveryPersistence`, and the places where `tryRestarted` / `tryTerminated` persist),

for ONE leaf actor (no children, no subscriptions) whose user code is the canonical event-sourced
actor of the property: its state is a fold of events (`Fold`), on `OnPersistenceSnapshot` it calls
`SaveSnapshot(full state)`, on a snapshot message it replaces its state, on an event message it applies
the event and calls `StateChanged`.

Values, not pointers: a storage record is a value (the shipped `MemoryStorage` copies the event slice
on `Save` and on `Load`, and `State.Load` copies what it adopts), so no aliasing exists to model.
Storage operations never fail (`MemoryStorage` returns no error except "no record" on `Load`).

`Variant` selects between the code as it is (`Variant.code`) and the code before the two repairs of
this property (`Variant.original`, used only by `MV.Findings.C09`).
-/
namespace MV.Model.Persistence

/-- which repairs the transcription contains -/
structure Variant where
  /-- `State.Load` adopts the loaded snapshot and events as the journal of the new generation -/
  adopt : Bool
  /-- `StateChanged` restores `ctx.message` / `ctx.sender` after the synchronous snapshot turn -/
  restore : Bool
  deriving DecidableEq, Repr

/-- /repo before the `fix:` commits of C09 -/
def Variant.original : Variant := ⟨false, false⟩
/-- /repo as it is -/
def Variant.code : Variant := ⟨true, true⟩

/-- the user actor's state as a fold of events -/
structure Fold (σ ε : Type) where
  init : σ
  apply : σ → ε → σ

/-- the free fold: the state is the list of all events applied, in order -/
def listFold (ε : Type) : Fold (List ε) ε := ⟨[], fun l e => l ++ [e]⟩

abbrev Name := Nat

/-- `persistence.State` (journal of the running generation) and a storage record have the same shape:
    a snapshot (`nil` = `none`) and the events recorded since. -/
structure Rec (σ ε : Type) where
  snapshot : Option σ
  events : List ε
  deriving DecidableEq, Repr

def Rec.empty {σ ε : Type} : Rec σ ε := ⟨none, []⟩

/-- what recovery does with a record: the snapshot replaces the state, then the events are applied -/
def Rec.replay {σ ε : Type} (F : Fold σ ε) (r : Rec σ ε) : σ :=
  r.events.foldl F.apply (r.snapshot.getD F.init)

/-- replay of what `Load` returns (`none` = `ErrorPersistenceNotHasRecord`: nothing is replayed) -/
def replayOpt {σ ε : Type} (F : Fold σ ε) : Option (Rec σ ε) → σ
  | none => F.init
  | some r => r.replay F

/-- `MemoryStorage`: `memoryStorageRecords` -/
abbrev Store (σ ε : Type) := Name → Option (Rec σ ε)

def Store.save {σ ε : Type} (st : Store σ ε) (n : Name) (r : Rec σ ε) : Store σ ε :=
  fun m => if m = n then some r else st m
def Store.clear {σ ε : Type} (st : Store σ ε) (n : Name) : Store σ ε :=
  fun m => if m = n then none else st m

/-- commands of the harness to the actor (user messages) -/
inductive Cmd (ε : Type) where
  | ev (e : ε)      -- asked: StateChangeEventApply(event e), then Reply
  | evq (e : ε)     -- told: the same without a reply
  | fail            -- the handler panics
  | persist | snap | clear | get
  deriving DecidableEq, Repr

/-- messages the user actor sees -/
inductive Msg (σ ε : Type) where
  | none | launch | restarting | restarted | terminate | terminated | snapshotReq
  | snap (s : σ)
  | event (e : ε)
  | cmd (c : Cmd ε)
  deriving DecidableEq, Repr

inductive Ref where
  | nobody | self | parent | asker
  deriving DecidableEq, Repr

/-- the user actor instance (re-provided on restart) -/
structure Actor (σ : Type) where
  st : σ
  /-- last value returned by `StateChanged` outside a replay -/
  count : Nat
  /-- values returned by `StateChanged` while replaying -/
  rlog : List Nat
  deriving Repr

def Actor.fresh {σ ε : Type} (F : Fold σ ε) : Actor σ := ⟨F.init, 0, []⟩

/-- the persistence-related fields of `actorContext` -/
structure Ctx (σ ε : Type) where
  name : Name
  threshold : Nat
  pstate : Option (Rec σ ε)     -- persistenceState (nil until initPersistenceState)
  recovering : Bool              -- persistenceRecovering
  message : Msg σ ε
  sender : Ref
  actor : Actor σ

/-- the journal (`persistenceState`; a nil state has nothing in it) -/
def Ctx.ps {σ ε : Type} (c : Ctx σ ε) : Rec σ ε := c.pstate.getD Rec.empty

def Ctx.new {σ ε : Type} (F : Fold σ ε) (name : Name) (thr : Nat) : Ctx σ ε :=
  { name := name, threshold := thr, pstate := none, recovering := false, message := .none,
    sender := .nobody, actor := Actor.fresh F }

structure Sys (σ ε : Type) where
  ctx : Ctx σ ε
  store : Store σ ε
  /-- every `Save` call, in order (what a recording storage sees) -/
  saveLog : List (Rec σ ε)
  /-- ghost: the actor's state when `Persistence()` was last called (`none` after `ClearPersistence`) -/
  lastPersist : Option σ
  launches : Nat
  /-- harness observations of the last `ev` command -/
  msgSame : Bool
  sndSame : Bool

section
variable {σ ε : Type}

def setMsg (s : Sys σ ε) (snd : Ref) (m : Msg σ ε) : Sys σ ε :=
  { s with ctx := { s.ctx with message := m, sender := snd } }
def castMessage (s : Sys σ ε) (m : Msg σ ε) : Sys σ ε :=
  { s with ctx := { s.ctx with message := m } }
def setSt (s : Sys σ ε) (x : σ) : Sys σ ε :=
  { s with ctx := { s.ctx with actor := { s.ctx.actor with st := x } } }
def setP (s : Sys σ ε) (p : Rec σ ε) : Sys σ ε :=
  { s with ctx := { s.ctx with pstate := some p } }
def setRecovering (s : Sys σ ε) (b : Bool) : Sys σ ε :=
  { s with ctx := { s.ctx with recovering := b } }

/-- `initPersistenceState` -/
def initP (s : Sys σ ε) : Sys σ ε := setP s s.ctx.ps

/-- `actorContext.SaveSnapshot` → `State.SaveSnapshot` (`events = events[:0]`) -/
def saveSnapshot (s : Sys σ ε) (snap : σ) : Sys σ ε :=
  if s.ctx.recovering then s else setP s ⟨some snap, []⟩

/-- the canonical actor's answer to `OnPersistenceSnapshot` -/
def actorSnapshotReq (s : Sys σ ε) : Sys σ ε := saveSnapshot s s.ctx.actor.st

/-- `actorContext.StateChanged` -/
def stateChanged (v : Variant) (s : Sys σ ε) (e : ε) : Sys σ ε × Nat :=
  let s := initP s
  if s.ctx.recovering then (s, s.ctx.ps.events.length)
  else
    let evs := s.ctx.ps.events ++ [e]
    let num := evs.length
    let s := setP s ⟨s.ctx.ps.snapshot, evs⟩
    if num ≥ s.ctx.threshold then
      let m := s.ctx.message
      let snd := s.ctx.sender
      -- ctx.processMessage(ctx.ref, ctx.ref, onPersistenceSnapshot, false)
      let s := actorSnapshotReq (setMsg s .self .snapshotReq)
      (if v.restore then setMsg s snd m else s, num)
    else (s, num)

/-- the canonical actor's handler of an event message (`inApply`: reached through
    `StateChangeEventApply`, otherwise it is a replayed event) -/
def actorEvent [DecidableEq σ] [DecidableEq ε] (v : Variant) (F : Fold σ ε) (s : Sys σ ε) (e : ε)
    (inApply : Bool) : Sys σ ε :=
  let s := setSt s (F.apply s.ctx.actor.st e)
  let m0 := s.ctx.message
  let s0 := s.ctx.sender
  let r := stateChanged v s e
  let s := r.1
  let s : Sys σ ε :=
    if inApply then { s with ctx := { s.ctx with actor := { s.ctx.actor with count := r.2 } } }
    else { s with ctx := { s.ctx with actor := { s.ctx.actor with rlog := s.ctx.actor.rlog ++ [r.2] } } }
  { s with msgSame := decide (s.ctx.message = m0), sndSame := decide (s.ctx.sender = s0) }

/-- `actorContext.Persistence` (→ `State.Persist`: skipped when there is neither snapshot nor event) -/
def persistence (s : Sys σ ε) : Sys σ ε :=
  let s := { s with lastPersist := some s.ctx.actor.st }
  match s.ctx.pstate with
  | none => s
  | some p =>
    if p.snapshot.isNone && p.events.isEmpty then s
    else { s with store := s.store.save s.ctx.name p, saveLog := s.saveLog ++ [p] }

/-- `actorContext.ClearPersistence` -/
def clearPersistence (s : Sys σ ε) : Sys σ ε :=
  match s.ctx.pstate with
  | none => s
  | some _ => { s with store := s.store.clear s.ctx.name, lastPersist := none }

/-- the harness actor's reply: `Reply` when `Sender()` still names the asker -/
def answer (s : Sys σ ε) (who : Ref) : Sys σ ε :=
  if s.ctx.sender = who then s else { s with sndSame := false }

/-- the canonical actor's handler of a command -/
def actorCmd [DecidableEq σ] [DecidableEq ε] (v : Variant) (F : Fold σ ε) (s : Sys σ ε) (c : Cmd ε) :
    Sys σ ε :=
  let who := s.ctx.sender
  match c with
  | .ev e =>
    let s := { s with msgSame := true, sndSame := true }
    -- StateChangeEventApply: curr := Message(); CastMessage(event); defer CastMessage(curr); OnReceive
    let curr := s.ctx.message
    let s := actorEvent v F (castMessage s (.event e)) e true
    let s := castMessage s curr
    answer s who
  | .evq e =>
    let curr := s.ctx.message
    let s := actorEvent v F (castMessage s (.event e)) e true
    castMessage s curr
  | .fail => s          -- panics; the restart is `restart`
  | .persist => answer (persistence s) who
  | .snap => answer (saveSnapshot s s.ctx.actor.st) who
  | .clear => answer (clearPersistence s) who
  | .get => answer s who

/-- the user branch of `processMessage` with the canonical actor as `OnReceive` -/
def processUser [DecidableEq σ] [DecidableEq ε] (v : Variant) (F : Fold σ ε) (s : Sys σ ε) (snd : Ref)
    (m : Msg σ ε) : Sys σ ε :=
  let s := setMsg s snd m
  match m with
  | .launch => { setSt s F.init with launches := s.launches + 1 }
  | .snapshotReq => actorSnapshotReq s
  | .snap x => setSt s x
  | .event e => actorEvent v F s e false
  | .cmd c => actorCmd v F s c
  | _ => s

/-- `recoveryPersistence` (after `OnLaunch`): load; `persistenceRecovering = true`; the snapshot, then
    every event, each as a user turn from the actor to itself; `persistenceRecovering = false` -/
def recovery [DecidableEq σ] [DecidableEq ε] (v : Variant) (F : Fold σ ε) (s : Sys σ ε) : Sys σ ε :=
  let s := initP s
  let r := s.store s.ctx.name
  let s := match r with
    | some rec => if v.adopt then setP s rec else s
    | none => s
  let s := setRecovering s true
  let s := match r.bind (·.snapshot) with
    | some x => processUser v F s .self (.snap x)
    | none => s
  let s := ((r.map (·.events)).getD []).foldl (fun s e => processUser v F s .self (.event e)) s
  setRecovering s false

/-- the `OnLaunch` system message: user turn, then recovery -/
def launch [DecidableEq σ] [DecidableEq ε] (v : Variant) (F : Fold σ ε) (s : Sys σ ε) : Sys σ ε :=
  recovery v F (processUser v F s .parent .launch)

/-- `onRestart` + `tryRestarted` (no children), then the queued `OnRestarted` and `OnLaunch` -/
def restart [DecidableEq σ] [DecidableEq ε] (v : Variant) (F : Fold σ ε) (s : Sys σ ε) : Sys σ ε :=
  let s := processUser v F s .parent .restarting
  let s := processUser v F s .parent .terminate
  let s := processUser v F s .parent .terminated
  let s := persistence s                                    -- internalPersistence
  let s := { s with ctx := { s.ctx with actor := Actor.fresh F } }   -- ctx.actor = provider.Provide()
  let s := processUser v F s .self .restarted
  launch v F s

/-- `onTerminate` + `tryTerminated` (no children) -/
def terminate [DecidableEq σ] [DecidableEq ε] (v : Variant) (F : Fold σ ε) (s : Sys σ ε) : Sys σ ε :=
  let s := processUser v F s .parent .terminate
  let s := persistence s                                    -- internalPersistence
  processUser v F s .parent .terminated

/-- stop, then `ActorOf` again under the same persistence name: a new context (empty journal) -/
def recreate [DecidableEq σ] [DecidableEq ε] (v : Variant) (F : Fold σ ε) (s : Sys σ ε) : Sys σ ε :=
  let s := terminate v F s
  launch v F { s with ctx := Ctx.new F s.ctx.name s.ctx.threshold }

/-- before the first `ActorOf`: a new context over a given storage content -/
def Sys.init (F : Fold σ ε) (name : Name) (thr : Nat) (st : Store σ ε) : Sys σ ε :=
  { ctx := Ctx.new F name thr, store := st, saveLog := [], lastPersist := (st name).map (Rec.replay F),
    launches := 0, msgSame := true, sndSame := true }

/-- the first generation over a given storage content -/
def boot [DecidableEq σ] [DecidableEq ε] (v : Variant) (F : Fold σ ε) (name : Name) (thr : Nat)
    (st : Store σ ε) : Sys σ ε :=
  launch v F (Sys.init F name thr st)

/-- history steps and observations -/
inductive Op (ε : Type) where
  | ev (e : ε) | evq (e : ε) | fail | recreate | persist | snap | clear
  | get | count | rlog | stored | replay
  deriving DecidableEq, Repr

inductive Out (σ ε : Type) where
  | stateL (st : σ) (launches : Nat)
  | evOut (st : σ) (msgSame sndSame : Bool)
  | ok
  | state (st : σ)
  | nat (n : Nat)
  | nats (l : List Nat)
  | stored (r : Option (Rec σ ε))
  | quiet       -- nothing is answered (a told command)
  | dash        -- not determined at this level
  deriving DecidableEq, Repr

def step [DecidableEq σ] [DecidableEq ε] (v : Variant) (F : Fold σ ε) (s : Sys σ ε) : Op ε → Sys σ ε × Out σ ε
  | .ev e =>
    let s := processUser v F s .asker (.cmd (.ev e))
    (s, .evOut s.ctx.actor.st s.msgSame s.sndSame)
  | .evq e => (processUser v F s .nobody (.cmd (.evq e)), .quiet)
  | .fail =>
    let s := restart v F (processUser v F s .nobody (.cmd .fail))
    (s, .stateL s.ctx.actor.st s.launches)
  | .recreate =>
    let s := recreate v F s
    (s, .stateL s.ctx.actor.st s.launches)
  | .persist => (processUser v F s .asker (.cmd .persist), .ok)
  | .snap => (processUser v F s .asker (.cmd .snap), .ok)
  | .clear => (processUser v F s .asker (.cmd .clear), .ok)
  | .get => let s := processUser v F s .asker (.cmd .get); (s, .state s.ctx.actor.st)
  | .count => let s := processUser v F s .asker (.cmd .get); (s, .nat s.ctx.actor.count)
  | .rlog => let s := processUser v F s .asker (.cmd .get); (s, .nats s.ctx.actor.rlog)
  | .stored => let s := processUser v F s .asker (.cmd .get); (s, .stored (s.store s.ctx.name))
  | .replay => let s := processUser v F s .asker (.cmd .get); (s, .state (replayOpt F (s.store s.ctx.name)))

def run [DecidableEq σ] [DecidableEq ε] (v : Variant) (F : Fold σ ε) (s : Sys σ ε) (h : List (Op ε)) : Sys σ ε :=
  h.foldl (fun s o => (step v F s o).1) s

/-- the answers along a history -/
def trace [DecidableEq σ] [DecidableEq ε] (v : Variant) (F : Fold σ ε) (s : Sys σ ε) : List (Op ε) → List (Out σ ε)
  | [] => []
  | o :: h => (step v F s o).2 :: trace v F (step v F s o).1 h

/-- `burst`: events sent without waiting, a failure after every `k`-th (`k = 0`: none) -/
def burstOps (es : List ε) (k : Nat) : List (Op ε) :=
  (es.zipIdx).flatMap fun (e, i) => if k > 0 ∧ (i + 1) % k = 0 then [.evq e, .fail] else [.evq e]

end
end MV.Model.Persistence
