/-!
# Interleaving model of `toolkit/queues/mpsc.go` (`queues.MPSC`, swap-then-link queue)

Producers are a list of `(pc, remaining values)` records, one atomic operation per step
(`atomic.SwapPointer` on `q.head`, then `atomic.StorePointer` on `prev.next`); any number of producers
pushing any finite lists of values.  The single consumer's `Pop` touches shared memory exactly once
(`atomic.LoadPointer(&tail.next)`); `q.tail` is private to the consumer and `next.val` was written
before the node was published by the swap, so `Pop` is one atomic action `Act.pop` of the schedule
(single consumer: pops are never concurrent with each other).

Pointers.  Nodes are named by their position in `order`, the list of all nodes in the order of the
swaps (`order[0]` is the stub of `NewMPSC`); `q.head` is always the last node; `lk[k]` says whether
`order[k].next` has been stored (it then points to node `k+1`); `c` is the consumer's `q.tail`.
A load that would leave `order` sets `crashed`; the theorems show this never happens.

`pushProg`/`popProg`: the program text the model was transcribed from, compared on every run with the
canonical print of the go/ast of /repo/toolkit/queues/mpsc.go (suite `queue-facts`).

Core Lean only (imported by the oracle executable).
-/
namespace MV.Model.MPSC

inductive PC where
  | swap (v : Int)        -- prev = swap(q.head, n)
  | store (prev : Nat)    -- store(prev.next, n)
  | done
  deriving Repr, DecidableEq

/-- the atomic operation a producer at `pc` executes next, as printed in the program text -/
def PC.instr : PC → String
  | .swap _ => "swap(q.head,n)"
  | .store _ => "store(prev.next,n)"
  | .done => ""

/-- canonical text of `Push`; the atomic operations are spliced in from `PC.instr` -/
def pushProg : String :=
  "n=new(mpscNode); n.val=m; prev=" ++ (PC.swap 0).instr ++ "; " ++ (PC.store 0).instr

/-- canonical text of `Pop` (one shared-memory access: the load of `tail.next`, `Act.pop`) -/
def popProg : String :=
  "tail=q.tail; next=load(tail.next); if(next!=nil){ q.tail=next; v=next.val; next.val=nil; return v }; return nil"

/-- canonical text of `Empty` -/
def emptyProg : String :=
  "tail=q.tail; next=load(tail.next); return next==nil"

structure Thread where
  pc : PC
  todo : List Int
  deriving Repr, DecidableEq

structure Node where
  tid : Nat     -- ghost: the producer
  val : Int
  deriving Repr, DecidableEq

structure Glob where
  order : List Node
  lk : List Bool
  c : Nat
  /-- ghost: the values returned by `Pop`, in order -/
  popped : List Int
  crashed : Bool
  deriving Repr, DecidableEq

structure St where
  g : Glob
  ths : List Thread
  deriving Repr, DecidableEq

def start : List Int → Thread
  | [] => { pc := .done, todo := [] }
  | v :: r => { pc := .swap v, todo := r }

/-- one atomic step of producer `i` -/
def trans (g : Glob) (i : Nat) (th : Thread) : Option (Glob × Thread) :=
  match th.pc with
  | .done => none
  | .swap v =>
      some ({ g with order := g.order ++ [{ tid := i, val := v }], lk := g.lk ++ [false] },
            { th with pc := .store (g.order.length - 1) })
  | .store prev => some ({ g with lk := g.lk.set prev true }, start th.todo)

/-- `Pop()` by the consumer -/
def pop (g : Glob) : Glob × Option Int :=
  match g.lk[g.c]? with
  | some true =>
      match g.order[g.c + 1]? with
      | some nd => ({ g with c := g.c + 1, popped := g.popped ++ [nd.val] }, some nd.val)
      | none => ({ g with crashed := true }, none)
  | some false => (g, none)
  | none => ({ g with crashed := true }, none)

/-- `Empty()` by the consumer -/
def empty (g : Glob) : Bool := g.lk[g.c]? != some true

inductive Act where
  | prod (i : Nat) | pop
  deriving Repr, DecidableEq

def step (s : St) : Act → Option St
  | .pop => some { s with g := (pop s.g).1 }
  | .prod i =>
    match s.ths[i]? with
    | none => none
    | some th =>
      match trans s.g i th with
      | none => none
      | some (g', th') => some { g := g', ths := s.ths.set i th' }

/-- run a schedule; entries naming a finished or non-existent producer are skipped -/
def run (s : St) : List Act → St
  | [] => s
  | a :: sched => run ((step s a).getD s) sched

/-- `NewMPSC()` and one producer per value list -/
def init (progs : List (List Int)) : St :=
  { g := { order := [{ tid := 0, val := 0 }], lk := [false], c := 0, popped := [], crashed := false },
    ths := progs.map start }

/-- the values still in the queue (swapped in, not popped), oldest first -/
def remaining (g : Glob) : List Int := (g.order.drop (g.c + 1)).map (·.val)

/-- all values ever pushed, in swap (linearisation) order -/
def pushed (g : Glob) : List Int := (g.order.drop 1).map (·.val)

/-- run producer `i` alone until it is `done` (a solo `Push` is 2 steps) -/
def solo (s : St) (i : Nat) : Nat → St
  | 0 => s
  | fuel + 1 => match step s (.prod i) with
      | none => s
      | some s' => solo s' i fuel

end MV.Model.MPSC
