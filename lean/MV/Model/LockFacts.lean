/-!
# Lock-discipline facts of the synchronized containers (C16, tie T-facts)

The harness re-extracts, on every run and from the source text of /repo, every straight-line path
through every exported method of `SyncMap`, `SyncSlice`, `SyncPrioritySlice`, `OrderSync`,
`MutexBucket` and `MutexBucketItem` as a sequence of tokens (`harness/suites/c16/lockfacts.go`).
`table` is the expected extraction (compared exactly), `check` the discipline predicate:

* `Lock`/`RLock` only when nothing is held, `Unlock`/`RUnlock` only of what is held
  (a second unlock is the Go *fatal error* of the old `SyncMap.DeleteExist`);
* a guarded field is read only under a lock and written only under the write lock;
* an access that can panic (slice index) happens only while the unlock is *deferred*
  (otherwise a recovered panic leaves the mutex locked for ever — the old `SyncSlice.Set`);
* unexported helpers that touch the guarded fields are called only under the write lock, exported
  methods of the receiver (which lock themselves) only when nothing is held;
* at the end of every path, after the deferred unlocks ran in LIFO order, nothing is held.

`table_disciplined` proves (by evaluation) that every expected path satisfies the predicate; the
`lockfacts-judge` oracle evaluates the same predicate on what the harness extracted.

Core Lean only.
-/
namespace MV.Model.LockFacts

inductive Tok where
  | L | R | U | RU | dU | dRU | A | W | Ai | Wi | cu (name : String) | cx (name : String) | ret
  deriving DecidableEq, Repr

inductive Verdict where
  | ok | relock | unlockOfUnlocked | unlockedRead | unlockedWrite | panicLeaksLock
  | helperWithoutWriteLock | selfDeadlock | lockLeak
  deriving DecidableEq, Repr

/-- run the deferred unlocks (most recent first), then nothing may be held; `held`: 0 none, 1 read, 2 write -/
def finish : List Tok → Nat → Verdict
  | [], held => if held = 0 then .ok else .lockLeak
  | .dU :: ds, held => if held = 2 then finish ds 0 else .unlockOfUnlocked
  | .dRU :: ds, held => if held = 1 then finish ds 0 else .unlockOfUnlocked
  | _ :: ds, held => finish ds held

/-- check one path; `defers` is the stack of deferred unlocks -/
def checkFrom : List Tok → Nat → List Tok → Verdict
  | [], held, defers => finish defers held
  | .ret :: _, held, defers => finish defers held
  | .L :: ts, held, defers => if held = 0 then checkFrom ts 2 defers else .relock
  | .R :: ts, held, defers => if held = 0 then checkFrom ts 1 defers else .relock
  | .U :: ts, held, defers => if held = 2 then checkFrom ts 0 defers else .unlockOfUnlocked
  | .RU :: ts, held, defers => if held = 1 then checkFrom ts 0 defers else .unlockOfUnlocked
  | .dU :: ts, held, defers => checkFrom ts held (.dU :: defers)
  | .dRU :: ts, held, defers => checkFrom ts held (.dRU :: defers)
  | .A :: ts, held, defers => if held = 0 then .unlockedRead else checkFrom ts held defers
  | .W :: ts, held, defers => if held = 2 then checkFrom ts held defers else .unlockedWrite
  | .Ai :: ts, held, defers =>
      if held = 0 then .unlockedRead else if defers.isEmpty then .panicLeaksLock else checkFrom ts held defers
  | .Wi :: ts, held, defers =>
      if held ≠ 2 then .unlockedWrite else if defers.isEmpty then .panicLeaksLock else checkFrom ts held defers
  | .cu _ :: ts, held, defers => if held = 2 then checkFrom ts held defers else .helperWithoutWriteLock
  | .cx _ :: ts, held, defers => if held = 0 then checkFrom ts held defers else .selfDeadlock

def check (p : List Tok) : Verdict := checkFrom p 0 []

/-- first non-`ok` verdict of a method's paths -/
def checkAll : List (List Tok) → Verdict
  | [] => .ok
  | p :: ps => match check p with
      | .ok => checkAll ps
      | v => v

structure Entry where
  file : String
  method : String
  paths : List (List Tok)

/-- the expected extraction, one entry per exported method (generated once from the repaired tree
and reviewed; compared exactly with what the harness extracts on every run) -/
def table : List Entry := [
  ⟨"toolkit/collection/mappings/sync_map.go", "SyncMap.Atom", [[.L, .dU, .A]]⟩,
  ⟨"toolkit/collection/mappings/sync_map.go", "SyncMap.Clear", [[.L, .dU, .A], [.L, .dU, .A, .W], [.L, .dU, .A, .W, .W]]⟩,
  ⟨"toolkit/collection/mappings/sync_map.go", "SyncMap.ClearHandle", [[.L, .dU, .A], [.L, .dU, .A, .W], [.L, .dU, .A, .W, .W]]⟩,
  ⟨"toolkit/collection/mappings/sync_map.go", "SyncMap.Delete", [[.L, .dU, .W]]⟩,
  ⟨"toolkit/collection/mappings/sync_map.go", "SyncMap.DeleteExist", [[.L, .dU, .A, .W, .ret], [.L, .dU, .A, .ret]]⟩,
  ⟨"toolkit/collection/mappings/sync_map.go", "SyncMap.DeleteGet", [[.L, .dU, .A, .W, .ret]]⟩,
  ⟨"toolkit/collection/mappings/sync_map.go", "SyncMap.DeleteGetExist", [[.L, .dU, .A, .W, .ret]]⟩,
  ⟨"toolkit/collection/mappings/sync_map.go", "SyncMap.Exist", [[.R, .dRU, .A, .ret]]⟩,
  ⟨"toolkit/collection/mappings/sync_map.go", "SyncMap.Get", [[.R, .dRU, .A, .ret]]⟩,
  ⟨"toolkit/collection/mappings/sync_map.go", "SyncMap.GetExist", [[.R, .dRU, .A, .ret]]⟩,
  ⟨"toolkit/collection/mappings/sync_map.go", "SyncMap.Keys", [[.R, .dRU, .A, .A, .ret]]⟩,
  ⟨"toolkit/collection/mappings/sync_map.go", "SyncMap.Map", [[.R, .dRU, .A, .ret]]⟩,
  ⟨"toolkit/collection/mappings/sync_map.go", "SyncMap.MarshalJSON", [[.cx "Map", .ret]]⟩,
  ⟨"toolkit/collection/mappings/sync_map.go", "SyncMap.Range", [[.L, .dU, .A]]⟩,
  ⟨"toolkit/collection/mappings/sync_map.go", "SyncMap.Set", [[.L, .dU, .W]]⟩,
  ⟨"toolkit/collection/mappings/sync_map.go", "SyncMap.Size", [[.R, .dRU, .A, .ret]]⟩,
  ⟨"toolkit/collection/mappings/sync_map.go", "SyncMap.Slice", [[.R, .dRU, .A, .A, .ret]]⟩,
  ⟨"toolkit/collection/mappings/sync_map.go", "SyncMap.UnmarshalJSON", [[.L, .dU, .W, .ret], [.ret]]⟩,
  ⟨"toolkit/collection/listings/sync_slice.go", "SyncSlice.Append", [[.L, .A, .W, .U]]⟩,
  ⟨"toolkit/collection/listings/sync_slice.go", "SyncSlice.Clear", [[.L, .A, .W, .U]]⟩,
  ⟨"toolkit/collection/listings/sync_slice.go", "SyncSlice.Get", [[.R, .dRU, .Ai, .ret]]⟩,
  ⟨"toolkit/collection/listings/sync_slice.go", "SyncSlice.GetData", [[.L, .dU, .A, .ret]]⟩,
  ⟨"toolkit/collection/listings/sync_slice.go", "SyncSlice.GetWithRange", [[.R, .dRU, .Ai, .ret]]⟩,
  ⟨"toolkit/collection/listings/sync_slice.go", "SyncSlice.Release", [[.L, .W, .U]]⟩,
  ⟨"toolkit/collection/listings/sync_slice.go", "SyncSlice.Set", [[.L, .dU, .Wi]]⟩,
  ⟨"toolkit/collection/listings/sync_priority_slice.go", "SyncPrioritySlice.Action", [[.L, .dU, .A, .A], [.L, .dU, .A, .A, .W, .cu "sort"], [.L, .dU, .A, .ret]]⟩,
  ⟨"toolkit/collection/listings/sync_priority_slice.go", "SyncPrioritySlice.Append", [[.L, .dU, .A, .W, .cu "sort"]]⟩,
  ⟨"toolkit/collection/listings/sync_priority_slice.go", "SyncPrioritySlice.AppendByOptionalPriority", [[.cx "Append"]]⟩,
  ⟨"toolkit/collection/listings/sync_priority_slice.go", "SyncPrioritySlice.Appends", [[.L, .dU, .A, .W, .cu "sort", .A, .W, .cu "sort", .cu "sort"], [.L, .dU, .A, .W, .cu "sort", .cu "sort"], [.L, .dU, .cu "sort"]]⟩,
  ⟨"toolkit/collection/listings/sync_priority_slice.go", "SyncPrioritySlice.Cap", [[.R, .dRU, .A, .ret]]⟩,
  ⟨"toolkit/collection/listings/sync_priority_slice.go", "SyncPrioritySlice.Clear", [[.L, .dU, .A, .W]]⟩,
  ⟨"toolkit/collection/listings/sync_priority_slice.go", "SyncPrioritySlice.Get", [[.R, .dRU, .Ai, .ret]]⟩,
  ⟨"toolkit/collection/listings/sync_priority_slice.go", "SyncPrioritySlice.GetPriority", [[.R, .dRU, .Ai, .ret]]⟩,
  ⟨"toolkit/collection/listings/sync_priority_slice.go", "SyncPrioritySlice.GetValue", [[.R, .dRU, .Ai, .ret]]⟩,
  ⟨"toolkit/collection/listings/sync_priority_slice.go", "SyncPrioritySlice.Len", [[.R, .dRU, .A, .ret]]⟩,
  ⟨"toolkit/collection/listings/sync_priority_slice.go", "SyncPrioritySlice.Range", [[.R, .dRU, .A]]⟩,
  ⟨"toolkit/collection/listings/sync_priority_slice.go", "SyncPrioritySlice.RangePriority", [[.cx "Range"]]⟩,
  ⟨"toolkit/collection/listings/sync_priority_slice.go", "SyncPrioritySlice.RangeValue", [[.cx "Range"]]⟩,
  ⟨"toolkit/collection/listings/sync_priority_slice.go", "SyncPrioritySlice.Set", [[.L, .dU, .Ai, .Wi], [.L, .dU, .Ai, .Wi, .cu "sort"]]⟩,
  ⟨"toolkit/collection/listings/sync_priority_slice.go", "SyncPrioritySlice.SetPriority", [[.L, .dU, .Wi, .cu "sort"]]⟩,
  ⟨"toolkit/collection/listings/sync_priority_slice.go", "SyncPrioritySlice.SetValue", [[.L, .dU, .Wi]]⟩,
  ⟨"toolkit/collection/listings/sync_priority_slice.go", "SyncPrioritySlice.Slice", [[.R, .dRU, .A, .ret]]⟩,
  ⟨"toolkit/collection/listings/sync_priority_slice.go", "SyncPrioritySlice.String", [[.R, .dRU, .A, .ret]]⟩,
  ⟨"toolkit/collection/mappings/order_sync.go", "OrderSync.Add", [[.L, .dU, .A, .A, .A, .W, .A, .W], [.L, .dU, .A, .A, .W, .A, .W, .A, .W], [.L, .dU, .A, .ret]]⟩,
  ⟨"toolkit/collection/mappings/order_sync.go", "OrderSync.Del", [[.L, .dU, .A, .A, .A, .Ai, .Wi, .W, .Ai, .W, .W], [.L, .dU, .A, .A, .Ai, .W, .W], [.L, .dU, .A, .ret]]⟩,
  ⟨"toolkit/collection/mappings/order_sync.go", "OrderSync.Get", [[.R, .dRU, .A, .Ai, .ret], [.R, .dRU, .A, .ret]]⟩,
  ⟨"toolkit/collection/mappings/order_sync.go", "OrderSync.Len", [[.R, .dRU, .A, .ret]]⟩,
  ⟨"toolkit/collection/mappings/order_sync.go", "OrderSync.Range", [[.R, .dRU, .A]]⟩,
  ⟨"toolkit/collection/mappings/order_sync.go", "OrderSync.Set", [[.L, .dU, .A, .A, .A, .W, .A, .W], [.L, .dU, .A, .A, .W, .A, .W, .A, .W], [.L, .dU, .A, .Wi]]⟩,
  ⟨"toolkit/collection/mappings/mutex_bucket.go", "MutexBucket.Clear", [[], [.L, .W, .U], [.L, .W, .U, .L, .W, .U]]⟩,
  ⟨"toolkit/collection/mappings/mutex_bucket.go", "MutexBucket.Del", [[.cx "GetBucket", .L, .W, .U]]⟩,
  ⟨"toolkit/collection/mappings/mutex_bucket.go", "MutexBucket.Get", [[.cx "GetBucket", .R, .A, .RU, .ret]]⟩,
  ⟨"toolkit/collection/mappings/mutex_bucket.go", "MutexBucket.GetBucket", [[.ret]]⟩,
  ⟨"toolkit/collection/mappings/mutex_bucket.go", "MutexBucket.Len", [[.R, .A, .RU, .R, .A, .RU, .ret], [.R, .A, .RU, .ret], [.ret]]⟩,
  ⟨"toolkit/collection/mappings/mutex_bucket.go", "MutexBucket.Set", [[.cx "GetBucket", .L, .W, .U]]⟩,
  ⟨"toolkit/collection/mappings/mutex_bucket.go", "MutexBucketItem.Get", [[.R, .A, .RU, .ret]]⟩,
  ⟨"toolkit/collection/mappings/mutex_bucket.go", "MutexBucketItem.GetAndDel", [[.L, .dU, .A, .W, .ret], [.L, .dU, .A, .ret]]⟩,
  ⟨"toolkit/collection/mappings/mutex_bucket.go", "MutexBucketItem.GetOrSet", [[.R, .A, .RU, .L, .dU, .A, .W, .ret], [.R, .A, .RU, .L, .dU, .A, .ret], [.R, .A, .RU, .ret]]⟩
]

/-- **every expected path of every exported method satisfies the lock discipline** -/
theorem table_disciplined : table.all (fun e => checkAll e.paths == .ok) = true := by decide

/-- the discipline predicate rejects the four shapes the unrepaired code had -/
theorem old_shapes_rejected :
    check [.L, .dU, .A, .U, .ret] = .unlockOfUnlocked ∧          -- SyncMap.DeleteExist, absent key
    check [.L, .Wi, .U] = .panicLeaksLock ∧                      -- SyncSlice.Set
    check [.Ai, .ret] = .unlockedRead ∧                          -- SyncSlice.GetWithRange
    check [.cx "Append", .cu "sort"] = .helperWithoutWriteLock ∧ -- SyncPrioritySlice.Appends
    check [.L, .U, .W, .ret] = .unlockedWrite := by decide       -- SyncMap.UnmarshalJSON

end MV.Model.LockFacts
