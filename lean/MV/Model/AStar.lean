/-!
# Model of `toolkit/navigate/astar/{astar,path,priority}.go` (`astar.Find`)

Transcription of the Go code as it is:

* nodes are their ids (`Nat`); the graph is `nbrs : Nat → List Nat` (`GetNeighbours`, in the order
  the graph returns them) and `cost : Nat → Nat → Nat` (the `cost(a, b)` callback — a function of
  the two *nodes*, exactly as in Go, so parallel edges cannot have different weights);
* heap entries are whole paths (`path[T]`, forward order, `Extend` appends) with the key
  `cost(path) + heuristic(last)`; Go stores `priority = -(key)` and `Less(i,j) = priority[i] >
  priority[j]`, i.e. `key i < key j`.  The start entry is pushed with the zero `priority`, i.e.
  key `0` (not `heuristic(start)`), as in the code;
* the open list is Go's `container/heap` on a slice: `Push` = append + `up`, `Pop` = swap(0,n-1) +
  `down(0,n-1)` + remove last.  `up`/`down` are transcribed literally (parent `(j-1)/2`, which for
  `j = 0` is `0` both in Go's truncated division and in `Nat`), so ties are broken exactly as Go
  breaks them and the returned *path* can be compared, not only its cost;
* the closed set is keyed by node id; the goal test happens after the closed test and before the
  node is closed;
* the `for h.Len() > 0` loop is a fuelled recursion; `find` supplies `fuelBound G + 1` units, which
  `MV.Props.C20.C20_astar_complete` shows is never exhausted on a well-formed finite graph.

The search is written once over an abstract priority queue `PQ` (so the A* lemmas need only the
queue laws); `goHeap` is the transcription of `container/heap` and `find` is the search with it.

Core Lean only (imported by the oracle executable).
-/

namespace MV.Model.AStar

structure Graph where
  /-- number of nodes; nodes are `0 … n-1` -/
  n : Nat
  /-- `GetNeighbours` -/
  nbrs : Nat → List Nat
  /-- the `cost(a, b)` callback -/
  cost : Nat → Nat → Nat

abbrev Path := List Nat

/-- `path.Cost(f)`: `Σ_{i ≥ 1} f(p[i-1], p[i])` -/
def pathCost (cost : Nat → Nat → Nat) : Path → Nat
  | a :: b :: r => cost a b + pathCost cost (b :: r)
  | _ => 0

/-- `path.Last()` (Go panics on the empty path; paths in the search are never empty) -/
def last (p : Path) : Nat := p.getLastD 0

structure Entry where
  key : Nat
  path : Path
deriving Inhabited, Repr, DecidableEq

/-- abstract priority queue interface used by the search -/
structure PQ where
  Q : Type
  empty : Q
  push : Q → Entry → Q
  pop : Q → Option (Entry × Q)

/-! ## `container/heap` over a slice of entries -/
namespace GoHeap

/-- `Less(i, j)`: `priority[i] > priority[j]` with `priority = -key` -/
def less (a : Array Entry) (i j : Nat) : Bool := decide ((a[i]!).key < (a[j]!).key)

/-- `Swap(i, j)` -/
def swap (a : Array Entry) (i j : Nat) : Array Entry := a.swapIfInBounds i j

/-- `heap.up(h, j)` -/
def up (a : Array Entry) (j : Nat) : Array Entry :=
  let i := (j - 1) / 2
  if i = j ∨ less a j i = false then a else up (swap a i j) i
termination_by j
decreasing_by omega

/-- `heap.down(h, i, n)` (the boolean result is only used by `Fix`/`Remove`) -/
def down (a : Array Entry) (i n : Nat) : Array Entry :=
  let j1 := 2 * i + 1
  if j1 ≥ n then a
  else
    let j := if j1 + 1 < n ∧ less a (j1 + 1) j1 = true then j1 + 1 else j1
    if less a j i = false then a else down (swap a i j) j n
termination_by n - i
decreasing_by all_goals (simp only [j1] at *; split <;> omega)

/-- `heap.Push(h, x)`: append, then `up(h, h.Len()-1)` -/
def push (a : Array Entry) (e : Entry) : Array Entry := up (a.push e) a.size

/-- `heap.Pop(h)` guarded by the loop condition `h.Len() > 0` -/
def pop (a : Array Entry) : Option (Entry × Array Entry) :=
  if a.size = 0 then none
  else
    let n := a.size - 1
    let a2 := down (swap a 0 n) 0 n
    some (a2[n]!, a2.pop)

end GoHeap

def goHeap : PQ := { Q := Array Entry, empty := #[], push := GoHeap.push, pop := GoHeap.pop }

/-! ## the search -/

inductive Result where
  | found (p : Path)
  | notFound
  | outOfFuel
deriving Repr, DecidableEq

/-- the `for _, nb := range graph.GetNeighbours(n)` loop -/
def pushNbrs (pq : PQ) (G : Graph) (h : Nat → Nat) (p : Path) : List Nat → pq.Q → pq.Q
  | [], q => q
  | nb :: r, q =>
    let cp := p ++ [nb]
    pushNbrs pq G h p r (pq.push q { key := pathCost G.cost cp + h nb, path := cp })

/-- the `for h.Len() > 0` loop, one iteration per unit of fuel -/
def loop (pq : PQ) (G : Graph) (goal : Nat) (h : Nat → Nat) : Nat → pq.Q → List Nat → Result
  | 0, _, _ => .outOfFuel
  | f + 1, q, closed =>
    match pq.pop q with
    | none => .notFound
    | some (e, q') =>
      let n := last e.path
      if closed.contains n then loop pq G goal h f q' closed
      else if n = goal then .found e.path
      else loop pq G goal h f (pushNbrs pq G h e.path (G.nbrs n) q') (n :: closed)

/-- total number of neighbour entries of the graph -/
def degSum (G : Graph) : Nat := ((List.range G.n).map (fun v => (G.nbrs v).length)).sum

/-- iterations that always suffice: every iteration pops one entry, and at most
    `1 + Σ_v deg v` entries are ever pushed (each node is closed at most once) -/
def fuelBound (G : Graph) : Nat := 1 + degSum G

def findWith (pq : PQ) (G : Graph) (start goal : Nat) (h : Nat → Nat) : Result :=
  loop pq G goal h (fuelBound G + 1) (pq.push pq.empty { key := 0, path := [start] }) []

/-- `astar.Find(graph, start, end, cost, heuristic)`; `h v` stands for `heuristic(v, end)` -/
def find (G : Graph) (start goal : Nat) (h : Nat → Nat) : Result := findWith goHeap G start goal h

end MV.Model.AStar
