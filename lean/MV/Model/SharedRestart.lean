import MV.Model.Backoff
/-!
# The restart back-off of a shared (remoting) listener — `engine/prc/shared_configuration.go`, `shared.go`

Two cooperating sites decide what happens after the `count`-th consecutive failed restart:

* `Shared.runtimeError` retries iff `restartCount <= consecutiveRestartLimit || consecutiveRestartLimit <= 0`
  (a limit `<= 0` means "unlimited", as `WithConsecutiveRestartLimit` documents) and then hands
  `restartInterval(restartCount)` to `time.AfterFunc`;
* `WithRestartInterval(base, max)` installs `count ↦ StandardExponentialBackoff(count, maxRetries, base, max)`
  where `maxRetries` is the limit **read at every call** (a later `WithConsecutiveRestartLimit` counts),
  and — since the `fix:` commit `352a74d` — a limit `<= 0` is passed as `-1` (the back-off only takes a
  negative `maxRetries` as unlimited).

Core Lean only.
-/
namespace MV.Model.SharedRestart
open MV.Model.Backoff

inductive Interval where
  | none                                   -- no interval configured: restart at once
  | fixed (d : Int)                        -- `WithFixedRestartInterval`
  | backoff (base max : Int)               -- `WithRestartInterval`
  deriving Repr, DecidableEq

/-- `SharedConfiguration` as far as restarts are concerned; `newSharedConfiguration` sets the limit 10 -/
structure Cfg where
  limit : Int := 10
  interval : Interval := .none
  deriving Repr

/-- `WithConsecutiveRestartLimit` -/
def Cfg.withLimit (c : Cfg) (n : Int) : Cfg := { c with limit := n }
/-- `WithRestartInterval` / `WithFixedRestartInterval` (each overrides the other) -/
def Cfg.withBackoff (c : Cfg) (base max : Int) : Cfg := { c with interval := .backoff base max }
def Cfg.withFixed (c : Cfg) (d : Int) : Cfg := { c with interval := .fixed d }

/-- the test in `Shared.runtimeError` -/
def retries (limit : Int) (count : Nat) : Bool := decide ((count : Int) ≤ limit) || decide (limit ≤ 0)

/-- the `maxRetries` the closure of `WithRestartInterval` passes on -/
def maxRetries (limit : Int) : Int := if limit ≤ 0 then -1 else limit

/-- `config.restartInterval(count)` with the random draw `u` (`none`: no interval configured) -/
def delay (c : Cfg) (count : Nat) (u : FVal) : Option Int :=
  match c.interval with
  | .none => none
  | .fixed d => some d
  | .backoff base max => some (standard count (maxRetries c.limit) base max u)

/-- the closure as it was before `352a74d`: the limit passed on as it is -/
def delayLegacy (c : Cfg) (count : Nat) (u : FVal) : Option Int :=
  match c.interval with
  | .none => none
  | .fixed d => some d
  | .backoff base max => some (standard count c.limit base max u)

end MV.Model.SharedRestart
