/-!
# Model of `toolkit/buffer/ring.go` (`buffer.Ring[T]`)

Transcription of the Go code: the backing slice is a function `Nat → α` plus the explicit
`size`, cursors `r`, `w`, and `initSize`.  Wrap-around is written the way the code writes it
(`if i == size then 0`), never with `%`.  `len(b.buf)` is always equal to `b.size` in the Go code
(`grow` replaces both, `Reset` re-slices to `initSize`), so one field stands for both.

Core Lean only (imported by the oracle executable).
-/

namespace MV.Model

structure Ring (α : Type) where
  buf : Nat → α
  initSize : Nat
  size : Nat
  r : Nat
  w : Nat

namespace Ring
variable {α : Type}

/-- `NewRing(initSize...)`: sizes below 2 (or none given) become 2. -/
def new (dflt : α) (initSize : Int) : Ring α :=
  let n := if initSize < 2 then 2 else initSize.toNat
  { buf := fun _ => dflt, initSize := n, size := n, r := 0, w := 0 }

def wrap (size i : Nat) : Nat := if i < size then i else i - size

/-- `Len()` -/
def len (b : Ring α) : Nat := if b.r ≤ b.w then b.w - b.r else b.size - b.r + b.w

/-- abstraction: the queued elements, oldest first -/
def abs (b : Ring α) : List α := (List.range b.len).map (fun i => b.buf (wrap b.size (b.r + i)))

def upd (f : Nat → α) (k : Nat) (v : α) : Nat → α := fun i => if i = k then v else f i

/-- `grow()` -/
def grow (b : Ring α) : Ring α :=
  let size' := if b.size < 1024 then b.size * 2 else b.size + b.size / 4
  { b with
    buf := fun i => if i < b.size - b.r then b.buf (b.r + i) else b.buf (i - (b.size - b.r)),
    size := size', r := 0, w := b.size }

/-- `Write(v)` -/
def write (b : Ring α) (v : α) : Ring α :=
  let buf' := upd b.buf b.w v
  let w' := if b.w + 1 = b.size then 0 else b.w + 1
  let b' : Ring α := { b with buf := buf', w := w' }
  if w' = b.r then grow b' else b'

/-- `Read()`; `none` = `ErrBufferIsEmpty` -/
def read (b : Ring α) : Option α × Ring α :=
  if b.r = b.w then (none, b)
  else
    let v := b.buf b.r
    let r' := if b.r + 1 = b.size then 0 else b.r + 1
    (some v, { b with r := r' })

/-- `Peek()` -/
def peek (b : Ring α) : Option α := if b.r = b.w then none else some (b.buf b.r)

inductive Multi (α : Type) where
  | nilOk            -- `nil, nil`  (n ≤ 0)
  | empty            -- `nil, ErrBufferIsEmpty`
  | data (l : List α)
  deriving Repr

/-- number of elements `ReadMulti(n)` hands out (`n` clamped to the length) -/
def rmN (b : Ring α) (n : Int) : Nat :=
  let length := if b.w > b.r then b.w - b.r else b.size - b.r + b.w
  if n.toNat > length then length else n.toNat

/-- the slice `ReadMulti(n)` returns -/
def rmData (b : Ring α) (n : Int) : List α :=
  (List.range (rmN b n)).map (fun i => b.buf (wrap b.size (b.r + i)))

/-- the ring after `ReadMulti(n)`: the read cursor is computed branch by branch as the Go code
does (after the `fix:` commit that advances `r` by the number of elements read). -/
def rmNext (b : Ring α) (n : Int) : Ring α :=
  let n' := rmN b n
  let r1 :=
    if b.w > b.r then b.r + n'
    else
      let copied := if n' < b.size - b.r then n' else b.size - b.r
      if copied < n' then n' - copied else b.r + n'
  { b with r := if r1 = b.size then 0 else r1 }

/-- `ReadMulti(n)` -/
def readMulti (b : Ring α) (n : Int) : Multi α × Ring α :=
  if n ≤ 0 then (.nilOk, b)
  else if b.r = b.w then (.empty, b)
  else (.data (rmData b n), rmNext b n)

/-- `ReadAll()`; `none` = `nil` -/
def readAll (b : Ring α) : Option (List α) × Ring α :=
  if b.r = b.w then (none, b)
  else (some b.abs, { b with r := 0, w := 0 })

/-- `IsEmpty()` -/
def isEmpty (b : Ring α) : Bool := b.r == b.w

/-- `Reset()` -/
def reset (b : Ring α) : Ring α := { b with r := 0, w := 0, size := b.initSize }

/-- representation invariant -/
def WF (b : Ring α) : Prop := 2 ≤ b.initSize ∧ b.initSize ≤ b.size ∧ b.r < b.size ∧ b.w < b.size

/-! ## Operation language shared by the oracle, the spec and the theorems -/

inductive Op where
  | write (v : Int) | read | readMulti (n : Int) | readAll | peek | isEmpty | len | cap | reset
  deriving Repr, DecidableEq

inductive Out where
  | unit | val (v : Int) | empty | nil | list (l : List Int) | bool (b : Bool) | nat (n : Nat)
  deriving Repr, DecidableEq

def step (b : Ring Int) : Op → Ring Int × Out
  | .write v => (b.write v, .unit)
  | .read => match b.read with
      | (some v, b') => (b', .val v)
      | (none, b') => (b', .empty)
  | .readMulti n => match b.readMulti n with
      | (.nilOk, b') => (b', .nil)
      | (.empty, b') => (b', .empty)
      | (.data l, b') => (b', .list l)
  | .readAll => match b.readAll with
      | (some l, b') => (b', .list l)
      | (none, b') => (b', .nil)
  | .peek => match b.peek with
      | some v => (b, .val v)
      | none => (b, .empty)
  | .isEmpty => (b, .bool b.isEmpty)
  | .len => (b, .nat b.len)
  | .cap => (b, .nat b.size)
  | .reset => (b.reset, .unit)

def run (b : Ring Int) : List Op → List Out
  | [] => []
  | op :: ops => let (b', o) := step b op; o :: run b' ops

end Ring
end MV.Model
