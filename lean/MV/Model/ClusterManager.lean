/-!
# Model of the cluster manager actor (`engine/vivid/cluster/drillmaster_actor.go`)

The manager is an actor: it handles one message at a time (C01), so it is a *sequential machine*
over the messages it receives.  This file transcribes

* `newActorSystemConfiguration` + `WithAbility` (`actor_system_configuration.go`): the set of
  abilities the node offers; declaring an ability twice panics,
* `newDrillmasterActor`: an empty `members` table,
* `onActorOf` (as repaired by the two `fix:` commits): unknown ability ⇒ error reply; lookup in
  `members[ability][identity]`; on a miss `actorOf`, i.e. `ctx.ActorOf` with
  `WithNamePrefix(identity).WithName(ability)` under a deferred `recover`, then
  `members[ability][identity] = ref`; reply,
* what `ctx.ActorOf` does with those names (`vivid/actor_context.go`, `actor_descriptor.go`):
  both names must match `^[^\s\\/]+$` (else *panic*), the child is called
  `identity ++ "-" ++ ability`, `Register` of a taken name *panics* ("already exists"), the new
  child is added to `ctx.children` and launched,
* `onTerminated`: the runtime removes the child from `ctx.children`, the manager forgets every
  member whose reference equals the terminated one,
* a failure of the manager itself: the guard restarts it — every child is terminated, the provider
  builds a new `drillmasterActor` (empty `members`).

Names are lists of characters (`Name`); the oracle converts the tokens of an operation line.
A reference is the child's name (its logical address is `/user/cluster/` ++ name) together with a
ghost field `inc`: the how-manieth launch of the ability's provider at that address it denotes
(the harness' provider counts its launches per address and the actor answers a ping with its number),
so that "the same reference" below means the same address *and* the same incarnation.
`launched`/`terminated` are ghost logs (one entry per launch / per termination of a child).

Core Lean only (linked into `oracle-c13`).
-/
namespace MV.Model.ClusterManager

abbrev Name := List Char

/-- `\s`, `\` and `/` are what `actorNameRegexp = ^[^\s\\/]+$` excludes (Go's `\s` is `[\t\n\f\r ]`) -/
def badChar (c : Char) : Bool :=
  c == ' ' || c == '\t' || c == '\n' || c == '\x0c' || c == '\r' || c == '\\' || c == '/'

/-- `actorNameRegexp.MatchString(name)` -/
def legalName (n : Name) : Bool := !n.isEmpty && n.all (fun c => !badChar c)

/-- `descriptor.namePrefix + "-" + descriptor.name` -/
def nameOf (identity ability : Name) : Name := identity ++ '-' :: ability

structure Ref where
  name : Name
  inc : Nat
deriving DecidableEq, Repr

/-- key of `members`: `members[ability][identity]` -/
abbrev Key := Name × Name

structure Mgr where
  /-- `system.config.abilities` (keys) -/
  abilities : List Name
  /-- `members`: (ability, identity) ↦ reference, newest first -/
  members : List (Key × Ref)
  /-- names registered below the manager = keys of `ctx.children`, newest first -/
  children : List Name
  /-- ghost: one entry per launch of a child (its name), newest first -/
  launched : List Name
  /-- ghost: one entry per termination of a child (its name), newest first -/
  terminated : List Name
deriving Repr

/-- `WithAbility` for every declared name in order: `none` = panic ("ability … already exists") -/
def declare : List Name → Option (List Name)
  | [] => some []
  | a :: rest =>
    match declare rest with
    | none => none
    | some l => if a ∈ l then none else some (a :: l)

/-- a freshly started manager on a node offering `abilities` -/
def init (abilities : List Name) : Mgr :=
  { abilities := abilities, members := [], children := [], launched := [], terminated := [] }

/-- `d.members[ability][identity]` -/
def find : List (Key × Ref) → Key → Option Ref
  | [], _ => none
  | (k, r) :: rest, k' => if k = k' then some r else find rest k'

/-- a Go panic -/
abbrev Panic := Unit

/-- `WithNamePrefix` / `WithName`: panics unless the name is legal -/
def withName (n : Name) : Except Panic Name :=
  if legalName n then .ok n else .error ()

/-- `ctx.ActorOf(provider, …, WithNamePrefix(identity).WithName(ability))` in the manager's context:
    configure the descriptor, derive the name, register (panic if taken), bind as child, launch. -/
def ctxActorOf (s : Mgr) (identity ability : Name) : Except Panic (Mgr × Ref) := do
  let pre ← withName identity
  let nm ← withName ability
  let name := nameOf pre nm
  if name ∈ s.children then
    .error ()                                   -- Register: exist ⇒ panic "actor … already exists"
  else
    let launched := name :: s.launched
    .ok ({ s with children := name :: s.children, launched := launched },
         { name := name, inc := launched.count name })

/-- `d.actorOf`: `ctx.ActorOf` under `defer recover()`; `none` = the error that is replied -/
def actorOf (s : Mgr) (identity ability : Name) : Except Panic (Option (Mgr × Ref)) :=
  match ctxActorOf s identity ability with
  | .ok x => .ok (some x)
  | .error _ => .ok none                        -- recovered

inductive Reply where
  | ref (r : Ref)
  | errAbility          -- "the ability … does not support"
  | errCreate           -- "the actor … can not be created"
deriving DecidableEq, Repr

/-- `onActorOf(ctx, &cm.ActorOf{Identity, Ability})`; `.error` = the manager's handler panicked -/
def onActorOf (s : Mgr) (identity ability : Name) : Except Panic (Mgr × Reply) := do
  if ability ∉ s.abilities then
    return (s, .errAbility)
  match find s.members (ability, identity) with
  | some r => return (s, .ref r)
  | none =>
    match ← actorOf s identity ability with
    | none => return (s, .errCreate)
    | some (s', r) =>
      return ({ s' with members := ((ability, identity), r) :: s'.members }, .ref r)

/-- the child called `n` has terminated: the runtime deletes it from `ctx.children`
    (`actorContext.onTerminated`), then the manager's `onTerminated` forgets the members whose
    reference equals the terminated one (`ProcessId.Equal`: same address). -/
def onTerminated (s : Mgr) (n : Name) : Mgr :=
  { s with children := s.children.filter (· ≠ n),
           members := s.members.filter (fun e => e.2.name ≠ n),
           terminated := n :: s.terminated }

/-- the guard restarts the manager: `onRestart` terminates every child and waits for them, then the
    provider builds a new `drillmasterActor` (empty members). -/
def restart (s : Mgr) : Mgr :=
  { s with children := [], members := [], terminated := s.children ++ s.terminated }

inductive Op where
  | lookup (identity ability : Name)
  | kill (identity ability : Name)     -- the actor the pair maps to is terminated (by anyone)
  | restart                            -- the manager fails for an outside reason and is restarted
deriving DecidableEq, Repr

inductive Out where
  | reply (r : Reply)
  | panic                -- the request made the manager fail (it is then restarted)
  | killed (n : Name)
  | none
  | restarted
deriving DecidableEq, Repr

def step (s : Mgr) : Op → Mgr × Out
  | .lookup i a =>
    match onActorOf s i a with
    | .ok (s', r) => (s', .reply r)
    | .error _ => (restart s, .panic)
  | .kill i a =>
    match find s.members (a, i) with
    | some r => (onTerminated s r.name, .killed r.name)
    | none => (s, .none)
  | .restart => (restart s, .restarted)

def run (s : Mgr) : List Op → Mgr × List Out
  | [] => (s, [])
  | op :: ops =>
    let (s', o) := step s op
    let (s'', os) := run s' ops
    (s'', o :: os)

end MV.Model.ClusterManager
