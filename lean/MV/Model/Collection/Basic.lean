/-!
# Executable model of `toolkit/collection` — common definitions (C17)

* A Go slice of ints is `Sl = Option (List Int)`; `none` is the `nil` slice.
* A Go `map[int]int` is `Mp = Option (List (Int × Int))`: an association list with **distinct keys**
  (`none` is the `nil` map).  Where the Go code ranges over a map the order of the list is the
  iteration order (an explicit parameter of the model); outputs that are maps are printed sorted by key.
* In-place helpers are modelled on the **backing array** with explicit read and write positions
  (`compactFrom`), so that reading a cell that an earlier iteration has already overwritten is
  representable.
-/
namespace MV.Model.Coll

abbrev Sl := Option (List Int)
abbrev Mp := Option (List (Int × Int))

/-- elements of a slice (`nil` has none) -/
def Sl.els (s : Sl) : List Int := s.getD []
/-- entries of a map (`nil` has none) -/
def Mp.ents (m : Mp) : List (Int × Int) := m.getD []

/-! ## association-list primitives (Go map reads and writes) -/

/-- `_, ok := m[k]` -/
def mhas (m : List (Int × Int)) (k : Int) : Bool := (m.lookup k).isSome
/-- `m[k]` (zero value when absent) -/
def mget (m : List (Int × Int)) (k : Int) : Int := (m.lookup k).getD 0
/-- `m[k] = v` : overwrite in place when present, otherwise a new entry -/
def mset : List (Int × Int) → Int → Int → List (Int × Int)
  | [], k, v => [(k, v)]
  | (k', v') :: m, k, v => if k' == k then (k, v) :: m else (k', v') :: mset m k v

def keysOf (m : List (Int × Int)) : List Int := m.map (·.1)
def valsOf (m : List (Int × Int)) : List Int := m.map (·.2)

/-! ## in-place compaction on a backing array

`for i, v := range *s { if keep { (*s)[w] = v; w++ } }` — `v` is read from the array when iteration
`i` starts, the write goes to position `w` of the *same* array.  `keep` may inspect the current
array, the write index, the loop state, the read index and the value read. -/

structure CSt (σ : Type) where
  arr : List Int
  w : Nat
  st : σ

def compactFrom {σ : Type} (keep : List Int → Nat → σ → Nat → Int → Bool) (upd : σ → Nat → Int → σ) :
    List Nat → CSt σ → CSt σ
  | [], c => c
  | i :: is, c =>
    let v := c.arr.getD i 0
    if keep c.arr c.w c.st i v then
      compactFrom keep upd is ⟨c.arr.set c.w v, c.w + 1, upd c.st i v⟩
    else
      compactFrom keep upd is c

/-- result of an in-place helper: the backing array (its first `len(old)` cells) and the new length -/
structure InPlace where
  backing : List Int
  len : Nat
  deriving Repr, DecidableEq

/-- the slice the caller sees afterwards: `(*s)[:len]` -/
def InPlace.result (r : InPlace) : List Int := r.backing.take r.len

def compact {σ : Type} (keep : List Int → Nat → σ → Nat → Int → Bool) (upd : σ → Nat → Int → σ)
    (l : List Int) (st0 : σ) : InPlace :=
  let c := compactFrom keep upd (List.range l.length) ⟨l, 0, st0⟩
  ⟨c.arr, c.w⟩

/-- the copying twin: `for i, v := range s { if keep { r = append(r, v) } }`, the decision sees the
    result built so far -/
def copyFrom {σ : Type} (keep : List Int → σ → Nat → Int → Bool) (upd : σ → Nat → Int → σ) :
    List (Nat × Int) → List Int → σ → List Int
  | [], acc, _ => acc
  | (i, v) :: rest, acc, st =>
    if keep acc st i v then copyFrom keep upd rest (acc ++ [v]) (upd st i v)
    else copyFrom keep upd rest acc st

/-- `(i, s[i])` for every index -/
def enumFrom : Nat → List Int → List (Nat × Int)
  | _, [] => []
  | i, v :: vs => (i, v) :: enumFrom (i + 1) vs

/-- callbacks of the `Loop*` helpers: the harness callback answers `false` on its `stop`-th call
    (`stop = 0`: never), so the visited elements are exactly those handed to it up to that call. -/
def cont (stop : Nat) (calls : Nat) : Bool := !(stop != 0 && calls == stop)

def loopGo {α : Type} (stop : Nat) : List α → Nat → List α
  | [], _ => []
  | p :: ps, c => p :: (if cont stop (c + 1) then loopGo stop ps (c + 1) else [])

end MV.Model.Coll
