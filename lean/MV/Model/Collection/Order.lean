import MV.Model.Collection.Query
/-!
# Model of the helpers whose answers depend on map iteration order, `sort.Slice` or `math/rand`

The iteration order of a Go map is the order of the association list handed to the model (the
judge tries every order of small maps); `sort.Slice` is a parameter (any sorted permutation — the
judge accepts exactly those); random draws are an explicit list.  `none` at the outer level is a
Go panic.
-/
namespace MV.Model.Coll

/-! ## convert.go (map → slice) -/

def convertMapKeysToSlice (m : Mp) : Sl := if m.ents.length = 0 then none else some (keysOf m.ents)
def convertMapValuesToSlice (m : Mp) : Sl := if m.ents.length = 0 then none else some (valsOf m.ents)

def convertMapKeysToBatches (m : Mp) (n : Int) : Option (List (List Int)) :=
  if m.ents.length = 0 ∨ n ≤ 0 then none
  else some (batchesGo (keysOf m.ents) n.toNat m.ents.length 0)
def convertMapValuesToBatches (m : Mp) (n : Int) : Option (List (List Int)) :=
  if m.ents.length = 0 ∨ n ≤ 0 then none
  else some (batchesGo (valsOf m.ents) n.toNat m.ents.length 0)

/-! ## loop.go over maps -/

/-- `(i, k, v)` in iteration order -/
def enumEntries : Nat → List (Int × Int) → List (Nat × Int × Int)
  | _, [] => []
  | i, (k, v) :: m => (i, k, v) :: enumEntries (i + 1) m

def loopMap (m : Mp) (stop : Nat) : List (Nat × Int × Int) := loopGo stop (enumEntries 0 m.ents) 0

/-- the four getter loops and (after the fix) the two ordered-value loops: collect the keys in
    iteration order, let `sort.Slice` produce `sortedKeys` (a parameter: some permutation of the keys that
    is sorted by the criterion), visit `(i, k, m[k])` -/
def loopMapSorted (m : Mp) (sortedKeys : List Int) (stop : Nat) : List (Nat × Int × Int) :=
  loopGo stop (triplesOf m.ents sortedKeys) 0

/-! ## random.go -/

/-- `random.Int(0, len-1)` draws are the list `draws`; each is assumed to lie in `[0, len)` -/
def chooseRandomIndexRepeatN (l : List Int) (n : Int) (draws : List Nat) : Sl :=
  if l.length = 0 ∨ n ≤ 0 then none else some ((draws.take n.toNat).map (fun (d : Nat) => (d : Int)))

def chooseRandomSliceElementRepeatN (l : List Int) (n : Int) (draws : List Nat) : Sl :=
  if l.length = 0 ∨ n ≤ 0 then none else some ((draws.take n.toNat).map (fun d => l.getD d 0))

def chooseRandomSliceElement (l : List Int) (draw : Nat) : Int := if l.length = 0 then 0 else l.getD draw 0
def chooseRandomIndex (l : List Int) (draw : Nat) : Int := if l.length = 0 then -1 else (draw : Int)

/-- `ChooseRandomSliceElementN`: ranges over the index-only map (`order`: a permutation of the indices) and
    takes the first `n` -/
def chooseRandomSliceElementN (l : List Int) (n : Int) (order : List Nat) : Option (List Int) :=
  if l.length = 0 ∨ n ≤ 0 ∨ n > (l.length : Int) then none
  else some ((order.take n.toNat).map (fun i => l.getD i 0))

/-- partial Fisher–Yates of `ChooseRandomIndexN` (after the fix): for `i < n` swap cell `i` with
    cell `j = draws[i] ∈ [i, len)` -/
def fyGo : List Nat → Nat → List Nat → List Nat
  | [], _, idx => idx
  | j :: js, i, idx =>
    let a := idx.getD i 0
    let b := idx.getD j 0
    fyGo js (i + 1) ((idx.set i b).set j a)

def chooseRandomIndexN (l : List Int) (n : Int) (draws : List Nat) : Option Sl :=
  if l.length = 0 then some none
  else if n > (l.length : Int) ∨ n < 0 then none
  else some (some (((fyGo (draws.take n.toNat) 0 (List.range l.length)).take n.toNat).map (fun (d : Nat) => (d : Int))))

/-- the `…N` map helpers (after the fix for `n = 0`): the first `n` entries in iteration order -/
def chooseRandomMapKeyN (m : Mp) (n : Int) : Option Sl :=
  match m with
  | none => some none
  | some l => if n > (l.length : Int) ∨ n < 0 then none else some (some ((keysOf l).take n.toNat))
def chooseRandomMapValueN (m : Mp) (n : Int) : Option Sl :=
  match m with
  | none => some none
  | some l => if n > (l.length : Int) ∨ n < 0 then none else some (some ((valsOf l).take n.toNat))
def chooseRandomMapKeyAndValueN (m : Mp) (n : Int) : Option Mp :=
  match m with
  | none => some none
  | some l => if n > (l.length : Int) ∨ n < 0 then none else some (some (l.take n.toNat))

def chooseRandomMapKey (m : Mp) : Int := (keysOf m.ents).headD 0
def chooseRandomMapValue (m : Mp) : Int := (valsOf m.ents).headD 0
def chooseRandomMapKeyAndValue (m : Mp) : Int × Int := m.ents.headD (0, 0)

/-- the `…RepeatN` map helpers start a fresh `range` per element: `firsts` are the first entries of
    those `n` iterations -/
def chooseRandomMapKeyRepeatN (m : Mp) (n : Int) (firsts : List (Int × Int)) : Option Sl :=
  match m with
  | none => some none
  | some l => if n > (l.length : Int) ∨ n < 0 then none else some (some (keysOf (firsts.take n.toNat)))

/-! ## topological.go (after the fix)

An item is `(index, dependencies)`.  `dependents x` are the items that list `x` as a dependency, in
slice order (the code appends them to `nodes[x].dependsOn`); the depth-first visit emits a node
after all of its dependents, so dependents come first in the result.  `state`: 1 = on the visit
stack, 2 = finished. -/

structure TSt where
  state : List (Int × Int)
  sorted : List Int
  circular : Bool

def dependentsOf (items : List (Int × List Int)) (x : Int) : List Int :=
  items.flatMap (fun it => (it.2.filter (· == x)).map (fun _ => it.1))

def visit (items : List (Int × List Int)) : Nat → Int → TSt → TSt
  | 0, _, s => s
  | fuel + 1, x, s =>
    match s.state.lookup x with
    | some st => if st == 1 then { s with circular := true } else s
    | none =>
      let s1 : TSt := { s with state := (x, 1) :: s.state }
      let s2 := (dependentsOf items x).foldl (fun acc d => visit items fuel d acc) s1
      { s2 with state := mset s2.state x 2, sorted := s2.sorted ++ [x] }

/-- `order`: iteration order of the `nodes` map (a permutation of the distinct indices).  Answers the
    indices in result order, `none` for `ErrCircularDependencyDetected` (a cycle, or — as in the
    original code — fewer nodes than items because two items share an index). -/
def topologicalSort (items : List (Int × List Int)) (order : List Int) : Option (List Int) :=
  -- dependencies on absent indices are never looked at (`if node, exists := nodes[depend]`)
  let s := order.foldl (fun acc x => visit items (items.length + 1) x acc) ⟨[], [], false⟩
  if s.circular || s.sorted.length != items.length then none else some s.sorted

end MV.Model.Coll
