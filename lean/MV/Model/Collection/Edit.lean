import MV.Model.Collection.Basic
/-!
# Model of duplicate.go, clone.go, merge.go, convert.go, filter.go, drop.go

One function per helper, transcribing its loop (as the code is after the `fix:` commits listed in
findings.d/C17.json).  Callbacks are parameters; `Option` callbacks model the helpers that test
their callback against `nil`.
-/
namespace MV.Model.Coll

/-! ## duplicate.go -/

/-- loop of `DeduplicateSlice`: `seen` is the `map[V]struct{}` -/
def dedupGo (seen : List Int) : List Int → List Int
  | [] => []
  | v :: vs => if seen.contains v then dedupGo seen vs else v :: dedupGo (v :: seen) vs

def deduplicateSlice (s : Sl) : Sl :=
  match s with
  | none => none
  | some l => if l.length < 2 then some l else some (dedupGo [] l)

/-- `DeduplicateSliceInPlace`: the state is the `seen` set -/
def deduplicateSliceInPlace (s : Sl) : Option InPlace :=
  match s with
  | none => none
  | some l =>
    if l.length < 2 then some ⟨l, l.length⟩
    else some (compact (fun _ _ seen _ v => !seen.contains v) (fun seen _ v => v :: seen) l [])

/-- loop of `DeduplicateSliceWithCompare`: `compare(s[i], result[j])` for the result so far -/
def dedupCmpGo (cmp : Int → Int → Bool) (acc : List Int) : List Int → List Int
  | [] => acc
  | v :: vs => if acc.any (fun r => cmp v r) then dedupCmpGo cmp acc vs else dedupCmpGo cmp (acc ++ [v]) vs

def deduplicateSliceWithCompare (s : Sl) (cmp : Option (Int → Int → Bool)) : Sl :=
  match s, cmp with
  | none, _ => none
  | some l, none => some l
  | some l, some c => if l.length < 2 then some l else some (dedupCmpGo c [] l)

/-- `DeduplicateSliceInPlaceWithCompare` (after the fix): every candidate is compared with the
    elements already kept, i.e. with `(*s)[:resultIndex]` of the array being rewritten -/
def deduplicateSliceInPlaceWithCompare (s : Sl) (cmp : Int → Int → Bool) : Option InPlace :=
  match s with
  | none => none
  | some l =>
    if l.length < 2 then some ⟨l, l.length⟩
    else some (compact (σ := Unit) (fun arr w _ _ v => !(arr.take w).any (fun r => cmp v r)) (fun _ _ _ => ()) l ())

/-! ## clone.go -/

/-- element-by-element copy (`slices.Clone`, `append(result, values...)`) -/
def copyList : List Int → List Int
  | [] => []
  | v :: vs => v :: copyList vs

def cloneSlice (s : Sl) : Sl := s.map copyList

/-- `for k, v := range m { result[k] = v }` -/
def insertAll (r : List (Int × Int)) : List (Int × Int) → List (Int × Int)
  | [] => r
  | (k, v) :: m => insertAll (mset r k v) m

def cloneMap (m : Mp) : Mp := m.map (insertAll [])

def cloneSliceN (s : Sl) (n : Int) : Option (List Sl) :=
  match s with
  | none => none
  | some l => if n ≤ 0 then some [] else some (List.replicate n.toNat (cloneSlice (some l)))

def cloneMapN (m : Mp) (n : Int) : Option (List Mp) :=
  match m with
  | none => none
  | some l => if n ≤ 0 then some [] else some (List.replicate n.toNat (cloneMap (some l)))

def cloneSlices (ss : Option (List Sl)) : Option (List Sl) := ss.map (·.map cloneSlice)
def cloneMaps (ms : Option (List Mp)) : Option (List Mp) := ms.map (·.map cloneMap)

/-! ## merge.go -/

def mergeSlice (values : Sl) : Sl :=
  if values.els.length = 0 then none else some (copyList values.els)

/-- `for _, slice := range slices { result = append(result, slice...) }` -/
def appendAll (acc : List Int) : List Sl → List Int
  | [] => acc
  | s :: ss => appendAll (acc ++ s.els) ss

def mergeSlices (ss : Option (List Sl)) : Sl :=
  match ss with
  | none => none
  | some l => if l.length = 0 then none else some (appendAll [] l)

def mergeMapsGo (r : List (Int × Int)) : List Mp → List (Int × Int)
  | [] => r
  | m :: ms => mergeMapsGo (insertAll r m.ents) ms

def mergeMaps (ms : Option (List Mp)) : Mp :=
  match ms with
  | none => some []
  | some l => if l.length = 0 then some [] else some (mergeMapsGo [] l)

/-- `if _, ok := result[k]; !ok { result[k] = v }` -/
def insertNew (r : List (Int × Int)) : List (Int × Int) → List (Int × Int)
  | [] => r
  | (k, v) :: m => insertNew (if mhas r k then r else mset r k v) m

def mergeSkipGo (r : List (Int × Int)) : List Mp → List (Int × Int)
  | [] => r
  | m :: ms => mergeSkipGo (insertNew r m.ents) ms

def mergeMapsWithSkip (ms : Option (List Mp)) : Mp :=
  match ms with
  | none => none
  | some l => if l.length = 0 then none else some (mergeSkipGo [] l)

/-! ## convert.go -/

/-- `for i := 0; i < len(s); i += batchSize { batches = append(batches, s[i:min(i+batchSize,len(s))]) }`;
    `fuel` bounds the number of iterations (`len(s)` suffices because `batchSize ≥ 1`) -/
def batchesGo (l : List Int) (n : Nat) : Nat → Nat → List (List Int)
  | 0, _ => []
  | fuel + 1, i => if i < l.length then ((l.drop i).take n) :: batchesGo l n fuel (i + n) else []

def convertSliceToBatches (s : Sl) (n : Int) : Option (List (List Int)) :=
  if s.els.length = 0 ∨ n ≤ 0 then none else some (batchesGo s.els n.toNat s.els.length 0)

def convertSliceToAny (s : Sl) : Sl := if s.els.length = 0 then none else some (copyList s.els)

/-- `r[i] = v` for every index: keys are the indices -/
def convertSliceToIndexMap (s : Sl) : Mp :=
  some ((enumFrom 0 s.els).map (fun p => ((p.1 : Int), p.2)))

/-- the key set `{0 … len-1}`, `nil` for an empty slice -/
def convertSliceToIndexOnlyMap (s : Sl) : Option (List Int) :=
  if s.els.length = 0 then none else some ((List.range s.els.length).map (fun (i : Nat) => (i : Int)))

/-- `r[v] = struct{}{}`: the set of values, in first-insertion order -/
def setOf (r : List Int) : List Int → List Int
  | [] => r
  | v :: vs => setOf (if r.contains v then r else r ++ [v]) vs

def convertSliceToMap (s : Sl) : Option (List Int) :=
  if s.els.length = 0 then none else some (setOf [] s.els)

def convertSliceToBoolMap (s : Sl) : Option (List Int) := some (setOf [] s.els)

/-- keys of `m`, each mapped to `true`; `nil` when `len(m) == 0` -/
def convertMapValuesToBoolMap (m : Mp) : Option (List Int) :=
  if m.ents.length = 0 then none else some (keysOf m.ents)

/-- keys of `m`, each mapped to `true`; `nil` only when `m == nil` -/
def convertMapValuesToBool (m : Mp) : Option (List Int) := m.map keysOf

/-- `for k, v := range m { r[v] = k }` in the iteration order of the argument list -/
def invertGo (r : List (Int × Int)) : List (Int × Int) → List (Int × Int)
  | [] => r
  | (k, v) :: m => invertGo (mset r v k) m

def invertMap (m : Mp) : Mp := m.map (invertGo [])

/-- swap loop of `ReverseSlice` on the backing array -/
def reverseFrom : List Nat → List Int → List Int
  | [], a => a
  | i :: is, a =>
    let x := a.getD i 0
    let y := a.getD (a.length - i - 1) 0
    reverseFrom is ((a.set i y).set (a.length - i - 1) x)

def reverseSlice (s : Sl) : Option InPlace :=
  s.map (fun l => ⟨reverseFrom (List.range (l.length / 2)) l, l.length⟩)

/-! ## filter.go -/

/-- `excludeMap`: the in-range indices -/
def exclIn (len : Nat) (idx : List Int) : List Int := idx.filter (fun ex => 0 ≤ ex && ex < (len : Int))

def filterOutByIndices (s : Sl) (idx : Sl) : Sl :=
  match s with
  | none => none
  | some l =>
    if l.length = 0 ∨ idx.els.length = 0 then some l
    else
      let ex := exclIn l.length idx.els
      if ex.length = 0 then some l
      else some (((enumFrom 0 l).filter (fun p => !ex.contains (p.1 : Int))).map (·.2))

def filterOutByCondition (s : Sl) (cond : Option (Int → Bool)) : Sl :=
  match s, cond with
  | none, _ => none
  | some l, none => some l
  | some l, some c => some (l.filter (fun v => !c v))

def filterOutByKey (m : Mp) (key : Int) : Mp := m.map (·.filter (fun e => e.1 != key))

def filterOutByValue (m : Mp) (value : Int) (h : Int → Int → Bool) : Mp :=
  m.map (·.filter (fun e => !h value e.2))

/-- `InSlice(slice, v, handler)`: `handler(v, value)` for the members in order -/
def inSlice (l : List Int) (v : Int) (h : Int → Int → Bool) : Bool := l.any (fun x => h v x)

def filterOutByKeys (m : Mp) (keys : Sl) : Mp :=
  match m with
  | none => none
  | some l => if keys.els.length = 0 then some l else some (l.filter (fun e => !inSlice keys.els e.1 (· == ·)))

def filterOutByValues (m : Mp) (values : Sl) (h : Int → Int → Bool) : Mp :=
  match m with
  | none => none
  | some l => if values.els.length = 0 then some l else some (l.filter (fun e => !inSlice values.els e.2 h))

def filterOutByMap (m : Mp) (cond : Option (Int → Int → Bool)) : Mp :=
  match m, cond with
  | none, _ => none
  | some l, none => some l
  | some l, some c => some (l.filter (fun e => !c e.1 e.2))

/-! ## drop.go -/

def clearSlice (s : Sl) : Option InPlace := s.map (fun l => ⟨l, 0⟩)

def clearMap (m : Mp) : Mp := m.map (fun _ => [])

def dropSliceByIndices (s : Sl) (idx : Sl) : Option InPlace :=
  match s with
  | none => none
  | some l =>
    if idx.els.length = 0 then some ⟨l, l.length⟩
    else some (compact (σ := Unit) (fun _ _ _ i _ => !idx.els.contains (i : Int)) (fun _ _ _ => ()) l ())

def dropSliceByCondition (s : Sl) (cond : Option (Int → Bool)) : Option InPlace :=
  match s, cond with
  | none, _ => none
  | some l, none => some ⟨l, l.length⟩
  | some l, some c => some (compact (σ := Unit) (fun _ _ _ _ v => !c v) (fun _ _ _ => ()) l ())

def dropSliceOverlappingElements (s : Sl) (other : Sl) (h : Option (Int → Int → Bool)) : Option InPlace :=
  match s, other, h with
  | none, _, _ => none
  | some l, none, _ => some ⟨l, l.length⟩
  | some l, some _, none => some ⟨l, l.length⟩
  | some l, some o, some c => some (compact (σ := Unit) (fun _ _ _ _ v => !inSlice o v c) (fun _ _ _ => ()) l ())

/-! ## item.go, calc.go, map.go — the remaining helpers of the package (outside C17's anchor files) -/

/-- `SwapSlice(&s, i, j)`: out-of-range indices are ignored -/
def swapSlice (s : Sl) (i j : Int) : Option InPlace :=
  s.map fun l =>
    if i < 0 ∨ j < 0 ∨ i ≥ (l.length : Int) ∨ j ≥ (l.length : Int) then ⟨l, l.length⟩
    else
      let x := l.getD i.toNat 0
      let y := l.getD j.toNat 0
      -- `(*slice)[i], (*slice)[j] = (*slice)[j], (*slice)[i]`: both reads happen before both writes
      ⟨(l.set i.toNat y).set j.toNat x, l.length⟩

/-- `SliceSum(slice, handler)` with `handler(i, v)` -/
def sliceSumFrom (h : Nat → Int → Int) : Nat → List Int → Int → Int
  | _, [], acc => acc
  | i, v :: l, acc => sliceSumFrom h (i + 1) l (acc + h i v)

def sliceSum (s : Sl) (h : Nat → Int → Int) : Int := sliceSumFrom h 0 s.els 0

/-- `MapSum(m, handler)` with `handler(k, v)`, in iteration order -/
def mapSum (m : Mp) (h : Int → Int → Int) : Int := m.ents.foldl (fun acc e => acc + h e.1 e.2) 0

/-- `MappingFromSlice(slice, handler)`: `nil` stays `nil` -/
def mappingFromSlice (s : Sl) (h : Int → Int) : Sl := s.map (·.map h)

/-- `MappingFromMap(m, handler)`: keys kept, values converted; `nil` stays `nil` -/
def mappingFromMap (m : Mp) (h : Int → Int) : Mp := m.map (·.map fun e => (e.1, h e.2))

end MV.Model.Coll
