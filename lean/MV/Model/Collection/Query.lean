import MV.Model.Collection.Edit
/-!
# Model of contains.go, find.go and the deterministic helpers of loop.go / sort.go
-/
namespace MV.Model.Coll

/-! ## contains.go -/

/-- `EqualSlice`: same length and `handler(slice1[i], slice2[i])` for every index -/
def equalGo (h : Int → Int → Bool) : List Int → List Int → Bool
  | [], _ => true
  | _ :: _, [] => true   -- not reached: lengths are equal
  | a :: as, b :: bs => if h a b then equalGo h as bs else false

def equalSlice (s1 s2 : Sl) (h : Int → Int → Bool) : Bool :=
  if s1.els.length != s2.els.length then false else equalGo h s1.els s2.els

def equalComparableSlice (s1 s2 : Sl) : Bool := equalSlice s1 s2 (· == ·)

/-- `EqualMap` (after the fix): same size, every key of `map1` is a key of `map2` and the handler
    accepts the two values -/
def equalMapGo (h : Int → Int → Bool) (m2 : List (Int × Int)) : List (Int × Int) → Bool
  | [] => true
  | (k, v1) :: m1 =>
    match m2.lookup k with
    | none => false
    | some v2 => if h v1 v2 then equalMapGo h m2 m1 else false

def equalMap (m1 m2 : Mp) (h : Int → Int → Bool) : Bool :=
  if m1.ents.length != m2.ents.length then false else equalMapGo h m2.ents m1.ents

def equalComparableMap (m1 m2 : Mp) : Bool := equalMap m1 m2 (· == ·)

def inComparableSlice (l : List Int) (v : Int) : Bool := l.any (fun x => x == v)

def allInSlice (l values : List Int) (h : Int → Int → Bool) : Bool :=
  if l.length = 0 then false else values.all (fun v => inSlice l v h)
def allInComparableSlice (l values : List Int) : Bool :=
  if l.length = 0 then false else values.all (fun v => inComparableSlice l v)
def anyInSlice (l values : List Int) (h : Int → Int → Bool) : Bool :=
  if l.length = 0 then false else values.any (fun v => inSlice l v h)
def anyInComparableSlice (l values : List Int) : Bool :=
  if l.length = 0 then false else values.any (fun v => inComparableSlice l v)

/-- `MergeSlices(slices...)` as used by the `…InSlices` helpers -/
def merged (ss : Option (List Sl)) : List Int := (mergeSlices ss).els

def inSlices (ss : Option (List Sl)) (v : Int) (h : Int → Int → Bool) : Bool := inSlice (merged ss) v h
def inComparableSlices (ss : Option (List Sl)) (v : Int) : Bool := inComparableSlice (merged ss) v
def allInSlices (ss : Option (List Sl)) (values : List Int) (h : Int → Int → Bool) : Bool := allInSlice (merged ss) values h
def allInComparableSlices (ss : Option (List Sl)) (values : List Int) : Bool := allInComparableSlice (merged ss) values
def anyInSlices (ss : Option (List Sl)) (values : List Int) (h : Int → Int → Bool) : Bool := anyInSlice (merged ss) values h
def anyInComparableSlices (ss : Option (List Sl)) (values : List Int) : Bool := anyInComparableSlice (merged ss) values

def slicesOf (ss : Option (List Sl)) : List (List Int) := (ss.getD []).map Sl.els
def mapsOf (ms : Option (List Mp)) : List (List (Int × Int)) := (ms.getD []).map Mp.ents

def inAllSlices (ss : Option (List Sl)) (v : Int) (h : Int → Int → Bool) : Bool :=
  if (slicesOf ss).length = 0 then false else (slicesOf ss).all (fun l => inSlice l v h)
def inAllComparableSlices (ss : Option (List Sl)) (v : Int) : Bool :=
  if (slicesOf ss).length = 0 then false else (slicesOf ss).all (fun l => inComparableSlice l v)
def anyInAllSlices (ss : Option (List Sl)) (values : List Int) (h : Int → Int → Bool) : Bool :=
  if (slicesOf ss).length = 0 then false else (slicesOf ss).all (fun l => anyInSlice l values h)
def anyInAllComparableSlices (ss : Option (List Sl)) (values : List Int) : Bool :=
  if (slicesOf ss).length = 0 then false else (slicesOf ss).all (fun l => anyInComparableSlice l values)

def keyInMap (m : List (Int × Int)) (k : Int) : Bool := mhas m k
def valueInMap (m : List (Int × Int)) (v : Int) (h : Int → Int → Bool) : Bool := m.any (fun e => h v e.2)
def allKeyInMap (m : List (Int × Int)) (keys : List Int) : Bool :=
  if m.length < keys.length then false else keys.all (fun k => keyInMap m k)
def allValueInMap (m : List (Int × Int)) (values : List Int) (h : Int → Int → Bool) : Bool :=
  if m.length = 0 then false else values.all (fun v => valueInMap m v h)
def anyKeyInMap (m : List (Int × Int)) (keys : List Int) : Bool :=
  if m.length = 0 then false else keys.any (fun k => keyInMap m k)
def anyValueInMap (m : List (Int × Int)) (values : List Int) (h : Int → Int → Bool) : Bool :=
  if m.length = 0 then false else values.any (fun v => valueInMap m v h)

def allKeyInMaps (ms : Option (List Mp)) (keys : List Int) : Bool :=
  if (mapsOf ms).length = 0 then false else (mapsOf ms).all (fun m => allKeyInMap m keys)
def allValueInMaps (ms : Option (List Mp)) (values : List Int) (h : Int → Int → Bool) : Bool :=
  if (mapsOf ms).length = 0 then false else (mapsOf ms).all (fun m => allValueInMap m values h)
def anyKeyInMaps (ms : Option (List Mp)) (keys : List Int) : Bool :=
  if (mapsOf ms).length = 0 then false else (mapsOf ms).any (fun m => anyKeyInMap m keys)
/-- as coded: `false` as soon as one map contains none of the values (every map must contain one) -/
def anyValueInMaps (ms : Option (List Mp)) (values : List Int) (h : Int → Int → Bool) : Bool :=
  if (mapsOf ms).length = 0 then false else (mapsOf ms).all (fun m => anyValueInMap m values h)
def keyInAllMaps (ms : Option (List Mp)) (k : Int) : Bool :=
  if (mapsOf ms).length = 0 then false else (mapsOf ms).all (fun m => keyInMap m k)
def anyKeyInAllMaps (ms : Option (List Mp)) (keys : List Int) : Bool :=
  if (mapsOf ms).length = 0 then false else (mapsOf ms).all (fun m => anyKeyInMap m keys)

/-! ## find.go — `none` is a Go run-time panic (index out of range) -/

def idx? (l : List Int) (i : Int) : Option Int := if i < 0 then none else l[i.toNat]?

def findLoopedNextInSlice (l : List Int) (i : Int) : Option (Int × Int) :=
  if i < 0 then (idx? l 0).map (fun v => (0, v))
  else
    let next := if i + 1 = (l.length : Int) then 0 else i + 1
    (idx? l next).map (fun v => (next, v))

def findLoopedPrevInSlice (l : List Int) (i : Int) : Option (Int × Int) :=
  if i < 0 then (idx? l ((l.length : Int) - 1)).map (fun v => ((l.length : Int) - 1, v))
  else
    let prev := if i - 1 = -1 then (l.length : Int) - 1 else i - 1
    (idx? l prev).map (fun v => (prev, v))

/-- the `for i := startIndex; i < n; i++` loop of `backtrack` over the remaining suffix; each
    extended combination is emitted when its size is within the range, then extended further -/
def combosLoop (lo hi : Int) (cur : List Int) : List Int → List (List Int)
  | [] => []
  | x :: post =>
    let c := cur ++ [x]
    (if lo ≤ (c.length : Int) ∧ (c.length : Int) ≤ hi then [c] else []) ++ combosLoop lo hi c post ++ combosLoop lo hi cur post

def findCombinationsInSliceByRange (l : List Int) (lo hi : Int) : Option (List (List Int)) :=
  if l.length = 0 ∨ lo ≤ 0 ∨ hi ≤ 0 ∨ lo > hi then none
  else
    let r := combosLoop lo hi [] l
    if r.length = 0 then none else some r

def findFirstOrDefaultInSlice (l : List Int) (d : Int) : Int := l.headD d

def findOrDefaultInSlice (l : List Int) (d : Int) (p : Int → Bool) : Int := (l.find? p).getD d
def findOrDefaultInComparableSlice (l : List Int) (v d : Int) : Int := (l.find? (· == v)).getD d

/-- first index whose element satisfies `p`, scanning from index `i` -/
def findFrom (p : Int → Bool) : Nat → List Int → Option (Nat × Int)
  | _, [] => none
  | i, v :: vs => if p v then some (i, v) else findFrom p (i + 1) vs

def findInSlice (l : List Int) (p : Int → Bool) : Int × Int :=
  match findFrom p 0 l with
  | some (i, v) => ((i : Int), v)
  | none => (-1, 0)
def findIndexInSlice (l : List Int) (p : Int → Bool) : Int := (findInSlice l p).1
def findInComparableSlice (l : List Int) (v : Int) : Int × Int := findInSlice l (· == v)
def findIndexInComparableSlice (l : List Int) (v : Int) : Int := (findInSlice l (· == v)).1

/-- `result = slice[0]; for i := 1 …: if g(result) > g(slice[i]) { result = slice[i] }` -/
def minGo (g : Int → Int) (r : Int) : List Int → Int
  | [] => r
  | v :: vs => minGo g (if g r > g v then v else r) vs
def maxGo (g : Int → Int) (r : Int) : List Int → Int
  | [] => r
  | v :: vs => maxGo g (if g r < g v then v else r) vs

def findMinimumInSlice (l : List Int) (g : Int → Int) : Int :=
  match l with
  | [] => 0
  | x :: xs => minGo g x xs
def findMaximumInSlice (l : List Int) (g : Int → Int) : Int :=
  match l with
  | [] => 0
  | x :: xs => maxGo g x xs
def findMin2MaxInSlice (l : List Int) (g : Int → Int) : Int × Int := (findMinimumInSlice l g, findMaximumInSlice l g)
def findMinimumInComparableSlice (l : List Int) : Int := findMinimumInSlice l id
def findMaximumInComparableSlice (l : List Int) : Int := findMaximumInSlice l id
def findMin2MaxInComparableSlice (l : List Int) : Int × Int := findMin2MaxInSlice l id

/-- `FindMinFromMap` / `FindMaxFromMap` (after the fix) over the values in iteration order: the first value
    seeds the result -/
def findMinFromMap (m : Mp) (g : Int → Int) : Int := findMinimumInSlice (valsOf m.ents) g
def findMaxFromMap (m : Mp) (g : Int → Int) : Int := findMaximumInSlice (valsOf m.ents) g
def findMinFromComparableMap (m : Mp) : Int := findMinFromMap m id
def findMaxFromComparableMap (m : Mp) : Int := findMaxFromMap m id
def findMin2MaxFromComparableMap (m : Mp) : Int × Int := (findMinFromMap m id, findMaxFromMap m id)
def findMin2MaxFromMap (m : Mp) : Int × Int := (findMinFromMap m id, findMaxFromMap m id)

def isFirst (l : List Int) (v : Int) : Bool :=
  match l with
  | [] => false
  | x :: _ => x == v

/-! ## loop.go, deterministic helpers -/

def loopSlice (l : List Int) (stop : Nat) : List (Nat × Int) := loopGo stop (enumFrom 0 l) 0
def reverseLoopSlice (l : List Int) (stop : Nat) : List (Nat × Int) := loopGo stop (enumFrom 0 l).reverse 0

/-- `(i, keys[i], m[keys[i]])` for a key order -/
def triplesOf (m : List (Int × Int)) (keys : List Int) : List (Nat × Int × Int) :=
  (enumFrom 0 keys).map (fun p => (p.1, p.2, mget m p.2))

/-- keys are distinct, so the sorted key slice does not depend on `sort.Slice`'s tie handling -/
def loopMapByOrderedKeyAsc (m : Mp) (stop : Nat) : List (Nat × Int × Int) :=
  loopGo stop (triplesOf m.ents ((keysOf m.ents).mergeSort (fun a b => decide (a ≤ b)))) 0
def loopMapByOrderedKeyDesc (m : Mp) (stop : Nat) : List (Nat × Int × Int) :=
  loopGo stop (triplesOf m.ents ((keysOf m.ents).mergeSort (fun a b => decide (a ≥ b)))) 0

/-! ## sort.go -/
def ascBy (a b : Int) : Bool := decide (a < b)
def descBy (a b : Int) : Bool := decide (a > b)

end MV.Model.Coll
