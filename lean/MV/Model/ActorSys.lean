/-!
# Layer 2: message-level operational model of the vivid actor system

Transcription of `engine/vivid/actor_context.go` (`processMessage`, `onTerminate`, `tryTerminated`,
`onTerminated`, `onRestart`, `tryRestarted`, `ReportAbnormal`, `Escalate`, `onAccidentRecordProcess`,
`onWatch/onUnWatch`, `ActorOf`, `Tell/Ask/Reply/Terminate/Watch/UnWatch`), `actor_process.go`
(`delivery`), `abyss.go`, `supervision/one_for_one.go`, the resolution part of
`prc/resource_controller.go`, and the message loop of the mailbox at the granularity "one message
per step" (justified by Layer 1: C01 — turns of one actor never overlap; C02 — each mailbox is a pair
of FIFO queues with system priority and no stranded message).

* An actor is identified by its creation index (`Aid`); 0 = the guard (`/user`), 1 = the subscription
  actor (`/user/sub`).
* User code is a parameter: `Behaviour` maps an observation to a list of actions over the public API.
  A `panic` action aborts the rest of the turn exactly where a Go panic would unwind to the
  mailbox's `recover` (→ `ProcessAccident` → `ReportAbnormal`).
* `step w (.run a)` lets actor `a`'s runner take ONE message (system queue first, user queue unless
  suspended) — or discover that there is nothing to do and exit.
* Timers (`time.AfterFunc` of the restart back-off) are explicit: armed in the world, fired by `.fire`.

Core Lean only.
-/
namespace MV.Model.ActorSys

abbrev Aid := Nat

inductive Status where
  | alive | restarting | terminating | terminated
  deriving DecidableEq, Repr, Inhabited

def Status.rank : Status → Nat
  | .alive => 0 | .restarting => 1 | .terminating => 2 | .terminated => 3

inductive Directive where
  | restart | stop | resume | escalate
  deriving DecidableEq, Repr, Inhabited

/-- `supervision.OneForOne(restartCount, …, decide)`: the decision as a function of the victim's
accident count (a list, last entry repeats), and the restart limit (negative = unlimited) -/
structure Strategy where
  limit : Int
  table : List Directive
  deriving Repr, Inhabited, DecidableEq

def Strategy.decide (s : Strategy) (count : Nat) : Directive :=
  match s.table with
  | [] => .restart
  | d :: ds => ((d :: ds)[count - 1]?).getD ((d :: ds).getLast (by simp))

/-- user-level payloads -/
inductive UMsg where
  | user (tag : Nat)
  | graceful                                  -- `*OnTerminate{Gracefully: true}` sent as a user message
  | publish (topic : Nat) (inner : UMsg)      -- `LocalPublishRequest` (to the subscription actor)
  | dead (sender : Option Aid) (recv : Aid) (inner : UMsg)   -- `OnAbyssMessageEvent`
  deriving Repr, Inhabited, DecidableEq

inductive SMsg where
  | launch | restarted
  | terminate (graceful : Bool)
  | terminated (who : Aid)
  | restart
  | accident (victim : Aid)
  | watch | unwatch
  | suspendMark | resumeMark
  deriving Repr, Inhabited, DecidableEq

/-- what the user's `OnReceive` observes (`ctx.Message()`), with `ctx.Sender()` -/
inductive Obs where
  | launch | restarted | restarting | terminate
  | terminated (who : Aid)
  | user (tag : Nat)
  | dead (recv : Aid) (tag : Nat)
  deriving Repr, Inhabited, DecidableEq

inductive Target where
  | self | parent | sender | actor (a : Aid)
  deriving Repr, Inhabited, DecidableEq

inductive Action where
  | tell (t : Target) (tag : Nat)
  | ask (t : Target) (tag : Nat)
  | reply (tag : Nat)
  | spawn (beh : Nat)
  | kill (t : Target) (graceful : Bool)
  | watch (t : Target)
  | unwatch (t : Target)
  | panic
  deriving Repr, Inhabited, DecidableEq

structure LogEntry where
  inc : Nat
  obs : Obs
  sender : Option Aid
  deriving Repr, DecidableEq, Inhabited

structure Actor where
  beh : Nat
  parent : Option Aid
  status : Status := .alive
  children : List Aid := []
  watchers : List Aid := []
  sysQ : List (SMsg × Option Aid) := []
  userQ : List (UMsg × Option Aid) := []
  hasRunner : Bool := false
  suspended : Bool := false
  accidents : Nat := 0
  graceful : Bool := false
  inc : Nat := 0
  registered : Bool := true
  curSender : Option Aid := none
  log : List LogEntry := []
  deriving Repr, Inhabited

/-- behaviours are data: a rule is (pattern, actions); the first matching rule runs -/
inductive Pat where
  | launch | restarted | restarting | terminate | terminatedSelf | terminatedOther | terminatedAny
  | user (tag : Nat) | userAny | dead | any
  deriving Repr, DecidableEq, Inhabited

def Pat.matches (self : Aid) : Pat → Obs → Bool
  | .launch, .launch => true
  | .restarted, .restarted => true
  | .restarting, .restarting => true
  | .terminate, .terminate => true
  | .terminatedSelf, .terminated w => w == self
  | .terminatedOther, .terminated w => w != self
  | .terminatedAny, .terminated _ => true
  | .user t, .user t' => t == t'
  | .userAny, .user _ => true
  | .dead, .dead _ _ => true
  | .any, _ => true
  | _, _ => false

structure BehDef where
  rules : List (Pat × List Action) := []
  strategy : Option Strategy := none        -- descriptor.WithSupervisionStrategyProvider
  actorStrategy : Option Strategy := none   -- the actor value implements supervision.Strategy
  deriving Repr, Inhabited

/-- global, totally ordered record of what happened (ghost; the harness records the same events) -/
inductive Event where
  | handled (a : Aid) (inc : Nat) (obs : Obs) (sender : Option Aid)
  | failed (a : Aid)                                   -- a handler of `a` panicked
  | decided (sup victim : Aid) (d : Directive) (count : Nat)
  | spawned (parent child : Aid)
  | watch (w t : Aid) | unwatch (w t : Aid)            -- the request was issued
  | killreq (t : Aid)                                  -- `Terminate(t, _)` was called
  deriving Repr, DecidableEq, Inhabited

structure World where
  events : List Event := []
  actors : List Actor := []
  behs : List BehDef := []
  timers : List (Aid × Aid) := []           -- armed restart timers (supervisor, victim), oldest first
  dead : List (Option Aid × Aid × UMsg) := []   -- dead-letter log (sender, receiver, message)
  deadSubs : List Aid := []                 -- subscribers of the dead-letter topic (at the subscription actor)
  crashed : Bool := false                   -- panic inside the recover handler (process-fatal)
  closed : Bool := false                    -- the channel `Shutdown` waits on
  deriving Repr, Inhabited

/-- turns run in a state monad with abort-on-panic: the state reached at the panic is kept -/
abbrev M := ExceptT Unit (StateM World)

def getA (a : Aid) : M Actor := do return ((← get).actors[a]?).getD default
def modA (a : Aid) (f : Actor → Actor) : M Unit :=
  modify fun w => { w with actors := w.actors.modify a f }

def behOf (w : World) (a : Actor) : BehDef := (w.behs[a.beh]?).getD {}

/-- `rc.GetProcess(ref)` resolves to the actor's process iff it is still registered -/
def isLive (w : World) (t : Aid) : Bool := ((w.actors[t]?).map (·.registered)).getD false

/-- `mailbox.Delivery…Message` + `dispatch()`: push, and start a runner if none exists -/
def pushSys (t : Aid) (m : SMsg) (s : Option Aid) : M Unit :=
  modA t fun x => { x with sysQ := x.sysQ ++ [(m, s)], hasRunner := true }
def pushUser (t : Aid) (m : UMsg) (s : Option Aid) : M Unit :=
  modA t fun x => { x with userQ := x.userQ ++ [(m, s)], hasRunner := true }

/-- `deliverySystemMessage(target, target, sender, nil, m)`. For an unknown / terminated target the
message goes to `abyss.DeliverySystemMessage`, which answers a `Watch` with `Terminated(target)`
(sent to the watcher, sender = the watched address) and only logs everything else. -/
def sendSys (t : Aid) (m : SMsg) (s : Option Aid) : M Unit := do
  let w ← get
  if isLive w t then
    -- `actorProcess.delivery`: the suspend / resume markers act on the mailbox at delivery time
    -- (`mailbox.Suspend()`; `mailbox.Resume()` = clear the flag and `dispatch()`), they are not queued
    match m with
    | .suspendMark => modA t fun x => { x with suspended := true }
    | .resumeMark => modA t fun x => { x with suspended := false, hasRunner := true }
    | _ => pushSys t m s
  else
    match m, s with
    | .watch, some sd => if isLive w sd then pushSys sd (.terminated t) (some t) else pure ()
    | _, _ => pure ()

/-- `abyss.DeliveryUserMessage(receiver, sender, …)`: every call is a dead letter (logged by the
recording dead-letter process of the harness). Dead-letter events and publish requests are dropped;
everything else that is not addressed to the subscription actor is published on the dead-letter
topic: `system.Publish` = `guard.Ask(subscription, LocalPublishRequest)`; if the subscription actor
itself is gone that request is one more (dropped) dead letter. -/
def abyssUser (t : Aid) (m : UMsg) (s : Option Aid) : M Unit := do
  modify fun w => { w with dead := w.dead ++ [(s, t, m)] }
  match m with
  | .publish _ _ | .dead _ _ _ => pure ()
  | _ =>
    if t != 1 then do
      let pub := UMsg.publish 0 (.dead s t m)
      if isLive (← get) 1 then
        modA 1 fun x => { x with userQ := x.userQ ++ [(pub, some 0)], hasRunner := true }
      else modify fun w => { w with dead := w.dead ++ [(some 0, 1, pub)] }

/-- `deliveryUserMessage(target, target, sender, nil, m)`; unknown/terminated receivers resolve to
the abyss -/
def sendUser (t : Aid) (m : UMsg) (s : Option Aid) : M Unit := do
  if isLive (← get) t then pushUser t m s else abyssUser t m s

/-- addresses that were never registered ("ghosts") are kept apart from real actor ids: a scripted
reference to actor `k` made while `k` does not exist denotes the address `ghost k` for ever -/
def ghostBase : Nat := 500000
def resolve (n : Nat) (self : Aid) (x : Actor) : Target → Option Aid
  | .self => some self
  | .parent => x.parent
  | .sender => x.curSender
  | .actor a => if a < n then some a else some (ghostBase + a)

/-- `ctx.Terminate(target, gracefully)` -/
def terminateReq (self t : Aid) (graceful : Bool) : M Unit :=
  if graceful then sendUser t .graceful none else sendSys t (.terminate false) (some self)

/-- a `Terminate` call made by user code or from outside (recorded; the runtime's own fan-out to
children is not) -/
def terminateCall (self t : Aid) (graceful : Bool) : M Unit := do
  modify fun w => { w with events := w.events ++ [.killreq t] }
  terminateReq self t graceful

/-- `ActorOf`: provider, register, bind to the parent, first message `OnLaunch` (sender = parent) -/
def spawnChild (parent : Aid) (beh : Nat) : M Aid := do
  let w ← get
  let id := w.actors.length
  let child : Actor := { beh := beh, parent := some parent }
  set ({ w with actors := w.actors ++ [child] } : World)
  modA parent fun x => { x with children := x.children ++ [id] }
  modify fun w => { w with events := w.events ++ [.spawned parent id] }
  pushSys id .launch (some parent)
  return id

def runAction (self : Aid) : Action → M Unit
  | .tell t tag => do
      match resolve (← get).actors.length self (← getA self) t with
      | some t => sendUser t (.user tag) none
      | none => sendUser 1000000 (.user tag) none   -- nil target: not-found substitute
  | .ask t tag => do
      match resolve (← get).actors.length self (← getA self) t with
      | some t => sendUser t (.user tag) (some self)
      | none => sendUser 1000000 (.user tag) (some self)
  | .reply tag => do
      match (← getA self).curSender with
      | some t => sendUser t (.user tag) (some self)
      | none => sendUser 1000000 (.user tag) (some self)
  | .spawn beh => do let _ ← spawnChild self beh
  | .kill t g => do
      match resolve (← get).actors.length self (← getA self) t with
      | some t => terminateCall self t g
      | none => terminateCall self 1000000 g
  | .watch t => do
      -- (scripted actors never watch themselves: scenario-language restriction)
      match resolve (← get).actors.length self (← getA self) t with
      | some t => if t == self then pure () else do
          modify fun w => { w with events := w.events ++ [.watch self t] }
          sendSys t .watch (some self)
      | none => pure ()
  | .unwatch t => do
      match resolve (← get).actors.length self (← getA self) t with
      | some t => if t == self then pure () else do
          modify fun w => { w with events := w.events ++ [.unwatch self t] }
          sendSys t .unwatch (some self)
      | none => pure ()
  | .panic => do
      modify fun w => { w with events := w.events ++ [.failed self] }
      throw ()

def runActions (self : Aid) : List Action → M Unit
  | [] => pure ()
  | a :: as => do runAction self a; runActions self as

/-- `ctx.actor.OnReceive(ctx)` with `ctx.Message() = obs`: logged, then the first matching rule runs.
The subscription actor (1) has the built-in behaviour of `subscription_actor.go`. -/
def handle (self : Aid) (obs : Obs) : M Unit := do
  let w ← get
  let x ← getA self
  modA self fun x => { x with log := x.log ++ [{ inc := x.inc, obs := obs, sender := x.curSender }] }
  modify fun w => { w with events := w.events ++ [.handled self x.inc obs x.curSender] }
  match (behOf w x).rules.find? (fun r => r.1.matches self obs) with
  | some r => runActions self r.2
  | none => pure ()

/-- `processMessage(sender, receiver, message, false)` for a message the handler sees -/
def userTurn (self : Aid) (obs : Obs) (sender : Option Aid) : M Unit := do
  modA self fun x => { x with curSender := sender }
  handle self obs
  if obs == .launch then modA self fun x => { x with accidents := 0 }   -- accidentState.Solved()

/-- `tryTerminated` -/
def tryTerminated (self : Aid) : M Unit := do
  let x ← getA self
  if x.children ≠ [] then return
  -- internalPersistence (C09 sub-model)
  if x.status ≠ .terminating then return
  modA self fun x => { x with status := .terminated }
  handle self (.terminated self)
  sendSys self .resumeMark (some self)   -- a mailbox suspended by an accident drains into dead letters
  modA self fun x => { x with registered := false }      -- rc.Unregister → process.Terminate
  let x ← getA self
  -- every watcher except the parent (which is notified right after)
  for wt in x.watchers do
    if some wt != x.parent then sendSys wt (.terminated self) (some self)
  match x.parent with
  | some p => sendSys p (.terminated self) (some self)
  | none => modify fun w => { w with closed := true }

/-- `tryRestarted` -/
def tryRestarted (self : Aid) : M Unit := do
  let x ← getA self
  if x.children ≠ [] || x.status ≠ .restarting then return
  handle self .terminate
  handle self (.terminated self)
  -- internalPersistence; provider.Provide(); scheduler.Clear()
  modA self fun x => { x with inc := x.inc + 1, status := .alive }
  sendSys self .resumeMark (some self)
  sendSys self .restarted (some self)
  sendSys self .launch x.parent

/-- `onTerminate(gracefully)` -/
def onTerminate (self : Aid) (g : Bool) : M Unit := do
  let x ← getA self
  if x.status ≠ .alive then return
  modA self fun x => { x with status := .terminating }
  handle self .terminate
  let x ← getA self
  for c in x.children do terminateReq self c (g || x.graceful)
  tryTerminated self

/-- `onTerminated` -/
def onTerminated (self : Aid) (who : Aid) : M Unit := do
  modA self fun x => { x with children := x.children.filter (· ≠ who) }
  handle self (.terminated who)
  match (← getA self).status with
  | .terminating => tryTerminated self
  | .restarting => tryRestarted self
  | _ => pure ()

/-- `onRestart` -/
def onRestart (self : Aid) : M Unit := do
  if (← getA self).status ≠ .alive then return     -- CAS alive → restarting
  modA self fun x => { x with status := .restarting }
  handle self .restarting
  let x ← getA self
  for c in x.children do terminateReq self c false
  tryRestarted self

/-- `Escalate(record)`: no parent → panic (inside whatever is running) -/
def escalate (self : Aid) (victim : Aid) : M Unit := do
  match (← getA self).parent with
  | none => throw ()
  | some p => sendSys p (.accident victim) (some self)

/-- `oneForOne.OnPolicyDecision(record)` with `record.Supervisor = self` -/
def decide (self : Aid) (victim : Aid) (st : Strategy) : M Unit := do
  let v ← getA victim
  modify fun w => { w with events := w.events ++ [.decided self victim (st.decide v.accidents) v.accidents] }
  match st.decide v.accidents with
  | .restart =>
      -- StandardExponentialBackoff = −1 ⇔ limit ≥ 0 ∧ count > limit (C18_stop_iff)
      if st.limit ≥ 0 ∧ (v.accidents : Int) > st.limit then do
        terminateReq self victim false; tryTerminated self
      else modify fun w => { w with timers := w.timers ++ [(self, victim)] }
  | .stop => do terminateReq self victim false; tryTerminated self
  | .escalate => escalate self victim
  | .resume => sendSys victim .resumeMark (some self)

/-- `onAccidentRecordProcess` -/
def onAccident (self : Aid) (victim : Aid) : M Unit := do
  let w ← get
  let v ← getA victim
  let x ← getA self
  match (behOf w v).strategy with
  | some st => decide self victim st
  | none =>
    match (behOf w x).actorStrategy with
    | some st => decide self victim st
    | none => escalate self victim

/-- `onWatch` / `onUnWatch` -/
def onWatch (self : Aid) (sender : Option Aid) : M Unit := do
  let x ← getA self
  match sender with
  | none => pure ()
  | some s =>
    if x.status == .terminated then sendSys s (.terminated self) (some self)
    else modA self fun x => { x with watchers := if x.watchers.contains s then x.watchers else x.watchers ++ [s] }

def onUnWatch (self : Aid) (sender : Option Aid) : M Unit :=
  match sender with
  | none => pure ()
  | some s => modA self fun x => { x with watchers := x.watchers.filter (· ≠ s) }

/-- `ProcessSystemMessage` → `processMessage(…, true)` -/
def sysTurn (self : Aid) (m : SMsg) (sender : Option Aid) : M Unit := do
  modA self fun x => { x with curSender := sender }
  match m with
  | .launch => userTurn self .launch sender        -- + recoveryPersistence (C09 sub-model)
  | .restarted => userTurn self .restarted sender
  | .terminate g => onTerminate self g
  | .terminated who => onTerminated self who
  | .restart => onRestart self
  | .accident v => onAccident self v
  | .watch => onWatch self sender
  | .unwatch => onUnWatch self sender
  | .suspendMark | .resumeMark => pure ()      -- never queued (see `sendSys`)

/-- `processMessage(…, true)` of an actor whose status is `terminated`: it handles nothing any more;
watch requests are still answered -/
def deadTurn (self : Aid) (m : SMsg) (sender : Option Aid) : M Unit := do
  modA self fun x => { x with curSender := sender }
  match m with
  | .watch => onWatch self sender
  | _ => pure ()

/-- built-in behaviour of the subscription actor for a local publish on the dead-letter topic -/
def subPublish (inner : UMsg) (pubSender : Option Aid) : M Unit := do
  let w ← get
  for s in w.deadSubs do sendUser s inner pubSender

/-- `ProcessUserMessage` -/
def usrTurn (self : Aid) (m : UMsg) (sender : Option Aid) : M Unit := do
  match m with
  | .graceful => do
      modA self fun x => { x with curSender := sender, graceful := true }
      sendSys self (.terminate false) (some self)
  | .user tag => userTurn self (.user tag) sender
  | .publish _ inner => do
      modA self fun x => { x with curSender := sender }
      if self == 1 then subPublish inner sender   -- the subscription actor's own handler
      else pure ()
  | .dead _ r inner => do
      let tag := match inner with | .user t => t | _ => 0
      userTurn self (.dead r tag) sender

/-- `ReportAbnormal` from the mailbox's recover handler -/
def reportAbnormal (self : Aid) : M Unit := do
  let x ← getA self
  if x.status ≠ .alive then return
  modA self fun x => { x with accidents := x.accidents + 1 }
  sendSys self .suspendMark (some self)
  escalate self self

/-- after a panic the runner leaves `processHandle` (the deferred recover returns), stores `idle`
and re-checks: it continues only if work is pending -/
def recheck (self : Aid) (w : World) : World :=
  { w with actors := w.actors.modify self fun x =>
      { x with hasRunner := !x.sysQ.isEmpty || (!x.suspended && !x.userQ.isEmpty) } }

/-- run a turn; a panic unwinds to the mailbox, whose recover handler reports the accident; a panic
inside *that* is process-fatal -/
def guarded (self : Aid) (t : M Unit) (w : World) : World :=
  match (t.run).run w with
  | (.ok _, w') => w'
  | (.error _, w') =>
    match ((reportAbnormal self).run).run w' with
    | (.ok _, w'') => recheck self w''
    | (.error _, w'') => { w'' with crashed := true }

inductive Op where
  | run (a : Aid)                       -- actor a's runner takes one message
  | fire                                -- the oldest armed restart timer fires
  | spawnTop (beh : Nat)                -- system.ActorOf from outside (child of the guard)
  | tell (t : Aid) (tag : Nat)          -- system.Tell
  | kill (t : Aid) (graceful : Bool)    -- system.Terminate
  | shutdown (graceful : Bool)          -- the request part of system.Shutdown
  | subscribeDead (a : Aid)             -- a subscribes to the dead-letter topic (completed)
  deriving Repr, Inhabited

/-- one message of the mailbox loop (`processHandle`): system queue first; the user queue unless
suspended; nothing to do → the runner exits -/
def runOne (w : World) (a : Aid) : World :=
  match w.actors[a]? with
  | none => w
  | some x =>
    if !x.hasRunner then w else
    match x.sysQ with
    | (m, s) :: rest =>
        let w1 := { w with actors := w.actors.modify a fun x => { x with sysQ := rest } }
        -- `processMessage(…, true)`: a terminated actor only answers watch requests
        if x.status == .terminated then guarded a (deadTurn a m s) w1
        else guarded a (sysTurn a m s) w1
    | [] =>
      if x.suspended then { w with actors := w.actors.modify a fun x => { x with hasRunner := false } }
      else match x.userQ with
      | (m, s) :: rest =>
          let w1 := { w with actors := w.actors.modify a fun x => { x with userQ := rest } }
          -- `ProcessUserMessage`: once terminating, user messages go to the dead letters
          if x.status.rank ≥ Status.terminating.rank then guarded a (abyssUser a m s) w1
          else guarded a (usrTurn a m s) w1
      | [] => { w with actors := w.actors.modify a fun x => { x with hasRunner := false } }

def extern (t : M Unit) (w : World) : World := ((t.run).run w).2

def step (w : World) : Op → World
  | .run a => if w.crashed then w else runOne w a
  | .fire =>
      if w.crashed then w else
      match w.timers with
      | [] => w
      | (s, v) :: rest => extern (sendSys v .restart (some s)) { w with timers := rest }
  | .spawnTop beh => if w.crashed then w else extern (do let _ ← spawnChild 0 beh) w
  | .tell t tag => if w.crashed then w else
      extern (sendUser (if t < w.actors.length then t else ghostBase + t) (.user tag) none) w
  | .kill t g => if w.crashed then w else
      extern (terminateCall 0 (if t < w.actors.length then t else ghostBase + t) g) w
  | .shutdown g => if w.crashed then w else extern (terminateCall 0 0 g) w
  | .subscribeDead a => { w with deadSubs := w.deadSubs ++ [a] }

/-- a fresh system: guard (0, no parent, its actor is a OneForOne(10) restart strategy) and the
subscription actor (1), both launched -/
def init (behs : List BehDef) : World :=
  let guardBeh : BehDef := { actorStrategy := some { limit := 10, table := [.restart] } }
  let w0 : World := { behs := [guardBeh, {}] ++ behs,
                      actors := [{ beh := 0, parent := none, sysQ := [(.launch, none)], hasRunner := true }] }
  extern (do let _ ← spawnChild 0 1) w0

def exec (w : World) (ops : List Op) : World := ops.foldl step w

end MV.Model.ActorSys
