/-!
# Interleaving model of `toolkit/buffer/ring_unbounded.go` (`buffer.RingUnbounded[T]`, after the
`fix:` commit that re-reads the ring after `cond.Wait`)

Mutex/cond/channel level: any number of client threads, each running a finite program of
`Write v` / `Close` calls, the pump goroutine started by `NewRingUnbounded`, and the reader of
`Read()`.  One step = one lock operation, one access to `closed`, one ring operation, one channel
operation.  `closedMutex` is a reader/writer lock (`readers`, `writer`), `rrm` a mutex, `cond` has at
most one waiter (the pump; `waiting` = it is in the notify list and has not been signalled).
The ring is its abstract content (`MV.Props.C15.C15_ring_refines` proves `buffer.Ring` is that
list; the theorem `C15_pump_mutex` proves the ring operations never overlap, which justifies
making them atomic steps).  A lock step is disabled (`none`) while the lock is not available.
The output channel has capacity `cap`; an unbuffered hand-off is modelled as a buffer of one that
the reader empties.

Core Lean only.
-/
namespace MV.Model.RingUnbounded

inductive Op where
  | write (v : Int) | close
  deriving Repr, DecidableEq

/-- client program counters -/
inductive PC where
  -- Write(v)
  | wRLock (v : Int)      -- b.closedMutex.RLock()
  | wCheck (v : Int)      -- if b.closed { return }
  | wLockM (v : Int)      -- b.rrm.Lock()
  | wWrite (v : Int)      -- b.ring.Write(v); b.cond.Signal()
  | wUnlockM              -- b.rrm.Unlock()
  | wRUnlock              -- (deferred) b.closedMutex.RUnlock()
  -- Close()
  | cLock                 -- b.closedMutex.Lock()
  | cCheck                -- if b.closed { return }; b.closed = true
  | cLockM                -- b.rrm.Lock()
  | cSignal               -- b.cond.Signal()
  | cUnlockM              -- b.rrm.Unlock()
  | cUnlock               -- (deferred) b.closedMutex.Unlock()
  | done
  deriving Repr, DecidableEq

/-- pump program counters (`process`) -/
inductive PPC where
  | pRLock                      -- b.closedMutex.RLock()
  | pLockM                      -- b.rrm.Lock()
  | pRead                       -- vs := b.ring.ReadAll(); if len(vs) == 0 && !b.closed
  | pRUnlockW                   -- b.closedMutex.RUnlock()      (wait branch)
  | pWait                       -- b.cond.Wait(): enqueue, release rrm
  | pSleep                      -- … woken up: re-acquire rrm
  | pUnlockMC                   -- b.rrm.Unlock(); continue
  | pRUnlockE (vs : List Int)   -- b.closedMutex.RUnlock()      (else branch)
  | pUnlockME (vs : List Int)   -- b.rrm.Unlock()
  | pRLock2 (vs : List Int)     -- b.closedMutex.RLock()
  | pCheck (vs : List Int)      -- if b.closed && len(vs) == 0 { close(b.rc); close(b.closedSignal) … }
  | pSend (vs : List Int)       -- for _, v := range vs { b.rc <- v }
  | pRUnlockL                   -- b.closedMutex.RUnlock(); next iteration
  | pRUnlockX                   -- b.closedMutex.RUnlock(); break
  | pDone
  deriving Repr, DecidableEq

/-- the operation a client thread at `pc` executes next, as printed in the program text -/
def PC.instr : PC → String
  | .wRLock _ => "b.closedMutex.RLock()"
  | .wCheck _ => "if(b.closed){ return }"
  | .wLockM _ => "b.rrm.Lock()"
  | .wWrite _ => "b.ring.Write(v); b.cond.Signal()"
  | .wUnlockM => "b.rrm.Unlock()"
  | .wRUnlock => "b.closedMutex.RUnlock()"
  | .cLock => "b.closedMutex.Lock()"
  | .cCheck => "if(b.closed){ return b.closedSignal }; b.closed=true"
  | .cLockM => "b.rrm.Lock()"
  | .cSignal => "b.cond.Signal()"
  | .cUnlockM => "b.rrm.Unlock()"
  | .cUnlock => "b.closedMutex.Unlock()"
  | .done => ""

/-- the operation the pump at `pc` executes next (`cond.Wait` is two steps: enqueue + release, then
re-acquire after the wake-up) -/
def PPC.instr : PPC → String
  | .pRLock => "b.closedMutex.RLock()"
  | .pLockM => "b.rrm.Lock()"
  | .pRead => "vs=b.ring.ReadAll(); if(len(vs)==0&&!b.closed)"
  | .pRUnlockW => "b.closedMutex.RUnlock()"
  | .pWait => "b.cond.Wait()"
  | .pSleep => ""
  | .pUnlockMC => "b.rrm.Unlock(); continue"
  | .pRUnlockE _ => "b.closedMutex.RUnlock()"
  | .pUnlockME _ => "b.rrm.Unlock()"
  | .pRLock2 _ => "b.closedMutex.RLock()"
  | .pCheck _ => "if(b.closed&&len(vs)==0){ close(b.rc); close(b.closedSignal)"
  | .pSend _ => "range(vs){ send(b.rc,v) }"
  | .pRUnlockL => "b.closedMutex.RUnlock()"
  | .pRUnlockX => "b.closedMutex.RUnlock(); break"
  | .pDone => ""

/-! The program texts this model was transcribed from, in the canonical form the harness op
`facts ring_unbounded.go <Func>` prints from the go/ast of /repo/toolkit/buffer/ring_unbounded.go
(compared on every run by the suite `queue-facts`).  The operations are spliced in from
`PC.instr`/`PPC.instr` in program order (deferred unlocks where the `defer` statement stands). -/

def writeProg : String :=
  (PC.wRLock 0).instr ++ "; defer " ++ PC.wRUnlock.instr ++ "; " ++ (PC.wCheck 0).instr ++ "; " ++ (PC.wLockM 0).instr ++
  "; " ++ (PC.wWrite 0).instr ++ "; " ++ PC.wUnlockM.instr

def closeProg : String :=
  PC.cLock.instr ++ "; defer " ++ PC.cUnlock.instr ++ "; " ++ PC.cCheck.instr ++ "; " ++ PC.cLockM.instr ++ "; " ++
  PC.cSignal.instr ++ "; " ++ PC.cUnlockM.instr ++ "; return b.closedSignal"

def processProg : String :=
  "go{ loop{ " ++ PPC.pRLock.instr ++ "; " ++ PPC.pLockM.instr ++ "; " ++ PPC.pRead.instr ++ "{ " ++ PPC.pRUnlockW.instr ++
  "; " ++ PPC.pWait.instr ++ PPC.pSleep.instr ++ "; " ++ PPC.pUnlockMC.instr ++ " } else{ " ++ (PPC.pRUnlockE []).instr ++
  " }; " ++ (PPC.pUnlockME []).instr ++ "; " ++ (PPC.pRLock2 []).instr ++ "; " ++ (PPC.pCheck []).instr ++ "; " ++
  PPC.pRUnlockX.instr ++ " }; " ++ (PPC.pSend []).instr ++ "; " ++ PPC.pRUnlockL.instr ++ " } }"

structure Thread where
  pc : PC
  todo : List Op
  deriving Repr, DecidableEq

structure Glob where
  closed : Bool
  ring : List Int
  chan : List Int
  cap : Nat
  chanClosed : Bool
  readers : Nat
  writer : Bool
  rrm : Bool
  waiting : Bool
  /-- ghost: what the reader has received -/
  out : List Int
  /-- ghost: the values written into the ring, in order -/
  accepted : List Int
  deriving Repr, DecidableEq

structure St where
  g : Glob
  pump : PPC
  ths : List Thread
  deriving Repr, DecidableEq

def start : List Op → Thread
  | [] => { pc := .done, todo := [] }
  | .write v :: r => { pc := .wRLock v, todo := r }
  | .close :: r => { pc := .cLock, todo := r }

/-- `b.cond.Signal()` -/
def signal (g : Glob) : Glob := { g with waiting := false }

/-- one step of a client thread -/
def trans (g : Glob) (th : Thread) : Option (Glob × Thread) :=
  match th.pc with
  | .done => none
  | .wRLock v => if g.writer then none else some ({ g with readers := g.readers + 1 }, { th with pc := .wCheck v })
  | .wCheck v => if g.closed then some (g, { th with pc := .wRUnlock }) else some (g, { th with pc := .wLockM v })
  | .wLockM v => if g.rrm then none else some ({ g with rrm := true }, { th with pc := .wWrite v })
  | .wWrite v => some (signal { g with ring := g.ring ++ [v], accepted := g.accepted ++ [v] }, { th with pc := .wUnlockM })
  | .wUnlockM => some ({ g with rrm := false }, { th with pc := .wRUnlock })
  | .wRUnlock => some ({ g with readers := g.readers - 1 }, start th.todo)
  | .cLock => if g.writer || g.readers != 0 then none else some ({ g with writer := true }, { th with pc := .cCheck })
  | .cCheck => if g.closed then some (g, { th with pc := .cUnlock }) else some ({ g with closed := true }, { th with pc := .cLockM })
  | .cLockM => if g.rrm then none else some ({ g with rrm := true }, { th with pc := .cSignal })
  | .cSignal => some (signal g, { th with pc := .cUnlockM })
  | .cUnlockM => some ({ g with rrm := false }, { th with pc := .cUnlock })
  | .cUnlock => some ({ g with writer := false }, start th.todo)

/-- is there room in the output channel -/
def room (g : Glob) : Bool := g.chan.length < (if g.cap = 0 then 1 else g.cap)

/-- one step of the pump goroutine -/
def ptrans (g : Glob) : PPC → Option (Glob × PPC)
  | .pDone => none
  | .pRLock => if g.writer then none else some ({ g with readers := g.readers + 1 }, .pLockM)
  | .pLockM => if g.rrm then none else some ({ g with rrm := true }, .pRead)
  | .pRead =>
      if g.ring = [] && !g.closed then some (g, .pRUnlockW)
      else some ({ g with ring := [] }, .pRUnlockE g.ring)
  | .pRUnlockW => some ({ g with readers := g.readers - 1 }, .pWait)
  | .pWait => some ({ g with waiting := true, rrm := false }, .pSleep)
  | .pSleep => if g.waiting || g.rrm then none else some ({ g with rrm := true }, .pUnlockMC)
  | .pUnlockMC => some ({ g with rrm := false }, .pRLock)
  | .pRUnlockE vs => some ({ g with readers := g.readers - 1 }, .pUnlockME vs)
  | .pUnlockME vs => some ({ g with rrm := false }, .pRLock2 vs)
  | .pRLock2 vs => if g.writer then none else some ({ g with readers := g.readers + 1 }, .pCheck vs)
  | .pCheck vs =>
      if g.closed && vs.isEmpty then some ({ g with chanClosed := true }, .pRUnlockX)
      else some (g, .pSend vs)
  | .pSend [] => some (g, .pRUnlockL)
  | .pSend (v :: rest) => if room g then some ({ g with chan := g.chan ++ [v] }, .pSend rest) else none
  | .pRUnlockL => some ({ g with readers := g.readers - 1 }, .pRLock)
  | .pRUnlockX => some ({ g with readers := g.readers - 1 }, .pDone)

/-- the reader receives one element from `Read()` -/
def recv (g : Glob) : Option Glob :=
  match g.chan with
  | [] => none
  | v :: rest => some { g with chan := rest, out := g.out ++ [v] }

inductive Act where
  | client (i : Nat) | pump | recv
  deriving Repr, DecidableEq

def step (s : St) : Act → Option St
  | .recv => (recv s.g).map (fun g' => { s with g := g' })
  | .pump => (ptrans s.g s.pump).map (fun r => { s with g := r.1, pump := r.2 })
  | .client i =>
    match s.ths[i]? with
    | none => none
    | some th =>
      match trans s.g th with
      | none => none
      | some (g', th') => some { s with g := g', ths := s.ths.set i th' }

/-- run a schedule; disabled entries (lock not available, thread finished, channel full/empty) are skipped -/
def run (s : St) : List Act → St
  | [] => s
  | a :: sched => run ((step s a).getD s) sched

/-- `NewRingUnbounded(cap)` and one client thread per program -/
def init (cap : Nat) (progs : List (List Op)) : St :=
  { g := { closed := false, ring := [], chan := [], cap := cap, chanClosed := false, readers := 0, writer := false,
           rrm := false, waiting := false, out := [], accepted := [] },
    pump := .pRLock, ths := progs.map start }

/-- the elements the pump holds between `ReadAll` and the sends -/
def vsOf : PPC → List Int
  | .pRUnlockE vs => vs
  | .pUnlockME vs => vs
  | .pRLock2 vs => vs
  | .pCheck vs => vs
  | .pSend vs => vs
  | _ => []

end MV.Model.RingUnbounded
