/-!
# Interleaving semantics for the instruction-level (Layer 1) models

A system is a shared state `G`, thread-local program counters `PC` (captured locals are constructor
arguments) and a transition function `trans : G → PC → Option (G × PC × List PC)`: the thread at
`pc` performs **one** atomic shared-memory operation, moves to the next `pc` and possibly spawns
threads (`go f()` / `Dispatch(f)`).  `none` = the thread has finished (or is not enabled).

A state is `(g, ths)` with `ths : List PC`; thread ids are list positions (threads are never removed).
The environment may add threads of an allowed kind at any time (`Ev.spawn`): "any number of
concurrent senders, arriving at any moment".

Core Lean only.
-/
namespace MV.Model.Conc

structure Sys (G PC : Type) where
  trans : G → PC → Option (G × PC × List PC)
  /-- thread kinds the environment may start at any time -/
  allowed : PC → Bool

structure St (G PC : Type) where
  g : G
  ths : List PC

inductive Ev (PC : Type) where
  | run (i : Nat)
  | spawn (pc : PC)

variable {G PC : Type}

/-- thread `i` takes one atomic step -/
def step (S : Sys G PC) (s : St G PC) (i : Nat) : Option (St G PC) :=
  match s.ths[i]? with
  | none => none
  | some pc =>
    match S.trans s.g pc with
    | none => none
    | some (g', pc', sp) => some { g := g', ths := s.ths.set i pc' ++ sp }

/-- one scheduler event; events that are not enabled leave the state unchanged -/
def next (S : Sys G PC) (s : St G PC) : Ev PC → St G PC
  | .run i => (step S s i).getD s
  | .spawn pc => if S.allowed pc then { s with ths := s.ths ++ [pc] } else s

def exec (S : Sys G PC) (s : St G PC) (sched : List (Ev PC)) : St G PC :=
  sched.foldl (next S) s

/-- `countP` bookkeeping for `List.set` -/
theorem countP_set_of (l : List PC) (i : Nat) (a : PC) (p : PC → Bool) (old : PC)
    (h : l[i]? = some old) :
    (l.set i a).countP p + (if p old then 1 else 0) = l.countP p + (if p a then 1 else 0) := by
  induction l generalizing i with
  | nil => simp at h
  | cons x xs ih =>
    cases i with
    | zero =>
      simp at h; subst h
      simp [List.countP_cons]; omega
    | succ j =>
      simp at h
      have := ih j h
      simp [List.countP_cons]; omega

/-- What a step does, in the form every invariant proof uses: the shared state follows `trans`, and
every counting predicate changes by "− old pc + new pc + spawned". -/
theorem step_spec (S : Sys G PC) (s s' : St G PC) (i : Nat) (h : step S s i = some s') :
    ∃ pc pc' sp, s.ths[i]? = some pc ∧ S.trans s.g pc = some (s'.g, pc', sp) ∧
      s'.ths = s.ths.set i pc' ++ sp ∧
      ∀ p : PC → Bool, s'.ths.countP p + (if p pc then 1 else 0) =
        s.ths.countP p + (if p pc' then 1 else 0) + sp.countP p := by
  unfold step at h
  split at h
  · simp at h
  · rename_i pc hpc
    split at h
    · simp at h
    · rename_i g' pc' sp ht
      simp at h; subst h
      refine ⟨pc, pc', sp, hpc, ?_, rfl, ?_⟩
      · simpa using ht
      · intro p
        have := countP_set_of s.ths i pc' p pc hpc
        simp only [List.countP_append]; omega

/-- a thread that is at `pc` is counted by every predicate true of `pc` -/
theorem countP_pos_of_getElem? (l : List PC) (i : Nat) (pc : PC) (p : PC → Bool)
    (h : l[i]? = some pc) (hp : p pc = true) : 0 < l.countP p := by
  induction l generalizing i with
  | nil => simp at h
  | cons x xs ih =>
    cases i with
    | zero => simp at h; subst h; simp [hp]
    | succ j => simp at h; have := ih j h; simp [List.countP_cons]; omega

/-- Induction principle: an invariant that holds initially, is preserved by every enabled thread
step and by every allowed spawn, holds after every schedule. -/
theorem exec_inv (S : Sys G PC) (P : St G PC → Prop)
    (hstep : ∀ s s' i, P s → step S s i = some s' → P s')
    (hspawn : ∀ s pc, P s → S.allowed pc = true → P { s with ths := s.ths ++ [pc] })
    (s : St G PC) (h : P s) (sched : List (Ev PC)) : P (exec S s sched) := by
  unfold exec
  induction sched generalizing s with
  | nil => exact h
  | cons e es ih =>
    apply ih
    cases e with
    | run i =>
      show P ((step S s i).getD s)
      cases hs : step S s i with
      | none => exact h
      | some s1 => exact hstep s s1 i h hs
    | spawn pc =>
      unfold next
      by_cases ha : S.allowed pc = true
      · simp only [ha, if_true]; exact hspawn s pc h ha
      · simp only [ha]; exact h

end MV.Model.Conc
