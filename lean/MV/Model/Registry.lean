import MV.Model.Conc
import MV.Spec.Registry
/-!
# Instruction-level model of the process registry
(`engine/prc/resource_controller.go`: `Register`, `Unregister`, `GetProcess` for local references;
`engine/vivid/actor_process.go`: `IsTerminated` = atomic load, `Terminate` = atomic store of the flag)

One `trans` step = one shared-memory operation of the Go code (the operation that follows a
`verifhook.At("rc.…")` line).  Shared state: the map `address → process` (`xsync.MapOf`: `LoadOrStore`,
`LoadAndDelete`, `Load` are atomic per key — trusted), the `terminated` flag of every process, the
`cache` pointer of every reference object (`ProcessId`).  A reference object `Ref` has a fixed address;
threads that use the same `Ref` share its cache (a shared `*ProcessId`), different `id`s with the
same address are private copies.

PC ↔ Go (hook sites in brackets); every operation starts with a ghost `…Call` step that allocates its
operation id and records the invocation:

* `Register(id, process)`: `rLos` [rc.reg.los] `LoadOrStore` — the process object is fresh (allocated
  here from `nextProc`: a process object is passed to `Register` at most once); on success
  `process.Initialize` (process-local, not modelled); returns `exist`.
* `Unregister(_, target)`: `uLad` [rc.unreg.lad] `LoadAndDelete`; absent → return;
  `uTerm p` [rc.unreg.term] `process.Terminate` (flag := true) → return.
* `GetProcess(id)`: `gCLoad` [rc.get.cload] `id.cache.Load()`; nil → `gMLoad`;
  `gIsTerm p` [rc.get.isterm] `process.IsTerminated()`: false → return `p`;
  `gCClear` [rc.get.cclear] `id.cache.Store(nil)`;
  `gMLoad` [rc.get.mload] `processes.Load`: absent → return the substitute;
  `gCStore p` [rc.get.cstore] `id.cache.Store(&process)` → return `p`.

Ghost state: `limbo` (removed by `LoadAndDelete`, `Terminate` not yet executed), `gone` (processes
whose `Unregister` has returned), `regInWindow` (sticky: some `Register` succeeded on an address that had
a process in limbo — the situation of finding `C12-stale-lookup-in-unregister-window`), `tr` (the trace of `call`/`lin`/`ret` events of `MV.Spec.Registry`),
`nextOp`.
-/
namespace MV.Model.Registry
open MV.Model.Conc MV.Spec.Registry

structure Ref where
  addr : Addr
  id : Nat
  deriving DecidableEq, Repr

structure G where
  map : Addr → Option Proc := fun _ => none
  term : Proc → Bool := fun _ => false
  cache : Ref → Option Proc := fun _ => none
  nextProc : Nat := 1
  -- ghost
  nextOp : Nat := 0
  limbo : List (Addr × Proc) := []
  gone : List Proc := []
  regInWindow : Bool := false   -- a `Register` has stored a new registrant while the address had a limbo process
  tr : List TrEv := []

inductive PC where
  | rCall (a : Addr) | rLos (k : Nat) (a : Addr)
  | uCall (a : Addr) | uLad (k : Nat) (a : Addr) | uTerm (k : Nat) (a : Addr) (p : Proc)
  | gCall (r : Ref) | gCLoad (k : Nat) (r : Ref) | gIsTerm (k : Nat) (r : Ref) (p : Proc)
  | gCClear (k : Nat) (r : Ref) | gMLoad (k : Nat) (r : Ref) | gCStore (k : Nat) (r : Ref) (p : Proc)
  | done
  deriving DecidableEq, Repr

def trans (g : G) : PC → Option (G × PC × List PC)
  | .rCall a =>
      some ({ g with nextOp := g.nextOp + 1, tr := g.tr ++ [.call g.nextOp (.reg a)] }, .rLos g.nextOp a, [])
  | .rLos k a =>
      match g.map a with
      | none =>
        some ({ g with map := upd g.map a (some g.nextProc), nextProc := g.nextProc + 1,
                       regInWindow := g.regInWindow || g.limbo.any (fun x => x.1 == a),
                       tr := g.tr ++ [.lin k (.reg a g.nextProc true), .ret k (.regOk g.nextProc)] }, .done, [])
      | some _ =>
        some ({ g with nextProc := g.nextProc + 1,
                       tr := g.tr ++ [.lin k (.reg a g.nextProc false), .ret k .regExist] }, .done, [])
  | .uCall a =>
      some ({ g with nextOp := g.nextOp + 1, tr := g.tr ++ [.call g.nextOp (.unreg a)] }, .uLad g.nextOp a, [])
  | .uLad k a =>
      match g.map a with
      | none => some ({ g with tr := g.tr ++ [.lin k (.del a none), .ret k .unit] }, .done, [])
      | some p =>
        some ({ g with map := upd g.map a none, limbo := (a, p) :: g.limbo,
                       tr := g.tr ++ [.lin k (.del a (some p))] }, .uTerm k a p, [])
  | .uTerm k a p =>
      some ({ g with term := upd g.term p true, limbo := g.limbo.erase (a, p), gone := p :: g.gone,
                     tr := g.tr ++ [.lin k (.term a p), .ret k .unit] }, .done, [])
  | .gCall r =>
      some ({ g with nextOp := g.nextOp + 1, tr := g.tr ++ [.call g.nextOp (.get r.addr)] }, .gCLoad g.nextOp r, [])
  | .gCLoad k r =>
      match g.cache r with
      | none => some (g, .gMLoad k r, [])
      | some p => some (g, .gIsTerm k r p, [])
  | .gIsTerm k r p =>
      if g.term p then some (g, .gCClear k r, [])
      else some ({ g with tr := g.tr ++ [.lin k (.get r.addr (some p)), .ret k (.proc (some p))] }, .done, [])
  | .gCClear k r => some ({ g with cache := upd g.cache r none }, .gMLoad k r, [])
  | .gMLoad k r =>
      match g.map r.addr with
      | none => some ({ g with tr := g.tr ++ [.lin k (.get r.addr none), .ret k (.proc none)] }, .done, [])
      | some p => some ({ g with tr := g.tr ++ [.lin k (.get r.addr (some p))] }, .gCStore k r p, [])
  | .gCStore k r p =>
      some ({ g with cache := upd g.cache r (some p), tr := g.tr ++ [.ret k (.proc (some p))] }, .done, [])
  | .done => none

/-- threads the environment may start at any time: callers of `Register`, `Unregister`, `GetProcess`
(through any reference object) -/
def allowed : PC → Bool
  | .rCall _ | .uCall _ | .gCall _ => true
  | _ => false

def sys : Sys G PC := { trans := trans, allowed := allowed }

abbrev State := St G PC

def init : State := { g := {}, ths := [] }

def siteName : PC → String
  | .rCall _ => "~rcall" | .uCall _ => "~ucall" | .gCall _ => "~gcall"
  | .rLos _ _ => "rc.reg.los" | .uLad _ _ => "rc.unreg.lad" | .uTerm _ _ _ => "rc.unreg.term"
  | .gCLoad _ _ => "rc.get.cload" | .gIsTerm _ _ _ => "rc.get.isterm" | .gCClear _ _ => "rc.get.cclear"
  | .gMLoad _ _ => "rc.get.mload" | .gCStore _ _ _ => "rc.get.cstore" | .done => "done"

/-- the abstract state the `lin` events of the trace have produced: the map and the limbo list -/
def absOf (g : G) : Abs := { cur := g.map, limbo := g.limbo }

end MV.Model.Registry
