/-!
# Model of `toolkit/chrono/exponential_backoff.go` (`chrono.ExponentialBackoff`)

The Go code computes in `float64`:

```go
if count > maxRetries && maxRetries > -1 { return -1 }
delay  := float64(baseDelay) * math.Pow(multiplier, float64(count))
jitter := (rand.Float64() - 0.5) * randomization * float64(baseDelay)
sleep  := delay + jitter
if math.IsNaN(sleep) { sleep = 0 }
sleepDuration := time.Duration(sleep)
if sleep >= float64(maxDelay) || sleepDuration > maxDelay { sleepDuration = maxDelay }
return sleepDuration
```

The model keeps every step of that computation, over **exact** arithmetic extended with the IEEE
special values: an `FVal` is a rational `n/d` (`d > 0`), `+Inf`, `-Inf` or `NaN`.  Every arithmetic
operation (`math.Pow`, `*`, `+`, `-`) produces `±Inf` when the exact result reaches `2^1024` in
magnitude (binary64 overflow), `0 * Inf = NaN`, `Inf - Inf = NaN`; *rounding* of finite results and
underflow towards zero are **not** modelled (finite results are exact).  The conversion
`time.Duration(x)` is the amd64 `CVTTSD2SQ` rule: truncation towards zero when the truncated value
is an `int64`, otherwise (too large, infinite, NaN) `MinInt64`.

Inputs: `count ≥ 0` (a `Nat`), `maxRetries`, `baseDelay`, `maxDelay` as `Int` (nanoseconds), the
`float64` parameters `multiplier = mn/md`, `randomization = rn/rd` as non-negative rationals, and the
value drawn by `rand.Float64()` as a parameter `u : FVal`.

Core Lean only (linked into the oracle executable).
-/
namespace MV.Model.Backoff

/-- binary64 values: exact rationals below the overflow threshold, and the special values -/
inductive FVal where
  | fin (n : Int) (d : Nat)
  | pinf
  | ninf
  | nan
  deriving DecidableEq, Repr

/-- overflow threshold of binary64: results of magnitude `≥ 2^1024` become infinite -/
def fmax : Nat := 2 ^ 1024

namespace FVal

/-- result of an arithmetic operation whose exact value is `n/d` -/
def norm (n : Int) (d : Nat) : FVal :=
  if ((fmax * d : Nat) : Int) ≤ n then pinf
  else if n ≤ -((fmax * d : Nat) : Int) then ninf
  else fin n d

/-- `float64(i)` for an `int64` (never overflows) -/
def ofInt (i : Int) : FVal := fin i 1

def neg : FVal → FVal
  | fin n d => fin (-n) d
  | pinf => ninf
  | ninf => pinf
  | nan => nan

/-- `Inf * (n/d)` with the sign `pos` of the infinity -/
def infMul (pos : Bool) (n : Int) : FVal :=
  if n = 0 then nan else if (0 < n) = pos then pinf else ninf

def mul : FVal → FVal → FVal
  | fin a b, fin c d => norm (a * c) (b * d)
  | nan, _ => nan
  | _, nan => nan
  | fin a _, pinf => infMul true a
  | fin a _, ninf => infMul false a
  | pinf, fin a _ => infMul true a
  | ninf, fin a _ => infMul false a
  | pinf, pinf => pinf
  | pinf, ninf => ninf
  | ninf, pinf => ninf
  | ninf, ninf => pinf

def add : FVal → FVal → FVal
  | fin a b, fin c d => norm (a * d + c * b) (b * d)
  | nan, _ => nan
  | _, nan => nan
  | pinf, ninf => nan
  | ninf, pinf => nan
  | pinf, _ => pinf
  | _, pinf => pinf
  | ninf, _ => ninf
  | _, ninf => ninf

def sub (x y : FVal) : FVal := add x (neg y)

/-- `math.Pow(mn/md, float64(c))` for a non-negative base and an integer exponent `c ≥ 0`
    (`Pow(x, 0) = 1` for every `x`, as in Go) -/
def powNat (mn md c : Nat) : FVal := norm ((mn ^ c : Nat) : Int) (md ^ c)

def isNaN : FVal → Bool
  | nan => true
  | _ => false

/-- `x >= float64(m)` for an integer `m` (false for NaN) -/
def ge (x : FVal) (m : Int) : Bool :=
  match x with
  | fin n d => decide (m * (d : Int) ≤ n)
  | pinf => true
  | ninf => false
  | nan => false

def minI64 : Int := -(2 ^ 63)

/-- `int64(x)` on amd64 (`CVTTSD2SQ`): truncation, or `MinInt64` when the truncated value does not
    fit (this includes `±Inf` and `NaN`) -/
def toI64 : FVal → Int
  | fin n d =>
    if -((2 ^ 63 + 1) * (d : Int)) < n ∧ n < 2 ^ 63 * (d : Int) then n.tdiv d else minI64
  | _ => minI64

end FVal

open FVal

/-- arguments of `ExponentialBackoff` -/
structure Params where
  count : Nat
  limit : Int
  base : Int
  max : Int
  mn : Nat
  md : Nat
  rn : Nat
  rd : Nat
  deriving Repr

/-- `sleep := delay + jitter` -/
def sleepF (count : Nat) (base : Int) (mn md rn rd : Nat) (u : FVal) : FVal :=
  let delay := mul (ofInt base) (powNat mn md count)
  let jitter := mul (mul (sub u (fin 1 2)) (fin rn rd)) (ofInt base)
  add delay jitter

/-- from `sleep` to the returned `Duration`: NaN guard, conversion, clamp -/
def clampDur (sleep : FVal) (max : Int) : Int :=
  let sleep := if sleep.isNaN then fin 0 1 else sleep
  let sd := sleep.toI64
  if sleep.ge max ∨ sd > max then max else sd

/-- the delay part (also inlined in `toolkit.ConditionalRetryByExponentialBackoff`) -/
def delay (count : Nat) (base max : Int) (mn md rn rd : Nat) (u : FVal) : Int :=
  clampDur (sleepF count base mn md rn rd u) max

/-- `chrono.ExponentialBackoff(count, limit, base, max, mn/md, rn/rd)` with the random draw `u` -/
def backoff (p : Params) (u : FVal) : Int :=
  if (p.count : Int) > p.limit ∧ p.limit > -1 then -1
  else delay p.count p.base p.max p.mn p.md p.rn p.rd u

/-- `chrono.StandardExponentialBackoff`: multiplier 2, randomization 0.5 -/
def standard (count : Nat) (limit base max : Int) (u : FVal) : Int :=
  backoff { count, limit, base, max, mn := 2, md := 1, rn := 1, rd := 2 } u

end MV.Model.Backoff
