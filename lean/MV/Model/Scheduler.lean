/-!
# Model of `toolkit/chrono/scheduler.go` + `scheduler_task.go` over an abstract timing wheel

Virtual time is a `Nat` number of milliseconds (`timingwheel` works in whole milliseconds:
`timeToMs`).  Transcribed (after the `fix:` commit that stores the `*timingwheel.Timer` returned by
`ScheduleFunc` in `task.timer` and nil-checks it in `close()`):

* `Scheduler.task()` — clamp `after`/`interval` to the tick (only when there is no cron
  expression), `unlockUnregisterTask(name)` (closes and removes a same-named task), insert the new
  task, `wheel.ScheduleFunc(task, task.caller)`;
* `schedulerTask.Next` / `caller` / `close`, `UnregisterTask`, `Clear`, `Close` (after the second `fix:`
  commit `1e829e9`: idempotent, does not wait for the wheel's goroutines, and a closed scheduler
  ignores new registrations);
* `timingwheel.ScheduleFunc`: the timer's closure first asks `Next(t.expiration)` and re-adds the
  timer, then calls `f` (= `task.caller`).

Every task object ever created keeps its index (`objs i`, `i < nobjs`): a replaced task is removed
from the name table but its timer may still be in flight, exactly as the Go object stays reachable
from the wheel.

## The timing wheel as a parameter (library `RussellLuo/timingwheel@54845bda3108`, read, not verified)

The library is *read* as follows: `add(t)` puts a timer whose expiration `e` satisfies
`e ≥ currentTime + tick` into the bucket with expiration `e - e % tick` (possibly via overflow wheels)
and otherwise starts `go t.task()` at once.  It was first assumed that `currentTime ≤ now`, hence that a
timer leaves the wheel at some `t ≥ e - e % tick`.  **That assumption is false**: when a bucket that has
been popped from the delay queue is re-armed for the next lap before the wheel's loop has flushed it,
`advanceClock(b.Expiration())` moves the wheel's clock a lap ahead and every timer of the bucket is run
up to a whole lap early (reproduced on the real code under CPU load: a firing 92 ms before its due time
with tick 10 ms; `MV.Findings.C08.wheel_early_handout`).  The repository was repaired instead
(`fix:` "a task is not run before its due time": `schedulerTask.Next(prev)`, which the timer's closure
calls first with the expiration of the run that is starting, sleeps until `prev`), and the model now
assumes about the wheel only this:

  a pending timer may be taken out of the wheel (`expire i`: its goroutine `go t.task()` is started)
  at ANY time while the wheel runs (`Start()` … `Stop()`); `Timer.Stop()` removes a timer that is
  still in a bucket and does nothing to one whose goroutine has already been started.

`run i` (the goroutine executes `t.task()`: `Next` — which waits until `e ≤ now` —, re-add, `caller`)
is a separate step so that a `close()` may fall between hand-out and run, as in the real code.  A firing
is therefore never early (`time.Sleep` returns after at least its argument); there is no upper bound
(late is always possible).

Not modelled: `SetExecutor`/`separate` (nobody in the repository sets an executor; `Clear` resetting it
is therefore invisible), `RegisterImmediateCronTask`/`RegisterDayMomentTask`'s immediate synchronous
call, sub-millisecond parts of durations.  A cron expression is abstracted to a period `p` in
milliseconds: `expr.Next(prev) = (prev / p + 1) * p` ("every second" is `p = 1000`).

Core Lean only (linked into `oracle-c08`).
-/

namespace MV.Model.Scheduler

/-- state of the `*timingwheel.Timer` belonging to a task -/
inductive Timer where
  | unset                -- `task.timer == nil` (`ScheduleFunc` returned nil: `Next` answered the zero time)
  | idle                 -- in no bucket and no goroutine pending (finished, or stopped)
  | pending (e : Nat)    -- in a bucket of the wheel, `t.expiration = e`
  | inflight (e : Nat)   -- taken out of its bucket, `go t.task()` started but not yet executed
  deriving DecidableEq, Repr

/-- `schedulerTask` (+ ghost field `base`: virtual time of registration) -/
structure Task where
  name : Nat
  after : Nat            -- ms, already clamped
  interval : Nat         -- ms, already clamped
  total : Int            -- `times`; `≤ 0` = forever
  cron : Option Nat      -- period of the abstract cron expression
  trigger : Nat
  kill : Bool
  timer : Timer
  base : Nat
  deriving Repr

/-- one execution of `t.function.Call(t.args)`: in the actor runtime this *posts* the callback to
    the owner's mailbox -/
structure Firing where
  id : Nat               -- index of the task object
  exp : Nat              -- `t.expiration` of the timer run that produced it
  time : Nat             -- virtual time of the call
  deriving DecidableEq, Repr

structure Sched where
  tick : Nat
  now : Nat
  nobjs : Nat
  objs : Nat → Task
  table : Nat → Option Nat     -- `s.tasks`: name ↦ index of the task object
  stopped : Bool               -- `s.closed`: `Close()` has been called (the wheel is stopped)
  log : List Firing            -- newest first

inductive Out where
  | ok | panic
  deriving DecidableEq, Repr

def upd {α : Type} (f : Nat → α) (k : Nat) (v : α) : Nat → α := fun i => if i = k then v else f i

/-- placeholder for indices that are not task objects -/
def deadTask : Task :=
  { name := 0, after := 0, interval := 0, total := 1, cron := none, trigger := 0, kill := true,
    timer := .unset, base := 0 }

/-- `NewScheduler(tick, _)`; `timingwheel.NewTimingWheel` panics unless `tick ≥ 1ms` -/
def init (tick : Nat) : Sched :=
  { tick := tick, now := 0, nobjs := 0, objs := fun _ => deadTask, table := fun _ => none,
    stopped := false, log := [] }

/-! ## `schedulerTask` -/

/-- the test at the top of `Next`: `t.kill || (t.total > 0 && t.trigger >= t.total)` -/
def Task.finished (t : Task) : Bool :=
  t.kill || (decide (t.total > 0) && decide (t.total ≤ (t.trigger : Int)))

/-- the time `Next(prev)` returns (`none` = zero time) -/
def Task.next (t : Task) (prev : Nat) : Option Nat :=
  match t.cron with
  | some p => some ((prev / p + 1) * p)
  | none =>
    if t.finished then none
    else if t.trigger = 0 then some (prev + t.after) else some (prev + t.interval)

/-- the side effect of `Next` (`t.trigger++` on both non-cron return paths) -/
def Task.bump (t : Task) : Task :=
  match t.cron with
  | some _ => t
  | none => if t.finished then t else { t with trigger := t.trigger + 1 }

/-- `Timer.Stop()`: removes the timer from its bucket if it is in one -/
def Task.stop (t : Task) : Task :=
  match t.timer with
  | .pending _ => { t with timer := .idle }
  | _ => t

/-- `close()` (after the fix: `if t.timer != nil { t.timer.Stop() }`, which is `stop`: a nil timer is
    `.unset` and left alone) -/
def Task.close (t : Task) : Task :=
  if t.kill then t
  else if t.total ≤ 0 ∨ (t.trigger : Int) < t.total then ({ t with kill := true } : Task).stop
  else { t with kill := true }

/-- `ScheduleFunc(task, f)`: `expiration := s.Next(now)`; a nil timer when it is the zero time -/
def Task.schedule (t : Task) (now : Nat) : Task :=
  match t.next now with
  | some e => { t.bump with timer := .pending e }
  | none => t.bump

/-- first half of the closure `ScheduleFunc` gives the timer: `Next(t.expiration)` and re-add -/
def Task.fire (t : Task) (e : Nat) : Task :=
  match t.next e with
  | some e' => { t.bump with timer := .pending e' }
  | none => { t.bump with timer := .idle }

/-! ## `Scheduler` -/

/-- `unlockUnregisterTask(name)` -/
def unregister (s : Sched) (name : Nat) : Sched :=
  match s.table name with
  | some i => { s with objs := upd s.objs i (s.objs i).close, table := upd s.table name none }
  | none => s

def clampMs (tick : Nat) (d : Int) : Nat := if d < (tick : Int) then tick else d.toNat

/-- the clamping at the top of `task()`: only without a cron expression -/
def durMs (tick : Nat) (cron : Option Nat) (d : Int) : Nat :=
  match cron with
  | none => clampMs tick d
  | some _ => d.toNat

/-- `s.tasks[name] = task` for a new task object -/
def addTask (s : Sched) (name : Nat) (t : Task) : Sched :=
  { s with objs := upd s.objs s.nobjs t, nobjs := s.nobjs + 1, table := upd s.table name (some s.nobjs) }

/-- the `&schedulerTask{…}` literal of `task()` -/
def Task.fresh (name a iv : Nat) (times : Int) (cron : Option Nat) (now : Nat) : Task :=
  { name := name, after := a, interval := iv, total := times, cron := cron, trigger := 0,
    kill := false, timer := .unset, base := now }

/-- `task(name, after, interval, expr, times, …)`.  `cron = some p` stands for `expr != nil`
    (no clamping then; the callers pass `after = interval = 0`). -/
def registerLive (s : Sched) (name : Nat) (after interval : Int) (cron : Option Nat) (times : Int) : Sched :=
  let t := Task.fresh name (durMs s.tick cron after) (durMs s.tick cron interval) times cron s.now
  let s1 := unregister s name
  addTask s1 name (t.schedule s1.now)

/-- `task()` begins with `if s.closed { return }` (since `1e829e9`) -/
def register (s : Sched) (name : Nat) (after interval : Int) (cron : Option Nat) (times : Int) : Sched :=
  if s.stopped then s else registerLive s name after interval cron times

/-- the tasks `Clear`/`Close` range over: objects still in the name table -/
def inTable (s : Sched) (i : Nat) : Bool := decide (i < s.nobjs) && decide (s.table (s.objs i).name = some i)

/-- `Clear()`: close and delete every registered task (map order is irrelevant: the closes are
    independent of each other) -/
def clear (s : Sched) : Sched :=
  { s with objs := fun i => if inTable s i then (s.objs i).close else s.objs i, table := fun _ => none }

/-- `Close()`: as `Clear`; the first call marks the scheduler closed and stops the wheel (since
    `1e829e9` in a goroutine of its own: `timingwheel.Stop` can block for ever, see `MV.Findings.C08`);
    further calls only clear.  Never panics any more (the `Out` is kept for the protocol). -/
def close (s : Sched) : Sched × Out :=
  let s1 := clear s
  if s.stopped then (s1, .ok) else ({ s1 with stopped := true }, .ok)

/-- `caller()`: honours `kill` (nobody sets `separate`), the `trigger > total` unregistration, then
    `function.Call` -/
def caller (s : Sched) (i e : Nat) : Sched :=
  let t := s.objs i
  if t.kill then s
  else
    let s1 := if t.total > 0 ∧ t.total < (t.trigger : Int) then unregister s t.name else s
    { s1 with log := { id := i, exp := e, time := s.now } :: s1.log }

/-- the closure `ScheduleFunc` gives the timer: `Next(t.expiration)`, re-add, then `f()` -/
def timerTask (s : Sched) (i e : Nat) : Sched :=
  caller { s with objs := upd s.objs i ((s.objs i).fire e) } i e


/-! ## Events -/

inductive Ev where
  | reg (name : Nat) (after interval : Int) (times : Int)
  | regCron (name : Nat) (period : Nat)
  | unreg (name : Nat)
  | clear
  | close
  | advance (dt : Nat)
  | expire (i : Nat)
  | run (i : Nat)
  deriving Repr

def advance (s : Sched) (dt : Nat) : Sched := { s with now := s.now + dt }

/-- the wheel hands out timer `i` (bucket flushed, `go t.task()` started). No assumption is made about
    *when*: the library can do this a whole lap before the expiration (a bucket re-armed for the next
    lap while its flush is pending moves the wheel's clock ahead) — observed on the real code under
    CPU load, see `MV.Findings.C08`. -/
def expire (s : Sched) (i : Nat) : Sched :=
  if s.stopped then s else
  match (s.objs i).timer with
  | .pending e =>
    if i < s.nobjs then
      { s with objs := upd s.objs i { s.objs i with timer := .inflight e } }
    else s
  | _ => s

/-- the goroutine of timer `i` executes `t.task()`. Its first action is `Next(t.expiration)`, which
    (since the `fix:` commit "a task is not run before its due time") sleeps until that expiration has
    come: the step is enabled only when `e ≤ now` (`time.Sleep` returns after at least its argument). -/
def runTimer (s : Sched) (i : Nat) : Sched :=
  match (s.objs i).timer with
  | .inflight e => if i < s.nobjs ∧ e ≤ s.now then timerTask s i e else s
  | _ => s

/-- one step; events whose precondition does not hold leave the state unchanged -/
def step (s : Sched) : Ev → Sched × Out
  | .reg n a iv times => (register s n a iv none times, .ok)
  | .regCron n p => (register s n 0 0 (some p) 0, .ok)
  | .unreg n => (unregister s n, .ok)
  | .clear => (clear s, .ok)
  | .close => close s
  | .advance dt => (advance s dt, .ok)
  | .expire i => (expire s i, .ok)
  | .run i => (runTimer s i, .ok)

def runEvents (s : Sched) : List Ev → Sched
  | [] => s
  | ev :: evs => runEvents (step s ev).1 evs

/-- number of callback invocations of task object `i` -/
def fired (s : Sched) (i : Nat) : Nat := s.log.countP (fun f => f.id = i)

/-! ## Deterministic executable: ideal timing

`wait dt` advances one millisecond at a time and fires every timer whose expiration has been reached
(in index order), i.e. every timer runs exactly at its expiration.  It is a particular sequence of
`advance 1 / expire i / run i` events, so everything proved about `step` holds for it. -/

def fireIfDue (s : Sched) (i : Nat) : Sched :=
  match (s.objs i).timer with
  | .pending e => if e ≤ s.now then (step (step s (.expire i)).1 (.run i)).1 else s
  | _ => s

def fireDue (s : Sched) : Nat → Sched
  | 0 => s
  | k + 1 => fireIfDue (fireDue s k) k

def msStep (s : Sched) : Sched :=
  let s1 := (step s (.advance 1)).1
  fireDue s1 s1.nobjs

def wait (s : Sched) : Nat → Sched
  | 0 => s
  | dt + 1 => wait (msStep s) dt

/-- the operations of the differential suites -/
inductive Op where
  | ev (e : Ev)          -- reg / regCron / unreg / clear / close
  | wait (dt : Nat)
  deriving Repr

def exec (s : Sched) : Op → Sched × Out
  | .ev e => step s e
  | .wait dt => (wait s dt, .ok)

def execAll (s : Sched) : List Op → Sched
  | [] => s
  | op :: ops => execAll (exec s op).1 ops

/-- names currently in the table, ascending by object index (`GetRegisteredTasks`, up to order) -/
def registered (s : Sched) : List Nat :=
  ((List.range s.nobjs).filter (inTable s)).map (fun i => (s.objs i).name)

def counts (s : Sched) : List Nat := (List.range s.nobjs).map (fired s)

end MV.Model.Scheduler
