import MV.Model.Backoff
/-!
# Model of `toolkit/retry.go`

The retried operation `f` is a *script*: the list of its outcomes in invocation order
(`none` = returned `nil`, `some e` = returned the error `e`); once the script is exhausted the
operation succeeds (this is what the harness' scripted operation does, and it makes every loop of
the file terminate).  An error value is the list of identities on its `errors.Unwrap` chain, own
identity first; `errors.Is(err, target)` for a sentinel `target` is membership of its identity.

Every function returns a `Run`: how often `f` was invoked, how often the interruption condition /
the rule was consulted, the arguments passed to `time.Sleep` in order, and the returned error.

Loops are transcribed as recursion on a fuel argument with the loop variable explicit; the fuel
given by the entry points is never exhausted (proved in `MV.Lemmas.Retry`).

Core Lean only.
-/
namespace MV.Model.Retry
open MV.Model.Backoff

abbrev Err := List Nat
abbrev Outcome := Option Err

/-- the returned `error` -/
inductive Res where
  | nil                      -- `nil`
  | err (e : Err)            -- the operation's error, unchanged
  | maxRetries (e : Err)     -- `fmt.Errorf("max retries reached: %w", err)`
  | interrupted              -- `fmt.Errorf("interrupted")`
  deriving DecidableEq, Repr

structure Run where
  calls : Nat          -- invocations of `f`
  aux : Nat            -- invocations of `cond` / `rule`
  sleeps : List Int    -- arguments of `time.Sleep`, oldest first
  res : Res
  deriving DecidableEq, Repr

/-- outcome of the `k`-th invocation (0-based) -/
def outcomeAt (script : List Outcome) (k : Nat) : Outcome := script.getD k none

/-- `errors.Is(err, ignore)` for some `ignore` of the list -/
def ignored (ignore : List Nat) (e : Err) : Bool := ignore.any (fun g => e.contains g)

/-! ### `Retry(count, interval, f)` (and `RetryAsync`, which runs the same loop in a goroutine and
hands the result to the callback) -/

/-- loop `for i := 0; i < count; i++`; `fuel = count - i`, `last` = the variable `err` -/
def retryLoop (script : List Outcome) (interval : Int) : Nat → Nat → List Int → Res → Run
  | 0, i, sl, last => ⟨i, 0, sl, last⟩
  | n + 1, i, sl, _ =>
    match outcomeAt script i with
    | none => ⟨i + 1, 0, sl, .nil⟩
    | some e => retryLoop script interval n (i + 1) (sl ++ [interval]) (.err e)

def retry (count : Int) (interval : Int) (script : List Outcome) : Run :=
  retryLoop script interval count.toNat 0 [] .nil

/-! ### `RetryByRule(f, rule)`; `rule` is the list of its answers for count = 1, 2, … (exhausted ⇒ 0) -/

def ruleLoop (script : List Outcome) (rule : List Int) : Nat → Nat → List Int → Run
  | 0, c, sl => ⟨c, c, sl, .nil⟩
  | n + 1, c, sl =>
    match outcomeAt script c with
    | none => ⟨c + 1, c, sl, .nil⟩
    | some e =>
      let next := rule.getD c 0          -- `rule(count)` after `count++`, i.e. argument `c + 1`
      if next ≤ 0 then ⟨c + 1, c + 1, sl, .err e⟩
      else ruleLoop script rule n (c + 1) (sl ++ [next])

def retryByRule (script : List Outcome) (rule : List Int) : Run :=
  ruleLoop script rule (script.length + 1) 0 []

/-! ### `RetryForever(interval, f)` -/

def foreverLoop (script : List Outcome) (interval : Int) : Nat → Nat → List Int → Run
  | 0, i, sl => ⟨i, 0, sl, .nil⟩
  | n + 1, i, sl =>
    match outcomeAt script i with
    | none => ⟨i + 1, 0, sl, .nil⟩
    | some _ => foreverLoop script interval n (i + 1) (sl ++ [interval])

def retryForever (interval : Int) (script : List Outcome) : Run :=
  foreverLoop script interval (script.length + 1) 0 []

/-! ### `ConditionalRetryByExponentialBackoff(f, cond, maxRetries, base, max, mult, rand, ignore...)`
`cond = none` is the `nil` function (what `RetryByExponentialBackoff` passes); `some l` answers
`l[k]` at its `k`-th call (exhausted ⇒ `true`).  `delayOf retry` is the inlined back-off delay. -/

def condAt (cond : Option (List Bool)) (k : Nat) : Bool :=
  match cond with
  | none => true
  | some l => l.getD k true

def condCalls (cond : Option (List Bool)) (k : Nat) : Nat :=
  match cond with
  | none => 0
  | some _ => k

def condLoop (script : List Outcome) (cond : Option (List Bool)) (ignore : List Nat) (maxRetries : Int)
    (delayOf : Nat → Int) : Nat → Nat → List Int → Run
  | 0, r, sl => ⟨r, condCalls cond r, sl, .nil⟩
  | n + 1, r, sl =>
    if condAt cond r = false then ⟨r, condCalls cond (r + 1), sl, .interrupted⟩
    else
      match outcomeAt script r with
      | none => ⟨r + 1, condCalls cond (r + 1), sl, .nil⟩
      | some e =>
        if ignored ignore e then ⟨r + 1, condCalls cond (r + 1), sl, .err e⟩
        else if (r : Int) ≥ maxRetries then ⟨r + 1, condCalls cond (r + 1), sl, .maxRetries e⟩
        else condLoop script cond ignore maxRetries delayOf n (r + 1) (sl ++ [delayOf r])

/-- the delay slept after the failed attempt number `retry`; `draw retry` is that iteration's
    `rand.Float64()` -/
def delayOf (base max : Int) (mn md rn rd : Nat) (draw : Nat → FVal) (retry : Nat) : Int :=
  Backoff.delay retry base max mn md rn rd (draw retry)

def condRetry (script : List Outcome) (cond : Option (List Bool)) (ignore : List Nat) (maxRetries : Int)
    (base max : Int) (mn md rn rd : Nat) (draw : Nat → FVal) : Run :=
  condLoop script cond ignore maxRetries (delayOf base max mn md rn rd draw) (script.length + 1) 0 []

end MV.Model.Retry
