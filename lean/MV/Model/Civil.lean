/-!
# Civil calendar and Go's `time` package for fixed-offset zones (model)

Instants are `Int` **nanoseconds** since 1970-01-01T00:00:00Z (Go's `Time` without the monotonic
clock reading); a zone is a fixed offset in **seconds** east of UTC (`time.FixedZone`, `time.UTC`).
Day numbers are days since 1970-01-01 (proleptic Gregorian calendar).

`daysFromCivil` / `civilFromDays` are Howard Hinnant's algorithms; they play the role of the civil
calendar *and* of Go's `Time.Date()`/`time.Date` (the differential suite `civil` compares them with
the real `time` package on every day of a 400-year cycle).  `MV.Props.C19` proves that they are
inverse to each other, 146097-day periodic and obey the elementary calendar recurrences
(month lengths, leap-year rule), which is what "the civil calendar" means.

All divisions are by positive literals; Lean's `Int./`/`%` are Euclidean there (floor / non-negative
remainder), which is what the algorithms need.
-/
namespace MV.Model.Civil

def nsPerSec : Int := 1000000000
def secPerDay : Int := 86400
def nsPerDay : Int := 86400000000000
def nsPerWeek : Int := 604800000000000

/-- Gregorian leap-year rule -/
def isLeap (y : Int) : Bool := (y % 4 == 0 && y % 100 != 0) || y % 400 == 0

/-- length of month `m` (1..12) of year `y`; 0 for an invalid month -/
def daysInMonth (y m : Int) : Int :=
  if m == 2 then (if isLeap y then 29 else 28)
  else if m == 4 || m == 6 || m == 9 || m == 11 then 30
  else if 1 ≤ m && m ≤ 12 then 31 else 0

/-- `y-m-d` is a date of the proleptic Gregorian calendar -/
def validDate (y m d : Int) : Bool := 1 ≤ m && m ≤ 12 && 1 ≤ d && d ≤ daysInMonth y m

/-- days since 1970-01-01 of `y-m-d` (`m` in 1..12; linear in `d`, so day overflow/underflow
    normalises the way Go's `time.Date` does) -/
def daysFromCivil (y m d : Int) : Int :=
  let y' := if m ≤ 2 then y - 1 else y
  let era := y' / 400
  let yoe := y' - era * 400
  let mp := if m > 2 then m - 3 else m + 9
  let doy := (153 * mp + 2) / 5 + d - 1
  let doe := yoe * 365 + yoe / 4 - yoe / 100 + doy
  era * 146097 + doe - 719468

/-- year of the March-based era day `doe` (0..146096) -/
def yoeOfDoe (doe : Int) : Int := (doe - doe / 1460 + doe / 36524 - doe / 146096) / 365

/-- `(year, month, day)` of day number `z` -/
def civilFromDays (z : Int) : Int × Int × Int :=
  let z' := z + 719468
  let era := z' / 146097
  let doe := z' - era * 146097
  let yoe := yoeOfDoe doe
  let doy := doe - (365 * yoe + yoe / 4 - yoe / 100)
  let mp := (5 * doy + 2) / 153
  let d := doy - (153 * mp + 2) / 5 + 1
  let m := if mp < 10 then mp + 3 else mp - 9
  let y := yoe + era * 400
  (if m ≤ 2 then y + 1 else y, m, d)

/-- Go `Weekday` (0 = Sunday … 6 = Saturday) of day number `z`; 1970-01-01 was a Thursday -/
def weekdayOfDays (z : Int) : Int := (z + 4) % 7

/-! ## Go `Time` accessors in a fixed-offset zone -/

/-- wall-clock nanoseconds: what the zone's clock shows, as if it were UTC -/
def localNs (off t : Int) : Int := t + off * nsPerSec

/-- local day number of instant `t` -/
def localDays (off t : Int) : Int := localNs off t / nsPerDay

/-- nanoseconds since local midnight, `0 ≤ · < nsPerDay` -/
def nsOfDay (off t : Int) : Int := localNs off t % nsPerDay

def year (off t : Int) : Int := (civilFromDays (localDays off t)).1
def month (off t : Int) : Int := (civilFromDays (localDays off t)).2.1
def day (off t : Int) : Int := (civilFromDays (localDays off t)).2.2
def hour (off t : Int) : Int := nsOfDay off t / 3600000000000
def minute (off t : Int) : Int := nsOfDay off t / 60000000000 % 60
def second (off t : Int) : Int := nsOfDay off t / 1000000000 % 60
def nanosecond (off t : Int) : Int := nsOfDay off t % 1000000000
def weekday (off t : Int) : Int := weekdayOfDays (localDays off t)
/-- `t.Unix()` -/
def unix (t : Int) : Int := t / nsPerSec

/-- Go `time.Date(y, mo, d, h, mi, s, ns, loc)` for a fixed-offset `loc`: the month is normalised
    into 1..12 carrying into the year; day, hour, minute, second and nanosecond overflow simply add
    (Go normalises them one after the other and then forms the same linear combination). -/
def date (off y mo d h mi s ns : Int) : Int :=
  let m0 := mo - 1
  let y' := y + m0 / 12
  let m' := m0 % 12 + 1
  ((daysFromCivil y' m' d * secPerDay + h * 3600 + mi * 60 + s) - off) * nsPerSec + ns

/-- Go `t.AddDate(years, months, days)` in a fixed-offset zone -/
def addDate (off t years months days : Int) : Int :=
  date off (year off t + years) (month off t + months) (day off t + days)
    (hour off t) (minute off t) (second off t) (nanosecond off t)

/-- Go `t.Add(d)` -/
def add (t d : Int) : Int := t + d

/-- nanoseconds between Go's zero `Time` (0001-01-01T00:00:00Z) and the Unix epoch -/
def unixToInternalNs : Int := 62135596800000000000

/-- Go `t.Truncate(d)`: round down to a multiple of `d` since the zero time; `d ≤ 0` returns `t` -/
def truncate (t d : Int) : Int :=
  if d ≤ 0 then t else t - (t + unixToInternalNs) % d

end MV.Model.Civil
