/-!
# Source facts the actor part of C08 rests on (T-facts)

`engine/vivid/actor_context.go`: every timer registration of an actor hands the scheduler a function
that does nothing but *post* `onSchedulerFunc(func() { function(ctx) })` to the actor's own mailbox as a
system message (`post`); `processMessage` runs it (`m()`) as the turn for that message.  Hence a
callback is a turn of the owner and inherits C01 (turns of one actor never overlap).  These strings
are the whitespace-normalised bodies the model `MV.Model.ActorTimers` was transcribed from; the
harness regenerates them from /repo on every run (suite `timer-facts`).

Core Lean only.
-/
namespace MV.Model.TimerFacts

/-- what the function handed to the scheduler does -/
def post : String :=
  "func() { ctx.deliverySystemMessage(ctx.ref, ctx.ref, ctx.ref, nil, onSchedulerFunc(func() { function(ctx) })) }"

def table : List (String × String) := [
  ("CronTask", "{ ctx.initScheduler() return ctx.scheduler.RegisterCronTask(name, expression, " ++ post ++ ") }"),
  ("ImmediateCronTask", "{ ctx.initScheduler() return ctx.scheduler.RegisterImmediateCronTask(name, expression, " ++ post ++ ") }"),
  ("AfterTask", "{ ctx.initScheduler() ctx.scheduler.RegisterAfterTask(name, after, " ++ post ++ ") }"),
  ("RepeatedTask", "{ ctx.initScheduler() ctx.scheduler.RegisterRepeatedTask(name, after, interval, times, " ++ post ++ ") }"),
  ("DayMomentTask", "{ ctx.initScheduler() ctx.scheduler.RegisterDayMomentTask(name, lastExecuted, offset, hour, min, sec, " ++ post ++ ") }"),
  ("StopTask", "{ if ctx.scheduler == nil { return } ctx.scheduler.UnregisterTask(name) }"),
  ("initScheduler", "{ ctx.schedulerInitializer.Do(func() { ctx.scheduler = chrono.NewScheduler(chrono.DefaultSchedulerTick, chrono.DefaultSchedulerWheelSize) }) }"),
  ("refreshIdleDeadline", "{ if ctx.idleDeadline <= 0 { return } if reset { ctx.StopTask(\":idle:\") } else { ctx.AfterTask(\":idle:\", ctx.idleDeadline, func(ctx ActorContext) { ctx.Terminate(ctx.Ref(), true) }) } }"),
  ("setExpireDuration", "{ if ctx.expireTime.IsZero() { return } ctx.AfterTask(\":expire:\", ctx.expireTime.Sub(time.Now()), func(ctx ActorContext) { ctx.Terminate(ctx.Ref(), true) }) }")
]

/-- `toolkit/chrono/scheduler.go`: how the public registration calls map to
    `task(name, after, interval, expr, times, function, args...)` — the mapping the oracle suites use
    (`after n d` = `reg n d tick 1`, `repeat` = `reg`, `cron` = `regCron`; a day-moment task is a
    forever task with a 24 h interval, preceded by a synchronous call when the last execution is
    more than a day old). -/
def chronoTable : List (String × String) := [
  ("RegisterAfterTask", "{ s.task(name, after, s.tick, nil, 1, function, args...) }"),
  ("RegisterRepeatedTask", "{ s.task(name, after, interval, nil, times, function, args...) }"),
  ("RegisterCronTask", "{ expr, err := cronexpr.Parse(expression) if err != nil { return err } s.task(name, 0, 0, expr, 0, function, args...) return nil }"),
  ("Close", "{ s.lock.Lock() defer s.lock.Unlock() for name, task := range s.tasks { task.close() delete(s.tasks, name) } if s.closed { return } s.closed = true go s.wheel.Stop() }"),
  ("RegisterDayMomentTask", "{ now := time.Now().Add(offset) if lastExecuted.Before(now) && now.Sub(lastExecuted) > Day { s.call(name, function, args...) } moment := GetNextMoment(now, hour, min, sec) s.RegisterRepeatedTask(name, moment.Sub(now), time.Hour*24, SchedulerForever, function, args...) }")
]

/-- `schedulerTask.close` (`toolkit/chrono/scheduler_task.go`), as `MV.Model.Scheduler.Task.close` transcribes it -/
def taskClose : String :=
  "{ t.lock.Lock() defer t.lock.Unlock() if t.kill { return } t.kill = true if t.timer != nil && (t.total <= 0 || t.trigger < t.total) { t.timer.Stop() } }"

/-- `schedulerTask.Next`: first the wait until `prev` (the expiration of the timer run that is starting;
    `MV.Model.Scheduler.runTimer`'s guard `e ≤ now`), then `Task.next` / `Task.bump` -/
def taskNext : String :=
  "{ if early := time.Until(prev); early > 0 { time.Sleep(early) } t.lock.Lock() defer t.lock.Unlock() if t.kill || (t.total > 0 && t.trigger >= t.total) { if t.expr == nil { return time.Time{} } } if t.expr != nil { next := t.expr.Next(prev) return next } if t.trigger == 0 { t.trigger++ return prev.Add(t.after) } t.trigger++ return prev.Add(t.interval) }"

/-- `schedulerTask.caller`, as `MV.Model.Scheduler.caller` transcribes it -/
def taskCaller : String :=
  "{ t.lock.RLock() if t.kill && !t.separate { t.lock.RUnlock() return } if t.total > 0 && t.trigger > t.total { t.lock.RUnlock() t.scheduler.UnregisterTask(t.name) } else { t.lock.RUnlock() } t.function.Call(t.args) }"

/-- `case onSchedulerFunc:` of `processMessage` -/
def schedulerFuncCase : String := "m()"

end MV.Model.TimerFacts
