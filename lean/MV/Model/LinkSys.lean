import MV.Model.Link
/-!
# Two nodes joined by one link — the executable system the `link` T-diff suite compares with two real
`prc.Shared` over an in-memory pipe (the real `packMessage`, codec, `streaming` loop,
`onDeliveryMessage`, `GetProcess` incl. the per-reference cache, `detachStream`)

Every operation is run to quiescence (the sender goroutine has gone idle, the receiver loops wait
in `Recv`), so the state between operations is: registries, references with the stream they cached,
whether the network is `up`, and the open stream `cur` (attached on both nodes) if any.  Streams are
numbered by *epoch*.

A reference caches the stream process it resolved; a stream process is `IsTerminated` once its
stream has been detached, so a reference whose cached stream is not the open one resolves again
(the shipped code never reported termination: such a reference kept sending into the dead stream,
and the failing sender closed whatever stream had replaced it — repaired, see findings.d/C11.json).
-/
namespace MV.Model.LinkSys
open MV.Model.Link

inductive Pay where
  | int (n : Int)
  | str (s : String)
  | pid (p : Pid)
  deriving DecidableEq, Repr

def typeName : Body Pay → String
  | .val (.int _) => "google.protobuf.Int64Value"
  | .val (.str _) => "google.protobuf.StringValue"
  | .val (.pid _) => "prc.ProcessId"
  | .err _ => "prc.SharedErrorMessage"

/-- the oracle's codec (the encoded form is the value itself, tagged with its type name); every
lawful codec gives the same outputs -/
def codec : Codec Pay (Body Pay) where
  encode b := some (typeName b, b)
  decode n d := if typeName d == n then some d else none

theorem codec_lawful : codec.Lawful := by
  intro b n d h
  simp only [codec, Option.some.injEq, Prod.mk.injEq] at h
  obtain ⟨h1, h2⟩ := h
  subst h1; subst h2
  simp [codec]

structure Ref where
  pid : Pid
  cache : Option Nat          -- epoch of the stream process the reference cached
  deriving Repr

/-- one `Delivery{User,System}Message` call observed by a recording process -/
structure Seen where
  target : String             -- logical address of the recorder (`dead` = the notFoundSubstitute)
  system : Bool
  sender : Option Pid         -- arguments of the call
  receiver : Option Pid
  msg : Msg Pay               -- the message as passed (the link always passes a wrapper)
  deriving Repr

structure Node where
  phys : String
  reg : List String := []
  hasSub : Bool := true       -- a notFoundSubstitute (dead letters) is configured; otherwise
  redirect : Option Pid := none   -- unknownReceiverRedirect answers this reference
  refs : List (String × Ref) := []
  seen : List Seen := []
  deriving Repr

structure Sys where
  a : Node := { phys := "A" }
  b : Node := { phys := "B" }
  up : Bool := true
  cur : Option Nat := none
  nextEpoch : Nat := 0
  deriving Repr

def Sys.node (s : Sys) (i : Nat) : Node := if i == 0 then s.a else s.b
def Sys.setNode (s : Sys) (i : Nat) (n : Node) : Sys := if i == 0 then { s with a := n } else { s with b := n }

def other (i : Nat) : Nat := if i == 0 then 1 else 0

def cfg (s : Sys) (i : Nat) : NodeCfg :=
  let n := s.node i
  -- a resolver reaches the peer when a stream is attached or one can be opened
  { phys := n.phys, reg := n.reg, hasSub := n.hasSub,
    peers := if s.cur.isSome || s.up then [(s.node (other i)).phys] else [] }

def record (s : Sys) (i : Nat) (x : Seen) : Sys :=
  let n := s.node i
  s.setNode i { n with seen := n.seen ++ [x] }

/-- the stream a resolver hands out on node `i` (`streams.Load`, else `open`): the attached one, or a
new epoch when the network is up -/
def resolve (s : Sys) : Sys × Option Nat :=
  match s.cur with
  | some e => (s, some e)
  | none => if s.up then ({ s with cur := some s.nextEpoch, nextEpoch := s.nextEpoch + 1 }, some s.nextEpoch)
            else (s, none)

/-- hand a message to the local process `r` routes to (no link involved) -/
inductive Out where
  | seen (l : List (Nat × Seen))
  | panic

/-- hand a message to the local process `r` routes to (no link involved); a nil process panics -/
def deliverLocal (s : Sys) (i : Nat) (r : Route) (system : Bool) (receiver sender : Option Pid) (m : Msg Pay) :
    Sys × Out :=
  match r with
  | .proc l => let x : Seen := ⟨l, system, sender, receiver, m⟩; (record s i x, .seen [(i, x)])
  | .nothing => (s, .panic)
  | _ => let x : Seen := ⟨"dead", system, sender, receiver, m⟩; (record s i x, .seen [(i, x)])

/-- one message travelling: node `i` calls Delivery…Message(receiver, sender, nil, m) on the process
that `epoch` (a stream) stands for.  `fuel` bounds forwarding hops. -/
def transmit : Nat → Sys → Nat → Option Nat → Bool → Option Pid → Option Pid → Msg Pay →
    Sys × Out
  | 0, s, _, _, _, _, _, _ => (s, .seen [])
  | fuel + 1, s, i, epoch, system, receiver, sender, m =>
    match pack codec receiver sender m system with
    | none => (s, .panic)
    | some env =>
      if epoch ≠ s.cur || epoch.isNone then
        -- the stream is dead: Send fails and the queue is dropped (unreachable from `tellVia`, which
        -- never hands out a detached stream at quiescence)
        (s, .seen [])
      else
        let j := other i
        match unpack codec env with
        | none => (s, .panic)
        | some arr =>
          let (rcv, r) := deliverRoute (cfg s j) (s.node j).redirect arr.receiver
          let m' : Msg Pay := .wrapped arr.sender rcv arr.body
          match r with
          | .remote _ =>
            -- forwarded through node j's stream to the peer
            let (s1, e) := resolve s
            match e with
            | some e => transmit fuel s1 j (some e) arr.system rcv arr.sender m'
            | none => deliverLocal s1 j (fallback (cfg s1 j)) arr.system rcv arr.sender m'
          | r => deliverLocal s j r arr.system rcv arr.sender m'

/-- `rc.GetProcess(ref)` followed by `Delivery…Message(ref, sender, nil, m)` on node `i` -/
def tellVia (s : Sys) (i : Nat) (ref : Ref) (system : Bool) (sender : Option Pid) (m : Msg Pay) :
    Sys × Ref × Out :=
  let n := s.node i
  if ref.pid.phys == n.phys then
    -- local reference: registry lookup (the cache of local processes is C12's subject)
    let r := route (cfg s i) (some ref.pid)
    let (s1, o) := deliverLocal s i r system (some ref.pid) sender m
    (s1, ref, o)
  else if ref.pid.phys != (s.node (other i)).phys then
    let (s1, o) := deliverLocal s i (fallback (cfg s i)) system (some ref.pid) sender m
    (s1, ref, o)
  else
    -- a cached stream process is used while its stream is the open one; once detached it is
    -- `IsTerminated`, the cache is cleared and the reference resolves again
    let cached : Option Nat :=
      match ref.cache with
      | some e => if s.cur == some e then some e else none
      | none => none
    match cached with
    | some e =>
      let (s1, o) := transmit 4 s i (some e) system (some ref.pid) sender m
      (s1, ref, o)
    | none =>
      let (s1, e) := resolve s
      match e with
      | some e =>
        let (s2, o) := transmit 4 s1 i (some e) system (some ref.pid) sender m
        (s2, { ref with cache := some e }, o)
      | none =>
        -- no resolver answers: the substitute, which is not cached
        let (s2, o) := deliverLocal s1 i (fallback (cfg s1 i)) system (some ref.pid) sender m
        (s2, { ref with cache := none }, o)

end MV.Model.LinkSys
