/-!
# Model of `toolkit/buffer/unbounded.go` (`buffer.Unbounded[V]`) and of its twin
`toolkit/channels/unbounded_backlog.go` (`channels.UnboundedBacklog[V]`, the same code)

Transcription of the Go code: `c` is the channel of capacity 1 (`none` = the channel buffer is empty,
`some v` = it holds `v`), `closed` the flag (the channel is closed exactly when the flag is set:
`Close` does both under the mutex), `backlog` the slice.  `Put`, `Load`, `Close`, `IsClosed` run under
`mu`, the consumer's receive on `Get()` is one channel operation: every operation of the model is one
atomic action of the real object, so an arbitrary `List Op` is also an arbitrary interleaving of
concurrent callers.

`select { case c <- x: … default: }` on a channel of capacity 1 succeeds iff the buffer is empty
(nobody blocks in a receive in the harness; a blocked receiver would take the element at once, which
is the same as `recv` following immediately).

Core Lean only (imported by the oracle executable).
-/
namespace MV.Model

structure Unbounded where
  c : Option Int
  closed : Bool
  backlog : List Int
  deriving Repr, DecidableEq

namespace Unbounded

/-- `NewUnbounded()` -/
def new : Unbounded := { c := none, closed := false, backlog := [] }

/-- `Put(t)` -/
def put (u : Unbounded) (v : Int) : Unbounded :=
  if u.closed then u
  else
    match u.backlog, u.c with
    | [], none => { u with c := some v }                       -- `case slf.c <- t: return`
    | _, _ => { u with backlog := u.backlog ++ [v] }           -- `default:` / backlog non-empty

/-- `Load()` -/
def load (u : Unbounded) : Unbounded :=
  if u.closed then u
  else
    match u.backlog, u.c with
    | x :: xs, none => { u with c := some x, backlog := xs }   -- `case slf.c <- slf.backlog[0]`
    | _, _ => u

inductive Recv where
  | val (v : Int)   -- a value was received
  | empty           -- the receive would block
  | closed          -- `_, ok := <-c` with `ok = false`
  deriving Repr, DecidableEq

/-- a non-blocking receive on `Get()` (a closed channel still hands out what it buffers) -/
def recv (u : Unbounded) : Recv × Unbounded :=
  match u.c with
  | some v => (.val v, { u with c := none })
  | none => if u.closed then (.closed, u) else (.empty, u)

/-- `Close()` -/
def close (u : Unbounded) : Unbounded := if u.closed then u else { u with closed := true }

/-- `IsClosed()` -/
def isClosed (u : Unbounded) : Bool := u.closed

/-! ## Operation language shared by the oracle, the spec and the theorems -/

/-- `take` is the documented way of consuming: receive from `Get()`, and after a successful receive
call `Load()` ("在每次 Get 后都应该执行该函数"). `recv` is the bare receive without the `Load`. -/
inductive Op where
  | put (v : Int) | load | recv | take | close | isClosed
  deriving Repr, DecidableEq

inductive Out where
  | unit | val (v : Int) | empty | closed | bool (b : Bool)
  deriving Repr, DecidableEq

def outOfRecv : Recv → Out
  | .val v => .val v
  | .empty => .empty
  | .closed => .closed

def step (u : Unbounded) : Op → Unbounded × Out
  | .put v => (u.put v, .unit)
  | .load => (u.load, .unit)
  | .recv => let (r, u') := u.recv; (u', outOfRecv r)
  | .take =>
      match u.recv with
      | (.val v, u') => (u'.load, .val v)
      | (r, u') => (u', outOfRecv r)
  | .close => (u.close, .unit)
  | .isClosed => (u, .bool u.isClosed)

def run (u : Unbounded) : List Op → List Out
  | [] => []
  | op :: ops => let (u', o) := step u op; o :: run u' ops

/-- state after a sequence of operations -/
def exec (u : Unbounded) : List Op → Unbounded
  | [] => u
  | op :: ops => exec (step u op).1 ops

end Unbounded
end MV.Model
