import MV.Model.ECSMask
/-!
# Model of `engine/ecs` (world, entities, archetypes, column storage, queries) — property C14

Transcription of the Go code as it is after the `fix:` commits listed in `findings.d/C14.json`:

* `entities.go` — `Slots`: the paged slice of `Entity` values (a `List`; `Add` = append, `Get` =
  index, `Set` = `List.set`), the intrusive free list (`next`, `available`; a free slot's id field
  is the link), `get`, `getMany`, `recycle`, `alive`.  Generations are unbounded `Nat`
  (the `uint32` wrap after 2³² recycles of one slot is outside the model).
* `archetype.go`/`archetypes.go` — `arts` in creation order, the `masks` index (`Key()` → position),
  per-archetype `addEdges`, the root's `mutation` cache and the `mutation` walk (`walk`/`archGet`;
  the ECS calls it with `del = nil` only, so `delEdges` is write-only state and is omitted), `bind`,
  `bindMany`, `unbind`, the `entities` index (entity → archetype).
* `storage/column/storage.go` — `Store`: `primaryKeys`, `rows`, `invalids`, columns; a cell holds the
  component *value* (an `Int`; `0` = the zero value of a freshly instantiated component or a `nil`
  cell — the two are indistinguishable through the API).
* `query.go`/`result.go`/`world.go` — `Filter.eval`, `query`, `Result.Get` (`rget`), `world.Get`.

Go maps are total functions into `Option`.  The mutation cache key (`NumberJoin(add, ",") + "|"`) is
modelled by the id list itself (the string is an injective encoding of it; assumption of C14).

Core Lean only (linked into the oracle executable).
-/
namespace MV.Model.ECS
open MV.Model.ECSMask

/-- an `Entity` value: `generation<<32 | id` -/
structure Entity where
  id : Nat
  gen : Nat
  deriving DecidableEq, Repr

def upd {α β : Type} [DecidableEq α] (f : α → β) (k : α) (v : β) : α → β :=
  fun x => if x = k then v else f x

/-! ## entities.go -/

structure Slots where
  ents : List Entity
  next : Nat
  available : Nat

namespace Slots

/-- `newEntities`/`reset`: slot 0 is the reserved zero entity -/
def new : Slots := { ents := [⟨0, 0⟩], next := 0, available := 0 }

/-- `p.entities.Get(i)` -/
def slot (s : Slots) (i : Nat) : Entity := s.ents.getD i ⟨0, 0⟩

/-- `get()` -/
def get (s : Slots) : Entity × Slots :=
  if s.available = 0 then
    let e : Entity := ⟨s.ents.length, 0⟩
    (e, { s with ents := s.ents ++ [e] })
  else
    let curr := s.next
    let e : Entity := ⟨curr, (s.slot curr).gen⟩
    (e, { ents := s.ents.set curr e, next := (s.slot curr).id, available := s.available - 1 })

/-- `getMany(n)`: always fresh slots -/
def getMany (s : Slots) : Nat → List Entity × Slots
  | 0 => ([], s)
  | n + 1 =>
    let e : Entity := ⟨s.ents.length, 0⟩
    let r := getMany { s with ents := s.ents ++ [e] } n
    (e :: r.1, r.2)

/-- `recycle(e)` for `e.id ≠ 0` (id 0 panics before touching anything) -/
def recycle (s : Slots) (e : Entity) : Slots :=
  { ents := s.ents.set e.id ⟨s.next, (s.slot e.id).gen + 1⟩, next := e.id, available := s.available + 1 }

/-- `alive(e)` -/
def alive (s : Slots) (e : Entity) : Bool := e.gen == (s.slot e.id).gen

end Slots

/-! ## storage/column/storage.go -/

structure Store where
  cols : Mask
  pk : Nat → Option Nat
  rows : Nat
  invalids : List Nat
  cells : Nat → Nat → Int

inductive GetRes where
  | nil | panic | val (v : Int)
  deriving DecidableEq, Repr

namespace Store

/-- `column.New` + `SetColumn` for every bit of the mask -/
def new (cols : Mask) : Store :=
  { cols := cols, pk := fun _ => none, rows := 0, invalids := [], cells := fun _ _ => 0 }

/-- `AddRow(k)` -/
def addRow (s : Store) (k : Nat) : Store :=
  match s.invalids with
  | r :: rest => { s with invalids := rest, pk := upd s.pk k (some r) }
  | [] => { s with rows := s.rows + 1, pk := upd s.pk k (some s.rows) }

/-- `AddRows(ks)` -/
def addRows (s : Store) (ks : List Nat) : Store := ks.foldl addRow s

/-- `DelRow(k)`: the row becomes invalid and its cells are reset to `nil` -/
def delRow (s : Store) (k : Nat) : Store :=
  match s.pk k with
  | some r => { s with pk := upd s.pk k none, invalids := s.invalids ++ [r],
                       cells := fun r' c => if r' = r then 0 else s.cells r' c }
  | none => s

/-- `Get(k, col)`: `nil` for an absent key, nil-pointer panic for an absent column -/
def get (s : Store) (k c : Nat) : GetRes :=
  match s.pk k with
  | none => .nil
  | some r => if s.cols.contains c then .val (s.cells r c) else .panic

/-- a write through the pointer `Get(k, col)` returned -/
def put (s : Store) (k c : Nat) (v : Int) : Store :=
  match s.pk k with
  | none => s
  | some r => { s with cells := fun r' c' => if r' = r ∧ c' = c then v else s.cells r' c' }

end Store

/-! ## archetype.go / archetypes.go -/

structure Arch where
  mask : Mask
  members : List Entity
  store : Store
  addEdges : Mask → Option Nat

def Arch.new (mask : Mask) : Arch :=
  { mask := mask, members := [], store := Store.new mask, addEdges := fun _ => none }

structure World where
  ncomp : Nat
  slots : Slots
  arts : List Arch
  masks : Mask → Option Nat
  cache : List Nat → Option Nat
  index : Entity → Option Nat

namespace World

/-- `NewWorld()`: only the root archetype (empty mask) exists -/
def new : World :=
  { ncomp := 0, slots := Slots.new, arts := [Arch.new []], masks := upd (fun _ => none) [] (some 0),
    cache := fun _ => none, index := fun _ => none }

def art (w : World) (i : Nat) : Arch := w.arts.getD i (Arch.new [])

def setArt (w : World) (i : Nat) (a : Arch) : World := { w with arts := w.arts.set i a }

/-- the loop over `add` of `mutation`: `curr` is the position of the current archetype, `mask` the
mask built so far -/
def walk (w : World) (curr : Nat) (mask : Mask) : List Nat → World × Nat
  | [] => (w, curr)
  | id :: rest =>
    let mask' := setBit mask id
    match (w.art curr).addEdges mask' with
    | some next => walk w next mask' rest
    | none =>
      match w.masks mask' with
      | none =>
        -- noneLockCreateArchetype(mask.Copy(), curr, …): position = guid = len(arts); prev gets the edge
        let next := w.arts.length
        let c := w.art curr
        let w' : World := { w with
          arts := w.arts.set curr { c with addEdges := upd c.addEdges mask' (some next) } ++ [Arch.new mask'],
          masks := upd w.masks mask' (some next) }
        walk w' next mask' rest
      | some next =>
        let c := w.art curr
        walk (w.setArt curr { c with addEdges := upd c.addEdges mask' (some next) }) next mask' rest

/-- `archetypes.get(ids...)` = `root.mutation(ids, nil, …)` with its cache -/
def archGet (w : World) (ids : List Nat) : World × Nat :=
  match w.cache ids with
  | some i => (w, i)
  | none =>
    let r := walk w 0 (w.art 0).mask ids
    ({ r.1 with cache := upd r.1.cache ids (some r.2) }, r.2)

/-- `archetype.bind(e)` -/
def bind (w : World) (a : Nat) (e : Entity) : World :=
  let A := w.art a
  { w with arts := w.arts.set a { A with store := A.store.addRow e.id, members := A.members ++ [e] },
           index := upd w.index e (some a) }

/-- `archetype.bindMany(es)` -/
def bindMany (w : World) (a : Nat) (es : List Entity) : World :=
  let A := w.art a
  { w with arts := w.arts.set a { A with store := A.store.addRows (es.map (·.id)), members := A.members ++ es },
           index := es.foldl (fun f e => upd f e (some a)) w.index }

/-- `archetypes.unbind(e)`: drop the index entry, the storage row and the member-list entry -/
def unbind (w : World) (e : Entity) : World :=
  match w.index e with
  | none => w
  | some a =>
    let A := w.art a
    { w with arts := w.arts.set a { A with store := A.store.delRow e.id, members := A.members.erase e },
             index := upd w.index e none }

/-- `RegComponent` of a new type -/
def reg (w : World) : World × Nat := ({ w with ncomp := w.ncomp + 1 }, w.ncomp + 1)

/-- `Spawn(ids...)` -/
def spawn (w : World) (ids : List Nat) : World × Entity :=
  let r := archGet w ids
  let g := r.1.slots.get
  (bind { r.1 with slots := g.2 } r.2 g.1, g.1)

/-- `Spawns(n, ids...)` -/
def spawnN (w : World) (n : Nat) (ids : List Nat) : World × List Entity :=
  let r := archGet w ids
  let g := r.1.slots.getMany n
  (bindMany { r.1 with slots := g.2 } r.2 g.1, g.1)

/-- `Alive(e)` -/
def alive (w : World) (e : Entity) : Bool := w.slots.alive e

/-- `Annihilate(e)`; the flag is "panicked" (recycling the reserved zero entity) -/
def annihilate (w : World) (e : Entity) : World × Bool :=
  if !w.slots.alive e then (w, false)
  else if e.id = 0 then (w, true)
  else (unbind { w with slots := w.slots.recycle e } e, false)

/-- `Annihilates(es)` -/
def annihilates (w : World) : List Entity → World × Bool
  | [] => (w, false)
  | e :: es =>
    let r := annihilate w e
    if r.2 then r else annihilates r.1 es

/-- `world.Get(e, c)` -/
def get (w : World) (e : Entity) (c : Nat) : GetRes :=
  if !w.slots.alive e then .nil
  else match w.index e with
    | none => .nil
    | some a => if !isSet (w.art a).mask c then .nil else (w.art a).store.get e.id c

/-- `Result.Get(e, c)` / `ResultIterator.Get(c)`: a missing index entry is a nil-pointer panic -/
def rget (w : World) (e : Entity) (c : Nat) : GetRes :=
  match w.index e with
  | none => .panic
  | some a => (w.art a).store.get e.id c

/-- the effect of writing `v` through a pointer obtained for `(e, c)` -/
def put (w : World) (e : Entity) (c : Nat) (v : Int) : World :=
  match w.index e with
  | none => w
  | some a => let A := w.art a; w.setArt a { A with store := A.store.put e.id c v }

end World

/-! ## query.go -/

inductive Filter where
  | and (l : List Filter)
  | or (l : List Filter)
  | isIn (ids : List Nat)
  | notIn (ids : List Nat)
  | eq (ids : List Nat)
  deriving Repr

mutual
/-- `Query.Evaluate(mask)` -/
def Filter.eval (m : Mask) : Filter → Bool
  | .and l => evalAll m l
  | .or l => evalAny m l
  | .isIn ids => isIn m (setAll [] ids)
  | .notIn ids => notIn m (setAll [] ids)
  | .eq ids => equal (setAll [] ids) m
def evalAll (m : Mask) : List Filter → Bool
  | [] => true
  | f :: fs => Filter.eval m f && evalAll m fs
def evalAny (m : Mask) : List Filter → Bool
  | [] => false
  | f :: fs => Filter.eval m f || evalAny m fs
end

namespace World

/-- `Query(f)`: the archetypes whose mask satisfies the filter, in creation order -/
def matched (w : World) (f : Filter) : List Arch := w.arts.filter (fun A => f.eval A.mask)

/-- `Result.Entities()` after `expansion()` -/
def query (w : World) (f : Filter) : List Entity := (w.matched f).flatMap (·.members)

/-- `Result.Count()` -/
def queryCount (w : World) (f : Filter) : Nat := ((w.matched f).map (·.members.length)).sum

end World

/-! ## the operation language of the harness

Handles are named by creation index (`hs`): name `i` is the `i`-th entity ever returned by
`Spawn`/`Spawns`. -/

structure St where
  w : World
  hs : List Entity

def St.new : St := { w := World.new, hs := [] }

def St.h (s : St) (i : Nat) : Entity := s.hs.getD i ⟨0, 0⟩

inductive Op where
  | reg
  | rereg (k : Nat)
  | spawn (ids : List Nat)
  | spawnN (n : Nat) (ids : List Nat)
  | kill (h : Nat)
  | killN (hs : List Nat)
  | alive (h : Nat)
  | read (h c : Nat)
  | write (h c : Nat) (v : Int)
  | rread (h c : Nat)
  | rwrite (h c : Nat) (v : Int)
  | query (f : Filter)
  | qiter (c : Nat) (f : Filter)
  | alive0
  | kill0
  deriving Repr

inductive Out where
  | ok | badOp | nil | panic | any
  | nat (n : Nat)
  | bool (b : Bool)
  | val (v : Int)
  | ent (e : Entity)
  | ents (l : List Entity)
  | qres (count : Nat) (names : List Nat)
  | iter (l : List (Nat × Option Int))
  deriving DecidableEq, Repr

def GetRes.out : GetRes → Out
  | .nil => .nil
  | .panic => .panic
  | .val v => .val v

/-- names (ascending, with multiplicity) of the entities of a result list -/
def names (hs : List Entity) (es : List Entity) : List Nat :=
  (List.range hs.length).flatMap (fun i => List.replicate (es.count (hs.getD i ⟨0, 0⟩)) i)

def validIds (ncomp : Nat) (ids : List Nat) : Bool := ids.all (fun c => 1 ≤ c && c ≤ ncomp)

def optVal : GetRes → Option Int
  | .val v => some v
  | _ => none

def step (s : St) : Op → St × Out
  | .reg => let r := s.w.reg; ({ s with w := r.1 }, .nat r.2)
  | .rereg k => if 1 ≤ k ∧ k ≤ s.w.ncomp then (s, .nat k) else (s, .badOp)
  | .spawn ids =>
    if validIds s.w.ncomp ids then
      let r := s.w.spawn ids
      ({ w := r.1, hs := s.hs ++ [r.2] }, .ent r.2)
    else (s, .badOp)
  | .spawnN n ids =>
    if validIds s.w.ncomp ids then
      let r := s.w.spawnN n ids
      ({ w := r.1, hs := s.hs ++ r.2 }, .ents r.2)
    else (s, .badOp)
  | .kill h =>
    if h < s.hs.length then
      let r := s.w.annihilate (s.h h)
      ({ s with w := r.1 }, if r.2 then .panic else .ok)
    else (s, .badOp)
  | .killN l =>
    if l.all (· < s.hs.length) then
      let r := s.w.annihilates (l.map s.h)
      ({ s with w := r.1 }, if r.2 then .panic else .ok)
    else (s, .badOp)
  | .alive h => if h < s.hs.length then (s, .bool (s.w.alive (s.h h))) else (s, .badOp)
  | .read h c => if h < s.hs.length then (s, (s.w.get (s.h h) c).out) else (s, .badOp)
  | .write h c v =>
    if h < s.hs.length then
      match s.w.get (s.h h) c with
      | .val _ => ({ s with w := s.w.put (s.h h) c v }, .ok)
      | r => (s, r.out)
    else (s, .badOp)
  | .rread h c => if h < s.hs.length then (s, (s.w.rget (s.h h) c).out) else (s, .badOp)
  | .rwrite h c v =>
    if h < s.hs.length then
      match s.w.rget (s.h h) c with
      | .val _ => ({ s with w := s.w.put (s.h h) c v }, .ok)
      | r => (s, r.out)
    else (s, .badOp)
  | .query f => (s, .qres (s.w.queryCount f) (names s.hs (s.w.query f)))
  | .qiter c f =>
    let es := s.w.query f
    if es.any (fun e => s.w.rget e c == .panic) then (s, .panic)
    else (s, .iter ((names s.hs es).map (fun i => (i, optVal (s.w.rget (s.h i) c)))))
  | .alive0 => (s, .bool (s.w.alive ⟨0, 0⟩))
  | .kill0 => let r := s.w.annihilate ⟨0, 0⟩; ({ s with w := r.1 }, if r.2 then .panic else .ok)

def run (s : St) : List Op → List Out
  | [] => []
  | op :: ops => (step s op).2 :: run (step s op).1 ops

/-- the state after a history -/
def exec (s : St) (ops : List Op) : St := ops.foldl (fun s op => (step s op).1) s

end MV.Model.ECS
