import MV.Model.C16Common
/-!
# Model of `toolkit/collection/listings/paged_slice.go` (`listings.PagedSlice[int]`)

`pages [][]T` is the number of pages `np` plus one flat cell function: cell `e` of page `p` is
`buf (p * ps + e)` (every page has exactly `ps = pageSize` cells).  The index arithmetic of the Go
code (`index / pageSize`, `index % pageSize`, the page count of `Grow`, the page drop of `Del`) is
transcribed as written; an access outside the allocated pages or with a negative index is the Go
panic.  A freshly appended page is zeroed (`make([]T, pageSize)`); `Del` re-slices `pages` and (since the
`fix:` commit) zeroes the vacated last cell.

Guard: `pageSize ≥ 1` (0 divides by zero, a negative size makes `make` panic).

Core Lean only.
-/
namespace MV.Model

structure Paged where
  ps : Nat
  np : Nat
  buf : Nat → Int
  len : Nat
  lenLast : Nat

namespace Paged

def new (ps : Nat) : Paged := { ps := ps, np := 0, buf := fun _ => 0, len := 0, lenLast := 0 }

def upd (f : Nat → Int) (k : Nat) (v : Int) : Nat → Int := fun i => if i = k then v else f i

/-- `for len(s.pages) < totalPages { s.pages = append(s.pages, make([]T, s.pageSize)) }` -/
def growPages (s : Paged) (totalPages : Nat) : Paged :=
  if s.np < totalPages then
    { s with np := totalPages,
             buf := fun i => if s.np * s.ps ≤ i ∧ i < totalPages * s.ps then 0 else s.buf i }
  else s

/-- `s.pages[index/pageSize][index%pageSize] = v`; `none` = index panic -/
def write (s : Paged) (index : Int) (v : Int) : Option Paged :=
  if index < 0 then none
  else
    let pageIndex := index.toNat / s.ps
    let elementIndex := index.toNat % s.ps
    if pageIndex < s.np then some { s with buf := upd s.buf (pageIndex * s.ps + elementIndex) v } else none

/-- `s.pages[index/pageSize][index%pageSize]`; `none` = index panic -/
def read (s : Paged) (index : Int) : Option Int :=
  if index < 0 then none
  else
    let pageIndex := index.toNat / s.ps
    let elementIndex := index.toNat % s.ps
    if pageIndex < s.np then some (s.buf (pageIndex * s.ps + elementIndex)) else none

/-- the `if maxIndex >= s.len { … }` block shared by `Grow`, `GrowSet`, `BatchGrowSet` -/
def growTo (s : Paged) (maxIndex : Int) : Paged :=
  if maxIndex ≥ s.len then
    let m := maxIndex.toNat
    let s1 := growPages s (m / s.ps + 1)
    { s1 with len := m + 1, lenLast := m % s.ps + 1 }
  else s

/-- `maxIndex := indexes[0]; for … if index > maxIndex …` -/
def maxIdx : List Int → Int
  | [] => 0
  | i :: is => is.foldl (fun m x => if x > m then x else m) i

/-- `Grow(indexes)` -/
def grow (s : Paged) (indexes : List Int) : Paged :=
  if indexes.isEmpty then s else growTo s (maxIdx indexes)

/-- `GrowSet(index, value)` -/
def growSet (s : Paged) (index v : Int) : Option Paged := (growTo s index).write index v

/-- the write loop of `BatchSet`/`BatchGrowSet`: stops (panics) at the first bad index, earlier
writes stay -/
def writeAll (s : Paged) : List Int → List Int → Paged × Bool
  | i :: is, v :: vs => match s.write i v with
      | some s' => writeAll s' is vs
      | none => (s, false)
  | _, _ => (s, true)

/-- `BatchGrowSet(indexes, values)`; `none` = the length-mismatch panic -/
def batchGrowSet (s : Paged) (indexes values : List Int) : Option (Paged × Bool) :=
  if indexes.length ≠ values.length then none
  else if indexes.isEmpty then some (s, true)
  else some (writeAll (growTo s (maxIdx indexes)) indexes values)

/-- the loop of `BatchSet` (since the `fix:` commit): indexes outside `0..len-1` are skipped, as in `Set` -/
def setAll (s : Paged) : List Int → List Int → Option Paged
  | i :: is, v :: vs =>
    if i < 0 ∨ i ≥ s.len then setAll s is vs
    else match s.write i v with
      | some s' => setAll s' is vs
      | none => none
  | _, _ => some s

/-- `BatchSet(indexes, values)`; `none` = the length-mismatch panic, `(s, false)` = an index panic -/
def batchSet (s : Paged) (indexes values : List Int) : Option (Paged × Bool) :=
  if indexes.length ≠ values.length then none
  else if indexes.isEmpty then some (s, true)
  else match setAll s indexes values with
    | some s' => some (s', true)
    | none => some (s, false)

/-- `Add(value)` -/
def add (s : Paged) (v : Int) : Option Paged :=
  let s1 := if s.np = 0 ∨ s.lenLast = s.ps then { growPages s (s.np + 1) with lenLast := 0 } else s
  -- `s.pages[len(s.pages)-1][s.lenLast] = value`
  if s1.np = 0 ∨ s1.lenLast ≥ s1.ps then none
  else some { s1 with buf := upd s1.buf ((s1.np - 1) * s1.ps + s1.lenLast) v,
                      len := s1.len + 1, lenLast := s1.lenLast + 1 }

/-- `Del(index)` (swap with the last element) -/
def del (s : Paged) (index : Int) : Option Paged :=
  if index < 0 ∨ index ≥ s.len then some s
  else
    let lastIndex : Int := (s.len : Int) - 1
    match s.read lastIndex with
    | none => none
    | some lastV =>
      match s.write index lastV with
      | none => none
      | some s1 =>
        -- `var zero T; s.pages[lastIndex/ps][lastIndex%ps] = zero` (the `fix:` commit)
        match s1.write lastIndex 0 with
        | none => none
        | some s2 =>
          let len' := s.len - 1
          if len' % s.ps = 0 ∧ s.np > 1 then some { s2 with len := len', np := s.np - 1, lenLast := s.ps }
          else some { s2 with len := len', lenLast := len' % s.ps }

/-- `Get(index)` (no bounds check against `len` in the Go code) -/
def get (s : Paged) (index : Int) : Option Int := s.read index

/-- `Set(index, value)` -/
def set (s : Paged) (index v : Int) : Option Paged :=
  if index < 0 ∨ index ≥ s.len then some s else s.write index v

/-- abstraction: the logical contents -/
def abs (s : Paged) : List Int := (List.range s.len).map s.buf

inductive Op where
  | add (v : Int) | del (i : Int) | get (i : Int) | set (i v : Int) | len
  | grow (is : List Int) | growSet (i v : Int)
  | batchGrowSet (is vs : List Int) | batchSet (is vs : List Int) | dump
  deriving DecidableEq, Repr

def step (s : Paged) : Op → Paged × Out
  | .add v => match s.add v with
      | some s' => (s', .unit)
      | none => (s, .panic)
  | .del i => match s.del i with
      | some s' => (s', .unit)
      | none => (s, .panic)
  | .get i => match s.get i with
      | some v => (s, .int v)
      | none => (s, .panic)
  | .set i v => match s.set i v with
      | some s' => (s', .unit)
      | none => (s, .panic)
  | .len => (s, .int s.len)
  | .grow is => (s.grow is, .unit)
  | .growSet i v => match s.growSet i v with
      | some s' => (s', .unit)
      | none => (s.growTo i, .panic)
  | .batchGrowSet is vs => match s.batchGrowSet is vs with
      | some (s', true) => (s', .unit)
      | some (s', false) => (s', .panic)
      | none => (s, .panic)
  | .batchSet is vs => match s.batchSet is vs with
      | some (s', true) => (s', .unit)
      | some (s', false) => (s', .panic)
      | none => (s, .panic)
  | .dump => (s, .ints ((List.range s.len).map (fun (i : Nat) => (s.get (Int.ofNat i)).getD (-999))))

def run (s : Paged) : List Op → List Out
  | [] => []
  | op :: ops => let (s', o) := step s op; o :: run s' ops

end Paged
end MV.Model
