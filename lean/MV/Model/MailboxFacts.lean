/-!
# T-facts table for the mailbox: the skeleton of shared-memory operations of each function of
`engine/vivid/mailbox/lock_free.go` (and, identically, `global_ordered_lock_free.go`) that the model
`MV.Model.Mailbox.trans` was transcribed from.  The harness regenerates these skeletons from /repo's
source with go/ast on every run (`mailbox-facts` suite) and compares them with this table, so a
re-ordered, removed or added shared-memory operation breaks the tie even if the hook lines stay put.

Correspondence to `trans` (reviewed by hand, exercised by the T-sched suite):
`DeliveryUserMessage` = uPush; uInc; cas — `DeliverySystemMessage` = sPush; sInc; cas — `Suspend` = susp —
`Resume` = res; cas — `dispatch` = cas (spawns a runner at spop on success) — `processHandle` =
spop/sdec/handler/chksusp/upop/udec loop with the recover → `ProcessAccident` path — `process` =
idle; ldSys; ldSusp; ldUsr; recas loop.
-/
namespace MV.Model.MailboxFacts

def suspendSk : String :=
  "verifhook.At(\"mb.susp\") ; atomic.StoreUint32(&m.suspended, 1)"

def resumeSk : String :=
  "verifhook.At(\"mb.res\") ; atomic.StoreUint32(&m.suspended, 0) ; m.dispatch()"

def deliveryUserMessageSk : String :=
  "verifhook.At(\"mb.upush\") ; m.queue.Push(unsafe.Pointer(&message)) ; verifhook.At(\"mb.uinc\") ; atomic.AddInt32(&m.userNum, 1) ; m.dispatch()"

def deliverySystemMessageSk : String :=
  "verifhook.At(\"mb.spush\") ; m.systemQueue.Push(unsafe.Pointer(&message)) ; verifhook.At(\"mb.sinc\") ; atomic.AddInt32(&m.sysNum, 1) ; m.dispatch()"

def dispatchSk : String :=
  "verifhook.At(\"mb.cas\") ; if atomic.CompareAndSwapUint32(&m.status, mailboxStatusIdle, mailboxStatusRunning) { ; m.dispatcher.Dispatch(m.process) ; }"

def processSk : String :=
  "for { ; m.processHandle() ; verifhook.At(\"mb.idle\") ; atomic.StoreUint32(&m.status, mailboxStatusIdle) ; verifhook.At(\"mb.recheck\") ; notEmpty := atomic.LoadInt32(&m.sysNum) > 0 || (atomic.LoadUint32(&m.suspended) == 0 && atomic.LoadInt32(&m.userNum) > 0) ; if !notEmpty { ; break ; } else { ; if !atomic.CompareAndSwapUint32(&m.status, mailboxStatusIdle, mailboxStatusRunning) { ; break ; } ; } ; }"

def processHandleSk : String :=
  "defer { ; reason := recover() ; if reason != nil { ; m.recipient.ProcessAccident(reason) ; } ; } ; for { ; verifhook.At(\"mb.spop\") ; ptr := m.systemQueue.Pop() ; if ptr != nil { ; verifhook.At(\"mb.sdec\") ; atomic.AddInt32(&m.sysNum, -1) ; m.recipient.ProcessSystemMessage(msg) ; continue ; } ; verifhook.At(\"mb.chksusp\") ; if atomic.LoadUint32(&m.suspended) == 1 { ; return ; } ; verifhook.At(\"mb.upop\") ; ptr := m.queue.Pop() ; if ptr != nil { ; verifhook.At(\"mb.udec\") ; atomic.AddInt32(&m.userNum, -1) ; m.recipient.ProcessUserMessage(msg) ; continue ; } ; break ; }"

def table : List (String × String) := [
  ("Suspend", suspendSk),
  ("Resume", resumeSk),
  ("DeliveryUserMessage", deliveryUserMessageSk),
  ("DeliverySystemMessage", deliverySystemMessageSk),
  ("dispatch", dispatchSk),
  ("process", processSk),
  ("processHandle", processHandleSk)
]

end MV.Model.MailboxFacts
