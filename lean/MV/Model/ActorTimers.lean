import MV.Model.Scheduler
/-!
# One actor and its scheduler (`engine/vivid/actor_context.go`, timer-related part)

Layer-2 slice needed for C08: an actor context owning a `chrono.Scheduler` (`MV.Model.Scheduler`).

* `AfterTask`/`RepeatedTask`/… register a task whose function *posts* `onSchedulerFunc(callback)` as a
  system message to the actor's own mailbox (`deliverySystemMessage(ctx.ref, …)`): a `Firing` in
  `sched.log` is that post; `post` moves new firings into `mbox` (FIFO).
* the callback runs when the actor takes the message (`processMessage … case onSchedulerFunc: m()`),
  which is a `Turn`.  Since `bb50462` `processMessage` drops system messages once the status is
  terminated, so a callback posted before the actor terminated no longer runs afterwards; one posted
  before a restart cleared the scheduler still runs in the next incarnation (`Turn.inc ≠` the
  incarnation that registered the task) — nothing stamps the message with its incarnation.
* every `processMessage` begins with `StopTask(":idle:")` and ends with `AfterTask(":idle:", idle)`
  when an idle deadline is configured (`refreshIdleDeadline`); the idle / expire callbacks call
  `Terminate(self, gracefully)`.
* restart (`tryRestarted`) → `scheduler.Clear()`, then `setExpireDuration()`; termination
  (`tryTerminated`) → `scheduler.Close()`.

Turns are atomic and happen at the ideal time, except the lifecycle turns `term d` / `crash d` / `busy d`
whose user handler takes `d` ms, during which the wheel keeps posting.  The order of messages inside
one instant follows the mailbox: system messages (callbacks) that are already queued precede the
lifecycle message sent now only if they were posted earlier.

Not modelled: the lazily created scheduler (`ctx.scheduler == nil` until the first task; `Clear`/`Close`
of an empty scheduler have no observable effect), children, supervision (the suite's supervisor
restarts at once), the mailbox suspension during an accident.

Core Lean only.
-/
namespace MV.Model.ActorTimers
open MV.Model.Scheduler

def idleName : Nat := 1000000
def expireName : Nat := 1000001

/-- a callback executed inside the actor -/
structure Turn where
  id : Nat          -- task object
  time : Nat
  inc : Nat         -- incarnation in which it ran
  live : Bool       -- the actor had not terminated
  deriving DecidableEq, Repr

structure Actor where
  sched : Sched
  seen : Nat                -- firings of `sched.log` already moved to the mailbox
  mbox : List Firing        -- posted, not yet processed (oldest first)
  turns : List Turn         -- newest first
  live : Bool               -- not yet terminated
  inc : Nat
  regInc : Nat → Nat        -- ghost: incarnation that registered task object `i`
  idle : Nat                -- idle deadline in ms, 0 = none
  expireAt : Option Nat     -- `ctx.expireTime`
  gterm : Bool              -- a graceful `OnTerminate` (sent by the idle / expire callback) is queued as a
                            -- USER message: it is taken after the system messages (callbacks) queued so far

/-- `refreshIdleDeadline(true)` -/
def idleStop (a : Actor) : Actor :=
  if a.idle > 0 then { a with sched := unregister a.sched idleName } else a

/-- `refreshIdleDeadline(false)` -/
def idleStart (a : Actor) : Actor :=
  if a.idle > 0 then
    { a with sched := register a.sched idleName a.idle a.sched.tick none 1,
             regInc := upd a.regInc a.sched.nobjs a.inc }
  else a

def init (tick idle : Nat) (expire : Nat) : Actor :=
  let s := Scheduler.init tick
  -- `ActorOf`: `setExpireDuration()` right after the launch message has been posted
  let s := if expire > 0 then register s expireName expire tick none 1 else s
  -- the `OnLaunch` turn arms the idle deadline
  idleStart
    { sched := s, seen := 0, mbox := [], turns := [], live := true, inc := 0, regInc := fun _ => 0,
      idle := idle, expireAt := if expire > 0 then some expire else none, gterm := false }

/-- move the firings the scheduler produced since the last call into the mailbox -/
def post (a : Actor) : Actor :=
  let n := a.sched.log.length - a.seen
  { a with mbox := a.mbox ++ (a.sched.log.take n).reverse, seen := a.sched.log.length }

/-- `tryTerminated`: `OnTerminated`, `scheduler.Close()`; the surrounding `processMessage` then
    re-arms `:idle:` on the closed scheduler (never fires) -/
def terminate (a : Actor) : Actor :=
  if a.live then idleStart { a with sched := (Scheduler.close a.sched).1, live := false } else a

/-- `tryRestarted`: new actor instance, `scheduler.Clear()`, `setExpireDuration()`; then the
    `OnRestarted` and `OnLaunch` turns (each refreshes the idle deadline) -/
def restart (a : Actor) : Actor :=
  let s := clear a.sched
  let a1 : Actor := { a with sched := s, inc := a.inc + 1 }
  let a2 : Actor := match a.expireAt with
    | some t => { a1 with sched := register s expireName ((t : Int) - (s.now : Int)) s.tick none 1,
                          regInc := upd a1.regInc s.nobjs a1.inc }
    | none => a1
  idleStart (idleStop a2)

/-- one callback message taken from the mailbox.  `processMessage` refreshes the idle deadline
    around every system message; since `bb50462` it drops every system message except `Watch` once the
    status is terminated, so the callback itself (`m()`) only runs while the actor is live. -/
def turnCb (a : Actor) (f : Firing) : Actor :=
  let a1 := idleStop a
  let nm := (a.sched.objs f.id).name
  let a2 : Actor :=
    if !a.live ∨ nm = idleName ∨ nm = expireName then a1
    else { a1 with turns := { id := f.id, time := a.sched.now, inc := a.inc, live := a.live } :: a1.turns }
  let a3 := idleStart a2
  -- the idle / expire callback: `Terminate(self, true)` = `Tell(self, onGracefullyTerminate)`, a user message
  if (nm = idleName ∨ nm = expireName) ∧ a.live then { a3 with gterm := true } else a3

def drain (a : Actor) : Nat → Actor
  | 0 => a
  | fuel + 1 =>
    match a.mbox with
    | [] => a
    | f :: rest => drain (turnCb { a with mbox := rest } f) fuel

/-- the queued graceful `OnTerminate` user message: a turn of its own (stop/start of `:idle:`) that
    sends the system `onTerminate`, whose turn terminates the actor -/
def graceful (a : Actor) : Actor :=
  if a.gterm then
    let a1 : Actor := { a with gterm := false }
    if a1.live then terminate (idleStop (idleStart (idleStop a1))) else a1
  else a

/-- all queued callbacks are processed (system messages first; each turn can post nothing by
    itself), then the queued graceful termination, if any -/
def settle (a : Actor) : Actor := let a := post a; graceful (drain a a.mbox.length)

/-- one millisecond of an idle actor -/
def msIdle (a : Actor) : Actor := settle { a with sched := msStep a.sched }

def wait (a : Actor) : Nat → Actor
  | 0 => a
  | d + 1 => wait (msIdle a) d

/-- `d` milliseconds inside a handler: the wheel posts, nothing is processed -/
def inHandler (a : Actor) : Nat → Actor
  | 0 => a
  | d + 1 => inHandler (post { a with sched := msStep a.sched }) d

inductive Act where
  | after (name : Nat) (d : Int)
  | repeated (name : Nat) (after interval times : Int)
  | stop (name : Nat)
  | ping
  deriving Repr

/-- a user message whose handler performs `act` (`none`: the actor has terminated, dead letter) -/
def tell (a : Actor) (act : Act) : Option Actor :=
  if !a.live then none else
  let a1 := idleStop a
  let a2 : Actor := match act with
    | .after n d => { a1 with sched := register a1.sched n d a1.sched.tick none 1,
                              regInc := upd a1.regInc a1.sched.nobjs a1.inc }
    | .repeated n x iv k => { a1 with sched := register a1.sched n x iv none k,
                                      regInc := upd a1.regInc a1.sched.nobjs a1.inc }
    | .stop n => { a1 with sched := unregister a1.sched n }
    | .ping => a1
  some (settle (idleStart a2))

/-- a user message whose handler takes `d` ms -/
def busy (a : Actor) (d : Nat) : Option Actor :=
  if !a.live then none else some (settle (idleStart (inHandler (idleStop a) d)))

/-- `Terminate(ref, false)` from outside; the actor's `OnTerminate` handler takes `d` ms -/
def term (a : Actor) (d : Nat) : Actor :=
  if !a.live then a else settle (terminate (inHandler (idleStop (settle a)) d))

/-- the handler panics, the supervisor restarts at once; the `OnRestarting` handler takes `d` ms -/
def crash (a : Actor) (d : Nat) : Option Actor :=
  if !a.live then none else
  -- the failing user turn, then the `onRestart` system turn
  let a1 := settle (idleStart (idleStop a))
  some (settle (restart (inHandler (idleStop a1) d)))

/-- the operations of the suite `actor-timers` -/
inductive AOp where
  | tell (act : Act)
  | busy (d : Nat)
  | term (d : Nat)
  | crash (d : Nat)
  | wait (d : Nat)
  deriving Repr

/-- one operation; a message to a terminated actor is a dead letter (state unchanged) -/
def astep (a : Actor) : AOp → Actor
  | .tell act => (tell a act).getD a
  | .busy d => (busy a d).getD a
  | .term d => term a d
  | .crash d => (crash a d).getD a
  | .wait d => wait a d

def arun (a : Actor) : List AOp → Actor
  | [] => a
  | op :: ops => arun (astep a op) ops

/-- callbacks that ran, per user registration (task objects with a user name), in registration order -/
def userIds (a : Actor) : List Nat :=
  (List.range a.sched.nobjs).filter (fun i => (a.sched.objs i).name < idleName)

def counts (a : Actor) : List Nat := (userIds a).map (fun i => a.turns.countP (fun t => t.id = i))

/-- some callback ran after the actor had terminated -/
def afterTerminated (a : Actor) : Bool := a.turns.any (fun t => !t.live)

/-- some callback of a task registered by an earlier incarnation ran in a later one -/
def stale (a : Actor) : Bool := a.turns.any (fun t => t.inc != a.regInc t.id)

end MV.Model.ActorTimers
