/-!
# T-facts table for the registry: the skeleton of shared-memory operations of `Register`, `Unregister`,
`GetProcess` (`engine/prc/resource_controller.go`) and of `actorProcess.IsTerminated` / `Terminate`
(`engine/vivid/actor_process.go`) that `MV.Model.Registry.trans` was transcribed from.  The harness
regenerates these skeletons from /repo's source with go/ast on every run (`registry-facts` suite) and
compares them with this table, so a re-ordered, removed or added shared-memory operation breaks the tie
even if the hook lines stay where they were.

Correspondence to `trans` (reviewed by hand, exercised by the T-sched suite `registry`):
`Register` = rLos (`LoadOrStore`; `Initialize` is process-local) — `Unregister` = uLad (`LoadAndDelete`,
return when absent); uTerm (`Terminate`) — `GetProcess` = gCLoad; gIsTerm (return when not terminated);
gCClear; [remote references: resolvers, not part of this model]; gMLoad (return the substitute when
absent); gCStore — `IsTerminated` = load of the flag — `Terminate` = store `true`.
-/
namespace MV.Model.RegistryFacts

def registerSk : String :=
  "verifhook.At(\"rc.reg.los\") ; process, exist = rc.processes.LoadOrStore(id.GetLogicalAddress(), process) ; if !exist { ; process.Initialize(rc, id) ; } ; return"

def unregisterSk : String :=
  "verifhook.At(\"rc.unreg.lad\") ; process, exist := rc.processes.LoadAndDelete(target.GetLogicalAddress()) ; if !exist { ; return ; } ; verifhook.At(\"rc.unreg.term\") ; process.Terminate(killer)"

def getProcessSk : String :=
  "if id == nil { ; return ; } ; verifhook.At(\"rc.get.cload\") ; processPtr := id.cache.Load() ; if processPtr != nil { ; verifhook.At(\"rc.get.isterm\") ; if !process.IsTerminated() { ; return ; } ; verifhook.At(\"rc.get.cclear\") ; id.cache.Store(nil) ; } ; if !rc.Belong(id) { ; range rc.par { ; process = resolver.Resolve(id) ; if process != nil { ; verifhook.At(\"rc.get.rstore\") ; id.cache.Store(&process) ; return ; } ; } ; return ; } ; verifhook.At(\"rc.get.mload\") ; process, exist = rc.processes.Load(id.GetLogicalAddress()) ; if exist { ; verifhook.At(\"rc.get.cstore\") ; id.cache.Store(&process) ; return ; } else { ; return ; }"

def isTerminatedSk : String :=
  "a.terminated.Load() ; return"

def terminateSk : String :=
  "a.terminated.Store(true)"

def table : List (String × String) := [
  ("rc.Register", registerSk),
  ("rc.Unregister", unregisterSk),
  ("rc.GetProcess", getProcessSk),
  ("ap.IsTerminated", isTerminatedSk),
  ("ap.Terminate", terminateSk)
]

end MV.Model.RegistryFacts
