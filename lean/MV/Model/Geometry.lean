/-!
# Model of `toolkit/geometry/{vector,triangle,line_segment,polygon,circle}.go` over exact rationals

Coordinates are `Rat` (core Lean; the same type Mathlib calls `ℚ`, so the theorems in
`MV/Props/C20.lean` are about these very definitions).  Go computes in `float64`; the harness uses
small integer / dyadic inputs so that every comparison the code makes is decided the same way in
exact arithmetic, and numeric results agree within `1e-9` (checked by the judge).

Transcription rules:
* arithmetic expressions are copied operator by operator (including precedence);
* `math.Sqrt` cannot be computed in `Rat`.  It only ever occurs in *comparisons* in the modelled
  functions, which are decided exactly on the squares (`sqrtLe`, `sqrtLt`, `sqrtSumEq`); the
  `1e-9` slack of `IsPointOnSegment` (`|d1+d2-len| < 1e-9`) is idealised to `d1 + d2 = len` —
  inputs within the slack but not on the segment are a decision boundary the harness does not
  generate.  `MV.Props.C20` proves the three helpers equivalent to the real-number statements;
* a float division by zero (`NaN`/`±Inf`) is an explicit `none`.

Core Lean only (imported by the oracle executable).
-/
namespace MV.Model.Geometry

structure Pt where
  x : Rat
  y : Rat
deriving DecidableEq, Repr, Inhabited

def sq (a : Rat) : Rat := a * a

/-- `Vector2.DistanceSquared2D` : `math.Pow(x2-x1, 2) + math.Pow(y2-y1, 2)` -/
def distSq (a b : Pt) : Rat := sq (b.x - a.x) + sq (b.y - a.y)

/-- `CalcTriangleAreaTwice(a, b, c)` -/
def areaTwice (a b c : Pt) : Rat :=
  let ax := b.x - a.x
  let ay := b.y - a.y
  let bx := c.x - a.x
  let by' := c.y - a.y
  bx * ay - ax * by'

/-- `maths.Clamp(value, min, max)` -/
def clamp (v lo hi : Rat) : Rat := if v < lo then lo else if v > hi then hi else v

/-! ### comparisons of square roots, decided on the squares -/

/-- `√D ≤ r` for `D ≥ 0` -/
def sqrtLe (D r : Rat) : Bool := decide (0 ≤ r) && decide (D ≤ r * r)
/-- `√D < r` for `D ≥ 0` -/
def sqrtLt (D r : Rat) : Bool := decide (0 < r) && decide (D < r * r)
/-- `√A + √B = √C` for `A, B, C ≥ 0` -/
def sqrtSumEq (A B C : Rat) : Bool := decide (A + B ≤ C) && decide (sq (C - A - B) = 4 * A * B)

/-! ### line segments -/

/-- `LineSegment.ClosestPoint(point)` (after the two `fix:` commits: the whole dot product is
    divided by `ds`, and a zero-length segment answers its end point instead of `0/0`) -/
def closestPoint (a b p : Pt) : Pt :=
  let ds := distSq a b
  if ds = 0 then ⟨a.x, a.y⟩
  else
    let t := clamp (((p.x - a.x) * (b.x - a.x) + (p.y - a.y) * (b.y - a.y)) / ds) 0 1
    ⟨a.x + t * (b.x - a.x), a.y + t * (b.y - a.y)⟩

/-- `LineSegment.IsPointOnSegment(point)` for a two-point segment -/
def isPointOnSegment (a b p : Pt) : Bool :=
  let isClose := sqrtSumEq (distSq p a) (distSq p b) (distSq a b)
  if !isClose then false
  else
    let inX := decide (p.x ≥ min a.x b.x) && decide (p.x ≤ max a.x b.x)
    let inY := decide (p.y ≥ min a.y b.y) && decide (p.y ≤ max a.y b.y)
    inX && inY

/-- `CalcLineSegmentCollinearWithEpsilon(line1, line2, epsilon)` -/
def collinearEps (a b c d : Pt) (eps : Rat) : Bool :=
  decide ((areaTwice a b c).abs ≤ eps) && decide ((areaTwice a b d).abs ≤ eps)

/-- the `sort.Slice` comparison of `CalcLineSegmentOverlap`: by x, then by y -/
def ptLess (a b : Pt) : Bool :=
  if a.x < b.x then true else if a.x > b.x then false else decide (a.y < b.y)

/-- one insertion step of Go's insertion sort (used by `sort.Slice` for fewer than 13 elements):
    the new element ends up behind every element that is not greater than it (stable) -/
def insertPt (e : Bool × Pt) : List (Bool × Pt) → List (Bool × Pt)
  | [] => [e]
  | f :: r => if ptLess e.2 f.2 then e :: f :: r else f :: insertPt e r

def sortPts (l : List (Bool × Pt)) : List (Bool × Pt) := l.foldl (fun acc e => insertPt e acc) []

/-- `CalcLineSegmentOverlap(line1, line2)`; `none` = `(nil, false)` -/
def segOverlap (a b c d : Pt) : Option (Pt × Pt) :=
  match sortPts [(true, a), (true, b), (false, c), (false, d)] with
  | [s0, s1, s2, _] =>
    let notOverlap := s0.1 == s1.1
    let singlePointOverlap := decide (s1.2 = s2.2)
    if notOverlap || singlePointOverlap then none else some (s1.2, s2.2)
  | _ => none

/-! ### polygons -/

def sumX (l : List Pt) : Rat := (l.map (·.x)).sum
def sumY (l : List Pt) : Rat := (l.map (·.y)).sum

/-- `CalcRectangleVerticesCentroid(rectangle)`; `none` for the empty vertex list (`0/0`) -/
def rectCentroid (l : List Pt) : Option Pt :=
  if l.length = 0 then none
  else
    let x := sumX l / l.length
    let y := sumY l / l.length
    some ⟨x, y⟩

/-- `CalcPolygonVerticesCentroid(polygon)` -/
def verticesCentroid (l : List Pt) : Option Pt :=
  if l.length = 0 then none else some ⟨sumX l / l.length, sumY l / l.length⟩

/-- the edges `(p[i], p[(i+1) % n])` of `Polygon.GetEdges` -/
def edges (l : List Pt) : List (Pt × Pt) :=
  match l with
  | [] => []
  | p0 :: _ => l.zip (l.drop 1 ++ [p0])

/-- `CalcPolygonCentroid(polygon)` (area-weighted); `none` when the signed area is `0` -/
def polygonCentroid (l : List Pt) : Option Pt :=
  let es := edges l
  let cross (e : Pt × Pt) : Rat := e.1.x * e.2.y - e.2.x * e.1.y
  let area := (es.map cross).sum / 2
  let cx := (es.map fun e => (e.1.x + e.2.x) * cross e).sum
  let cy := (es.map fun e => (e.1.y + e.2.y) * cross e).sum
  if area = 0 then none else some ⟨cx / (6 * area), cy / (6 * area)⟩

/-- one iteration of the ray-casting loop of `Polygon.IsPointInside` for the edge from vertex `j`
    to vertex `i` -/
def crosses (pi pj p : Pt) : Bool :=
  (((decide (pi.y ≤ p.y) && decide (p.y < pj.y)) || (decide (pj.y ≤ p.y) && decide (p.y < pi.y))) &&
    decide (p.x < ((pj.x - pi.x) * (p.y - pi.y)) / (pj.y - pi.y) + pi.x))

/-- `Polygon.IsPointInside(point)`: `i = 0..n-1`, `j = n-1, 0, 1, …` -/
def isPointInside (l : List Pt) (p : Pt) : Bool :=
  match l.getLast? with
  | none => false
  | some lastP =>
    (l.zip (lastP :: l)).foldl (fun inside e => if crosses e.1 e.2 p then !inside else inside) false

/-- `Polygon.IsPointOnEdge(point)` -/
def isPointOnEdge (l : List Pt) (p : Pt) : Bool := (edges l).any fun e => isPointOnSegment e.1 e.2 p

/-! ### circles -/

/-- `Circle.Contains(point)`: `center.Sub(point).Length() <= radius` -/
def circleContains (c : Pt) (r : Rat) (p : Pt) : Bool := sqrtLe (distSq p c) r

/-- `Circle.Intersect(c2)`: `centerDistance <= r1 + r2` -/
def circleIntersect (c1 : Pt) (r1 : Rat) (c2 : Pt) (r2 : Rat) : Bool := sqrtLe (distSq c2 c1) (r1 + r2)

/-- `Circle.Overlap(c2)`: `centerDistance < r1 + r2` -/
def circleOverlap (c1 : Pt) (r1 : Rat) (c2 : Pt) (r2 : Rat) : Bool := sqrtLt (distSq c2 c1) (r1 + r2)

end MV.Model.Geometry
