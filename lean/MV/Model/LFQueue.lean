/-!
# Interleaving model of `toolkit/queues/lock_free.go` (`queues.LFQueue`, Michael–Scott queue)

Threads are a list of `(pc, remaining program)` records; one step of the model is **one atomic
operation** of one thread (`atomic.LoadPointer` / `atomic.CompareAndSwapPointer`) together with the
thread-local branching that follows it.  Any number of threads, each running any finite program of
`Push v` / `Pop` calls; the schedule is an arbitrary list of thread indices.

Pointers.  `next` links are write-once (`nil → node`, only by the link CAS of `Push`), nodes are never
reused (garbage collection) and a node that is not linked yet is private to its pusher.  So a node
is named by its position in the ghost list `all` of every node ever linked (`all[0]` is the sentinel
of `NewLFQueue`): `head`, `tail` and all thread-local snapshots are indices into `all`, and
`n.next = if n+1 < |all| then some (n+1) else none`.  The link CAS on `t.next` succeeds iff `t.next`
is still `nil`, i.e. iff `t+1 = |all|`, and appends the new node (which gets index `t+1`).  A
snapshot that would point outside `all`, or the dereference `(*lfNode)(next).value` of a `nil`
snapshot, sends the thread to `crashed`; the theorems show `crashed` is unreachable.

`prog` is the program text this model was transcribed from, in the canonical form printed by the
harness op `facts lock_free.go <Func>` from the go/ast of the file in /repo; the suite `queue-facts`
compares the two on every run, so a re-ordering of the atomics in the Go code breaks the tie.

Core Lean only (imported by the oracle executable).
-/
namespace MV.Model.LFQueue

inductive Op where
  | push (v : Int) | pop
  deriving Repr, DecidableEq

/-- program counter = the atomic operation the thread executes next, with its captured locals
(`t`, `h`: snapshots of `q.tail`, `q.head`; `nx`: snapshot of a `next` field). -/
inductive PC where
  -- Push(v)
  | puLoadTail (v : Int)                               -- tail = load(q.tail)
  | puLoadNext (v : Int) (t : Nat)                     -- next = load(tail.next)
  | puRecheck (v : Int) (t : Nat) (nx : Option Nat)    -- tail == load(q.tail)
  | puCasNext (v : Int) (t : Nat)                      -- cas(tail.next, nil, node)
  | puSwing (t n : Nat)                                -- cas(q.tail, tail, node); return
  | puHelp (v : Int) (t k : Nat)                       -- cas(q.tail, tail, next)   (next ≠ nil)
  -- Pop()
  | poLoadHead                                         -- head = load(q.head)
  | poLoadTail (h : Nat)                               -- tail = load(q.tail)
  | poLoadNext (h t : Nat)                             -- next = load(head.next)
  | poRecheck (h t : Nat) (nx : Option Nat) (e : Bool) -- head == load(q.head); `e` ghost: queue empty when `next` was loaded
  | poHelp (t k : Nat)                                 -- cas(q.tail, tail, next)   (head == tail, next ≠ nil)
  | poCasHead (h k : Nat) (v : Int)                    -- cas(q.head, head, next)   (value already read)
  | done                                               -- program finished
  | crashed                                            -- nil / dangling pointer dereference
  deriving Repr, DecidableEq

structure Thread where
  pc : PC
  todo : List Op
  deriving Repr, DecidableEq

structure Node where
  tid : Nat     -- ghost: the thread that linked the node
  val : Int
  deriving Repr, DecidableEq

/-- shared memory + ghost history -/
structure Glob where
  all : List Node
  head : Nat
  tail : Nat
  /-- ghost: `(thread, value)` of every `Pop` that returned a value, in the order of the `head` CASes -/
  popped : List (Nat × Int)
  /-- ghost: `(thread, e)` of every `Pop` that returned `nil`; `e` = the queue was abstractly empty
  at the linearisation point (the load of `head.next` that saw `nil`) -/
  nils : List (Nat × Bool)
  deriving Repr, DecidableEq

structure St where
  g : Glob
  ths : List Thread
  deriving Repr, DecidableEq

/-- the atomic operation a thread at `pc` executes next, as it is printed in the program text -/
def PC.instr : PC → String
  | .puLoadTail _ => "load(q.tail)"
  | .puLoadNext _ _ => "load(tail.next)"
  | .puRecheck _ _ _ => "load(q.tail)"
  | .puCasNext _ _ => "cas(tail.next,next,node)"
  | .puSwing _ _ => "cas(q.tail,tail,node)"
  | .puHelp _ _ _ => "cas(q.tail,tail,next)"
  | .poLoadHead => "load(q.head)"
  | .poLoadTail _ => "load(q.tail)"
  | .poLoadNext _ _ => "load(head.next)"
  | .poRecheck _ _ _ _ => "load(q.head)"
  | .poHelp _ _ => "cas(q.tail,tail,next)"
  | .poCasHead _ _ _ => "cas(q.head,head,next)"
  | .done => ""
  | .crashed => ""

/-- canonical text of `Push` (see `harness/suites/c15/facts.go` for the printer); the atomic
operations are spliced in from `PC.instr`, in program order: the text that is compared with the Go
source names, one by one, the instruction every program counter of `trans` stands for. -/
def pushProg : String :=
  "node=new(value); loop{ tail=" ++ (PC.puLoadTail 0).instr ++ "; next=" ++ (PC.puLoadNext 0 0).instr ++
  "; if(tail==" ++ (PC.puRecheck 0 0 none).instr ++ "){ if(next==nil){ if(" ++ (PC.puCasNext 0 0).instr ++
  "){ " ++ (PC.puSwing 0 0).instr ++ "; return } } else{ " ++ (PC.puHelp 0 0 0).instr ++ " } } }"

/-- canonical text of `Pop` -/
def popProg : String :=
  "loop{ head=" ++ PC.poLoadHead.instr ++ "; tail=" ++ (PC.poLoadTail 0).instr ++ "; next=" ++ (PC.poLoadNext 0 0).instr ++
  "; if(head==" ++ (PC.poRecheck 0 0 none false).instr ++ "){ if(head==tail){ if(next==nil){ return nil }; " ++
  (PC.poHelp 0 0).instr ++ " } else{ value=next.value; if(" ++ (PC.poCasHead 0 0 0).instr ++ "){ return value } } } }"

/-- `n.next` -/
def next (g : Glob) (n : Nat) : Option Nat := if n + 1 < g.all.length then some (n + 1) else none

/-- begin the next call of the program -/
def start : List Op → Thread
  | [] => { pc := .done, todo := [] }
  | .push v :: r => { pc := .puLoadTail v, todo := r }
  | .pop :: r => { pc := .poLoadHead, todo := r }

/-- one atomic step of thread `i` whose record is `th` -/
def trans (g : Glob) (i : Nat) (th : Thread) : Option (Glob × Thread) :=
  match th.pc with
  | .done => none
  | .crashed => none
  | .puLoadTail v => some (g, { th with pc := .puLoadNext v g.tail })
  | .puLoadNext v t =>
      if t < g.all.length then some (g, { th with pc := .puRecheck v t (next g t) })
      else some (g, { th with pc := .crashed })
  | .puRecheck v t nx =>
      if g.tail = t then
        match nx with
        | none => some (g, { th with pc := .puCasNext v t })
        | some k => some (g, { th with pc := .puHelp v t k })
      else some (g, { th with pc := .puLoadTail v })
  | .puCasNext v t =>
      if t + 1 = g.all.length then
        some ({ g with all := g.all ++ [{ tid := i, val := v }] }, { th with pc := .puSwing t g.all.length })
      else if t + 1 < g.all.length then some (g, { th with pc := .puLoadTail v })
      else some (g, { th with pc := .crashed })
  | .puSwing t n => some ({ g with tail := if g.tail = t then n else g.tail }, start th.todo)
  | .puHelp v t k => some ({ g with tail := if g.tail = t then k else g.tail }, { th with pc := .puLoadTail v })
  | .poLoadHead => some (g, { th with pc := .poLoadTail g.head })
  | .poLoadTail h => some (g, { th with pc := .poLoadNext h g.tail })
  | .poLoadNext h t =>
      if h < g.all.length then
        some (g, { th with pc := .poRecheck h t (next g h) (decide (g.head + 1 = g.all.length)) })
      else some (g, { th with pc := .crashed })
  | .poRecheck h t nx e =>
      if g.head = h then
        if h = t then
          match nx with
          | none => some ({ g with nils := g.nils ++ [(i, e)] }, start th.todo)          -- return nil
          | some k => some (g, { th with pc := .poHelp t k })
        else
          match nx with
          | none => some (g, { th with pc := .crashed })                                   -- next.value with next == nil
          | some k =>
            match g.all[k]? with
            | some nd => some (g, { th with pc := .poCasHead h k nd.val })                 -- value = next.value
            | none => some (g, { th with pc := .crashed })
      else some (g, { th with pc := .poLoadHead })
  | .poHelp t k => some ({ g with tail := if g.tail = t then k else g.tail }, { th with pc := .poLoadHead })
  | .poCasHead h k v =>
      if g.head = h then some ({ g with head := k, popped := g.popped ++ [(i, v)] }, start th.todo)  -- return value
      else some (g, { th with pc := .poLoadHead })

/-- thread `i` takes one atomic step (`none`: no such thread / thread finished) -/
def step (s : St) (i : Nat) : Option St :=
  match s.ths[i]? with
  | none => none
  | some th =>
    match trans s.g i th with
    | none => none
    | some (g', th') => some { g := g', ths := s.ths.set i th' }

/-- run a schedule; entries naming a finished or non-existent thread are skipped -/
def run (s : St) : List Nat → St
  | [] => s
  | i :: sched => run ((step s i).getD s) sched

/-- `NewLFQueue()` and one thread per program -/
def init (progs : List (List Op)) : St :=
  { g := { all := [{ tid := 0, val := 0 }], head := 0, tail := 0, popped := [], nils := [] },
    ths := progs.map start }

/-- the values still in the queue, oldest first -/
def remaining (g : Glob) : List Int := (g.all.drop (g.head + 1)).map (·.val)

/-- all values ever pushed, in linearisation (link) order -/
def pushed (g : Glob) : List Int := (g.all.drop 1).map (·.val)

/-- the values of the `Push` calls of a program, in program order -/
def pushesOf : List Op → List Int
  | [] => []
  | .push v :: r => v :: pushesOf r
  | .pop :: r => pushesOf r

/-! ## Solo execution (the deterministic single-goroutine suite runs the same `step`) -/

/-- run thread `i` alone until it is `done` (fuel: a solo call needs at most 7 steps) -/
def solo (s : St) (i : Nat) : Nat → St
  | 0 => s
  | fuel + 1 => match step s i with
      | none => s
      | some s' => solo s' i fuel

end MV.Model.LFQueue
